package cx12front

import (
	"bufio"
	"bytes"
	"crypto/tls"
	"io"
	"net"
	"net/http"
	"strings"
	"time"
)

// answer is one HTTP response read from the wire.
type answer struct {
	Status int         `json:"status"`
	Proto  string      `json:"proto"`
	Header http.Header `json:"header"`
	Body   string      `json:"body"`
}

// wire is everything the server sent on one connection until it closed it.
type wire struct {
	Answers []answer `json:"answers"`
	Rest    string   `json:"rest,omitempty"` // bytes behind the last complete response that are not a response
	Err     string   `json:"err,omitempty"`  // transport trouble (not a verdict)
	Raw     string   `json:"raw,omitempty"`
}

// exchange opens a connection (TLS with the given SNI when sni != "-"), writes the exact bytes and
// reads until the server closes the connection. methods[i] is the method of the i-th request on the
// connection (HEAD answers carry no body).
func exchange(addr string, sni string, alpn string, raw []byte, methods []string) wire {
	var c net.Conn
	var err error
	d := &net.Dialer{Timeout: 5 * time.Second}
	if sni == "-" {
		c, err = d.Dial("tcp", addr)
	} else {
		cfg := &tls.Config{InsecureSkipVerify: true, ServerName: sni}
		if alpn != "" {
			cfg.NextProtos = []string{alpn}
		}
		c, err = tls.DialWithDialer(d, "tcp", addr, cfg)
	}
	if err != nil {
		return wire{Err: "dial: " + err.Error()}
	}
	defer c.Close()
	c.SetDeadline(time.Now().Add(15 * time.Second))
	if _, err := c.Write(raw); err != nil {
		return wire{Err: "write: " + err.Error()}
	}
	all, err := io.ReadAll(c)
	if err != nil && !isClosed(err) {
		return wire{Err: "read: " + err.Error(), Raw: clip(string(all))}
	}
	return parseWire(all, methods)
}

func isClosed(err error) bool {
	s := err.Error()
	return strings.Contains(s, "connection reset") || strings.Contains(s, "use of closed") || strings.Contains(s, "EOF") ||
		strings.Contains(s, "close notify")
}

func clip(s string) string {
	if len(s) > 600 {
		return s[:600] + "..."
	}
	return s
}

// parseWire splits the bytes of one connection into responses.
func parseWire(all []byte, methods []string) wire {
	w := wire{Raw: clip(string(all))}
	br := bufio.NewReader(bytes.NewReader(all))
	for i := 0; ; i++ {
		if _, err := br.Peek(1); err != nil {
			break
		}
		m := "GET"
		if i < len(methods) {
			m = methods[i]
		}
		pk, _ := br.Peek(5)
		if string(pk) != "HTTP/" {
			rest, _ := io.ReadAll(br)
			w.Rest = clip(string(rest))
			break
		}
		resp, err := http.ReadResponse(br, &http.Request{Method: m})
		if err != nil {
			rest, _ := io.ReadAll(br)
			w.Rest = "unparsable: " + err.Error() + ": " + clip(string(rest))
			break
		}
		var body []byte
		if resp.StatusCode == http.StatusSwitchingProtocols {
			// the connection is no longer HTTP: everything that follows belongs to this answer
			body, _ = io.ReadAll(br)
		} else {
			body, err = io.ReadAll(resp.Body)
			resp.Body.Close()
			if err != nil {
				w.Rest = "body: " + err.Error()
			}
		}
		w.Answers = append(w.Answers, answer{Status: resp.StatusCode, Proto: resp.Proto, Header: resp.Header, Body: string(body)})
		if w.Rest != "" {
			break
		}
	}
	return w
}
