// Extension of C12: the front door of the HTTP server (specs/ServerFront.tla).
//
// TLC enumerates request heads from token alphabets - request-target form (origin, absolute,
// authority, asterisk) x path spellings x host spellings (target and Host header: absent, one,
// duplicate, conflicting with the target) x HTTP version x method, on three listeners with a fixed
// set of sites (a.test, *.w.test, a.test/base, a catch-all; the same without the catch-all; a TLS
// listener with and without client authentication) - walks each one through Server.ServeHTTP /
// serveHTTP step by step and emits what the client, the process log, the access log, the proxied
// backend and the innermost handler must see. This driver renders each head to its exact bytes,
// sends it on a fresh connection (raw TCP / crypto/tls + raw bytes; HTTP/2 through net/http's
// client) FOLLOWED by a sentinel request on the same connection, reads until the server closes,
// and compares:
//
//	exactly-one   one response to the head - then the sentinel's answer or a closed connection, as the model says; nothing else on the wire
//	site          which site's chain answered (marker header of the test-only directive veriffront), or none
//	host          r.Host / {host} / {hostonly} seen by the chain, the access-log line
//	nosite        404 (421 on HTTP/2), the text names the requested host only, no marker, one "No such site" line with the sanitised host
//	trim          r.URL.Path, the "path_prefix" and original-URL context values seen by the chain; which file the file server
//	              served, what the proxied backend received, whether the rewrite rule fired
//	fallback      status and body after the chain: DefaultErrorFunc's text iff nothing was written and status >= 400, empty 200 otherwise
//	hijack        after a hijack only the handler's bytes, connection closed
//	sni           strict SNI/Host matching: 403, logged, connection closed
//	server-header the Server header on every answer casket writes itself
package cx12front

import (
	"crypto/tls"
	"encoding/json"
	"fmt"
	"io"
	"net/http"
	"os"
	"path/filepath"
	"sort"
	"strconv"
	"strings"
	"sync"
	"sync/atomic"
	"syscall"
	"testing"
	"time"

	"verifharness/hx"
)

const module = "ServerFront"

// ---------------------------------------------------------------- cases from TLC

type head struct {
	Lst  string   `json:"lst"`
	Sni  string   `json:"sni"`
	Ver  string   `json:"ver"`
	M    string   `json:"m"`
	Form string   `json:"form"`
	Tp   string   `json:"tp"`
	Th   string   `json:"th"`
	Hh   []string `json:"hh"`
}

type opJ struct {
	K string `json:"k"`
	N int    `json:"n"`
	T string `json:"t"`
}

type plogJ struct {
	K    string `json:"k"`
	Host string `json:"host"`
}

type alogJ struct {
	Host      string   `json:"host"`
	Hostonly  string   `json:"hostonly"`
	Path      []string `json:"path"`
	Rewritten []string `json:"rewritten"`
	Status    int      `json:"status"`
}

type expJ struct {
	By       string          `json:"by"` // net400 | netoptions | nosite | sni | chain | proxy | recover
	Site     string          `json:"site"`
	Status   int             `json:"status"`
	Body     [][]interface{} `json:"body"`
	Closed   bool            `json:"closed"`
	Srv      bool            `json:"srv"`
	Marks    bool            `json:"marks"`
	Rhost    string          `json:"rhost"`
	Hostname string          `json:"hostname"`
	Seen     []string        `json:"seen"`
	Orig     []string        `json:"orig"`
	Hpath    []string        `json:"hpath"`
	Prefix   []string        `json:"prefix"`
	Chain    bool            `json:"chain"`
	Hijacked bool            `json:"hijacked"`
	Plog     []plogJ         `json:"plog"`
	Alog     []alogJ         `json:"alog"`
	Backend  []string        `json:"backend"`
	File     string          `json:"file"`
	Acme     bool            `json:"acme"`
	Late     int             `json:"late"`
}

type tcase struct {
	Req     head   `json:"req"`
	Script  string `json:"script"`
	Ops     []opJ  `json:"ops"`
	Exp     expJ   `json:"exp"`
	Variant int    `json:"variant"` // chosen here by seed: spelling of the header name "Host" and where the Host lines stand
}

// beh lets a replay file of this driver pass through TestC12 (which decodes every replay file of the
// property as one of its own cases) as the trivial case "no wrapper, inner handler returns 200".
type beh struct {
	K string `json:"k"`
	S int    `json:"s"`
}

type rcase struct {
	Clause string `json:"clause"` // always starts with "serverfront/"
	tcase
	On     []string `json:"on"`
	Errors string   `json:"errors"`
	Path   string   `json:"path"`
	Beh    beh      `json:"beh"`
	Eff    beh      `json:"eff"`
}

func newRcase(clause string, tc *tcase) rcase {
	return rcase{Clause: "serverfront/" + clause, tcase: *tc, On: []string{}, Errors: "none", Path: "plain", Beh: beh{"ret", 200}, Eff: beh{"ret", 200}}
}

func (h head) key(script string) string {
	return fmt.Sprintf("%s/%s/HTTP-%s/%s/%s/target=%s%s/host=[%s]/%s", h.Lst, h.Sni, h.Ver, h.M, h.Form, h.Th, h.Tp, strings.Join(h.Hh, ","), script)
}

// ---------------------------------------------------------------- rendering

func (fx *fixture) port(lst string) int {
	switch lst {
	case "P":
		return fx.plainPort
	case "Q":
		return fx.noCatch
	}
	return fx.tlsPort
}

func (fx *fixture) addr(lst string) string { return "127.0.0.1:" + strconv.Itoa(fx.port(lst)) }

func renderHost(id string, port int) string {
	return strings.ReplaceAll(id, "{port}", strconv.Itoa(port))
}

func scriptText(ops []opJ) string {
	var parts []string
	for _, o := range ops {
		switch o.K {
		case "status", "ret", "reterr":
			parts = append(parts, o.K+":"+strconv.Itoa(o.N))
		case "text":
			parts = append(parts, "text:"+o.T)
		default:
			parts = append(parts, o.K)
		}
	}
	return strings.Join(parts, ";")
}

func sentinelHost(lst string) string {
	if lst == "T" {
		return "t3.test"
	}
	return "a.test"
}

// target is the request-target as written on the request line.
func (fx *fixture) target(h head) string {
	port := fx.port(h.Lst)
	switch h.Form {
	case "absolute":
		return "http://" + renderHost(h.Th, port) + h.Tp
	case "authority":
		return renderHost(h.Th, port)
	case "asterisk":
		return "*"
	}
	return h.Tp
}

// wireBytes renders the head under test and the sentinel request that follows it on the connection.
func (fx *fixture) wireBytes(tc *tcase, id string) []byte {
	h := tc.Req
	port := fx.port(h.Lst)
	var b strings.Builder
	fmt.Fprintf(&b, "%s %s HTTP/%s\r\n", h.M, fx.target(h), h.Ver)
	hostLines := func() {
		for _, hh := range h.Hh {
			fmt.Fprintf(&b, "%s: %s\r\n", []string{"Host", "host", "HOST"}[tc.Variant%3], renderHost(hh, port))
		}
	}
	if tc.Variant/3%2 == 0 {
		hostLines()
	}
	fmt.Fprintf(&b, "X-Case: %s\r\nReferer: %s\r\nX-Forwarded-For: 203.0.113.9\r\nX-Real-IP: 203.0.113.9\r\n", id, id)
	if tc.Variant/3%2 == 1 {
		hostLines()
	}
	if tc.Script != "default" {
		fmt.Fprintf(&b, "X-Front: %s\r\n", scriptText(tc.Ops))
	}
	if h.M == "POST" {
		b.WriteString("Content-Length: 3\r\n\r\nx=1")
	} else {
		b.WriteString("\r\n")
	}
	fmt.Fprintf(&b, "GET /sentinel HTTP/1.1\r\nHost: %s\r\nX-Case: %s-sentinel\r\nConnection: close\r\n\r\n", sentinelHost(h.Lst), id)
	return []byte(b.String())
}

func statusText(code int) string { return fmt.Sprintf("%d %s\n", code, http.StatusText(code)) }

// bodyText renders the body tokens of the model.
func (fx *fixture) bodyText(tc *tcase) string {
	var b strings.Builder
	for _, part := range tc.Exp.Body {
		if len(part) == 0 {
			continue
		}
		switch part[0] {
		case "E":
			b.WriteString(statusText(int(part[1].(float64))))
		case "NS":
			fmt.Fprintf(&b, "%d Site %s is not served on this interface\n", tc.Exp.Status, renderHost(part[1].(string), fx.port(tc.Req.Lst)))
		case "FILE":
			if part[1] == "f.txt" {
				b.WriteString(fx.tokRoot)
			} else {
				b.WriteString(fx.tokBase)
			}
		default:
			b.WriteString(part[0].(string))
		}
	}
	return b.String()
}

// origURL is String() of the URL net/http parsed from the request-target.
func (fx *fixture) origURL(h head) string {
	port := fx.port(h.Lst)
	switch h.Form {
	case "absolute":
		return "http://" + renderHost(h.Th, port) + h.Tp
	case "authority":
		return "//" + renderHost(h.Th, port)
	case "asterisk":
		return "*"
	}
	return h.Tp
}

// ---------------------------------------------------------------- one exchange

type observation struct {
	Wire    wire   `json:"wire"`
	Access  string `json:"access_log_line,omitempty"`
	Process string `json:"process_log,omitempty"`
}

func (fx *fixture) h2Exchange(tc *tcase, id string) wire {
	h := tc.Req
	port := fx.port(h.Lst)
	tr := &http.Transport{TLSClientConfig: &tls.Config{InsecureSkipVerify: true, ServerName: h.Sni, NextProtos: []string{"h2"}}, ForceAttemptHTTP2: true}
	defer tr.CloseIdleConnections()
	cl := &http.Client{Transport: tr, Timeout: 15 * time.Second, CheckRedirect: func(*http.Request, []*http.Request) error { return http.ErrUseLastResponse }}
	req, err := http.NewRequest(h.M, "https://"+fx.addr(h.Lst)+h.Tp, nil)
	if err != nil {
		return wire{Err: err.Error()}
	}
	req.Host = renderHost(h.Hh[0], port)
	req.Header.Set("X-Case", id)
	req.Header.Set("Referer", id)
	if tc.Script != "default" {
		req.Header.Set("X-Front", scriptText(tc.Ops))
	}
	resp, err := cl.Do(req)
	if err != nil {
		return wire{Err: "h2: " + err.Error()}
	}
	body, _ := io.ReadAll(resp.Body)
	resp.Body.Close()
	if resp.ProtoMajor != 2 {
		return wire{Err: "h2: negotiated " + resp.Proto}
	}
	return wire{Answers: []answer{{Status: resp.StatusCode, Proto: resp.Proto, Header: resp.Header, Body: string(body)}}}
}

func (fx *fixture) run(tc *tcase, id string) observation {
	h := tc.Req
	if h.Ver == "h2" {
		return observation{Wire: fx.h2Exchange(tc, id)}
	}
	sni := "-"
	if h.Lst == "T" {
		sni = h.Sni
	}
	m := h.M
	if m == "CONNECT" {
		m = "GET" // (a client-side reader would take a 2xx to CONNECT for the start of a tunnel)
	}
	return observation{Wire: exchange(fx.addr(h.Lst), sni, "http/1.1", fx.wireBytes(tc, id), []string{m, "GET"})}
}

// ---------------------------------------------------------------- judging

type verdict struct {
	clause string
	what   string
}

func hdr(a *answer, n string) string { return a.Header.Get(n) }

// judge compares one observation with the model's expectation; "" = agrees.
func (fx *fixture) judge(tc *tcase, id string, o *observation, logs *logView) (v verdict) {
	h, e := tc.Req, tc.Exp
	port := fx.port(h.Lst)
	w := o.Wire
	bad := func(clause, f string, a ...interface{}) verdict { return verdict{clause, fmt.Sprintf(f, a...)} }
	if w.Err != "" {
		return bad("infra", "transport: %s", w.Err)
	}
	h2 := h.Ver == "h2"
	// ---- exactly one answer, then the sentinel or a closed connection
	if len(w.Answers) == 0 {
		return bad("exactly-one", "no response at all (raw %q)", w.Raw)
	}
	a := &w.Answers[0]
	if e.By == "net400" {
		// net/http's own answer; with HEAD its text looks like trailing bytes to the reader
		if a.Status != 400 || len(w.Answers) != 1 || hdr(a, "Server") != "" || hdr(a, "X-Site") != "" {
			return bad("exactly-one", "a head net/http refuses: want one 400 from net/http and a closed connection, got %d answers, first %d Server=%q X-Site=%q", len(w.Answers), a.Status, hdr(a, "Server"), hdr(a, "X-Site"))
		}
		return
	}
	if w.Rest != "" {
		return bad("exactly-one", "bytes behind the response that are no response: %q", w.Rest)
	}
	if !h2 {
		want := 2
		if e.Closed {
			want = 1
		}
		if len(w.Answers) != want {
			clause := "exactly-one"
			if e.By == "sni" {
				clause = "sni"
			} else if e.Hijacked {
				clause = "hijack"
			}
			return bad(clause, "want %d responses on the connection (head%s), got %d (statuses %v)", want, map[bool]string{true: ", then closed", false: " + sentinel"}[e.Closed], len(w.Answers), statuses(w.Answers))
		}
		if want == 2 {
			s := &w.Answers[1]
			if s.Status != 200 || hdr(s, "X-Saw-Path") != "/sentinel" {
				return bad("exactly-one", "the request after the head was answered %d X-Saw-Path=%q, want the sentinel's 200", s.Status, hdr(s, "X-Saw-Path"))
			}
		}
	}
	// ---- status
	if a.Status != e.Status {
		clause := map[string]string{"nosite": "nosite", "sni": "sni", "netoptions": "exactly-one"}[e.By]
		if clause == "" {
			clause = "fallback"
			if e.Hijacked {
				clause = "hijack"
			}
			if hdr(a, "X-Site") != e.Site && e.Marks {
				clause = "site"
			} else if tc.Script == "next" || e.By == "proxy" {
				clause = "trim"
			}
		}
		return bad(clause, "status %d, want %d (answered by %s; X-Site=%q, want site %s)", a.Status, e.Status, e.By, hdr(a, "X-Site"), e.Site)
	}
	if e.By == "netoptions" {
		if hdr(a, "Server") != "" || a.Body != "" {
			return bad("exactly-one", "OPTIONS * is net/http's: want an empty 200 without Server header, got Server=%q body=%q", hdr(a, "Server"), a.Body)
		}
		return
	}
	// ---- who answered
	if e.Hijacked {
		if hdr(a, "X-Site") != e.Site || a.Body != "HIJACKED" || hdr(a, "Server") != "" {
			return bad("hijack", "after the hijack the client must see the handler's bytes only: got X-Site=%q Server=%q body=%q", hdr(a, "X-Site"), hdr(a, "Server"), a.Body)
		}
		if hdr(a, "X-Saw-Path") != strings.Join(e.Hpath, "") {
			return bad("trim", "hijacking handler saw path %q, want %q", hdr(a, "X-Saw-Path"), strings.Join(e.Hpath, ""))
		}
	} else {
		wantSite := ""
		if e.Marks {
			wantSite = e.Site
		}
		if got := hdr(a, "X-Site"); got != wantSite {
			clause := "site"
			if e.By == "nosite" {
				clause = "nosite"
			}
			return bad(clause, "X-Site=%q, want %q (model: answered by %s, site %s)", got, wantSite, e.By, e.Site)
		}
		if e.Srv != (hdr(a, "Server") == appName) {
			return bad("server-header", "Server header %q, want present=%v", hdr(a, "Server"), e.Srv)
		}
	}
	// ---- body
	wantBody := fx.bodyText(tc)
	if !e.Hijacked {
		gotBody := a.Body
		if h.M == "HEAD" {
			wantBody = ""
		}
		if gotBody != wantBody {
			clause := "fallback"
			switch {
			case e.By == "nosite":
				clause = "nosite"
			case e.By == "sni":
				clause = "sni"
			case e.File != "-" || e.By == "proxy" || tc.Script == "next":
				clause = "trim"
			}
			return bad(clause, "body %q, want %q", clip(gotBody), wantBody)
		}
	}
	// ---- what the chain saw
	if e.Marks && !e.Hijacked {
		rhost := renderHost(e.Rhost, port)
		checks := [][3]string{
			{"host", "X-Saw-Host", rhost},
			{"trim", "X-Saw-Path", strings.Join(e.Hpath, "")},
			{"trim", "X-Saw-Prefix", strings.Join(e.Prefix, "")},
			{"trim", "X-Saw-Orig", fx.origURL(h)},
			{"server-header", "X-Saw-Srv", appName},
			{"host", "X-Saw-Repl", rhost + "|" + e.Hostname + "|" + strings.Join(e.Orig, "") + "|" + strings.Join(e.Hpath, "") + "|127.0.0.1|repl"},
		}
		if h2 {
			checks = checks[:3]
		}
		for _, c := range checks {
			if got := hdr(a, c[1]); got != c[2] {
				return bad(c[0], "%s=%q, want %q", c[1], got, c[2])
			}
		}
	}
	if e.By == "proxy" {
		if got, want := hdr(a, "X-Backend-Saw"), strings.Join(e.Backend, ""); got != want {
			return bad("trim", "the proxied backend received %q, want %q", got, want)
		}
	}
	// ---- logs
	for _, l := range e.Alog {
		want := fmt.Sprintf("%s|%s|%s|%s|127.0.0.1|%d|%s", renderHost(l.Host, port), l.Hostonly, strings.Join(l.Path, ""), strings.Join(l.Rewritten, ""), l.Status, id)
		if got := logs.accessLine(id); got != want {
			return bad("host", "access log line %q, want %q", got, want)
		}
	}
	for _, l := range e.Plog {
		switch l.K {
		case "nosite":
			want := fmt.Sprintf("[INFO] %s - No such site at %s (Remote: 127.0.0.1, Referer: %s)", l.Host, fx.addr(h.Lst), id)
			if n := logs.processCount(want); n != 1 {
				return bad("nosite", "process log has %d lines %q, want 1 (lines with this case id: %q)", n, want, logs.processWith(id))
			}
		case "panic":
			if tc.Script == "abort" {
				break // (no case id in that line: counted at the end)
			}
			want := "[PANIC] front panic " + id
			if n := logs.processCount(want); n != 1 {
				return bad("fallback", "process log has %d lines %q, want 1", n, want)
			}
		}
	}
	if len(e.Plog) == 0 && logs.processWith(id) != "" {
		return bad("nosite", "unexpected process log lines for this request: %q", logs.processWith(id))
	}
	return
}

func statuses(as []answer) []int {
	var out []int
	for _, a := range as {
		out = append(out, a.Status)
	}
	return out
}

// logView gives access to the log files written so far.
type logView struct {
	fx      *fixture
	mu      sync.Mutex
	process string
}

func (l *logView) refresh() {
	l.mu.Lock()
	l.process += l.fx.plog.take()
	l.mu.Unlock()
}

// processCount counts the process-log lines equal to line; it waits a moment for the first one (a handler that
// hijacked the connection and then panics is recovered after the client has seen the connection close).
func (l *logView) processCount(line string) int {
	for try := 0; ; try++ {
		l.refresh()
		l.mu.Lock()
		n := strings.Count(l.process, line+"\n")
		l.mu.Unlock()
		if n > 0 || try >= 100 {
			return n
		}
		time.Sleep(5 * time.Millisecond)
	}
}

func (l *logView) processWith(id string) string {
	l.refresh()
	l.mu.Lock()
	defer l.mu.Unlock()
	var out []string
	for _, ln := range strings.Split(l.process, "\n") {
		if strings.HasSuffix(ln, "Referer: "+id+")") || strings.HasSuffix(ln, " "+id) {
			out = append(out, ln)
		}
	}
	return strings.Join(out, "\n")
}

func (l *logView) processLines(prefix string) int {
	l.refresh()
	l.mu.Lock()
	defer l.mu.Unlock()
	n := 0
	for _, ln := range strings.Split(l.process, "\n") {
		if strings.HasPrefix(ln, prefix) {
			n++
		}
	}
	return n
}

// accessLine returns the access-log line of the request with this case id ("" if none, "<n lines>" if several).
func (l *logView) accessLine(id string) string {
	var found []string
	for try := 0; try < 50; try++ {
		b, _ := os.ReadFile(l.fx.accessLog)
		found = found[:0]
		for _, ln := range strings.Split(string(b), "\n") {
			if strings.HasSuffix(ln, "|"+id) {
				found = append(found, ln)
			}
		}
		if len(found) > 0 {
			break
		}
		time.Sleep(2 * time.Millisecond)
	}
	switch len(found) {
	case 0:
		return ""
	case 1:
		return found[0]
	}
	return fmt.Sprintf("<%d lines> %s", len(found), strings.Join(found, " / "))
}

// ---------------------------------------------------------------- the test

func clauseOf(tc *tcase) string {
	e := tc.Exp
	switch {
	case e.By == "net400" || e.By == "netoptions":
		return e.By
	case e.By == "nosite":
		return "nosite"
	case e.By == "sni":
		return "sni"
	case e.Hijacked:
		return "hijack"
	case tc.Script != "default":
		return "script:" + tc.Script
	case tc.Req.Form != "origin":
		return "form:" + tc.Req.Form
	case len(e.Prefix) > 1:
		return "scoped"
	}
	return ""
}

func TestCx12Front(t *testing.T) {
	hx.Quiet()
	res := hx.NewResult("TestCx12Front", "one case = one request head of ServerFront.tla (listener x request-target form x path spelling x host spellings in target and Host header (absent, one, duplicate, conflicting) x HTTP version x method x script of the innermost handler), rendered to its exact bytes and sent on a fresh connection followed by a sentinel request; compared: number of responses / connection closed, status, answering site, r.Host / {host} / {hostonly} / r.URL.Path / path_prefix / original URL seen by the chain, body (fallback text iff nothing written), served file, path the proxied backend received, access-log and process-log lines; non-trivial = anything but a plain origin-form GET answered by the default handler of an unscoped site")
	defer res.Write(t)

	// a replay file of another test of this property is not ours
	if p := hx.Replay(); p != "" {
		b, _ := os.ReadFile(p)
		var w struct {
			Case struct {
				Clause string `json:"clause"`
			} `json:"case"`
		}
		if json.Unmarshal(b, &w) != nil || !strings.HasPrefix(w.Case.Clause, "serverfront/") {
			res.AddExtra("replay", "not a serverfront case: skipped")
			return
		}
	}

	// certmagic logs through a logger bound to fd 2 (start-up, "looking up info for HTTP challenge"): keep it out of the go test log
	if os.Getenv("VERIF_VERBOSE") == "" {
		if dn, err := os.Create(filepath.Join(hx.Scratch(t), "cx12front_stderr.log")); err == nil {
			if saved, err := syscall.Dup(2); err == nil {
				syscall.Dup2(int(dn.Fd()), 2)
				defer func() { syscall.Dup2(saved, 2); syscall.Close(saved); dn.Close(); os.Remove(dn.Name()) }()
			}
		}
	}

	fx, err := startFixture(t)
	if err != nil {
		res.Infra = err.Error()
		return
	}
	defer fx.stop()
	logs := &logView{fx: fx}
	var seq, reruns int64
	nextID := func() string { return "c" + strconv.FormatInt(atomic.AddInt64(&seq, 1), 10) + "x" }

	// one case, judged; a disagreement is reproduced on a fresh connection before it counts
	evaluate := func(tc *tcase) {
		id := nextID()
		o := fx.run(tc, id)
		v := fx.judge(tc, id, &o, logs)
		if v.clause == "" {
			return
		}
		atomic.AddInt64(&reruns, 1)
		id2 := nextID()
		o2 := fx.run(tc, id2)
		v2 := fx.judge(tc, id2, &o2, logs)
		if v2.clause == "" {
			res.AddExtra("unreproduced:"+tc.Req.key(tc.Script), v.what)
			return
		}
		if v2.clause == "infra" {
			if res.Infra == "" {
				res.Infra = "cannot talk to the fixture: " + v2.what
			}
			return
		}
		o2.Process = logs.processWith(id2)
		res.Add(hx.Mismatch{Key: "C12/serverfront/" + v2.clause + "/" + tc.Req.key(tc.Script), What: v2.what, Case: newRcase(v2.clause, tc), Expected: tc.Exp, Observed: o2})
	}

	if rp, ok := hx.LoadReplay[rcase](t); ok {
		res.Count("replay")
		evaluate(&rp.tcase)
		res.Replayed = 1
		return
	}

	cases := hx.LoadCases[tcase](t, module)
	res.AddExtra("cases_from_tlc", len(cases))
	sort.SliceStable(cases, func(i, j int) bool { return cases[i].Req.key(cases[i].Script) < cases[j].Req.key(cases[j].Script) })
	rnd := hx.Rand()
	rnd.Shuffle(len(cases), func(i, j int) { cases[i], cases[j] = cases[j], cases[i] })
	// requests that look like ACME HTTP challenges make certmagic look into its storage: a handful is enough
	acme := 0
	kept := cases[:0]
	for _, c := range cases {
		if c.Exp.Acme {
			acme++
			if acme > 6 {
				continue
			}
		}
		kept = append(kept, c)
	}
	cases = kept
	for i := range cases {
		cases[i].Variant = rnd.Intn(6)
	}

	if hx.SelfTest() {
		// corrupt one expectation of every kind the clauses rest on: each must be noticed
		noticed, tried := 0, 0
		seen := map[string]bool{}
		for i := range cases {
			c := cases[i]
			kind := ""
			switch {
			case c.Exp.By == "chain" && c.Exp.Marks && !c.Exp.Hijacked && c.Script == "default" && !seen["site"]:
				kind = "site"
				c.Exp.Site = "s9"
			case c.Exp.By == "nosite" && !seen["nosite"]:
				kind = "nosite"
				c.Exp.Plog[0].Host = "elsewhere.test"
			case len(c.Exp.Prefix) > 1 && c.Exp.Marks && !seen["trim"]:
				kind = "trim"
				c.Exp.Hpath = append([]string{"/", "b", "a", "s", "e"}, c.Exp.Hpath...)
			case c.Exp.Hijacked && !seen["hijack"]:
				kind = "hijack"
				c.Exp.Closed = false
			case c.Script == "ret404" && c.Req.M == "GET" && !seen["fallback"]:
				kind = "fallback"
				c.Exp.Body = [][]interface{}{}
			case c.Exp.By == "sni" && c.Req.Ver == "1.1" && !seen["sni"]:
				kind = "sni"
				c.Exp.Closed = false
			case len(c.Exp.Alog) > 0 && !seen["alog"]:
				kind = "alog"
				c.Exp.Alog[0].Host = "elsewhere.test"
			}
			if kind == "" {
				continue
			}
			seen[kind] = true
			tried++
			id := nextID()
			o := fx.run(&c, id)
			if v := fx.judge(&c, id, &o, logs); v.clause != "" && v.clause != "infra" {
				noticed++
			} else {
				res.AddExtra("selftest_unnoticed_"+kind, c.Req.key(c.Script))
			}
			res.Count("selftest:" + kind)
		}
		if tried < 7 || noticed != tried {
			res.Infra = fmt.Sprintf("selftest: %d corrupted expectations tried (want 7 kinds), %d noticed", tried, noticed)
		}
		return
	}

	// strict-SNI refusals and aborted handlers leave process-log lines without a case id: counted at the end
	wantStrict, wantAbort, wantNoSite, wantPanic := 0, 0, 0, 0
	for i := range cases {
		for _, l := range cases[i].Exp.Plog {
			switch {
			case l.K == "strictsni":
				wantStrict++
			case l.K == "panic" && cases[i].Script == "abort":
				wantAbort++
			case l.K == "panic":
				wantPanic++
			case l.K == "nosite":
				wantNoSite++
			}
		}
	}

	var wg sync.WaitGroup
	jobs := make(chan *tcase)
	for wk := 0; wk < 12; wk++ {
		wg.Add(1)
		go func() {
			defer wg.Done()
			for tc := range jobs {
				evaluate(tc)
				res.Count(clauseOf(tc))
			}
		}()
	}
	// thorough: every head twice, the second time with another spelling of the Host lines
	passes := 1
	if hx.Thorough() {
		passes = 2
	}
	for pass := 0; pass < passes; pass++ {
		for i := range cases {
			if pass == 0 && i < 5 {
				res.Sample(map[string]interface{}{"head": strings.SplitN(string(fx.wireBytes(&cases[i], "id")), "GET /sentinel", 2)[0], "expected": cases[i].Exp})
			}
			tc := cases[i]
			tc.Variant = (tc.Variant + pass*(1+i%5)) % 6
			jobs <- &tc
		}
	}
	close(jobs)
	wg.Wait()
	wantStrict, wantAbort, wantNoSite, wantPanic = passes*wantStrict, passes*wantAbort, passes*wantNoSite, passes*wantPanic
	res.Replayed = res.Evaluations

	// the process log as a whole: nothing but what the model's cases account for (confirmation re-runs excluded)
	if atomic.LoadInt64(&reruns) == 0 {
		for _, c := range []struct {
			prefix string
			want   int
			what   string
		}{
			{"[ERROR] ", wantStrict, "strict host matching lines"},
			{"[PANIC] net/http: abort Handler", wantAbort, "[PANIC] lines of aborted handlers"},
			{"[PANIC] front panic", wantPanic, "[PANIC] lines of panicking handlers"},
			{"[INFO] ", wantNoSite, "No such site lines"},
		} {
			if got := logs.processLines(c.prefix); got != c.want {
				res.Add(hx.Mismatch{Key: "C12/serverfront/process-log/" + strings.TrimSpace(c.prefix), What: fmt.Sprintf("%d %s in the process log, the model's cases account for %d", got, c.what, c.want)})
			}
		}
	}
	st := map[string]int{}
	for i := range cases {
		st[cases[i].Exp.By]++
	}
	res.AddExtra("answered_by", st)
	// vacuity: every way of answering the model knows must have been exercised
	for _, by := range []string{"net400", "netoptions", "nosite", "sni", "chain", "proxy", "recover"} {
		if st[by] == 0 && res.Infra == "" {
			res.Infra = "vacuous: no case answered by " + by
		}
	}
}
