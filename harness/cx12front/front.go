// Package cx12front binds specs/ServerFront.tla (what httpserver.Server does to a request before
// the site's middleware chain runs and after it returned) to the real server; an extension of C12.
package cx12front

import (
	"errors"
	"net/http"
	"net/url"
	"strconv"
	"strings"

	"github.com/tmpim/casket"
	"github.com/tmpim/casket/caskethttp/httpserver"
)

// veriffront <marker> is a test-only directive, registered by this package only (the directive list
// other checks look at is not changed). It is the innermost middleware of the site (directly in
// front of the static file server) and is the "Chain" action of the specification. On every request
// it reports what Server.serveHTTP handed to the chain, as response headers:
//
//	X-Site        the marker of the site whose chain runs
//	X-Saw-Host    r.Host                          X-Saw-Path    r.URL.Path
//	X-Saw-Uhost   r.URL.Host                      X-Saw-Uri     r.RequestURI
//	X-Saw-Orig    String() of the URL stored under OriginalURLCtxKey
//	X-Saw-Prefix  the value stored under "path_prefix"
//	X-Saw-Repl    {host}|{hostonly}|{path}|{rewrite_path}|{remote} of a replacer made here, and
//	              whether the server left a replacer in the context (ReplacerCtxKey)
//	X-Saw-Srv     the Server response header the server had set before the chain ran
//
// and then runs the script of the X-Front request header (ops separated by ';'):
//
//	status:N  WriteHeader(N)       text:S   Write(S)           flush      Flush
//	ret:N     return (N, nil)      reterr:N return (N, error)  panic      panic("front panic <X-Case>")
//	abort     panic(http.ErrAbortHandler)
//	hijack    take the connection over, write "HTTP/1.1 101 Switching Protocols" + the X-Site and
//	          X-Saw-Path lines + the body "HIJACKED", close the connection
//	next      call the next handler (the static file server) and return its result
//
// Without a script the handler answers 200 with the body "CHAIN".
func init() {
	httpserver.RegisterDevDirective("veriffront", "")
	casket.RegisterPlugin("veriffront", casket.Plugin{ServerType: "http", Action: func(c *casket.Controller) error {
		marker := ""
		for c.Next() {
			args := c.RemainingArgs()
			if len(args) != 1 {
				return c.ArgErr()
			}
			marker = args[0]
		}
		httpserver.GetConfig(c).AddMiddleware(func(next httpserver.Handler) httpserver.Handler {
			return httpserver.HandlerFunc(func(w http.ResponseWriter, r *http.Request) (int, error) {
				return frontServe(marker, next, w, r)
			})
		})
		return nil
	}})
}

func frontServe(marker string, next httpserver.Handler, w http.ResponseWriter, r *http.Request) (int, error) {
	h := w.Header()
	h["X-Saw-Srv"] = []string{h.Get("Server")}
	h["X-Site"] = []string{marker}
	h["X-Saw-Host"] = []string{r.Host}
	h["X-Saw-Path"] = []string{r.URL.Path}
	h["X-Saw-Uhost"] = []string{r.URL.Host}
	h["X-Saw-Uri"] = []string{r.RequestURI}
	orig := "<none>"
	if u, ok := r.Context().Value(httpserver.OriginalURLCtxKey).(url.URL); ok {
		orig = u.String()
	}
	h["X-Saw-Orig"] = []string{orig}
	pfx, _ := r.Context().Value(casket.CtxKey("path_prefix")).(string)
	h["X-Saw-Prefix"] = []string{pfx}
	have := "norepl"
	if _, ok := r.Context().Value(httpserver.ReplacerCtxKey).(httpserver.Replacer); ok {
		have = "repl"
	}
	rep := httpserver.NewReplacer(r, nil, "-")
	h["X-Saw-Repl"] = []string{rep.Replace("{host}|{hostonly}|{path}|{rewrite_path}|{remote}") + "|" + have}

	script := r.Header.Get("X-Front")
	if script == "" {
		w.Write([]byte("CHAIN"))
		return 0, nil
	}
	for _, op := range strings.Split(script, ";") {
		name, arg := op, ""
		if i := strings.IndexByte(op, ':'); i >= 0 {
			name, arg = op[:i], op[i+1:]
		}
		switch name {
		case "status":
			n, _ := strconv.Atoi(arg)
			w.WriteHeader(n)
		case "text":
			w.Write([]byte(arg))
		case "flush":
			if f, ok := w.(http.Flusher); ok {
				f.Flush()
			}
		case "ret":
			n, _ := strconv.Atoi(arg)
			return n, nil
		case "reterr":
			n, _ := strconv.Atoi(arg)
			return n, errors.New("front error")
		case "panic":
			panic("front panic " + r.Header.Get("X-Case"))
		case "abort":
			panic(http.ErrAbortHandler)
		case "hijack":
			hj, ok := w.(http.Hijacker)
			if !ok {
				return http.StatusNotImplemented, errors.New("not a hijacker")
			}
			conn, brw, err := hj.Hijack()
			if err != nil {
				return http.StatusInternalServerError, err
			}
			brw.WriteString("HTTP/1.1 101 Switching Protocols\r\nConnection: Upgrade\r\nUpgrade: front\r\nX-Site: " + marker +
				"\r\nX-Saw-Path: " + r.URL.Path + "\r\n\r\nHIJACKED")
			brw.Flush()
			conn.Close()
		case "next":
			return next.ServeHTTP(w, r)
		}
	}
	return 0, nil
}
