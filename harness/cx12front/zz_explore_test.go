package cx12front

import (
	"fmt"
	"os"
	"strings"
	"testing"

	"verifharness/hx"
)

// TestZZ is an experiment helper (not run by the driver): raw request heads separated by ';;', line
// breaks written as '|', {P} = plaintext port, {T} = TLS port; a head starting with "tls:<sni>:" goes
// to the TLS listener.
//
//	ZZ_REQS='GET / HTTP/1.1|Host: a.test||;;GET http://b.w.test/x HTTP/1.1|Host: a.test||' go test -tags verif -run TestZZ -v ./cx12front/
func TestZZ(t *testing.T) {
	if os.Getenv("ZZ_REQS") == "" {
		t.Skip()
	}
	fx, err := startFixture(t)
	if err != nil {
		t.Fatalf("fixture: %v", err)
	}
	defer fx.stop()
	t.Log(fx.casketfile)
	for _, rq := range strings.Split(os.Getenv("ZZ_REQS"), ";;") {
		addr, sni := fx.plainAddr, "-"
		if strings.HasPrefix(rq, "tls:") {
			f := strings.SplitN(rq, ":", 3)
			sni, rq = f[1], f[2]
			addr = fx.tlsAddr
		}
		if strings.HasPrefix(rq, "Q:") {
			rq, addr = rq[2:], fx.noCatchAdr
		}
		rq = strings.ReplaceAll(rq, "|", "\r\n")
		rq = strings.ReplaceAll(rq, "{P}", fmt.Sprint(fx.plainPort))
		rq = strings.ReplaceAll(rq, "{T}", fmt.Sprint(fx.tlsPort))
		w := exchange(addr, sni, "http/1.1", []byte(rq), nil)
		t.Logf("%q\n   -> err=%q rest=%q", rq, w.Err, w.Rest)
		for _, a := range w.Answers {
			delete(a.Header, "Date")
			t.Logf("   %d %s %v body=%.150q", a.Status, a.Proto, a.Header, a.Body)
		}
		t.Logf("   process log: %q   access log: %q", fx.takeProcessLog(), fx.takeAccessLog())
	}
	_ = hx.Seed
}
