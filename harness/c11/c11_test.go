// C11 - every directive's setup is total; -validate and a real start agree.
//
// SetupGrammar.tla enumerates, for every registered directive, the token sequences that can
// follow its name (arguments of every lexical class, sub-blocks whose lines start with the
// directive's own keywords). Each case is rendered into a one-site Casketfile
//
//	127.0.0.1:<port> {
//		bind 127.0.0.1
//		<directive> <tokens ...>
//	}
//
// and run, in a worker PROCESS under a deadline, through
//
//	validate  casket.ValidateAndExecuteDirectives(input, nil, true)      what -validate does
//	load      casket.VerifC11Load(input)                                  the directive phase of Start
//	start     casket.Start(input) + Stop (a sample; never a site that could ask for a certificate)
//
// The statement is judged on the observation: no phase panics, none fails to return, every
// rejection carries a message, validate accepts <=> load accepts; a configuration that
// -validate refused must not start.
package c11

import (
	"crypto/ecdsa"
	"crypto/elliptic"
	crand "crypto/rand"
	"crypto/x509"
	"crypto/x509/pkix"
	"encoding/json"
	"encoding/pem"
	"fmt"
	"hash/fnv"
	"math/big"
	"math/rand"
	"os"
	"path/filepath"
	"regexp"
	"runtime/debug"
	"sort"
	"strconv"
	"strings"
	"sync"
	"sync/atomic"
	"syscall"
	"testing"
	"time"

	"github.com/tmpim/casket"
	"verifharness/hx"
)

const childTest = "TestC11Child"
const nWorkers = 8

// ---- the case format of SetupGrammar.tla -------------------------------------------------

type sgLine struct {
	H string   // head: a keyword or a class
	A []string // classes
	N []string // nested line: [head, class] or empty
}

func (l *sgLine) UnmarshalJSON(b []byte) error {
	var raw []json.RawMessage
	if err := json.Unmarshal(b, &raw); err != nil {
		return err
	}
	if len(raw) != 3 {
		return fmt.Errorf("line tuple has %d members", len(raw))
	}
	for i, dst := range []interface{}{&l.H, &l.A, &l.N} {
		if err := json.Unmarshal(raw[i], dst); err != nil {
			return err
		}
	}
	return nil
}

func (l sgLine) MarshalJSON() ([]byte, error) {
	a, n := l.A, l.N
	if a == nil {
		a = []string{}
	}
	if n == nil {
		n = []string{}
	}
	return json.Marshal([]interface{}{l.H, a, n})
}

type sgCase struct {
	D string   `json:"d"`
	T []string `json:"t"`
	B bool     `json:"b"`
	L []sgLine `json:"l"`
	// replay: the exact text that failed (with @PORT@) and whether a real start was part of it
	Text  string `json:"text,omitempty"`
	Start bool   `json:"start,omitempty"`
	// a case of SetupPairs.tla: two directives of one site sharing a log file
	forceUR string // not from the model: complete the head of a proxy block with this upstream (see TestC11)
	Pair    bool   `json:"pair,omitempty"`
	D1      string `json:"d1,omitempty"`
	K1      string `json:"k1,omitempty"`
	V1      string `json:"v1,omitempty"`
	D2      string `json:"d2,omitempty"`
	K2      string `json:"k2,omitempty"`
	V2      string `json:"v2,omitempty"`
}

// renderPair: both directives log to one writable file in the scratch directory.
func renderPair(c *sgCase) (text, name string) {
	line := func(d, k, v, scope string) string {
		s := "\t" + d
		if d == "log" {
			s += " " + scope
		}
		s += " @SCRATCH@/shared.log"
		if k != "none" {
			if k == "rotate_compress" {
				v = ""
			}
			s += " {\n\t\t" + strings.TrimSpace(k+" "+v) + "\n\t}"
		}
		return s + "\n"
	}
	text = "127.0.0.1:@PORT@ {\n\tbind 127.0.0.1\n" + line(c.D1, c.K1, c.V1, "/") + line(c.D2, c.K2, c.V2, "/x") + "}\n"
	name = fmt.Sprintf("pair %s{%s %s} %s{%s %s}", c.D1, c.K1, c.V1, c.D2, c.K2, c.V2)
	return text, name
}

// ---- vocabulary (must equal Vocab of SetupGrammar.tla; checked against the cases and the sources)

var roller = []string{"rotate_size", "rotate_age", "rotate_keep", "rotate_compress", "rotate_disable"}

var vocab = map[string][]string{
	"basicauth": {"realm", "exclude"}, "bind": {}, "browse": {"path", "tplfile", "servearchive", "buffer"},
	"errors": append([]string{"visible", "*"}, roller...), "expvar": {}, "ext": {},
	"fastcgi": {"root", "ext", "split", "index", "upstream", "env", "except", "connect_timeout", "read_timeout", "send_timeout", "php"},
	"gzip":    {"ext", "not", "level", "min_length"}, "header": {}, "index": {}, "internal": {},
	"limits": {"header", "body"}, "log": append([]string{"ipmask", "except"}, roller...),
	"markdown": {"ext", "css", "js", "template", "templatedir"}, "mime": {"ext_defaults"},
	"on": {"startup", "shutdown", "certrenew"}, "pprof": {},
	"proxy": {"upstream", "policy", "fallback_delay", "fail_timeout", "max_fails", "try_duration", "try_interval", "max_conns",
		"health_check", "health_check_interval", "health_check_timeout", "health_check_port", "health_check_contains",
		"header_upstream", "header_downstream", "transparent", "trans", "websocket", "without", "except", "insecure_skip_verify",
		"ca_certificates", "keepalive", "timeout", "tls_client"},
	"push": {"method", "header"}, "redir": {"if", "if_op", "meta"}, "request_id": {},
	"rewrite": {"r", "regexp", "to", "ext", "if", "if_op"}, "root": {}, "status": {},
	"templates": {"path", "ext", "between"}, "timeouts": {"read", "header", "write", "idle", "none"},
	"tls": {"off", "self_signed", "ca", "key_type", "protocols", "ciphers", "curves", "clients", "request", "require", "verify_if_given",
		"insecure_disable_sni_matching", "load", "max_certs", "ask", "dns", "alpn", "must_staple", "wildcard", "no_redirect"},
	"tryfiles": {"except", "without"}, "websocket": {"respawn", "type", "bufsize"},
	"startup": {}, "shutdown": {},
}

// where the setup code of a directive lives (relative to the repository)
var sources = map[string][]string{
	"basicauth": {"caskethttp/basicauth/setup.go"}, "bind": {"caskethttp/bind/bind.go"}, "browse": {"caskethttp/browse/setup.go"},
	"errors": {"caskethttp/errors/setup.go", "caskethttp/httpserver/roller.go"}, "expvar": {"caskethttp/expvar/setup.go"},
	"ext": {"caskethttp/extensions/setup.go"}, "fastcgi": {"caskethttp/fastcgi/setup.go"}, "gzip": {"caskethttp/gzip/setup.go"},
	"header": {"caskethttp/header/setup.go"}, "index": {"caskethttp/index/index.go"}, "internal": {"caskethttp/internalsrv/setup.go"},
	"limits": {"caskethttp/limits/setup.go"}, "log": {"caskethttp/log/setup.go", "caskethttp/httpserver/roller.go"},
	"markdown": {"caskethttp/markdown/setup.go"}, "mime": {"caskethttp/mime/setup.go"}, "on": {"onevent/on.go", "onevent/hook/config.go"},
	"pprof": {"caskethttp/pprof/setup.go"}, "proxy": {"caskethttp/proxy/setup.go", "caskethttp/proxy/upstream.go"},
	"push": {"caskethttp/push/setup.go"}, "redir": {"caskethttp/redirect/setup.go", "caskethttp/httpserver/condition.go"},
	"request_id": {"caskethttp/requestid/setup.go"}, "rewrite": {"caskethttp/rewrite/setup.go", "caskethttp/httpserver/condition.go"},
	"root": {"caskethttp/root/root.go"}, "status": {"caskethttp/status/setup.go"}, "templates": {"caskethttp/templates/setup.go"},
	"timeouts": {"caskethttp/timeouts/timeouts.go"}, "tls": {"caskettls/setup.go"}, "tryfiles": {"caskethttp/tryfiles/tryfiles.go"},
	"websocket": {"caskethttp/websocket/setup.go"},
}

// case literals in those files that are not sub-directive keywords
var notKeywords = map[string]string{
	"cert_obtained": "certmagic event name (tls)", "te": "forbidden push header", "expect": "forbidden push header",
	"host": "forbidden push header", "trailer": "forbidden push header",
}

var caseRe = regexp.MustCompile(`case\s+("[a-z_*]+"(?:,\s*"[a-z_*]+")*)\s*:`)
var litRe = regexp.MustCompile(`"([a-z_*]+)"`)

func repoDir() string {
	if d := os.Getenv("VERIF_REPO"); d != "" {
		return d
	}
	return "/repo"
}

// vocabularyCheck: every `case "kw":` of a directive's setup code is in the vocabulary, every
// vocabulary word occurs as a string literal in that code, and the vocabulary equals the
// heads TLC enumerated (i.e. Vocab of SetupGrammar.tla).
func vocabularyCheck(cases []sgCase) []string {
	var bad []string
	for d, files := range sources {
		in := map[string]bool{}
		for _, k := range vocab[d] {
			in[k] = true
		}
		text := ""
		for i, f := range files {
			b, err := os.ReadFile(filepath.Join(repoDir(), f))
			if err != nil {
				if i == 0 {
					bad = append(bad, fmt.Sprintf("%s: cannot read %s", d, f))
				}
				continue
			}
			text += string(b)
			if i > 0 {
				continue // shared helper files are only searched, not required to be covered
			}
			for _, m := range caseRe.FindAllStringSubmatch(string(b), -1) {
				for _, lit := range litRe.FindAllStringSubmatch(m[1], -1) {
					if !in[lit[1]] && notKeywords[lit[1]] == "" {
						bad = append(bad, fmt.Sprintf("%s: setup code has keyword %q that SetupGrammar.tla/vocab does not know", d, lit[1]))
					}
				}
			}
		}
		for k := range in {
			if !strings.Contains(text, `"`+k+`"`) {
				bad = append(bad, fmt.Sprintf("%s: vocabulary word %q does not occur in %v", d, k, files))
			}
		}
	}
	seen := map[string]map[string]bool{}
	for i := range cases {
		c := &cases[i]
		if seen[c.D] == nil {
			seen[c.D] = map[string]bool{}
		}
		for _, l := range c.L {
			seen[c.D][l.H] = true
		}
	}
	classes := map[string]bool{"wd": true, "in": true, "em": true}
	for d, ks := range vocab {
		if seen[d] == nil {
			bad = append(bad, "directive "+d+" is not enumerated by SetupGrammar.tla")
			continue
		}
		for _, k := range ks {
			if !seen[d][k] {
				bad = append(bad, fmt.Sprintf("%s: keyword %q of the harness vocabulary is not a head in SetupGrammar.tla", d, k))
			}
		}
	}
	for d, hs := range seen {
		in := map[string]bool{}
		for _, k := range vocab[d] {
			in[k] = true
		}
		for h := range hs {
			if !in[h] && !classes[h] {
				bad = append(bad, fmt.Sprintf("%s: head %q of SetupGrammar.tla is not in the harness vocabulary", d, h))
			}
		}
	}
	sort.Strings(bad)
	return bad
}

// ---- rendering ---------------------------------------------------------------------------------

var spell = map[string][]string{
	"em": {`""`},
	"wd": {"alpha", "beta", "GET", "x.y", "{$}{$X}", "{%%}{%X%}"}, // the last two: an empty environment reference in front of another one
	"in": {"10", "0", "1", "5", "404", "65536"},
	"ni": {"-1", "-10"},
	"hi": {"99999999999999999999", "9223372036854775808", "4294967296"},
	"fl": {"1.5", "0.5", "1e3"},
	"du": {"10s", "5m", "1h30m", "0s", "1ms"},
	"sz": {"10MB", "1kb", "5gb", "100B"},
	"pa": {"/", "@SCRATCH@/exist.txt", "@SCRATCH@/missing/none.txt", "@SCRATCH@/dir", "/api", "*.html", ".php", "@SCRATCH@/cert.pem", "@SCRATCH@/key.pem"},
	"ur": {"http://127.0.0.1:9", "https://localhost:9/base", "127.0.0.1:9", "unix:@SCRATCH@/sock", "ws://127.0.0.1:9",
		"127.0.0.1:8081-8083", "localhost:65533-65535", "quic://127.0.0.1:9"}, // upstream port ranges, the second one up to the largest port
	"rx": {"([", "^/(.*", "(?P<a", "*"},
	"qs": {`"two words"`, `"a b c"`},
	"ob": {"{"},
}

// words a directive's setup compares argument VALUES with (not sub-directive keywords): half of
// the "wd" tokens of such a directive are drawn from here, so that the deeper branches are reached
var dict = map[string][]string{
	"basicauth":  {"htpasswd=missing.htpasswd", "htpasswd=exist.txt", "htpasswd=htpasswd", "htpasswd=@SCRATCH@/exist.txt", "bob"},
	"errors":     {"visible", "stdout", "stderr", "syslog", "404", "500", "*"},
	"log":        {"stdout", "stderr", "syslog", "{combined}", "{common}", "255.255.255.0", "ffff::"},
	"tls":        {"off", "self_signed", "tls1.2", "tls1.3", "tls1.0", "p256", "rsa2048", "x25519", "p384", "ECDHE-RSA-AES128-GCM-SHA256", "h2", "request", "require", "me@example.com", "@SCRATCH@/cert.pem", "@SCRATCH@/key.pem"},
	"proxy":      {"random", "least_conn", "round_robin", "first", "ip_hash", "uri_hash", "header", "127.0.0.1:9", "X-Name", "{host}"},
	"fastcgi":    {"php", "127.0.0.1:9", ".php", "index.php", "KEY"},
	"redir":      {"301", "302", "307", "308", "meta", "{uri}", "is", "not", "and", "or", "{path}"},
	"rewrite":    {"{path}", "{uri}", "is", "not", "and", "or", "^/a", "/index.php?{query}", ".html"},
	"status":     {"404", "200", "500"},
	"timeouts":   {"none", "0"},
	"header":     {"X-Name", "-Server", "+Vary", "value"},
	"mime":       {".txt", "text/plain", "ext_defaults"},
	"ext":        {".html", ".php"},
	"on":         {"startup", "shutdown", "certrenew", "&"},
	"websocket":  {"respawn", "lines", "text", "binary", "cat"},
	"gzip":       {".txt", "9", "-1"},
	"internal":   {"/internal"},
	"bind":       {"127.0.0.1", "localhost", "::1"},
	"index":      {"index.html", "home.htm"},
	"push":       {"GET", "HEAD", "POST", "X-Name", "/style.css"},
	"limits":     {"1kb", "0"},
	"markdown":   {".md", "style.css"},
	"browse":     {"@SCRATCH@/exist.txt"},
	"templates":  {".html", "{{", "}}"},
	"expvar":     {"/stats"},
	"pprof":      {},
	"request_id": {"X-Request-ID"},
}

// a path-like spelling that is a file-system location outside the scratch directory must never
// reach a directive that opens files at start-up (log, errors): "/api" style URL paths are only
// used where the first argument is a request path; see spellFor.
// spellings a keyword's argument needs to get past the keyword's first check (a readable PEM file ...)
var kwSpell = map[string]map[string][]string{
	"proxy": {"ca_certificates": {"@SCRATCH@/cert.pem"}, "tls_client": {"@SCRATCH@/cert.pem", "@SCRATCH@/key.pem"}},
}

func spellFor(d string, cls string, pos int, rnd *rand.Rand) string {
	if cls == "kw" {
		ks := vocab[d]
		if len(ks) == 0 {
			return "alpha"
		}
		if d == "tls" && pos == 0 && rnd.Intn(2) == 0 {
			return []string{"off", "self_signed"}[rnd.Intn(2)]
		}
		return ks[rnd.Intn(len(ks))]
	}
	pool := spell[cls]
	if dd := dict[d]; cls == "wd" && len(dd) > 0 && rnd.Intn(2) == 0 {
		pool = dd
	}
	s := pool[rnd.Intn(len(pool))]
	if cls == "pa" && (s == "/api") && (d == "log" || d == "errors" || d == "root" || d == "tls" || d == "browse" || d == "markdown" || d == "templates") && pos > 0 {
		s = "@SCRATCH@/exist.txt"
	}
	return s
}

// render gives the Casketfile text (with @PORT@ and @SCRATCH@ to be filled in by the worker)
// and the canonical, spelling-free name of the case.
func render(c *sgCase, rnd *rand.Rand) (text, name string) {
	var b, n strings.Builder
	// the block's keys: usually one loopback address; one case in six has two keys of different
	// kinds (a setup function may judge per key: `tls { wildcard }` looks at the host name). No key
	// can become a managed-TLS site (markQualifiedForAutoHTTPS): loopback, or a name under the
	// private TLD .test (casket.IsInternal) - whatever `bind` the case itself writes
	keys := "127.0.0.1:@PORT@"
	switch rnd.Intn(12) {
	case 0:
		keys = "a.b.example.test:@PORT@, localhost:@PORT@"
	case 1:
		keys = "localhost:@PORT@, a.b.example.test:@PORT@"
	}
	if c.D == "basicauth" {
		// htpasswd= names are relative to the site root: with the scratch directory as root the
		// vocabulary reaches a well-formed, a malformed and a missing password file
		b.WriteString(keys + " {\n\tbind 127.0.0.1\n\troot @SCRATCH@\n\t" + c.D)
	} else {
		b.WriteString(keys + " {\n\tbind 127.0.0.1\n\t" + c.D)
	}
	n.WriteString(c.D)
	extra := 0
	curHead := ""
	tok := func(cls string, pos int) {
		s := spellFor(c.D, cls, pos, rnd)
		if ks := kwSpell[c.D][curHead]; cls == "pa" && len(ks) > 0 && rnd.Intn(2) == 0 {
			s = ks[(pos-1)%len(ks)]
		}
		if cls == "ob" {
			extra++
		}
		b.WriteString(" " + s)
		if cls == "kw" {
			n.WriteString(" " + s)
		} else {
			n.WriteString(" <" + cls + ">")
		}
	}
	head := func(h string) {
		curHead = h
		switch h {
		case "wd", "in", "em":
			s := spellFor(c.D, h, 0, rnd)
			b.WriteString(s)
			n.WriteString("<" + h + ">")
		default:
			b.WriteString(h)
			n.WriteString(h)
		}
	}
	for i, cls := range c.T {
		tok(cls, i)
	}
	if c.B && len(c.T) == 1 && c.forceUR != "" {
		b.WriteString(" " + c.forceUR)
		n.WriteString(" <ur>")
	} else if c.B && len(c.T) == 1 && (c.D == "proxy" || c.D == "fastcgi") && rnd.Intn(2) == 0 {
		// a block of these two is only reached in earnest when the head names an upstream: in half of
		// the one-argument block cases the harness completes the head with one (shown in the name)
		tok("ur", 1)
	}
	if c.B {
		b.WriteString(" {\n")
		n.WriteString(" {")
		for li, l := range c.L {
			if li > 0 {
				n.WriteString(" ;")
			}
			b.WriteString("\t\t")
			n.WriteString(" ")
			head(l.H)
			for i, cls := range l.A {
				tok(cls, i+1)
			}
			if len(l.N) == 2 {
				b.WriteString(" {\n\t\t\t")
				n.WriteString(" { ")
				head(l.N[0])
				tok(l.N[1], 1)
				b.WriteString("\n\t\t}")
				n.WriteString(" }")
			}
			b.WriteString("\n")
		}
		b.WriteString("\t}")
		n.WriteString(" }")
	}
	b.WriteString("\n")
	for ; extra > 0; extra-- {
		b.WriteString("\t}\n") // close what a stray "{" opened, so that the text still parses
	}
	b.WriteString("}\n")
	return b.String(), n.String()
}

// ---- worker side ---------------------------------------------------------------------------------

type job struct {
	Text string `json:"text"`
	// Strict: the environment of this case is under control (its files are writable, its port is
	// free): a real start that refuses what -validate accepted disagrees about the directives
	Strict  bool `json:"strict,omitempty"`
	Start   bool `json:"start"`   // also run a real casket.Start when validate and load accept
	StartNo bool `json:"startno"` // also run a real casket.Start although validate refused (must fail)
}

type phase struct {
	St  string `json:"st"` // ok | err | panic | skipped
	Msg string `json:"msg,omitempty"`
}

type outcome struct {
	Validate phase  `json:"validate"`
	Load     phase  `json:"load"`
	Start    phase  `json:"start"`
	Fail     string `json:"fail,omitempty"`
}

func guard(p *phase, fn func() error) {
	defer func() {
		if r := recover(); r != nil {
			p.St = "panic"
			p.Msg = fmt.Sprintf("%v\n%s", r, firstLines(string(debug.Stack()), 16))
		}
	}()
	if err := fn(); err != nil {
		p.St, p.Msg = "err", err.Error()
		return
	}
	p.St = "ok"
}

func firstLines(s string, n int) string {
	ls := strings.Split(s, "\n")
	if len(ls) > n {
		ls = ls[:n]
	}
	return strings.Join(ls, "\n")
}

var childScratch string

func input(text string, port int) casket.Input {
	text = strings.ReplaceAll(text, "@PORT@", strconv.Itoa(port))
	text = strings.ReplaceAll(text, "@SCRATCH@", childScratch)
	return casket.CasketfileInput{Contents: []byte(text), Filepath: "Casketfile", ServerTypeName: "http"}
}

func handle(line []byte) []byte {
	var j job
	var o outcome
	o.Validate.St, o.Load.St, o.Start.St = "skipped", "skipped", "skipped"
	if err := json.Unmarshal(line, &j); err != nil {
		o.Fail = err.Error()
		b, _ := json.Marshal(&o)
		return b
	}
	guard(&o.Validate, func() error { return casket.ValidateAndExecuteDirectives(input(j.Text, 12345), nil, true) })
	if o.Validate.St != "panic" {
		var inst *casket.Instance
		guard(&o.Load, func() error {
			var err error
			inst, err = casket.VerifC11Load(input(j.Text, 12345))
			return err
		})
		if inst != nil {
			var p phase
			guard(&p, func() error { inst.ShutdownCallbacks(); return nil })
		}
	}
	if (j.Start && o.Validate.St == "ok" && o.Load.St == "ok") || (j.StartNo && o.Validate.St == "err") {
		var inst *casket.Instance
		guard(&o.Start, func() error {
			var err error
			inst, err = casket.Start(input(j.Text, hx.FreePort()))
			return err
		})
		if inst != nil {
			var p phase
			guard(&p, func() error {
				if o.Start.St == "ok" {
					inst.Stop()
				}
				inst.ShutdownCallbacks()
				return nil
			})
			if p.St == "panic" && o.Start.St != "panic" {
				o.Start = phase{St: "panic", Msg: "while stopping: " + p.Msg}
			}
		}
	}
	if j.Strict && o.Validate.St == "ok" && o.Load.St == "ok" && o.Start.St == "err" && !strings.Contains(o.Start.Msg, "address already in use") {
		o.Load = phase{St: "err", Msg: "(a real start, everything it needs being there) " + o.Start.Msg}
	}
	b, _ := json.Marshal(&o)
	return b
}

// TestC11Child is the worker loop.
func TestC11Child(t *testing.T) {
	if !hx.IsChild(childTest) {
		t.Skip("worker entry point of TestC11")
	}
	hx.Quiet()
	childScratch = os.Getenv("VERIF_C11_SCRATCH")
	if childScratch == "" {
		t.Fatal("no scratch directory")
	}
	// everything relative lands in the scratch directory; nothing can be executed by name
	if err := os.Chdir(childScratch); err != nil {
		t.Fatal(err)
	}
	os.Setenv("PATH", filepath.Join(childScratch, "emptybin"))
	os.Setenv("HOME", childScratch)
	os.Setenv("CASKETPATH", filepath.Join(childScratch, "casketpath"))
	// a setup function that loops while allocating must end as a dead worker, not take the machine along
	lim := syscall.Rlimit{Cur: 3 << 30, Max: 3 << 30}
	syscall.Setrlimit(syscall.RLIMIT_AS, &lim)
	hx.ServeChild(t, childTest, handle)
}

// ---- parent side ---------------------------------------------------------------------------------

func deadline() time.Duration {
	if s := os.Getenv("VERIF_C11_DEADLINE"); s != "" {
		if d, err := time.ParseDuration(s); err == nil {
			return d
		}
	}
	return 15 * time.Second
}

// judge returns the violated clause ("" = the observation satisfies the statement).
func judge(o *outcome, status string) (clause, what string) {
	switch status {
	case "hang":
		return "no-return", "validating / loading the configuration did not end within the deadline"
	case "died":
		return "crash", "the process died while validating / loading the configuration (a panic outside the calling goroutine or a fatal error)"
	}
	for _, ph := range []struct {
		n string
		p *phase
	}{{"validate", &o.Validate}, {"load", &o.Load}, {"start", &o.Start}} {
		if ph.p.St == "panic" {
			return "panic", ph.n + " panicked: " + firstLines(ph.p.Msg, 4)
		}
		if ph.p.St == "err" && strings.TrimSpace(ph.p.Msg) == "" {
			return "empty-error", ph.n + " failed without an error message"
		}
	}
	if o.Load.St != "skipped" && (o.Validate.St == "ok") != (o.Load.St == "ok") {
		return "validate-start-disagree", fmt.Sprintf("-validate says %s (%s) but the directive phase of a start says %s (%s)", o.Validate.St, firstLines(o.Validate.Msg, 1), o.Load.St, firstLines(o.Load.Msg, 1))
	}
	if o.Validate.St == "err" && o.Start.St == "ok" {
		return "validate-start-disagree", "-validate refuses the configuration (" + firstLines(o.Validate.Msg, 1) + ") but casket.Start accepts it"
	}
	return "", ""
}

// writeKeyPair writes a self-signed certificate and its key as PEM files (what `tls`, `proxy
// ca_certificates` and `proxy tls_client` take as file arguments).
func writeKeyPair(certFile, keyFile string) error {
	key, err := ecdsa.GenerateKey(elliptic.P256(), crand.Reader)
	if err != nil {
		return err
	}
	tpl := &x509.Certificate{SerialNumber: big.NewInt(11), Subject: pkix.Name{CommonName: "c11.test"}, DNSNames: []string{"c11.test"},
		NotBefore: time.Now().Add(-time.Hour), NotAfter: time.Now().Add(240 * time.Hour), IsCA: true, BasicConstraintsValid: true,
		KeyUsage: x509.KeyUsageDigitalSignature | x509.KeyUsageCertSign}
	der, err := x509.CreateCertificate(crand.Reader, tpl, tpl, &key.PublicKey, key)
	if err != nil {
		return err
	}
	kb, err := x509.MarshalECPrivateKey(key)
	if err != nil {
		return err
	}
	if err := os.WriteFile(certFile, pem.EncodeToMemory(&pem.Block{Type: "CERTIFICATE", Bytes: der}), 0o644); err != nil {
		return err
	}
	return os.WriteFile(keyFile, pem.EncodeToMemory(&pem.Block{Type: "EC PRIVATE KEY", Bytes: kb}), 0o600)
}

func h32(s string) uint32 { h := fnv.New32a(); h.Write([]byte(s)); return h.Sum32() }

func TestC11(t *testing.T) {
	hx.Quiet()
	res := hx.NewResult("TestC11", "one case = one directive followed by a token sequence from SetupGrammar.tla (arguments of 14 lexical classes, a sub-block whose line starts with each of the directive's keywords; longer shapes by simulation), rendered with seeded spellings into a one-site Casketfile and run through -validate, the directive phase of Start and (sampled) a real Start/Stop in a worker process under a deadline; non-trivial = every case with at least one token after the directive name")
	defer res.Write(t)

	scratch, err := os.MkdirTemp("/dev/shm", "verif_c11_")
	if err != nil {
		if scratch, err = os.MkdirTemp(hx.Scratch(t), "c11"); err != nil {
			t.Fatal(err)
		}
	}
	defer os.RemoveAll(scratch)
	for _, d := range []string{"emptybin", "dir", "casketpath"} {
		os.MkdirAll(filepath.Join(scratch, d), 0o755)
	}
	os.WriteFile(filepath.Join(scratch, "exist.txt"), []byte("hello\n"), 0o644)
	os.WriteFile(filepath.Join(scratch, "htpasswd"), []byte("bob:{SHA}W6ph5Mm5Pz8GgiULbPgzG37mj9g=\n"), 0o644)
	if err := writeKeyPair(filepath.Join(scratch, "cert.pem"), filepath.Join(scratch, "key.pem")); err != nil {
		res.Infra = "cannot make the certificate files of the scratch directory: " + err.Error()
		return
	}

	pool := hx.NewProcPool(nWorkers, deadline(), childTest, "VERIF_C11_SCRATCH="+scratch)
	pool.MaxJobs = 4000
	defer pool.Close()

	run := func(j *job, fresh bool) (*outcome, string) {
		b, _ := json.Marshal(j)
		var out []byte
		var st string
		if fresh {
			out, st = pool.DoFresh(b)
		} else {
			out, st = pool.Do(b)
		}
		var o outcome
		if st == "" {
			if err := json.Unmarshal(out, &o); err != nil {
				st = "fail: " + err.Error()
			} else if o.Fail != "" {
				st = "fail: " + o.Fail
			}
		}
		return &o, st
	}

	var mu sync.Mutex
	var infra []string
	infraf := func(f string, a ...interface{}) {
		mu.Lock()
		if len(infra) < 5 {
			infra = append(infra, fmt.Sprintf(f, a...))
		}
		mu.Unlock()
	}
	report := func(c *sgCase, name string, j *job) {
		// reproduce in a process of its own
		o, st := run(j, true)
		if strings.HasPrefix(st, "fail") {
			infraf("worker: %s", st)
			return
		}
		cl, what := judge(o, st)
		if cl == "" {
			return
		}
		cc := *c
		cc.Text, cc.Start = j.Text, j.Start || j.StartNo
		var obs interface{} = st
		if st == "" {
			obs = o
		}
		res.Add(hx.Mismatch{Key: "C11/" + cl + "/" + name, What: fmt.Sprintf("%s: %s", strings.TrimSpace(strings.ReplaceAll(j.Text, "\n", " ")), what),
			Case: cc, Expected: "every phase returns ok or an error with a message; validate ok <=> load ok", Observed: obs})
	}

	if rp, ok := hx.LoadReplay[sgCase](t); ok {
		res.Count("replay")
		_, name := render(&rp, rand.New(rand.NewSource(1)))
		if rp.Pair {
			_, name = renderPair(&rp)
		}
		report(&rp, name, &job{Text: rp.Text, Start: rp.Start, StartNo: rp.Start && !rp.Pair, Strict: rp.Pair})
		res.Replayed = 1
		return
	}

	cases := hx.LoadCases[sgCase](t, "SetupGrammar")
	nExh := len(cases)
	if hx.CasesPath("SetupGrammarSim") != "" {
		cases = append(cases, hx.LoadCases[sgCase](t, "SetupGrammarSim")...)
	}
	if hx.CasesPath("SetupPairs") != "" {
		cases = append(cases, hx.LoadCases[sgCase](t, "SetupPairs")...)
	}
	res.AddExtra("cases_from_tlc_exhaustive", nExh)
	res.AddExtra("cases_from_tlc_simulated", len(cases)-nExh)
	if bad := vocabularyCheck(cases[:nExh]); len(bad) > 0 {
		res.Infra = "vocabulary of SetupGrammar.tla / harness out of date: " + strings.Join(bad, "; ")
		return
	}

	// the one-argument block cases of proxy once more with the head completed by every spelling of
	// an upstream (the block's lines then meet every kind of transport)
	nModel := len(cases)
	for i := 0; i < nModel; i++ {
		if c := cases[i]; c.D == "proxy" && c.B && len(c.T) == 1 && !c.Pair {
			for _, u := range spell["ur"] {
				cc := c
				cc.forceUR = u
				cases = append(cases, cc)
			}
		}
	}
	res.AddExtra("cases_added_proxy_heads_completed", len(cases)-nModel)
	seed := hx.Seed()
	selftest := hx.SelfTest()
	selftestHit := false
	var cnt struct{ vOK, vErr, started, startOK, startErr, startNo int }
	perDir := map[string][2]int{}
	startErrSamples := map[string]string{} // accepted by -validate, refused later by a real start (start-up callbacks, listeners): not a directive matter
	var wg sync.WaitGroup
	var slow int32 // verdicts that cost a deadline each (hangs, dead workers)
	ch := make(chan int, 64)
	for w := 0; w < nWorkers; w++ {
		wg.Add(1)
		go func() {
			defer wg.Done()
			for i := range ch {
				if atomic.LoadInt32(&slow) > 12 {
					continue
				}
				c := &cases[i]
				rnd := rand.New(rand.NewSource(seed*2654435761 + int64(i)))
				text, name := render(c, rnd)
				if c.Pair {
					text, name = renderPair(c)
				}
				hsh := h32(name + fmt.Sprint(seed))
				j := &job{Text: text, Strict: c.Pair}
				if c.Pair {
					hsh = 0 // always started for real
				}
				// a real start: a quarter of the cases; tls only when it cannot want a certificate
				if hsh%4 == 0 {
					j.Start = true
					if c.D == "tls" && !(strings.Contains(text, "\ttls off") || strings.Contains(text, "\ttls self_signed")) {
						j.Start = false
					}
				}
				if hsh%16 == 1 && c.D != "tls" {
					j.StartNo = true
				}
				o, st := run(j, false)
				nt := ""
				if len(c.T) > 0 || c.B {
					nt = name
				}
				res.Count(nt)
				if i%6007 == 3 {
					res.Sample(map[string]interface{}{"case": name, "casketfile": text, "validate": o.Validate.St, "load": o.Load.St, "start": o.Start.St})
				}
				if strings.HasPrefix(st, "fail") {
					infraf("worker: %s", st)
					continue
				}
				if st == "" {
					mu.Lock()
					pd := perDir[c.D]
					if o.Validate.St == "ok" {
						cnt.vOK++
						pd[0]++
					} else {
						cnt.vErr++
						pd[1]++
					}
					perDir[c.D] = pd
					if o.Start.St != "skipped" {
						cnt.started++
						if o.Validate.St == "err" {
							cnt.startNo++
						} else if o.Start.St == "ok" {
							cnt.startOK++
						} else {
							cnt.startErr++
							if len(startErrSamples) < 12 {
								startErrSamples[name] = firstLines(o.Start.Msg, 1)
							}
						}
					}
					mu.Unlock()
				}
				if selftest && st == "" && !selftestHit && o.Validate.St == "ok" && o.Load.St == "ok" {
					// corrupt the observation: the binding must notice a disagreement
					o2 := *o
					o2.Load = phase{St: "err", Msg: "selftest"}
					if cl, _ := judge(&o2, ""); cl == "validate-start-disagree" {
						mu.Lock()
						selftestHit = true
						mu.Unlock()
					}
				}
				if cl, _ := judge(o, st); cl != "" {
					if cl == "no-return" || cl == "crash" {
						// each of these costs a deadline (twice, with the reproduction): with a
						// dozen of them the verdict is settled, the rest of the cases is skipped
						if atomic.AddInt32(&slow, 1) > 12 {
							continue
						}
					}
					report(c, name, j)
				}
			}
		}()
	}
	for i := range cases {
		ch <- i
	}
	close(ch)
	wg.Wait()

	if slow > 12 {
		res.AddExtra("bailed_out", "more than a dozen hangs / dead workers: the remaining cases were skipped")
	}
	res.AddExtra("validate_accepted", cnt.vOK)
	res.AddExtra("validate_rejected", cnt.vErr)
	res.AddExtra("real_starts", cnt.started)
	res.AddExtra("real_starts_ok", cnt.startOK)
	res.AddExtra("real_starts_failed_after_validate_ok", cnt.startErr)
	res.AddExtra("real_starts_of_rejected_configurations", cnt.startNo)
	res.AddExtra("real_start_failures_after_validate_ok_samples", startErrSamples)
	pd := map[string]string{}
	for d, v := range perDir {
		pd[d] = fmt.Sprintf("%d accepted / %d rejected", v[0], v[1])
	}
	res.AddExtra("per_directive", pd)
	sp, kl := pool.Stats()
	res.AddExtra("worker_processes_started", sp)
	res.AddExtra("worker_processes_killed_at_deadline", kl)
	if len(infra) > 0 {
		res.Infra = strings.Join(infra, "; ")
	}
	if selftest && !selftestHit && res.Infra == "" {
		res.Infra = "selftest: corrupted observation was not noticed"
	}
	res.Replayed = res.Evaluations
}
