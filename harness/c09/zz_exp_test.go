package c09

import (
	"fmt"
	"os"
	"strings"
	"testing"

	"verifharness/hx"
)

func TestZZ(t *testing.T) {
	hx.Quiet()
	fx := newFixture(t)
	defer fx.close()
	rn := newRunner(t, fx, 0)
	order := strings.Split(os.Getenv("ZZ_ORDER"), ",")
	bat := []req{}
	for _, s := range strings.Split(os.Getenv("ZZ_REQS"), ";") {
		f := strings.Split(s, ",")
		q := req{M: "GET", P: f[0]}
		for _, x := range f[1:] {
			switch x {
			case "c":
				q.Creds = true
			case "g":
				q.Gz = true
			case "o":
				q.M = "OPTIONS"
			}
		}
		bat = append(bat, q)
	}
	out, cf, err := rn.run(order, bat, nil)
	fmt.Println(cf, err)
	for i, f := range out {
		b := f.Body
		if len(b) > 300 {
			b = b[:300]
		}
		fmt.Printf("%v -> %d %v\n   body=%q\n   logs=%q hits=%v err=%s\n   abs=%+v\n", bat[i], f.Status, f.Header, b, f.Logs, f.Hits, f.Err, abstract(f))
	}
}
