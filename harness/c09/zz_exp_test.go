package c09

import (
	"fmt"
	"os"
	"strings"
	"testing"

	"verifharness/hx"
)

// TestZZ is an experiment helper, not part of the check:
//
//	ZZ_ORDER=root,gz,hd1 ZZ_REQS="/pub/a.html,g;/old,c;/pub/dir/,o" go test -tags verif -run TestZZ -v ./c09/
//
// loads the block written in that order and prints the answers (c = credentials, g = gzip, o = OPTIONS).
func TestZZ(t *testing.T) {
	if os.Getenv("ZZ_ORDER") == "" {
		t.Skip("experiment helper: set ZZ_ORDER and ZZ_REQS")
	}
	hx.Quiet()
	fx := newFixture(t)
	defer fx.close()
	rn := newRunner(t, fx, 0)
	order := strings.Split(os.Getenv("ZZ_ORDER"), ",")
	bat := []req{}
	for _, s := range strings.Split(os.Getenv("ZZ_REQS"), ";") {
		f := strings.Split(s, ",")
		q := req{M: "GET", P: f[0]}
		for _, x := range f[1:] {
			switch x {
			case "c":
				q.Creds = true
			case "g":
				q.Gz = true
			case "o":
				q.M = "OPTIONS"
			}
		}
		bat = append(bat, q)
	}
	out, cf, err := rn.run(order, bat, nil)
	fmt.Println(cf, err)
	for i, f := range out {
		b := f.Body
		if len(b) > 300 {
			b = b[:300]
		}
		fmt.Printf("%v -> %d %v\n   body=%q\n   logs=%q hits=%v err=%s\n   abs=%+v\n", bat[i], f.Status, f.Header, b, f.Logs, f.Hits, f.Err, abstract(f))
	}
}
