// C09 - directives act in the fixed documented order, not in file order.
//
// TLC enumerates, from specs/DirectiveOrder.tla, server blocks (a root line plus <= MaxLines
// lines of a pool of 20 directive lines with observable effects), all reorderings of each
// block that keep same-directive lines in relative order, and the answers the documented
// order predicts for a battery of 30 requests (Serve/Observe in the spec).  This driver
//
//	(1) asserts that the registered directive list (casket.ValidDirectives("http") restricted to
//	    the plugins that are really installed) equals the spec constant Canon,
//	(2) loads the block as written AND reordered with casket.Start on loopback ports, sends the
//	    battery and requires (a) byte-identical responses (status, headers minus Date, decoded
//	    body) and identical access-log lines for every written order, (b) equality of the
//	    abstracted response with the model's prediction,
//	(3) runs the pairwise table (one witness block + request per pair of directives whose
//	    relative order the statement names) and checks the witness answers.
package c09

import (
	"bytes"
	"compress/gzip"
	"encoding/json"
	"fmt"
	"io"
	"math/rand"
	"net"
	"net/http"
	"os"
	"path/filepath"
	"reflect"
	"regexp"
	"sort"
	"strconv"
	"strings"
	"sync"
	"syscall"
	"testing"
	"time"

	"github.com/tmpim/casket"
	"verifharness/hx"
)

// ---------------------------------------------------------------- cases from TLC

type req struct {
	P     string `json:"p"`
	Creds bool   `json:"creds"`
	Gz    bool   `json:"gz"`
	M     string `json:"m"`
}

func (r req) String() string {
	s := r.M + " " + r.P
	if r.Creds {
		s += " +creds"
	}
	if r.Gz {
		s += " +gzip"
	}
	return s
}

// obs is the abstract observation the model predicts (Observe in the spec).
type obs struct {
	St   int             `json:"st"`
	Body string          `json:"body"`
	Ct   string          `json:"ct"`
	Xh   []string        `json:"xh"`
	Loc  string          `json:"loc"`
	Auth bool            `json:"auth"`
	Enc  bool            `json:"enc"`
	Tpl  bool            `json:"tpl"`
	Vary bool            `json:"vary"`
	Logs [][]interface{} `json:"logs"`
	Hits []string        `json:"hits"`
}

// UnmarshalJSON accepts the record form (pairwise table) and the tuple form Tup(o) of the spec
// (block cases): <<st, body, ct, xh, loc, auth, enc, tpl, vary, logs, hits>>.
func (o *obs) UnmarshalJSON(b []byte) error {
	type plain obs
	if len(b) > 0 && b[0] == '{' {
		return json.Unmarshal(b, (*plain)(o))
	}
	var t []json.RawMessage
	if err := json.Unmarshal(b, &t); err != nil {
		return err
	}
	if len(t) != 11 {
		return fmt.Errorf("observation tuple of length %d", len(t))
	}
	dst := []interface{}{&o.St, &o.Body, &o.Ct, &o.Xh, &o.Loc, &o.Auth, &o.Enc, &o.Tpl, &o.Vary, &o.Logs, &o.Hits}
	for i := range dst {
		if err := json.Unmarshal(t[i], dst[i]); err != nil {
			return err
		}
	}
	return nil
}

type pairRow struct {
	D1      string   `json:"d1"`
	D2      string   `json:"d2"`
	Block   []string `json:"block"`
	Req     int      `json:"req"`
	Canon   *obs     `json:"canon"`
	Swapped *obs     `json:"swapped"`
}

type tcase struct {
	Kind  string     `json:"kind"`
	Block []string   `json:"block,omitempty"`
	Perms [][]string `json:"perms,omitempty"`
	Exp   []obs      `json:"exp,omitempty"`
	Reqs  []req      `json:"reqs,omitempty"`
	Canon []string   `json:"canon,omitempty"`
	Named bool       `json:"named,omitempty"`
	Row   *pairRow   `json:"row,omitempty"`
}

// rcase is what a replay file stores: one block, one written order, one request.
type rcase struct {
	Clause string   `json:"clause"` // "perm" | "model" | "pair" | "canon"
	Block  []string `json:"block"`
	Order  []string `json:"order"`
	Req    req      `json:"req"`
	ReqIdx int      `json:"req_idx"`
	Exp    *obs     `json:"exp,omitempty"`
	Field  string   `json:"field,omitempty"`
	Pair   string   `json:"pair,omitempty"`
	Canon  []string `json:"canon,omitempty"`
}

// ---------------------------------------------------------------- fixture

const padding = "<!-- padding padding padding padding padding padding padding padding padding padding padding padding -->\n"

var fixtureFiles = map[string]string{
	"index.html":       "<html>ROOT-INDEX</html>\n" + padding,
	"err.html":         "<html>CUSTOM-ERR</html>\n" + padding,
	"pub/a.html":       "<html>PUB-A[{{.Method}}]</html>\n" + padding,
	"pub/doc.md":       "# PUB-DOC\n\nsome text some text some text some text some text some text\n",
	"pub/dir/f.txt":    "PUB-F\n",
	"pub/dir/idx.html": "<html>PUBDIR-IDX</html>\n" + padding,
	"secret/s.html":    "<html>SECRET-S[{{.Method}}]</html>\n" + padding,
	"secret/doc.md":    "# SECRET-DOC\n\nsome text some text some text some text some text some text\n",
	"secret/idx.html":  "<html>SECRET-IDX</html>\n" + padding,
}

type fixture struct {
	root    string
	backend string // host:port of the live backend
	mu      sync.Mutex
	hits    map[string][]string // X-Req -> proxied paths
	srv     *http.Server
}

func newFixture(t testing.TB) *fixture {
	dir, err := os.MkdirTemp(hx.Scratch(t), "c09site")
	if err != nil {
		t.Fatalf("fixture: %v", err)
	}
	fx := &fixture{root: filepath.Join(dir, "root"), hits: map[string][]string{}}
	old := time.Date(2020, 1, 2, 3, 4, 5, 0, time.UTC)
	for name, body := range fixtureFiles {
		p := filepath.Join(fx.root, filepath.FromSlash(name))
		if err := os.MkdirAll(filepath.Dir(p), 0o755); err != nil {
			t.Fatalf("fixture: %v", err)
		}
		if err := os.WriteFile(p, []byte(body), 0o644); err != nil {
			t.Fatalf("fixture: %v", err)
		}
		os.Chtimes(p, old, old)
	}
	for _, d := range []string{"pub/dir", "pub", "secret", ""} {
		os.Chtimes(filepath.Join(fx.root, d), old, old)
	}
	ln, err := net.Listen("tcp", "127.0.0.1:0")
	if err != nil {
		t.Fatalf("backend: %v", err)
	}
	fx.backend = ln.Addr().String()
	fx.srv = &http.Server{Handler: http.HandlerFunc(func(w http.ResponseWriter, r *http.Request) {
		id := r.Header.Get("X-Req")
		fx.mu.Lock()
		fx.hits[id] = append(fx.hits[id], r.URL.Path)
		fx.mu.Unlock()
		w.Header().Set("Content-Type", "text/plain; charset=utf-8")
		w.Header().Set("Connection", "close")
		fmt.Fprintf(w, "PROXIED %s %s\n%s", r.Method, r.URL.Path, padding)
	})}
	go fx.srv.Serve(ln)
	return fx
}

func (fx *fixture) close() { fx.srv.Close() }

func (fx *fixture) takeHits(id string) []string {
	fx.mu.Lock()
	defer fx.mu.Unlock()
	h := fx.hits[id]
	delete(fx.hits, id)
	return h
}

// the text of every pool line (ids as in DirectiveOrder.tla: LineDir)
const logFormat = `{>X-Req} {method} {uri} {rewrite_path} {status} {size}`

func lineText(id string, fx *fixture, accessLog, errLog string) string {
	switch id {
	case "root":
		return "root " + fx.root
	case "idx":
		return "index idx.html"
	case "idx2":
		return "index f.txt"
	case "tf2":
		return "tryfiles {path} /index.html"
	case "rd2":
		return "redir 302 {\n\t\tif {rewrite_path} starts_with /secret/s\n\t\t/ /landed2\n\t}"
	case "lg1":
		return "log / " + accessLog + ` "L1 ` + logFormat + `"`
	case "lg2":
		return "log /old " + accessLog + ` "L2 ` + logFormat + `"`
	case "tf":
		return "tryfiles {path} /pub/a.html"
	case "ev":
		return "expvar /secret/vars"
	case "rw1":
		return "rewrite ^/old$ /secret/s.html"
	case "rw2":
		return "rewrite ^/old$ /pub/a"
	case "ext":
		return "ext .html"
	case "gz":
		return "gzip"
	case "hd1":
		return "header / X-H one"
	case "hd2":
		return "header /secret X-H two"
	case "hd3":
		return "header / {\n\t\t-Vary\n\t\t+X-H plus\n\t}"
	case "pp":
		return "pprof"
	case "err":
		return "errors " + errLog + " {\n\t\t* err.html\n\t}"
	case "auth":
		return "basicauth /secret u p"
	case "rd":
		return "redir 302 {\n\t\tif {rewrite_path} starts_with /secret\n\t\t/ /landed\n\t}"
	case "st":
		return "status 410 /secret"
	case "mime":
		return "mime .html text/x-verif"
	case "int":
		return "internal /secret"
	case "tpl":
		return "templates / .html"
	case "px1":
		return "proxy /secret/api " + fx.backend
	case "px2":
		return "proxy /api 127.0.0.1:1"
	case "md":
		return "markdown /"
	case "br":
		return "browse /"
	}
	panic("unknown line id " + id)
}

// lines that are not part of the model (no observable effect); they are written at
// seeded positions so that their place in the file varies as well
// (the last one is a rule for a path no request of the battery asks for, whose quoted value is
// wrapped shell-style over two physical lines: what follows it is still a line of its own)
var neutral = []string{"bind 127.0.0.1", "tls off", "limits 1mb", "timeouts 1m", "header /zz-unused X-Wrapped \"first half; \\\n\t\tsecond half\""}

// plainNeutral: leave out the wrapped line (the sanity start, which must only tell whether the
// harness works at all)
var plainNeutral = false

func casketfile(order []string, fx *fixture, port int, accessLog, errLog string, rnd *rand.Rand) string {
	lines := make([]string, 0, len(order)+2)
	for _, id := range order {
		lines = append(lines, lineText(id, fx, accessLog, errLog))
	}
	for i, n := range neutral {
		if plainNeutral && i == len(neutral)-1 {
			continue
		}
		k := rnd.Intn(len(lines) + 1)
		lines = append(lines[:k], append([]string{n}, lines[k:]...)...)
	}
	var b strings.Builder
	fmt.Fprintf(&b, "127.0.0.1:%d {\n", port)
	for _, l := range lines {
		b.WriteString("\t" + l + "\n")
	}
	b.WriteString("}\n")
	return b.String()
}

// ---------------------------------------------------------------- running one written order

// full is the complete observable answer to one request.
type full struct {
	Status int         `json:"status"`
	Header http.Header `json:"header"`
	Body   string      `json:"body"` // decoded
	Logs   []string    `json:"logs"`
	Hits   []string    `json:"hits"`
	Err    string      `json:"err,omitempty"`

	volatile bool // body (hence sizes) differs from request to request
}

var reqSeq struct {
	sync.Mutex
	n int
}

func nextReqID() string {
	reqSeq.Lock()
	defer reqSeq.Unlock()
	reqSeq.n++
	return "q" + strconv.Itoa(reqSeq.n)
}

type runner struct {
	fx        *fixture
	dir       string // per-worker directory for log files
	accessLog string
	errLog    string
	rnd       *rand.Rand
}

func newRunner(t testing.TB, fx *fixture, w int) *runner {
	d := filepath.Join(filepath.Dir(fx.root), "w"+strconv.Itoa(w))
	os.MkdirAll(d, 0o755)
	return &runner{fx: fx, dir: d, accessLog: filepath.Join(d, "access.log"), errLog: filepath.Join(d, "errors.log"),
		rnd: rand.New(rand.NewSource(hx.Seed()*7919 + int64(w)))}
}

// freePort picks a port below the kernel's ephemeral range (so that neither an outgoing
// connection nor another check's ":0" listener can take it between probing and casket.Start)
// and probes it; the caller retries on "address already in use".
var portMu sync.Mutex
var portNext = 0

func freePort() (int, error) {
	portMu.Lock()
	defer portMu.Unlock()
	if portNext == 0 {
		portNext = 20000 + int(time.Now().UnixNano()%9000)
	}
	var err error
	for try := 0; try < 2000; try++ {
		portNext++
		if portNext >= 32000 {
			portNext = 20000
		}
		var ln net.Listener
		ln, err = net.Listen("tcp", "127.0.0.1:"+strconv.Itoa(portNext))
		if err == nil {
			ln.Close()
			return portNext, nil
		}
	}
	return 0, fmt.Errorf("no free port: %v", err)
}

// warm starts one instance that uses both log files of the runner. httpserver keeps one
// lumberjack writer per log file in an unsynchronised package-level map (roller.go:GetLogWriter);
// a casket process starts its instances one after the other, this harness starts 12 at a time:
// the entries are created here, sequentially, so that the concurrent starts only read the map.
func (rn *runner) warm() error {
	// (one request: a connection on which nothing was ever sent delays the graceful stop by 5 s)
	_, _, err := rn.run([]string{"root", "lg1", "err"}, []req{{P: "/", M: "GET"}}, nil)
	return err
}

var portRe = regexp.MustCompile(`127\.0\.0\.1:\d+`)

// run loads the block written in the given order and sends the requests; idx selects requests
// of the battery (nil = all).
func (rn *runner) run(order []string, battery []req, idx []int) ([]full, string, error) {
	os.Remove(rn.accessLog)
	os.Remove(rn.errLog)
	var site *hx.Site
	var err error
	var cf string
	var port int
	for try := 0; try < 10; try++ {
		port, err = freePort()
		if err != nil {
			return nil, "", err
		}
		cf = casketfile(order, rn.fx, port, rn.accessLog, rn.errLog, rn.rnd)
		site, err = hx.StartHTTP(cf, "")
		if err == nil || !strings.Contains(err.Error(), "address already in use") {
			break
		}
	}
	if err != nil {
		return nil, cf, fmt.Errorf("start failed: %v\n%s", err, cf)
	}
	stopped := false
	defer func() {
		if !stopped {
			site.Stop()
		}
	}()
	addr := "127.0.0.1:" + strconv.Itoa(port)
	rc, err := hx.DialRaw(addr)
	if err != nil {
		return nil, cf, err
	}
	if idx == nil {
		idx = make([]int, len(battery))
		for i := range idx {
			idx[i] = i
		}
	}
	out := make([]full, len(idx))
	ids := make([]string, len(idx))
	for k, i := range idx {
		q := battery[i]
		ids[k] = nextReqID()
		hdr := []string{"X-Req: " + ids[k]}
		if q.Creds {
			hdr = append(hdr, "Authorization: Basic dTpw") // u:p
		}
		if q.Gz {
			hdr = append(hdr, "Accept-Encoding: gzip")
		}
		r, err := rc.Get(q.M, q.P, addr, hdr...)
		if err != nil {
			// the server may close the connection after an error answer: retry once on a new one
			rc.Close()
			rc, err = hx.DialRaw(addr)
			if err != nil {
				return nil, cf, err
			}
			rn.fx.takeHits(ids[k])
			r, err = rc.Get(q.M, q.P, addr, hdr...)
			if err != nil {
				rc.Close()
				return nil, cf, fmt.Errorf("request %v: %v", q, err)
			}
		}
		f := full{Status: r.Status, Header: r.Header.Clone(), Err: r.Err}
		f.Header.Del("Date")
		body := r.Body
		if r.Header.Get("Content-Encoding") == "gzip" {
			zr, err := gzip.NewReader(bytes.NewReader(body))
			if err != nil {
				f.Err = "gzip: " + err.Error()
			} else if dec, err := io.ReadAll(zr); err != nil {
				f.Err = "gzip: " + err.Error()
			} else {
				body = dec
			}
		}
		f.Body = portRe.ReplaceAllString(string(body), "127.0.0.1:PORT")
		if strings.HasPrefix(f.Body, "{\n\"") && strings.Contains(f.Body, "\"memstats\":") {
			// expvar: the body changes from request to request (memory statistics)
			f.Body = "EXPVAR (body not compared)"
			f.Header.Del("Content-Length")
			f.volatile = true
		}
		for k2, vs := range f.Header {
			for j := range vs {
				vs[j] = portRe.ReplaceAllString(vs[j], "127.0.0.1:PORT")
			}
			f.Header[k2] = vs
		}
		out[k] = f
	}
	// the server closes the idle keep-alive connection first, so that no TIME_WAIT socket is
	// left on an ephemeral port (thousands of instances per minute would exhaust them)
	site.Stop() // graceful: handlers have returned, shutdown callbacks close the log files
	stopped = true
	rc.Close()
	logs := map[string][]string{}
	if b, err := os.ReadFile(rn.accessLog); err == nil {
		for _, l := range strings.Split(strings.TrimRight(string(b), "\n"), "\n") {
			f := strings.SplitN(l, " ", 3)
			if len(f) == 3 {
				logs[f[1]] = append(logs[f[1]], f[0]+" "+f[2])
			}
		}
	}
	for k := range idx {
		out[k].Logs = logs[ids[k]]
		if out[k].volatile {
			for j, l := range out[k].Logs {
				if i := strings.LastIndexByte(l, ' '); i >= 0 {
					out[k].Logs[j] = l[:i] + " SIZE"
				}
			}
		}
		out[k].Hits = rn.fx.takeHits(ids[k])
	}
	return out, cf, nil
}

// ---------------------------------------------------------------- abstraction of a real answer

var plainErrRe = regexp.MustCompile(`^\d{3} [A-Za-z' -]+\n$`)

func bodyToken(b string) string {
	switch {
	case b == "":
		return ""
	case strings.Contains(b, "CUSTOM-ERR"):
		return "CUSTOM-ERR"
	case strings.Contains(b, "ROOT-INDEX"):
		return "ROOT-INDEX"
	case strings.Contains(b, "PUBDIR-IDX"):
		return "PUBDIR-IDX"
	case strings.Contains(b, "SECRET-IDX"):
		return "SECRET-IDX"
	case strings.Contains(b, "PUB-A["):
		return "PUB-A"
	case strings.Contains(b, "SECRET-S["):
		return "SECRET-S"
	case strings.Contains(b, "c09.test"):
		return "CMDLINE"
	case strings.HasPrefix(b, "EXPVAR "):
		return "EXPVAR"
	case strings.HasPrefix(b, "PROXIED "):
		return "PROXIED"
	case strings.Contains(b, "<h1") && strings.Contains(b, "PUB-DOC"):
		return "MD-PUB-DOC"
	case strings.Contains(b, "<h1") && strings.Contains(b, "SECRET-DOC"):
		return "MD-SECRET-DOC"
	case strings.HasPrefix(b, "# PUB-DOC"):
		return "PUB-DOC"
	case strings.HasPrefix(b, "# SECRET-DOC"):
		return "SECRET-DOC"
	case strings.HasPrefix(b, "PUB-F"):
		return "PUB-F"
	case strings.HasPrefix(b, `<a href="/landed`):
		return "REDIR"
	case plainErrRe.MatchString(b):
		return "plain"
	case strings.Contains(b, "<title>") && strings.Contains(b, "<tbody>"):
		return "LIST"
	}
	if len(b) > 60 {
		b = b[:60]
	}
	return "?:" + b
}

func ctClass(ct string) string {
	switch {
	case ct == "":
		return ""
	case strings.HasPrefix(ct, "text/x-verif"):
		return "text/x-verif"
	case strings.HasPrefix(ct, "text/html"):
		return "text/html"
	case strings.HasPrefix(ct, "text/plain"):
		return "text/plain"
	}
	return "other"
}

var logRe = regexp.MustCompile(`^(L\d) \S+ \S+ \S+ (\d+) \S+$`)

func abstract(f full) obs {
	o := obs{St: f.Status, Body: bodyToken(f.Body), Ct: ctClass(f.Header.Get("Content-Type")), Xh: f.Header.Values("X-H"),
		Loc: f.Header.Get("Location"), Auth: f.Header.Get("Www-Authenticate") != "", Enc: f.Header.Get("Content-Encoding") == "gzip",
		Tpl: strings.Contains(f.Body, "[GET]") || strings.Contains(f.Body, "[OPTIONS]"), Hits: f.Hits,
		Vary: strings.Contains(strings.Join(f.Header.Values("Vary"), ","), "Accept-Encoding")}
	for _, l := range f.Logs {
		if m := logRe.FindStringSubmatch(l); m != nil {
			n, _ := strconv.Atoi(m[2])
			o.Logs = append(o.Logs, []interface{}{m[1], n})
		} else {
			o.Logs = append(o.Logs, []interface{}{"?" + l, 0})
		}
	}
	return o
}

func logsString(l [][]interface{}) string {
	var p []string
	for _, e := range l {
		if len(e) == 2 {
			p = append(p, fmt.Sprintf("%v %v", e[0], toInt(e[1])))
		}
	}
	return strings.Join(p, ";")
}

func toInt(v interface{}) int {
	switch x := v.(type) {
	case float64:
		return int(x)
	case int:
		return x
	}
	return -1
}

// diffObs returns the names of the fields in which the observation differs from the prediction.
func diffObs(exp, got obs) []string {
	var d []string
	if exp.St != got.St {
		d = append(d, "status")
	}
	if exp.Body != got.Body {
		d = append(d, "body")
	}
	if exp.Ct != "any" && exp.Ct != got.Ct {
		d = append(d, "content-type")
	}
	if strings.Join(exp.Xh, ",") != strings.Join(got.Xh, ",") {
		d = append(d, "x-h")
	}
	if exp.Loc != got.Loc {
		d = append(d, "location")
	}
	if exp.Auth != got.Auth {
		d = append(d, "www-authenticate")
	}
	if exp.Enc != got.Enc {
		d = append(d, "content-encoding")
	}
	if exp.Tpl != got.Tpl {
		d = append(d, "template-executed")
	}
	if exp.Vary != got.Vary {
		d = append(d, "vary")
	}
	if logsString(exp.Logs) != logsString(got.Logs) {
		d = append(d, "access-log")
	}
	if strings.Join(exp.Hits, ",") != strings.Join(got.Hits, ",") {
		d = append(d, "backend-hits")
	}
	return d
}

// diffFull names the parts in which two complete answers differ.
func diffFull(a, b full) []string {
	var d []string
	if a.Status != b.Status {
		d = append(d, "status")
	}
	if !reflect.DeepEqual(a.Header, b.Header) {
		ks := map[string]bool{}
		for k := range a.Header {
			ks[k] = true
		}
		for k := range b.Header {
			ks[k] = true
		}
		for _, k := range hx.SortedKeys(ks) {
			if !reflect.DeepEqual(a.Header[k], b.Header[k]) {
				d = append(d, "header:"+k)
			}
		}
	}
	if a.Body != b.Body {
		d = append(d, "body")
	}
	if a.Err != b.Err {
		d = append(d, "transport")
	}
	if strings.Join(a.Logs, "\n") != strings.Join(b.Logs, "\n") {
		d = append(d, "access-log")
	}
	if strings.Join(a.Hits, ",") != strings.Join(b.Hits, ",") {
		d = append(d, "backend-hits")
	}
	return d
}

// ---------------------------------------------------------------- the checks

type checker struct {
	res     *hx.Result
	fx      *fixture
	battery []req
	mu      sync.Mutex
	infra   error
	warmed  bool // the sanity start of a plain block has succeeded
	insts   int
	reqs    int
	self    int // selftest: corrupted expectations noticed
	// drift: pool lines whose one-line block (root + the line, nothing to reorder) already answers
	// differently from the model - the model of that middleware is out of date (somebody changed
	// what the middleware does); a mismatch in a block containing such a line says nothing about
	// ORDER and is reported as infrastructure trouble, not as a violation
	drift map[string]string
}

// drifted returns the drift note of the first line of the block whose own model is stale.
func (c *checker) drifted(block []string) string {
	c.mu.Lock()
	defer c.mu.Unlock()
	for _, l := range block {
		if n, ok := c.drift[l]; ok {
			return n
		}
	}
	return ""
}

// findDrift runs every one-line block in its only order and compares with the model.
func (c *checker) findDrift(rn *runner, blocks []*tcase) {
	c.drift = map[string]string{}
	for _, tc := range blocks {
		if len(tc.Block) > 2 {
			continue
		}
		got, _, err := rn.run(tc.Block, c.battery, nil)
		if err != nil {
			c.setInfra(err)
			return
		}
		for i := range got {
			if d := diffObs(tc.Exp[i], abstract(got[i])); len(d) > 0 {
				// once more on a fresh instance
				again, _, err := rn.run(tc.Block, c.battery, []int{i})
				if err != nil || len(diffObs(tc.Exp[i], abstract(again[0]))) == 0 {
					continue
				}
				c.drift[tc.Block[len(tc.Block)-1]] = fmt.Sprintf("block %v alone answers %v with %+v, the model says %+v (%s)",
					tc.Block, c.battery[i], abstract(again[0]), tc.Exp[i], strings.Join(d, ", "))
				break
			}
		}
	}
}

func (c *checker) setInfra(err error) {
	if c.warmed && strings.HasPrefix(err.Error(), "start failed") && !strings.Contains(err.Error(), "address already in use") {
		// every block TLC emits loads on a tree that honours the documented directive order (the
		// sanity start has succeeded): a generated block that does not load - in whatever order it
		// was written - is a finding about the code, not trouble of the harness
		first := portRe.ReplaceAllString(strings.SplitN(err.Error(), "\n", 2)[0], "127.0.0.1:PORT")
		first = regexp.MustCompile(`/tmp/[^ ]*`).ReplaceAllString(first, "TMP")
		c.res.Add(hx.Mismatch{Key: "C09/load-failure/" + first, What: "a server block generated from the specification does not load: " + err.Error()})
		return
	}
	c.mu.Lock()
	if c.infra == nil {
		c.infra = err
	}
	c.mu.Unlock()
}

// refusedLoads: a server's life contains refused loads (a reload of a file with a typo); whatever
// they leave behind in the process must not change the order in which later loads execute
// directives. Every run - and every replay - begins with a few of them.
func refusedLoads() error {
	for _, typo := range []string{"basicaut /secret u p", "statu 410 /secret", "redi /a /b", "heade / X-H one", "gzi"} {
		if _, err := hx.StartHTTP("127.0.0.1:1 {\n\t"+typo+"\n}\n", ""); err == nil {
			return fmt.Errorf("a Casketfile with the misspelt directive %q was accepted", typo)
		}
	}
	return nil
}

func ids(b []string) string { return strings.Join(b, ",") }

func sameOrder(a, b []string) bool { return ids(a) == ids(b) }

// checkBlock runs the block in its documented order and in the given reorderings.
func (c *checker) checkBlock(rn *runner, tc *tcase, orders [][]string, selftest bool) {
	base, cfa, err := rn.run(tc.Block, c.battery, nil)
	if err != nil {
		if strings.HasPrefix(err.Error(), "start failed") && !strings.Contains(err.Error(), "address already in use") {
			// the block does not load as documented: if one of its reorderings does, the outcome
			// depends on the written order
			for _, ord := range orders {
				if sameOrder(ord, tc.Block) {
					continue
				}
				if _, _, e2 := rn.run(ord, c.battery, []int{0}); e2 == nil {
					if _, _, e3 := rn.run(tc.Block, c.battery, []int{0}); e3 != nil {
						c.res.Add(hx.Mismatch{
							Key:      fmt.Sprintf("C09/perm/block=%s/order=%s/does-not-load", ids(tc.Block), ids(tc.Block)),
							What:     fmt.Sprintf("block %v does not load when written in the documented order (%v) but loads when written as %v", tc.Block, strings.SplitN(e3.Error(), "\n", 2)[0], ord),
							Case:     rcase{Clause: "perm", Block: tc.Block, Order: tc.Block, Req: c.battery[0], ReqIdx: 0},
							Observed: map[string]interface{}{"casketfile": portRe.ReplaceAllString(cfa, "127.0.0.1:PORT"), "error": strings.SplitN(e3.Error(), "\n", 2)[0]}})
						return
					}
				}
			}
		}
		c.setInfra(err)
		return
	}
	c.mu.Lock()
	c.insts++
	c.reqs += len(base)
	c.mu.Unlock()
	exp := tc.Exp
	if selftest {
		// corrupt one expected field: the binding must notice
		exp = append([]obs(nil), tc.Exp...)
		exp[0].St += 1
	}
	// (b) the documented order predicts the answers
	for i := range base {
		if d := diffObs(exp[i], abstract(base[i])); len(d) > 0 {
			if selftest {
				c.mu.Lock()
				c.self++
				c.mu.Unlock()
				continue
			}
			c.confirmModel(rn, tc.Block, tc.Block, i, exp[i], d[0])
		}
	}
	// (a) every reordering answers exactly like the block as documented
	for _, ord := range orders {
		if sameOrder(ord, tc.Block) {
			continue
		}
		got, cfb, err := rn.run(ord, c.battery, nil)
		if err != nil {
			if strings.HasPrefix(err.Error(), "start failed") && !strings.Contains(err.Error(), "address already in use") {
				// the documented order loaded: a reordering of the same lines must load too
				if _, _, err2 := rn.run(ord, c.battery, []int{0}); err2 != nil {
					if _, _, err3 := rn.run(tc.Block, c.battery, []int{0}); err3 == nil {
						c.res.Add(hx.Mismatch{
							Key:      fmt.Sprintf("C09/perm/block=%s/order=%s/does-not-load", ids(tc.Block), ids(ord)),
							What:     fmt.Sprintf("block %v loads when written in the documented order but not when written as %v: %v", tc.Block, ord, strings.SplitN(err2.Error(), "\n", 2)[0]),
							Case:     rcase{Clause: "perm", Block: tc.Block, Order: ord, Req: c.battery[0], ReqIdx: 0},
							Observed: map[string]interface{}{"casketfile": portRe.ReplaceAllString(cfb, "127.0.0.1:PORT"), "error": strings.SplitN(err2.Error(), "\n", 2)[0]}})
						continue
					}
				}
			}
			c.setInfra(err)
			return
		}
		c.mu.Lock()
		c.insts++
		c.reqs += len(got)
		c.mu.Unlock()
		for i := range got {
			if d := diffFull(base[i], got[i]); len(d) > 0 {
				c.confirmPerm(rn, tc.Block, ord, i, d[0])
			}
			if d := diffObs(exp[i], abstract(got[i])); len(d) > 0 && !selftest {
				c.confirmModel(rn, tc.Block, ord, i, exp[i], d[0])
			}
		}
	}
}

func reqKey(q req) string { return strings.ReplaceAll(q.String(), " ", "_") }

// confirmPerm re-runs one request against fresh instances of both written orders.
func (c *checker) confirmPerm(rn *runner, block, order []string, i int, first string) bool {
	a, cfa, err := rn.run(block, c.battery, []int{i})
	if err != nil {
		c.setInfra(err)
		return false
	}
	b, cfb, err := rn.run(order, c.battery, []int{i})
	if err != nil {
		c.setInfra(err)
		return false
	}
	d := diffFull(a[0], b[0])
	if len(d) == 0 {
		return false
	}
	q := c.battery[i]
	c.res.Add(hx.Mismatch{
		Key:      fmt.Sprintf("C09/perm/block=%s/order=%s/req=%s/%s", ids(block), ids(order), reqKey(q), d[0]),
		What:     fmt.Sprintf("reordering the lines of a server block changes the answer to %v (%s differs): block %v written as %v", q, strings.Join(d, ", "), block, order),
		Case:     rcase{Clause: "perm", Block: block, Order: order, Req: q, ReqIdx: i},
		Expected: map[string]interface{}{"casketfile": portRe.ReplaceAllString(cfa, "127.0.0.1:PORT"), "answer": a[0]},
		Observed: map[string]interface{}{"casketfile": portRe.ReplaceAllString(cfb, "127.0.0.1:PORT"), "answer": b[0]}})
	return true
}

// confirmModel re-runs one request against a fresh instance and compares with the prediction.
func (c *checker) confirmModel(rn *runner, block, order []string, i int, exp obs, first string) bool {
	a, cf, err := rn.run(order, c.battery, []int{i})
	if err != nil {
		c.setInfra(err)
		return false
	}
	got := abstract(a[0])
	d := diffObs(exp, got)
	if len(d) == 0 {
		return false
	}
	q := c.battery[i]
	if note := c.drifted(block); note != "" {
		c.setInfra(fmt.Errorf("the model of a middleware is out of date, not an ordering verdict: %s", note))
		return false
	}
	c.res.Add(hx.Mismatch{
		Key:      fmt.Sprintf("C09/model/block=%s/order=%s/req=%s/%s", ids(block), ids(order), reqKey(q), d[0]),
		What:     fmt.Sprintf("answer to %v is not what the documented directive order yields (%s differs): block %v written as %v", q, strings.Join(d, ", "), block, order),
		Case:     rcase{Clause: "model", Block: block, Order: order, Req: q, ReqIdx: i, Exp: &exp},
		Expected: exp, Observed: map[string]interface{}{"abstract": got, "casketfile": portRe.ReplaceAllString(cf, "127.0.0.1:PORT"), "answer": a[0]}})
	return true
}

// standardDirectives returns the registered directive list restricted to installed plugins.
func standardDirectives() []string {
	var out []string
	for _, d := range casket.ValidDirectives("http") {
		if strings.HasPrefix(d, "verif") {
			continue
		}
		if _, err := casket.DirectiveAction("http", d); err == nil {
			out = append(out, d)
		}
	}
	return out
}

func (c *checker) checkCanon(canon []string) {
	got := standardDirectives()
	if ids(got) == ids(canon) {
		c.res.Count("canon")
		return
	}
	// name the first displaced directive
	k := 0
	for k < len(got) && k < len(canon) && got[k] == canon[k] {
		k++
	}
	at := "end"
	if k < len(canon) {
		at = canon[k]
	}
	c.res.Count("canon")
	c.res.Add(hx.Mismatch{Key: "C09/canon/first-difference-at=" + at,
		What:     fmt.Sprintf("the registered order of the standard directives differs from the documented one at position %d (documented %q)", k+1, at),
		Case:     rcase{Clause: "canon", Canon: canon},
		Expected: canon, Observed: got})
}

// checkPair runs the witness of one row of the pairwise table.
func (c *checker) checkPair(rn *runner, tc *tcase) {
	row := tc.Row
	if row.Req == 0 {
		return
	}
	i := row.Req - 1
	a, cf, err := rn.run(row.Block, c.battery, []int{i})
	if err != nil {
		c.setInfra(err)
		return
	}
	c.mu.Lock()
	c.insts++
	c.reqs++
	c.mu.Unlock()
	got := abstract(a[0])
	d := diffObs(*row.Canon, got)
	c.res.Count("pair:" + row.D1 + "<" + row.D2)
	if len(d) == 0 {
		return
	}
	// second run on a fresh instance
	a2, _, err := rn.run(row.Block, c.battery, []int{i})
	if err != nil {
		c.setInfra(err)
		return
	}
	if len(diffObs(*row.Canon, abstract(a2[0]))) == 0 {
		return
	}
	if note := c.drifted(row.Block); note != "" {
		c.setInfra(fmt.Errorf("the model of a middleware is out of date, not an ordering verdict: %s", note))
		return
	}
	like := ""
	if len(diffObs(*row.Swapped, got)) == 0 {
		like = " - the answer is the one the model predicts when " + row.D2 + " acts before " + row.D1
	}
	q := c.battery[i]
	c.res.Add(hx.Mismatch{
		Key:      fmt.Sprintf("C09/pair/%s-before-%s/block=%s/req=%s/%s", row.D1, row.D2, ids(row.Block), reqKey(q), d[0]),
		What:     fmt.Sprintf("%s must act before/around %s: answer to %v with block %v differs from the documented order in %s%s", row.D1, row.D2, q, row.Block, strings.Join(d, ", "), like),
		Case:     rcase{Clause: "pair", Block: row.Block, Order: row.Block, Req: q, ReqIdx: i, Exp: row.Canon, Pair: row.D1 + "<" + row.D2},
		Expected: row.Canon, Observed: map[string]interface{}{"abstract": got, "casketfile": portRe.ReplaceAllString(cf, "127.0.0.1:PORT"), "answer": a[0]}})
}

// ---------------------------------------------------------------- test

// lineDir maps a pool line to its directive (LineDir in the spec); only lines that share a
// directive matter here.
func lineDir(id string) string {
	switch id {
	case "idx", "idx2":
		return "index"
	case "tf", "tf2":
		return "tryfiles"
	case "rd", "rd2":
		return "redir"
	case "lg1", "lg2":
		return "log"
	case "rw1", "rw2":
		return "rewrite"
	case "hd1", "hd2", "hd3":
		return "header"
	case "px1", "px2":
		return "proxy"
	}
	return id
}

// admissible rearranges order so that lines of one directive keep the relative order they
// have in block (the positions a directive occupies stay the same).
func admissible(block, order []string) []string {
	byDir := map[string][]string{}
	for _, l := range block {
		byDir[lineDir(l)] = append(byDir[lineDir(l)], l)
	}
	out := make([]string, len(order))
	for i, l := range order {
		d := lineDir(l)
		out[i] = byDir[d][0]
		byDir[d] = byDir[d][1:]
	}
	return out
}

func pickOrders(tc *tcase, rnd *rand.Rand, n int) [][]string {
	// always the reverse of the documented order (same-directive lines put back in their
	// relative order), then seeded picks from the reorderings TLC enumerated
	rev := make([]string, len(tc.Block))
	for i, l := range tc.Block {
		rev[len(rev)-1-i] = l
	}
	out := [][]string{admissible(tc.Block, rev)}
	for _, k := range rnd.Perm(len(tc.Perms)) {
		if len(out) >= n {
			break
		}
		p := tc.Perms[k]
		dup := sameOrder(p, tc.Block)
		for _, o := range out {
			dup = dup || sameOrder(o, p)
		}
		if !dup {
			out = append(out, p)
		}
	}
	return out
}

func TestC09(t *testing.T) {
	hx.Quiet()
	res := hx.NewResult("TestC09", "one case = one server block (root + <=MaxLines lines of the 20-line pool of DirectiveOrder.tla) loaded with casket.Start as documented and in reorderings that keep same-directive lines in order, probed with 30 requests; verdicts: identical full answers for every written order, answers equal to the model's prediction for the documented order, registered directive list = Canon; non-trivial = block with >= 2 pool lines")
	defer res.Write(t)

	// every instance makes certmagic log two lines through a logger bound to fd 2 at init time,
	// and a gzip site gets a default errors handler that logs to stderr: point fd 2 at a file in
	// the scratch directory while the instances run (kept with ./check --keep; a panic trace
	// ends up there too; VERIF_VERBOSE=1 leaves fd 2 alone)
	if os.Getenv("VERIF_VERBOSE") == "" {
		if dn, err := os.Create(filepath.Join(hx.Scratch(t), "c09_stderr.log")); err == nil {
			if saved, err := syscall.Dup(2); err == nil {
				syscall.Dup2(int(dn.Fd()), 2)
				defer func() { syscall.Dup2(saved, 2); syscall.Close(saved); dn.Close() }()
			}
		}
	}
	fx := newFixture(t)
	defer fx.close()
	c := &checker{res: res, fx: fx}

	if rp, ok := hx.LoadReplay[rcase](t); ok {
		if err := refusedLoads(); err != nil {
			res.Infra = err.Error()
			return
		}
		replayOne(t, c, &rp)
		return
	}

	var blocks []*tcase
	var pairs []*tcase
	seen := map[string]bool{}
	var canon []string
	load := func(line []byte) error {
		var tc tcase
		if err := json.Unmarshal(line, &tc); err != nil {
			return err
		}
		switch tc.Kind {
		case "battery":
			c.battery, canon = tc.Reqs, tc.Canon
		case "pair":
			k := "pair:" + tc.Row.D1 + "<" + tc.Row.D2
			if !seen[k] {
				seen[k] = true
				pairs = append(pairs, &tc)
			}
		case "block":
			k := ids(tc.Block)
			if !seen[k] {
				seen[k] = true
				blocks = append(blocks, &tc)
			}
		}
		return nil
	}
	hx.EachCase(t, "DirectiveOrder", load)
	nmain := len(blocks)
	if hx.CasesPath("DirectiveOrderTwins") != "" { // the second pool (more same-directive lines)
		hx.EachCase(t, "DirectiveOrderTwins", load)
	}
	res.AddExtra("blocks_from_tlc_twins_pool", len(blocks)-nmain)
	if len(c.battery) == 0 || len(canon) == 0 || len(blocks) == 0 {
		res.Infra = "TLC output has no battery / canon / blocks"
		return
	}
	for _, b := range blocks {
		if len(b.Exp) != len(c.battery) {
			res.Infra = "block case without a full prediction table"
			return
		}
	}
	sort.Slice(blocks, func(i, j int) bool {
		if len(blocks[i].Block) != len(blocks[j].Block) {
			return len(blocks[i].Block) < len(blocks[j].Block)
		}
		return ids(blocks[i].Block) < ids(blocks[j].Block)
	})

	// (1) the registered order
	if hx.SelfTest() {
		bad := append([]string(nil), canon...)
		bad[8], bad[10] = bad[10], bad[8]
		before := res.MismatchCount()
		c.checkCanon(bad)
		if res.MismatchCount() == before {
			res.Infra = "selftest: corrupted Canon was not noticed"
		}
		res.Mismatches = nil
	} else {
		c.checkCanon(canon)
	}

	// which blocks, how many written orders each
	rnd := hx.Rand()
	// quick: every block of <= 3 pool lines, reverse order + 1 seeded order
	// thorough: every block of <= 4 pool lines, reverse order + 3 seeded orders
	todo := blocks
	nOrders := 2
	if hx.Thorough() {
		nOrders = 4
	}
	if hx.SelfTest() {
		todo = todo[:40]
	}
	res.AddExtra("blocks_from_tlc", len(blocks))
	res.AddExtra("blocks_replayed", len(todo))

	workers := 12
	runners := make([]*runner, 0, workers+1)
	for w := 0; w <= workers; w++ {
		rn := newRunner(t, fx, w)
		plainNeutral = true
		err := rn.warm()
		plainNeutral = false
		if err != nil {
			res.Infra = err.Error()
			return
		}
		runners = append(runners, rn)
	}
	c.warmed = true
	if err := refusedLoads(); err != nil {
		res.Infra = err.Error()
		return
	}
	if !hx.SelfTest() {
		plainNeutral = true // also a sanity phase: is the model of each single line still the code's?
		c.findDrift(runners[workers], blocks)
		plainNeutral = false
		res.AddExtra("lines_with_stale_model", len(c.drift))
	}

	type job struct {
		tc     *tcase
		orders [][]string
		pair   bool
	}
	jobs := make(chan job)
	var wg sync.WaitGroup
	for w := 0; w < workers; w++ {
		wg.Add(1)
		rn := runners[w]
		go func() {
			defer wg.Done()
			for j := range jobs {
				if j.pair {
					c.checkPair(rn, j.tc)
					continue
				}
				c.checkBlock(rn, j.tc, j.orders, hx.SelfTest())
				nt := ""
				if len(j.tc.Block) >= 3 {
					nt = ids(j.tc.Block)
				}
				res.Count(nt)
			}
		}()
	}
	unobservable := []string{}
	if !hx.SelfTest() {
		for _, p := range pairs {
			if p.Row.Req == 0 {
				unobservable = append(unobservable, p.Row.D1+"<"+p.Row.D2)
				continue
			}
			jobs <- job{tc: p, pair: true}
		}
	}
	for k, b := range todo {
		ords := pickOrders(b, rnd, nOrders)
		for _, o := range ords {
			if len(o) != len(b.Block) || !sameOrder(admissible(b.Block, o), o) {
				c.setInfra(fmt.Errorf("inadmissible reordering %v of block %v", o, b.Block))
			}
		}
		jobs <- job{tc: b, orders: ords}
		if k%211 == 7 && len(ords) > 0 {
			rr := rand.New(rand.NewSource(1))
			res.Sample(map[string]interface{}{"block": b.Block, "written_as": ords[0],
				"casketfile":               casketfile(ords[0], &fixture{root: "ROOT", backend: "BACKEND"}, 0, "ACCESSLOG", "ERRLOG", rr),
				"predicted_first_requests": b.Exp[:3]})
		}
	}
	close(jobs)
	wg.Wait()

	res.AddExtra("instances_started", c.insts)
	res.AddExtra("requests_sent", c.reqs)
	res.AddExtra("pairs_checked", len(pairs)-len(unobservable))
	res.AddExtra("named_pairs_not_observable_in_model", unobservable)
	if c.infra != nil {
		res.Infra = c.infra.Error()
	}
	if hx.SelfTest() {
		if c.self == 0 {
			res.Infra = "selftest: corrupted expectation was not noticed"
		}
		res.AddExtra("selftest_corruptions_noticed", c.self)
	}
	res.Replayed = res.Evaluations
}

func replayOne(t *testing.T, c *checker, rc *rcase) {
	rn := newRunner(t, c.fx, 0)
	c.res.Count("replay")
	c.res.Count("replay2")
	switch rc.Clause {
	case "canon":
		c.checkCanon(rc.Canon)
	case "perm":
		c.battery = []req{rc.Req}
		c.confirmPerm(rn, rc.Block, rc.Order, 0, "")
	case "model", "pair":
		c.battery = []req{rc.Req}
		if rc.Exp == nil {
			t.Fatalf("replay file has no expectation")
		}
		c.confirmModel(rn, rc.Block, rc.Order, 0, *rc.Exp, "")
	default:
		t.Fatalf("unknown clause %q in replay file", rc.Clause)
	}
	if c.infra != nil {
		c.res.Infra = c.infra.Error()
	}
}

// TestAdmissible pins the helper that builds the reverse order.
func TestAdmissible(t *testing.T) {
	got := admissible([]string{"root", "hd2", "hd1", "auth"}, []string{"auth", "hd1", "hd2", "root"})
	if ids(got) != "auth,hd2,hd1,root" {
		t.Fatalf("got %v", got)
	}
}
