// C01 extension - how site addresses become listeners: replay of the configurations TLC
// enumerated from specs/ListenerGroups.tla (and its wrappers) against real casket instances.
//
// One case = one set of server blocks (keys as written, the bind line) plus the -host / -port
// flags, with the outcome the specification's declarative part computes from the SET of blocks:
// refused by InspectServerBlocks (which keys are duplicates), failing at Listen (a wildcard and a
// specific listener on one port), or serving - then the listeners (resolved bind address + port),
// the sites of each, and a routing table per listener.  The harness writes the blocks in several
// orders, loads each rendering with casket.Start (real loopback ports substituted for P1/P2/HP/PD,
// httpserver.Port/Host and certmagic.HTTPPort set for the duration of the Start call), compares
// the refusal, the listening sockets of the process (SO_ACCEPTCONN), asks every listener with
// every Host/path (raw HTTP/1.1) and compares which site answered.
package cx01listeners

import (
	"encoding/json"
	"fmt"
	"math/rand"
	"net"
	"net/http"
	"os"
	"path/filepath"
	"runtime"
	"sort"
	"strconv"
	"strings"
	"sync"
	"sync/atomic"
	"syscall"
	"testing"
	"time"

	"github.com/caddyserver/certmagic"
	"github.com/tmpim/casket"
	"github.com/tmpim/casket/caskethttp/httpserver"
	"verifharness/hx"
)

// ---------------------------------------------------------------- test-only directive

// veriflg answers every request of its site with 204 and tells which site it is: the key as
// written (Addr.Original), host and port of the site address after the defaults were applied,
// and the listen host. It is bound to its site through httpserver.GetConfig(c) - the same
// key -> config lookup every directive of a multi-key block goes through.
func init() {
	httpserver.RegisterDevDirective("veriflg", "")
	casket.RegisterPlugin("veriflg", casket.Plugin{
		ServerType: "http",
		Action: func(c *casket.Controller) error {
			for c.Next() {
			}
			cfg := httpserver.GetConfig(c)
			cfg.AddMiddleware(func(next httpserver.Handler) httpserver.Handler {
				return httpserver.HandlerFunc(func(w http.ResponseWriter, r *http.Request) (int, error) {
					w.Header().Set("X-Key", cfg.Addr.Original)
					w.Header().Set("X-Addr-Host", cfg.Addr.Host)
					w.Header().Set("X-Addr-Port", cfg.Addr.Port)
					w.Header().Set("X-Listen", cfg.ListenHost)
					w.WriteHeader(204)
					return 0, nil
				})
			})
			return nil
		},
	})
}

// ---------------------------------------------------------------- cases

type token struct {
	Sch  string `json:"sch"`
	Host string `json:"host"`
	Port string `json:"port"`
	Path string `json:"path"`
}

type block struct {
	Bind string  `json:"bind"`
	Keys []token `json:"keys"`
}

type siteRec struct {
	Blk  int    `json:"blk"` // 1-based index into Blocks
	W    token  `json:"w"`
	Key  string `json:"key"`  // normalized key (abstract ports)
	Host string `json:"host"` // host of the site address after defaults
	Port string `json:"port"` // abstract port after defaults
}

type listener struct {
	IP      string  `json:"ip"` // "" = wildcard
	Port    string  `json:"port"`
	Members []int   `json:"members"`
	Table   [][]int `json:"table"` // [host][path] -> site number, 0 = none
	Open    [][]int `json:"open"`  // [host][path] = 1: not asserted (the readings of the -host default differ); empty without -host
}

type lcase struct {
	Clause    string     `json:"clause"`
	FlagHost  string     `json:"flaghost"`
	FlagPort  string     `json:"flagport"`
	Blocks    []block    `json:"blocks"`
	Sites     []siteRec  `json:"sites"`
	Outcome   string     `json:"outcome"`
	DupKeys   []string   `json:"dupkeys"`
	DupAddrs  [][]string `json:"dupaddrs"`
	Listeners []listener `json:"listeners"`
	ReqHosts  []string   `json:"reqhosts"`
	ReqPaths  []string   `json:"reqpaths"`
	// replay only: the rendering that failed
	Order *order `json:"order,omitempty"`
}

// order is one way of writing the blocks down.
type order struct {
	Blocks []int   `json:"blocks"` // permutation of block indices (0-based)
	Keys   [][]int `json:"keys"`   // per block (in original numbering): permutation of its keys
	Comma  bool    `json:"comma"`  // keys separated by ", " instead of " "
	BindAt int     `json:"bind_at"`
	Seed   int64   `json:"seed"` // request spellings
}

func (t token) render(pm map[string]int) string {
	s := ""
	if t.Sch != "" {
		s = t.Sch + "://"
	}
	s += t.Host
	if t.Port != "" {
		s += ":" + strconv.Itoa(pm[t.Port])
	}
	return s + t.Path
}

func (t token) abstract() string {
	s := ""
	if t.Sch != "" {
		s = t.Sch + "://"
	}
	s += t.Host
	if t.Port != "" {
		s += ":" + t.Port
	}
	return s + t.Path
}

// subst replaces the abstract port names in a key string of the model by the real ports.
func subst(s string, pm map[string]int) string {
	for _, n := range []string{"P1", "P2", "HP", "PD"} {
		s = strings.ReplaceAll(s, ":"+n, ":"+strconv.Itoa(pm[n]))
	}
	return s
}

// configKey is the canonical, run-independent name of a configuration.
func configKey(c *lcase) string {
	var bs []string
	for _, b := range c.Blocks {
		var ks []string
		for _, k := range b.Keys {
			ks = append(ks, k.abstract())
		}
		sort.Strings(ks)
		s := strings.Join(ks, ",")
		if b.Bind != "" {
			s += "|bind=" + b.Bind
		}
		bs = append(bs, "{"+s+"}")
	}
	sort.Strings(bs)
	return fmt.Sprintf("%s/port=%s,host=%s", strings.Join(bs, ""), c.FlagPort, c.FlagHost)
}

func identityOrder(c *lcase) *order {
	o := &order{Seed: 1}
	for i, b := range c.Blocks {
		o.Blocks = append(o.Blocks, i)
		ks := make([]int, len(b.Keys))
		for k := range ks {
			ks[k] = k
		}
		o.Keys = append(o.Keys, ks)
	}
	return o
}

func randomOrder(c *lcase, rnd *rand.Rand, reverse bool) *order {
	o := &order{Comma: rnd.Intn(2) == 0, BindAt: rnd.Intn(4), Seed: rnd.Int63()}
	n := len(c.Blocks)
	if reverse {
		for i := n - 1; i >= 0; i-- {
			o.Blocks = append(o.Blocks, i)
		}
	} else {
		o.Blocks = rnd.Perm(n)
	}
	for _, b := range c.Blocks {
		m := len(b.Keys)
		ks := make([]int, m)
		for k := range ks {
			if reverse {
				ks[k] = m - 1 - k
			} else {
				ks[k] = k
			}
		}
		if !reverse {
			rnd.Shuffle(m, func(a, b int) { ks[a], ks[b] = ks[b], ks[a] })
		}
		o.Keys = append(o.Keys, ks)
	}
	return o
}

func casketfile(c *lcase, o *order, pm map[string]int) string {
	var sb strings.Builder
	for _, bi := range o.Blocks {
		b := c.Blocks[bi]
		var ks []string
		for _, ki := range o.Keys[bi] {
			ks = append(ks, b.Keys[ki].render(pm))
		}
		sep := " "
		if o.Comma {
			sep = ", "
		}
		sb.WriteString(strings.Join(ks, sep) + " {\n")
		lines := []string{"tls off", fmt.Sprintf("header / X-Site b%d", bi+1), "veriflg"}
		if b.Bind != "" {
			at := o.BindAt % (len(lines) + 1)
			lines = append(lines[:at], append([]string{"bind " + b.Bind}, lines[at:]...)...)
		}
		for _, l := range lines {
			sb.WriteString("\t" + l + "\n")
		}
		sb.WriteString("}\n")
	}
	return sb.String()
}

// ---------------------------------------------------------------- ports and sockets

var portNext = uint32(os.Getpid()*131) + uint32(time.Now().UnixNano()/1000)

// freshPort returns a port below the ephemeral range on which nothing listens on any address.
func freshPort() int {
	for i := 0; i < 40000; i++ {
		p := 12000 + int(atomic.AddUint32(&portNext, 1))%19000
		if hx.IsQuietPort(p) || p == 2015 {
			continue
		}
		ln, err := net.Listen("tcp", ":"+strconv.Itoa(p))
		if err != nil {
			continue
		}
		ln.Close()
		return p
	}
	panic("no free port")
}

func freshPorts() map[string]int {
	return map[string]int{"P1": freshPort(), "P2": freshPort(), "HP": freshPort(), "PD": freshPort()}
}

// listeningOn returns the process's own listening TCP sockets (SO_ACCEPTCONN) whose port is one
// of the given ones, as "ip:port" with an empty ip for the wildcard address.
func listeningOn(ports map[int]bool) ([]string, error) {
	fds, err := os.ReadDir("/proc/self/fd")
	if err != nil {
		return nil, err
	}
	var out []string
	for _, e := range fds {
		fd, err := strconv.Atoi(e.Name())
		if err != nil {
			continue
		}
		acc, err := syscall.GetsockoptInt(fd, syscall.SOL_SOCKET, syscall.SO_ACCEPTCONN)
		if err != nil || acc == 0 {
			continue
		}
		sa, err := syscall.Getsockname(fd)
		if err != nil {
			continue
		}
		var ip net.IP
		port := 0
		switch a := sa.(type) {
		case *syscall.SockaddrInet4:
			ip, port = net.IP(a.Addr[:]), a.Port
		case *syscall.SockaddrInet6:
			ip, port = net.IP(a.Addr[:]), a.Port
		default:
			continue
		}
		if !ports[port] {
			continue
		}
		s := ip.String()
		if ip.IsUnspecified() {
			s = ""
		} else if v4 := ip.To4(); v4 != nil {
			s = v4.String()
		}
		out = append(out, s+":"+strconv.Itoa(port))
	}
	sort.Strings(out)
	return out, nil
}

// ---------------------------------------------------------------- one rendering

var startMu sync.Mutex // httpserver.Port / Host and certmagic.HTTPPort are process-global

func startWithFlags(cf string, c *lcase, pm map[string]int) (*hx.Site, error) {
	startMu.Lock()
	defer startMu.Unlock()
	oldP, oldH, oldHP := httpserver.Port, httpserver.Host, certmagic.HTTPPort
	httpserver.Port, httpserver.Host, certmagic.HTTPPort = strconv.Itoa(pm[c.FlagPort]), c.FlagHost, pm["HP"]
	defer func() { httpserver.Port, httpserver.Host, certmagic.HTTPPort = oldP, oldH, oldHP }()
	return hx.StartHTTP(cf, "")
}

// finding is one disagreement of a rendering with the case.
type finding struct {
	clause string // refusal | start | sockets | route | defaults | noconnect
	detail string // run-independent
	what   string
	exp    interface{}
	obs    interface{}
}

type runStats struct {
	requests, unasserted, drift int
	errClass             string
}

func classify(err error) string {
	if err == nil {
		return "ok"
	}
	s := err.Error()
	switch {
	case strings.Contains(s, "duplicate site key: "):
		return "dupkey"
	case strings.Contains(s, "duplicate site address: "), strings.Contains(s, " is a duplicate of "):
		return "dupaddr"
	case strings.Contains(s, "address already in use"):
		return "inuse"
	}
	return "other"
}

// checkRefusal judges the error of a configuration the model refuses in InspectServerBlocks.
func checkRefusal(c *lcase, pm map[string]int, err error) *finding {
	cls := classify(err)
	s := ""
	if err != nil {
		s = err.Error()
	}
	switch cls {
	case "dupkey":
		named := strings.TrimSpace(s[strings.Index(s, "duplicate site key: ")+len("duplicate site key: "):])
		for _, k := range c.DupKeys {
			if subst(k, pm) == named {
				return nil
			}
		}
		return &finding{clause: "refusal", detail: "dupkey-names-other-key", what: "refused with a duplicate site key that is not a duplicated key of the configuration: " + s, exp: c.DupKeys, obs: s}
	case "dupaddr":
		if len(c.DupAddrs) == 0 {
			return &finding{clause: "refusal", detail: "dupaddr-without-equal-addresses", what: "refused as duplicate address, but only equal keys exist: " + s, obs: s}
		}
		if i := strings.Index(s, "site defined as "); i >= 0 {
			rest := s[i+len("site defined as "):]
			j := strings.Index(rest, " is a duplicate of ")
			k := strings.Index(rest, " because of")
			if j < 0 || k < j {
				return &finding{clause: "refusal", detail: "dupaddr-unparsable", what: s, obs: s}
			}
			a, b := rest[:j], rest[j+len(" is a duplicate of "):k]
			for _, p := range c.DupAddrs {
				if subst(p[0], pm) == a && subst(p[1], pm) == b {
					return nil
				}
			}
			return &finding{clause: "refusal", detail: "dupaddr-names-other-keys", what: "the two keys named are not a pair of sites with equal addresses: " + s, exp: c.DupAddrs, obs: s}
		}
		// "duplicate site address: http://host:port/path"
		named := strings.TrimSpace(s[strings.Index(s, "duplicate site address: ")+len("duplicate site address: "):])
		for _, p := range c.DupAddrs {
			for _, st := range c.Sites {
				if st.Key == p[0] && "http://"+net.JoinHostPort(st.Host, strconv.Itoa(pm[st.Port]))+strings.ToLower(st.W.Path) == named {
					return nil
				}
			}
		}
		return &finding{clause: "refusal", detail: "dupaddr-names-other-address", what: "the address named is not the address of two sites: " + s, exp: c.DupAddrs, obs: s}
	case "ok":
		return &finding{clause: "refusal", detail: "accepted", what: "a configuration with duplicate sites was accepted", exp: map[string]interface{}{"dupkeys": c.DupKeys, "dupaddrs": c.DupAddrs}, obs: "started"}
	}
	return &finding{clause: "refusal", detail: "other-error", what: "refused, but not as a duplicate: " + s, obs: s}
}

func siteKeyWritten(c *lcase, n int, pm map[string]int) string { return c.Sites[n-1].W.render(pm) }

// runOnce loads one rendering and compares everything the case predicts. infra != nil: not a verdict.
func runOnce(c *lcase, o *order, st *runStats) (fs []finding, infra error) {
	var site *hx.Site
	var err error
	var pm map[string]int
	var cf string
	for try := 0; ; try++ {
		pm = freshPorts()
		cf = casketfile(c, o, pm)
		site, err = startWithFlags(cf, c, pm)
		// a port taken by somebody else in the meantime looks like a listen conflict: fresh ports, again
		if classify(err) == "inuse" && c.Outcome == "serving" && try < 3 {
			continue
		}
		break
	}
	st.errClass = classify(err)
	var conns []*hx.RawConn
	defer func() {
		// the server closes the connections first (no TIME_WAIT on the client side)
		if site != nil {
			site.Stop()
		}
		for _, rc := range conns {
			rc.Close()
		}
	}()
	switch c.Outcome {
	case "refused":
		if f := checkRefusal(c, pm, err); f != nil {
			fs = append(fs, *f)
		}
		return fs, nil
	case "failed":
		switch st.errClass {
		case "inuse":
		case "ok":
			if runtime.GOOS == "linux" {
				fs = append(fs, finding{clause: "start", detail: "no-listen-conflict", what: "a wildcard listener and a listener of one address on the same port: both started", obs: "started"})
			}
		default:
			fs = append(fs, finding{clause: "start", detail: "other-error", what: "expected a listen conflict, got: " + err.Error(), obs: err.Error()})
		}
		return fs, nil
	}
	// serving
	if err != nil {
		d := "error"
		if st.errClass != "other" {
			d = st.errClass
		}
		return append(fs, finding{clause: "start", detail: d, what: "a configuration without duplicates and without listen conflict did not start: " + err.Error() + "\n" + cf, obs: err.Error()}), nil
	}
	// the sockets of the process against the groups
	ports := map[int]bool{}
	for _, p := range pm {
		ports[p] = true
	}
	var want []string
	for _, l := range c.Listeners {
		want = append(want, l.IP+":"+strconv.Itoa(pm[l.Port]))
	}
	sort.Strings(want)
	got, lerr := listeningOn(ports)
	if lerr != nil {
		return fs, lerr
	}
	if strings.Join(got, " ") != strings.Join(want, " ") {
		abs := func(xs []string) []string {
			var o []string
			for _, x := range xs {
				for n, p := range pm {
					x = strings.ReplaceAll(x, ":"+strconv.Itoa(p), ":"+n)
				}
				o = append(o, x)
			}
			sort.Strings(o)
			return o
		}
		fs = append(fs, finding{clause: "sockets", detail: strings.Join(abs(got), "+"), what: fmt.Sprintf("listening sockets %v, expected one per group: %v", abs(got), abs(want)), exp: abs(want), obs: abs(got)})
		return fs, nil // the routing tables are per expected listener
	}
	// nothing else accepts connections on the ports of the configuration
	for _, ip := range []string{"127.0.0.1", "127.0.0.2"} {
		for n, p := range pm {
			covered := false
			for _, l := range c.Listeners {
				if pm[l.Port] == p && (l.IP == "" || l.IP == ip) {
					covered = true
				}
			}
			if covered {
				continue
			}
			if cn, err := net.DialTimeout("tcp", ip+":"+strconv.Itoa(p), 2*time.Second); err == nil {
				cn.Write([]byte("GET / HTTP/1.1\r\nHost: x\r\nConnection: close\r\n\r\n"))
				cn.Close()
				fs = append(fs, finding{clause: "noconnect", detail: ip + ":" + n, what: "connection accepted on " + ip + ":" + n + " where no group listens", obs: "accepted"})
			}
		}
	}
	// every listener, every Host, every path
	rnd := rand.New(rand.NewSource(o.Seed))
	for li, l := range c.Listeners {
		ip := l.IP
		if ip == "" {
			ip = []string{"127.0.0.1", "127.0.0.2"}[rnd.Intn(2)]
		}
		port := pm[l.Port]
		rc, err := hx.DialRaw(ip + ":" + strconv.Itoa(port))
		if err != nil {
			return fs, fmt.Errorf("dial %s: %v", ip, err)
		}
		conns = append(conns, rc)
		for i, h := range c.ReqHosts {
			for j, p := range c.ReqPaths {
				wantN := l.Table[i][j]
				open := len(l.Open) > 0 && l.Open[i][j] == 1
				hh := h
				switch rnd.Intn(4) {
				case 1:
					hh = strings.ToUpper(h)
				case 2:
					hh = h + ":" + strconv.Itoa(port)
				}
				r, err := rc.Get("GET", p, hh)
				if err != nil {
					return fs, fmt.Errorf("request: %v", err)
				}
				st.requests++
				if open {
					// not asserted; only noted whether the code routes by the key as written (the model) or not
					st.unasserted++
					ok := (wantN == 0 && r.Status == 404) || (wantN > 0 && r.Header.Get("X-Key") == siteKeyWritten(c, wantN, pm))
					if !ok {
						st.drift++
					}
					continue
				}
				where := fmt.Sprintf("listener=%s:%s/host=%s/path=%s", l.IP, l.Port, h, p)
				gotKey := r.Header.Get("X-Key")
				if wantN == 0 {
					if r.Status != 404 || gotKey != "" || !strings.Contains(string(r.Body), "is not served on this interface") {
						fs = append(fs, finding{clause: "route", detail: where, what: fmt.Sprintf("listener %d (%s:%s), Host %q, %s: no site of this listener's group matches, observed status %d from site %q", li+1, l.IP, l.Port, hh, p, r.Status, gotKey), exp: "no site (404)", obs: map[string]interface{}{"status": r.Status, "x_key": gotKey}})
					}
					continue
				}
				s := c.Sites[wantN-1]
				wantKey := siteKeyWritten(c, wantN, pm)
				if r.Status != 204 || gotKey != wantKey || r.Header.Get("X-Site") != "b"+strconv.Itoa(s.Blk) {
					fs = append(fs, finding{clause: "route", detail: where, what: fmt.Sprintf("listener %d (%s:%s), Host %q, %s: must be answered by site %s of block %d, observed status %d from site %q (X-Site %q)", li+1, l.IP, l.Port, hh, p, s.W.abstract(), s.Blk, r.Status, gotKey, r.Header.Get("X-Site")), exp: s.W.abstract(), obs: map[string]interface{}{"status": r.Status, "x_key": gotKey, "x_site": r.Header.Get("X-Site")}})
					continue
				}
				// DefaultsApplied: host and port of the site address, the listen host
				if gh, gp, gl := r.Header.Get("X-Addr-Host"), r.Header.Get("X-Addr-Port"), r.Header.Get("X-Listen"); gh != s.Host || gp != strconv.Itoa(pm[s.Port]) || gl != c.Blocks[s.Blk-1].Bind {
					gpa := gp
					for n, p := range pm {
						if strconv.Itoa(p) == gp {
							gpa = n
						}
					}
					fs = append(fs, finding{clause: "defaults", detail: "site=" + s.W.abstract(), what: fmt.Sprintf("site %s: address host/port/listen host %q/%s/%q, expected %q/%s/%q", s.W.abstract(), gh, gpa, gl, s.Host, s.Port, c.Blocks[s.Blk-1].Bind), exp: []string{s.Host, s.Port, c.Blocks[s.Blk-1].Bind}, obs: []string{gh, gpa, gl}})
				}
			}
		}
	}
	return fs, nil
}

// ---------------------------------------------------------------- the test

type checker struct {
	res     *hx.Result
	mu      sync.Mutex
	stats   map[string]int
	infra   error
	planted int
	caught  int
}

func (k *checker) stat(name string, n int) {
	k.mu.Lock()
	k.stats[name] += n
	k.mu.Unlock()
}

func mmKey(c *lcase, f *finding) string {
	return "C01/listenergroups/" + f.clause + "/" + configKey(c) + "/" + f.detail
}

// checkCase runs the renderings of one case; a disagreement is run a second time on a fresh
// instance (same rendering, fresh ports) and reported only if it shows again.
func (k *checker) checkCase(c *lcase, rnd *rand.Rand, selftest bool) {
	orders := []*order{identityOrder(c)}
	if len(c.Sites) >= 2 {
		orders = append(orders, randomOrder(c, rnd, true))
	}
	if len(c.Sites) >= 3 || (hx.Thorough() && len(c.Sites) >= 2) {
		orders = append(orders, randomOrder(c, rnd, false))
	}
	if c.Order != nil {
		orders = []*order{c.Order}
	}
	noticed := false
	for _, o := range orders {
		var st runStats
		fs, infra := runOnce(c, o, &st)
		if infra != nil {
			// once more: a connection reset by a busy box is not a verdict
			fs, infra = runOnce(c, o, &st)
		}
		if infra != nil {
			k.mu.Lock()
			if k.infra == nil {
				k.infra = fmt.Errorf("%v (configuration %s)", infra, configKey(c))
			}
			k.mu.Unlock()
			return
		}
		k.stat("renderings", 1)
		k.stat("requests", st.requests)
		k.stat("requests_not_asserted", st.unasserted)
		k.stat("requests_not_asserted_differing_from_model", st.drift)
		k.stat("start_"+st.errClass, 1)
		if len(fs) == 0 {
			continue
		}
		if selftest {
			noticed = true
			continue
		}
		var st2 runStats
		fs2, infra2 := runOnce(c, o, &st2)
		if infra2 != nil {
			continue
		}
		for _, f := range fs {
			for _, g := range fs2 {
				if f.clause == g.clause && f.detail == g.detail {
					cc := *c
					cc.Order = o
					k.res.Add(hx.Mismatch{Key: mmKey(c, &f), What: f.what, Case: cc, Expected: f.exp, Observed: f.obs})
					break
				}
			}
		}
	}
	if selftest {
		k.mu.Lock()
		k.planted++
		if noticed {
			k.caught++
		}
		k.mu.Unlock()
	}
}

// corrupt plants one wrong expectation into a copy of the case.
func corrupt(c *lcase, n int) *lcase {
	cc := *c
	switch c.Outcome {
	case "refused":
		cc.Outcome = "failed"
	case "failed":
		cc.Outcome = "refused"
	default:
		cc.Listeners = append([]listener(nil), c.Listeners...)
		l := cc.Listeners[n%len(cc.Listeners)]
		switch n % 3 {
		case 0: // another listen address
			if l.IP == "127.0.0.2" {
				l.IP = "127.0.0.1"
			} else {
				l.IP = "127.0.0.2"
			}
		default: // another site answers one request
			i, j := n%len(c.ReqHosts), (n/3)%len(c.ReqPaths)
			tb := make([][]int, len(l.Table))
			for x := range tb {
				tb[x] = append([]int(nil), l.Table[x]...)
			}
			if len(l.Open) > 0 && l.Open[i][j] == 1 { // not asserted: plant the other kind of error
				if l.IP == "127.0.0.2" {
					l.IP = "127.0.0.1"
				} else {
					l.IP = "127.0.0.2"
				}
				break
			}
			tb[i][j] = (tb[i][j] + 1) % (len(c.Sites) + 1)
			l.Table = tb
		}
		cc.Listeners[n%len(cc.Listeners)] = l
	}
	return &cc
}

// stratum names the kind of configuration (for the seeded, stratified sample).
func stratum(c *lcase) string {
	switch c.Outcome {
	case "refused":
		if len(c.DupKeys) > 0 && len(c.DupAddrs) > 0 {
			return "refused-both"
		}
		if len(c.DupKeys) > 0 {
			return "refused-dupkey"
		}
		return "refused-dupaddr"
	case "failed":
		return "failed"
	}
	s := fmt.Sprintf("serving-%dL", len(c.Listeners))
	ports := map[string]int{}
	for _, l := range c.Listeners {
		ports[l.Port]++
	}
	for _, n := range ports {
		if n > 1 {
			s += "-sameport"
			break
		}
	}
	if c.FlagHost != "" {
		s += "-hostflag"
	}
	if c.FlagPort != "P1" {
		s += "-pd"
	}
	return s
}

// features counts the things the clauses talk about (non-vacuity of the replay).
func (k *checker) features(c *lcase) {
	k.stat("cases_"+c.Outcome, 1)
	if c.Outcome == "refused" {
		if len(c.DupKeys) > 0 {
			k.stat("refused_dupkey", 1)
		}
		if len(c.DupAddrs) > 0 {
			k.stat("refused_dupaddr", 1)
		}
		return
	}
	if c.Outcome != "serving" {
		return
	}
	ports := map[string]int{}
	for _, l := range c.Listeners {
		ports[l.Port]++
		if len(l.Members) >= 2 {
			k.stat("group_with_several_sites", 1)
			binds := map[string]bool{}
			for _, m := range l.Members {
				binds[c.Blocks[c.Sites[m-1].Blk-1].Bind] = true
			}
			if len(binds) >= 2 {
				k.stat("group_of_differently_spelled_binds", 1)
			}
		}
	}
	for _, n := range ports {
		if n >= 2 {
			k.stat("two_listeners_on_one_port", 1)
		}
	}
	if len(c.Listeners) >= 2 {
		k.stat("several_listeners", 1)
		hosts := map[string]int{}
		for _, s := range c.Sites {
			hosts[strings.ToLower(s.W.Host)]++
		}
		for _, n := range hosts {
			if n >= 2 {
				k.stat("same_host_on_several_listeners", 1)
				break
			}
		}
	}
	for _, s := range c.Sites {
		if s.W.Port == "" && s.W.Sch == "" {
			k.stat("site_with_default_port", 1)
		}
		if s.W.Port == "" && s.W.Sch == "http" {
			k.stat("site_with_http_port", 1)
		}
		if s.W.Host == "" && c.FlagHost != "" {
			k.stat("site_with_default_host", 1)
		}
	}
	for _, b := range c.Blocks {
		if len(b.Keys) >= 2 {
			k.stat("block_with_several_keys", 1)
		}
	}
}

var modules = []string{"ListenerGroups", "ListenerGroups3", "ListenerGroupsHost"}

func TestCx01Listeners(t *testing.T) {
	hx.Quiet()
	res := hx.NewResult("TestCx01Listeners", "one case = one set of <= 3 server blocks (<= 2 keys each: scheme/host/port/path as written, a bind line) with the -host/-port flags, from ListenerGroups.tla; a seeded sample stratified by outcome (refused as duplicate key / duplicate address, listen conflict, serving with 1-3 listeners) is written in 2-3 orders and loaded with casket.Start; verdicts: refusal names a duplicated key, the process's listening sockets are the groups, every listener x 5 Hosts x 5 paths is answered by the predicted site of that listener's group, site address host/port after defaults; non-trivial = >= 2 sites")
	defer res.Write(t)

	// a replay file of another test of this property is not ours
	if p := hx.Replay(); p != "" {
		b, _ := os.ReadFile(p)
		var w struct {
			Case struct {
				Clause string `json:"clause"`
			} `json:"case"`
		}
		if json.Unmarshal(b, &w) != nil || !strings.HasPrefix(w.Case.Clause, "listenergroups/") {
			res.AddExtra("replay", "not a listenergroups case: skipped")
			return
		}
	}
	// certmagic logs two lines per instance through a logger bound to fd 2
	if os.Getenv("VERIF_VERBOSE") == "" {
		if dn, err := os.Create(filepath.Join(hx.Scratch(t), "cx01listeners_stderr.log")); err == nil {
			if saved, err := syscall.Dup(2); err == nil {
				syscall.Dup2(int(dn.Fd()), 2)
				defer func() { syscall.Dup2(saved, 2); syscall.Close(saved); dn.Close() }()
			}
		}
	}
	k := &checker{res: res, stats: map[string]int{}}

	if rp, ok := hx.LoadReplay[lcase](t); ok {
		res.Count("replay")
		k.checkCase(&rp, hx.Rand(), false)
		if k.infra != nil {
			res.Infra = k.infra.Error()
		}
		return
	}

	var cases []lcase
	for _, m := range modules {
		if hx.CasesPath(m) == "" {
			continue
		}
		cs := hx.LoadCases[lcase](t, m)
		res.AddExtra("configurations_from_tlc_"+m, len(cs))
		cases = append(cases, cs...)
	}
	if len(cases) == 0 {
		res.Infra = "TLC emitted no configurations"
		return
	}
	sort.SliceStable(cases, func(a, b int) bool { return configKey(&cases[a]) < configKey(&cases[b]) })
	// the spaces of the three jobs overlap: one case per configuration
	{
		uniq := cases[:0]
		last := ""
		for i := range cases {
			if ck := configKey(&cases[i]); ck != last {
				uniq = append(uniq, cases[i])
				last = ck
			}
		}
		cases = uniq
		res.AddExtra("configurations_distinct", len(cases))
	}

	// seeded sample, stratified by the kind of outcome
	selftest := hx.SelfTest()
	budget := 2400
	if hx.Thorough() {
		budget = 36000
	}
	if selftest {
		budget = 90
	}
	rnd := hx.Rand()
	byStratum := map[string][]int{}
	for i := range cases {
		s := stratum(&cases[i])
		byStratum[s] = append(byStratum[s], i)
	}
	names := hx.SortedKeys(byStratum)
	var todo []int
	left, strataLeft := budget, len(names)
	// smallest strata first: what they do not use goes to the bigger ones
	sort.SliceStable(names, func(a, b int) bool { return len(byStratum[names[a]]) < len(byStratum[names[b]]) })
	sampled := map[string]int{}
	for _, s := range names {
		idx := byStratum[s]
		q := left / strataLeft
		for _, x := range hx.SampleIdx(rnd, len(idx), q) {
			todo = append(todo, idx[x])
			sampled[s]++
		}
		left -= sampled[s]
		strataLeft--
	}
	sort.Ints(todo)
	res.AddExtra("strata_total", func() map[string]int {
		m := map[string]int{}
		for s, v := range byStratum {
			m[s] = len(v)
		}
		return m
	}())
	res.AddExtra("strata_replayed", sampled)

	// warm-up: the first instance of a process initialises certmagic etc.
	{
		pm := freshPorts()
		s, err := hx.StartHTTP(fmt.Sprintf("127.0.0.1:%d {\n\ttls off\n\tveriflg\n}\n", pm["P1"]), "")
		if err != nil {
			res.Infra = "cannot start a plain site: " + err.Error()
			return
		}
		s.Stop()
	}

	jobs := make(chan int)
	var wg sync.WaitGroup
	for w := 0; w < 8; w++ {
		wg.Add(1)
		wrnd := rand.New(rand.NewSource(hx.Seed()*7919 + int64(w)))
		go func() {
			defer wg.Done()
			for n := range jobs {
				c := &cases[n]
				if selftest {
					c = corrupt(c, n)
				} else {
					k.features(c)
				}
				k.checkCase(c, wrnd, selftest)
				nt := ""
				if len(c.Sites) >= 2 {
					nt = configKey(c)
				}
				res.Count(nt)
			}
		}()
	}
	for x, n := range todo {
		jobs <- n
		if x%53 == 7 && cases[n].Outcome == "serving" {
			pm := map[string]int{"P1": 1001, "P2": 1002, "HP": 1080, "PD": 1099}
			res.Sample(map[string]interface{}{"configuration": configKey(&cases[n]), "casketfile_with_P1=1001_P2=1002_HP=1080_PD=1099": casketfile(&cases[n], identityOrder(&cases[n]), pm), "expected_listeners": cases[n].Listeners})
		}
	}
	close(jobs)
	wg.Wait()

	res.AddExtra("stats", k.stats)
	res.Replayed = res.Evaluations
	if k.infra != nil {
		res.Infra = k.infra.Error()
	}
	if !selftest && res.Infra == "" {
		need := []string{"refused_dupkey", "refused_dupaddr", "cases_failed", "cases_serving", "group_with_several_sites",
			"group_of_differently_spelled_binds", "two_listeners_on_one_port", "same_host_on_several_listeners",
			"site_with_default_port", "site_with_http_port", "block_with_several_keys", "start_dupkey", "start_dupaddr", "start_inuse", "start_ok"}
		if hx.Thorough() {
			need = append(need, "site_with_default_host")
		}
		for _, n := range need {
			if k.stats[n] == 0 {
				res.Infra = "vacuous replay: no case with " + n
			}
		}
	}
	if selftest {
		res.AddExtra("selftest_planted", k.planted)
		res.AddExtra("selftest_caught", k.caught)
		if k.planted == 0 || k.caught != k.planted {
			res.Infra = fmt.Sprintf("selftest: %d wrong expectations planted, %d noticed", k.planted, k.caught)
		}
	}
}
