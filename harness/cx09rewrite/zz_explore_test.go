package cx09rewrite

import (
	"fmt"
	"os"
	"path/filepath"
	"strings"
	"testing"

	"verifharness/hx"
)

// TestZZ is an experiment helper (not run by the driver):
//
//	ZZ_LINES='rewrite ^/old$ /a.html;redir /a.html /new' ZZ_REQS='GET /old?k=v;POST /x' go test -tags verif -run TestZZ -v ./cx09rewrite/
func TestZZ(t *testing.T) {
	if os.Getenv("ZZ_LINES") == "" {
		t.Skip()
	}
	hx.Quiet()
	root := t.TempDir()
	for _, f := range []string{"a.html", "app.php", "d/x.html", "d/y.php"} {
		p := filepath.Join(root, f)
		os.MkdirAll(filepath.Dir(p), 0o755)
		os.WriteFile(p, []byte(f), 0o644)
	}
	port := hx.FreePort()
	cf := fmt.Sprintf("127.0.0.1:%d {\n\troot %s\n\tbind 127.0.0.1\n\ttls off\n\theader / {\n\t\tX-Uri {uri}\n\t\tX-Rw {rewrite_uri}\n\t\tX-Opath {path}\n\t\tX-Rpath {rewrite_path}\n\t}\n", port, root)
	for _, l := range strings.Split(os.Getenv("ZZ_LINES"), ";") {
		cf += "\t" + strings.ReplaceAll(l, "|", "\n\t") + "\n"
	}
	cf += "\tverifsaw\n}\n"
	t.Log(cf)
	site, err := hx.StartHTTP(cf, "")
	if err != nil {
		t.Logf("START ERROR: %v", err)
		return
	}
	defer site.Stop()
	addr := fmt.Sprintf("127.0.0.1:%d", port)
	for _, rq := range strings.Split(os.Getenv("ZZ_REQS"), ";") {
		f := strings.SplitN(rq, " ", 2)
		r, err := hx.OneShot(addr, f[0], f[1], addr)
		if err != nil {
			t.Logf("%s -> ERR %v", rq, err)
			continue
		}
		t.Logf("%s -> %d loc=%q saw=%q ? %q uri=%q rw=%q opath=%q rpath=%q body=%q", rq, r.Status, r.Header.Get("Location"), r.Header["X-Saw-Path"], r.Header["X-Saw-Query"],
			r.Header.Get("X-Uri"), r.Header.Get("X-Rw"), r.Header.Get("X-Opath"), r.Header.Get("X-Rpath"), string(r.Body))
	}
}
