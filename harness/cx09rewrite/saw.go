// Package cx09rewrite binds specs/RewriteRedir.tla (rule semantics of the rewrite and redir
// directives) to the real middleware; it is an extension of property C09.
package cx09rewrite

import (
	"net/http"

	"github.com/tmpim/casket"
	"github.com/tmpim/casket/caskethttp/httpserver"
)

// verifsaw is a test-only directive: the innermost handler of the site (registered at the end of
// the directive list, it never calls the static file server). It answers 200 and reports the URL
// the handlers below rewrite / redir get to see, i.e. the request as rewritten:
//
//	X-Saw-Path   r.URL.Path        X-Saw-Query  r.URL.RawQuery      X-Saw-Method  r.Method
//
// It is registered by this package only, so that the directive list other checks look at
// (C09's Canon comparison) is not changed.
func init() {
	httpserver.RegisterDevDirective("verifsaw", "")
	casket.RegisterPlugin("verifsaw", casket.Plugin{ServerType: "http", Action: func(c *casket.Controller) error {
		for c.Next() {
			if len(c.RemainingArgs()) > 0 {
				return c.ArgErr()
			}
		}
		httpserver.GetConfig(c).AddMiddleware(func(next httpserver.Handler) httpserver.Handler {
			return httpserver.HandlerFunc(func(w http.ResponseWriter, r *http.Request) (int, error) {
				h := w.Header()
				h["X-Saw-Path"] = []string{r.URL.Path}
				h["X-Saw-Query"] = []string{r.URL.RawQuery}
				h["X-Saw-Method"] = []string{r.Method}
				h.Set("Content-Type", "text/plain; charset=utf-8")
				w.WriteHeader(http.StatusOK)
				if r.Method != "HEAD" {
					w.Write([]byte("SAW\n"))
				}
				return 0, nil
			})
		})
		return nil
	}})
}
