// Extension of C09: the rule semantics of `rewrite` and `redir` (specs/RewriteRedir.tla).
//
// TLC enumerates sites = (list of rewrite lines, list of redir lines) with <= MaxRules lines from
// the pools RwPool / RdPool of the spec, decides for each whether the setups accept it, and emits
// per accepted site the table of expected answers to the request battery: the (rewritten) path and
// query the handler below rewrite/redir gets to see, or the redirect status + Location, or the
// meta-refresh page.  This driver renders every line as Casketfile text (from the structured pool
// the head CASE carries), loads the site for real (casket.Start on a loopback port; innermost
// handler = the test-only directive verifsaw, saw.go), sends the battery twice (second time in
// reverse order on a fresh connection) and compares:
//
//	setup        casket.Start accepts exactly the sites the model accepts
//	rewrite      X-Saw-Path / X-Saw-Query = the model's rewritten URL (first match / longest base,
//	             first existing target else the last, query overwrite, {1} captures, single expansion)
//	passthrough  no rule selected: the URL arrives unchanged
//	redir, meta  status, Location (as net/http.Redirect writes it) / the meta page
//	placeholder  {uri} {path} stay the original, {rewrite_uri} {rewrite_path} are the rewritten URL
//	             (through the real `header` directive)
//	determinism  both passes observe the same
//	cond         one site per atomic `if` condition of CondPool: the truth table, request by request
package cx09rewrite

import (
	"encoding/json"
	"fmt"
	"html"
	"math/rand"
	"net"
	"net/url"
	"os"
	"path/filepath"
	"reflect"
	"regexp"
	"sort"
	"strconv"
	"strings"
	"sync"
	"syscall"
	"testing"
	"time"

	"verifharness/hx"
)

const module = "RewriteRedir"

// ---------------------------------------------------------------- cases from TLC

type rxJ struct {
	On   bool   `json:"on"`
	As   bool   `json:"as"`
	Pre  string `json:"pre"`
	Cap  string `json:"cap"`
	Post string `json:"post"`
	Ae   bool   `json:"ae"`
}

type condJ struct {
	A   string `json:"a"`
	Neg bool   `json:"neg"`
	Op  string `json:"op"`
	B   string `json:"b"`
	Rx  rxJ    `json:"rx"`
}

type rwJ struct {
	ID    string   `json:"id"`
	Kind  string   `json:"kind"`
	Neg   bool     `json:"neg"`
	Rx    rxJ      `json:"rx"`
	Base  string   `json:"base"`
	Exts  []string `json:"exts"`
	Conds []condJ  `json:"conds"`
	IsOr  bool     `json:"isOr"`
	To    []string `json:"to"`
	Extra string   `json:"extra"`
}

type rdEntry struct {
	From    string `json:"from"`
	HasFrom bool   `json:"hasfrom"`
	To      string `json:"to"`
	Code    string `json:"code"`
}

type rdJ struct {
	ID      string    `json:"id"`
	Form    string    `json:"form"`
	Dcode   string    `json:"dcode"`
	Conds   []condJ   `json:"conds"`
	IsOr    bool      `json:"isOr"`
	Entries []rdEntry `json:"entries"`
}

type reqJ struct {
	P  string `json:"p"`
	Qs string `json:"qs"`
	M  string `json:"m"`
}

func (r reqJ) target() string {
	if r.Qs != "" {
		return r.P + "?" + r.Qs
	}
	return r.P
}
func (r reqJ) String() string { return r.M + " " + r.target() }

// outcome is OutTuple(o) of the spec: <<kind, code, a, b, rwsel, rdsel, free>>.
type outcome struct {
	Kind  string `json:"kind"` // pass | redir | meta
	Code  int    `json:"code"`
	A     string `json:"a"` // pass: path seen below; redir: Location; meta: target
	B     string `json:"b"` // pass: query seen below
	RwSel int    `json:"rwsel"`
	RdSel int    `json:"rdsel"`
	Free  bool   `json:"free"` // the query was carried over from a target that was not taken: either query is accepted
}

func (o *outcome) UnmarshalJSON(b []byte) error {
	if len(b) > 0 && b[0] == '{' {
		type plain outcome
		return json.Unmarshal(b, (*plain)(o))
	}
	var t []json.RawMessage
	if err := json.Unmarshal(b, &t); err != nil {
		return err
	}
	if len(t) != 7 {
		return fmt.Errorf("outcome tuple of length %d", len(t))
	}
	dst := []interface{}{&o.Kind, &o.Code, &o.A, &o.B, &o.RwSel, &o.RdSel, &o.Free}
	for i := range dst {
		if err := json.Unmarshal(t[i], dst[i]); err != nil {
			return err
		}
	}
	return nil
}

type condRow struct {
	Cond condJ  `json:"cond"`
	Row  []bool `json:"row"`
}

type tcase struct {
	Kind   string    `json:"kind"` // head | site
	Reqs   []reqJ    `json:"reqs,omitempty"`
	Files  []string  `json:"files,omitempty"`
	Dirs   []string  `json:"dirs,omitempty"`
	RwPool []rwJ     `json:"rwpool,omitempty"`
	RdPool []rdJ     `json:"rdpool,omitempty"`
	Conds  []condRow `json:"conds,omitempty"`
	Rwl    []string  `json:"rwl,omitempty"`
	Rdl    []string  `json:"rdl,omitempty"`
	Ok     bool      `json:"ok,omitempty"`
	Sfree  bool      `json:"sfree,omitempty"` // refused by the code for a reason the check does not judge (see SetupFree in the spec)
	Exp    []outcome `json:"exp,omitempty"`
}

// rcase is what a replay file stores: the rendered lines of one site and one request.
type rcase struct {
	Clause string   `json:"clause"` // always starts with "rewriteredir/"
	IDs    string   `json:"ids"`
	Lines  []string `json:"lines"` // Casketfile text of the rewrite / redir lines, in file order
	Files  []string `json:"files"`
	Ok     bool     `json:"ok"`
	Req    *reqJ    `json:"req,omitempty"`
	Exp    *outcome `json:"exp,omitempty"`
}

// ---------------------------------------------------------------- Casketfile text of a pool line

func rxText(rx rxJ) string {
	s := ""
	if rx.As {
		s += "^"
	}
	s += regexp.QuoteMeta(rx.Pre)
	switch rx.Cap {
	case "any":
		s += "(.*)"
	case "seg":
		s += "([^/]+)"
	case "digits":
		s += "([0-9]+)"
	}
	s += regexp.QuoteMeta(rx.Post)
	if rx.Ae {
		s += "$"
	}
	return s
}

func condText(c condJ) string {
	op := c.Op
	if c.Neg {
		op = "not_" + op
	}
	b := c.B
	if c.Op == "match" {
		b = rxText(c.Rx)
	}
	return "if " + c.A + " " + op + " " + b
}

// ifLines renders the condition lines of a block; if_op goes to a seeded position among them.
func ifLines(conds []condJ, isOr bool, rnd *rand.Rand) []string {
	var out []string
	for _, c := range conds {
		out = append(out, condText(c))
	}
	if isOr {
		k := rnd.Intn(len(out) + 1)
		out = append(out[:k], append([]string{"if_op or"}, out[k:]...)...)
	}
	return out
}

func block(head string, body []string) string {
	if len(body) == 0 {
		return head
	}
	return head + " {\n\t\t" + strings.Join(body, "\n\t\t") + "\n\t}"
}

func rwText(r rwJ, rnd *rand.Rand) string {
	if r.Kind == "simple" {
		s := "rewrite "
		if r.Neg {
			s += "not "
		}
		return s + rxText(r.Rx) + " " + strings.Join(r.To, " ")
	}
	head := "rewrite"
	if r.Base != "/" || rnd.Intn(2) == 0 { // base "/" may be left out
		head += " " + r.Base
	}
	body := ifLines(r.Conds, r.IsOr, rnd)
	if r.Rx.On {
		kw := "r"
		if rnd.Intn(2) == 0 {
			kw = "regexp"
		}
		body = append(body, kw+" "+rxText(r.Rx))
	}
	if len(r.Exts) > 0 {
		body = append(body, "ext "+strings.Join(r.Exts, " "))
	}
	if len(r.To) > 0 {
		body = append(body, "to "+strings.Join(r.To, " "))
	}
	if r.Extra != "" {
		body = append(body, r.Extra)
	}
	if len(body) == 0 {
		return head
	}
	return block(head, body)
}

func rdText(l rdJ, rnd *rand.Rand) string {
	entry := func(e rdEntry) string {
		s := ""
		if e.HasFrom {
			s = e.From + " "
		}
		s += e.To
		if e.Code != "" {
			s += " " + e.Code
		}
		return s
	}
	if l.Form == "args" {
		return block("redir "+entry(l.Entries[0]), ifLines(l.Conds, l.IsOr, rnd))
	}
	head := "redir"
	if l.Dcode != "" {
		head += " " + l.Dcode
	}
	body := ifLines(l.Conds, l.IsOr, rnd)
	for _, e := range l.Entries {
		body = append(body, entry(e))
	}
	return block(head, body)
}

// ---------------------------------------------------------------- fixture and one running site

type fixture struct {
	root  string
	files []string
}

func newFixture(t testing.TB, files, dirs []string) *fixture {
	dir, err := os.MkdirTemp(hx.Scratch(t), "cx09rewrite")
	if err != nil {
		t.Fatalf("fixture: %v", err)
	}
	fx := &fixture{root: filepath.Join(dir, "root"), files: files}
	for _, d := range dirs {
		if err := os.MkdirAll(filepath.Join(fx.root, filepath.FromSlash(d)), 0o755); err != nil {
			t.Fatalf("fixture: %v", err)
		}
	}
	for _, f := range files {
		p := filepath.Join(fx.root, filepath.FromSlash(f))
		os.MkdirAll(filepath.Dir(p), 0o755)
		if err := os.WriteFile(p, []byte("FILE "+f+"\n"), 0o644); err != nil {
			t.Fatalf("fixture: %v", err)
		}
	}
	return fx
}

var headerBlock = "header / {\n\t\tX-Uri {uri}\n\t\tX-Rw {rewrite_uri}\n\t\tX-Opath {path}\n\t\tX-Rpath {rewrite_path}\n\t}"

// casketfile writes the site: the rule lines in the given order, the neutral lines (root, bind,
// tls, header, verifsaw) at seeded positions - directive order does not depend on the place in
// the file (C09) -, the rule lines keep their relative order.
func casketfile(lines []string, root string, port int, rnd *rand.Rand) string {
	all := append([]string(nil), lines...)
	for _, n := range []string{"root " + root, "bind 127.0.0.1", "tls off", headerBlock, "verifsaw"} {
		k := rnd.Intn(len(all) + 1)
		all = append(all[:k], append([]string{n}, all[k:]...)...)
	}
	var b strings.Builder
	fmt.Fprintf(&b, "127.0.0.1:%d {\n", port)
	for _, l := range all {
		b.WriteString("\t" + l + "\n")
	}
	b.WriteString("}\n")
	return b.String()
}

// freePort picks ports below the kernel's ephemeral range with an own counter (see notes/C09.md:
// thousands of instances per minute; a port handed out by ":0" can be taken by someone else
// between probing and casket.Start); the caller retries on "address already in use".
var portMu sync.Mutex
var portNext = 0

func freePort() (int, error) {
	portMu.Lock()
	defer portMu.Unlock()
	if portNext == 0 {
		portNext = 12000 + int(time.Now().UnixNano()%7000)
	}
	var err error
	for try := 0; try < 2000; try++ {
		portNext++
		if portNext >= 19900 {
			portNext = 12000
		}
		var ln net.Listener
		ln, err = net.Listen("tcp", "127.0.0.1:"+strconv.Itoa(portNext))
		if err == nil {
			ln.Close()
			return portNext, nil
		}
	}
	return 0, fmt.Errorf("no free port: %v", err)
}

// obs is everything the check looks at in one answer.
type obs struct {
	Status   int    `json:"status"`
	Location string `json:"location,omitempty"`
	HasLoc   bool   `json:"has_location,omitempty"`
	Saw      bool   `json:"saw"` // the request reached the handler below rewrite/redir
	SawPath  string `json:"saw_path,omitempty"`
	SawQuery string `json:"saw_query,omitempty"`
	SawMeth  string `json:"saw_method,omitempty"`
	Uri      string `json:"x_uri"`
	Rw       string `json:"x_rw"`
	Opath    string `json:"x_opath"`
	Rpath    string `json:"x_rpath"`
	Body     string `json:"body,omitempty"`
}

func first(h map[string][]string, k string) (string, bool) {
	v, ok := h[k]
	if !ok || len(v) == 0 {
		return "", ok
	}
	return strings.Join(v, ","), true
}

func observe(r *hx.RawResp) obs {
	o := obs{Status: r.Status}
	o.Location, o.HasLoc = first(r.Header, "Location")
	o.SawPath, o.Saw = first(r.Header, "X-Saw-Path")
	o.SawQuery, _ = first(r.Header, "X-Saw-Query")
	o.SawMeth, _ = first(r.Header, "X-Saw-Method")
	o.Uri, _ = first(r.Header, "X-Uri")
	o.Rw, _ = first(r.Header, "X-Rw")
	o.Opath, _ = first(r.Header, "X-Opath")
	o.Rpath, _ = first(r.Header, "X-Rpath")
	if !o.Saw {
		o.Body = string(r.Body)
	}
	return o
}

// runSite loads the site and sends the requests (idx into battery) once in order and, when twice
// is set, a second time in reverse order on a second connection. startErr != nil: casket refused it.
func runSite(fx *fixture, lines []string, battery []reqJ, idx []int, twice bool, rnd *rand.Rand) (pass1, pass2 []obs, cf string, startErr, infra error) {
	var site *hx.Site
	var port int
	var err error
	for try := 0; try < 10; try++ {
		port, err = freePort()
		if err != nil {
			return nil, nil, "", nil, err
		}
		cf = casketfile(lines, fx.root, port, rnd)
		site, err = hx.StartHTTP(cf, "")
		if err == nil || !strings.Contains(err.Error(), "address already in use") {
			break
		}
	}
	if err != nil {
		if strings.Contains(err.Error(), "address already in use") {
			return nil, nil, cf, nil, err
		}
		return nil, nil, cf, err, nil
	}
	stopped := false
	defer func() {
		if !stopped {
			site.Stop()
		}
	}()
	addr := "127.0.0.1:" + strconv.Itoa(port)
	send := func(order []int) ([]obs, *hx.RawConn, error) {
		rc, err := hx.DialRaw(addr)
		if err != nil {
			return nil, nil, err
		}
		out := make([]obs, len(idx))
		for _, k := range order {
			q := battery[idx[k]]
			r, err := rc.Get(q.M, q.target(), addr)
			if err != nil { // the server may have closed the connection: once more on a new one
				rc.Close()
				if rc, err = hx.DialRaw(addr); err != nil {
					return nil, nil, err
				}
				if r, err = rc.Get(q.M, q.target(), addr); err != nil {
					rc.Close()
					return nil, nil, fmt.Errorf("request %v: %v", q, err)
				}
			}
			out[k] = observe(r)
		}
		return out, rc, nil
	}
	fwd := make([]int, len(idx))
	for k := range fwd {
		fwd[k] = k
	}
	var rc1, rc2 *hx.RawConn
	if pass1, rc1, err = send(fwd); err != nil {
		return nil, nil, cf, nil, err
	}
	if twice {
		rev := make([]int, len(idx))
		for k := range rev {
			rev[k] = len(idx) - 1 - k
		}
		if pass2, rc2, err = send(rev); err != nil {
			rc1.Close()
			return nil, nil, cf, nil, err
		}
	}
	// the server closes the idle keep-alive connections first: no TIME_WAIT on our side
	site.Stop()
	stopped = true
	rc1.Close()
	if rc2 != nil {
		rc2.Close()
	}
	return pass1, pass2, cf, nil, nil
}

// ---------------------------------------------------------------- judging one answer

func requestURI(p, q string) string { return (&url.URL{Path: p, RawQuery: q}).RequestURI() }

// judge compares one observation with the model's outcome; "" = agrees. The first return value
// names the clause that is violated.
func judge(q reqJ, e outcome, o obs) (clause, what string) {
	switch e.Kind {
	case "pass":
		cl := "passthrough"
		if e.RwSel > 0 {
			cl = "rewrite"
		}
		if !o.Saw || o.Status != 200 || o.HasLoc {
			return cl, fmt.Sprintf("the handler below must see %s?%s; got status %d, Location %q, reached=%v", e.A, e.B, o.Status, o.Location, o.Saw)
		}
		if o.SawPath != e.A {
			return cl, fmt.Sprintf("path seen below rewrite/redir: want %q, got %q", e.A, o.SawPath)
		}
		if o.SawQuery != e.B && !(e.Free && o.SawQuery == q.Qs) {
			return cl, fmt.Sprintf("query seen below rewrite/redir: want %q, got %q", e.B, o.SawQuery)
		}
		if o.SawMeth != q.M {
			return cl, fmt.Sprintf("method seen below: want %q, got %q", q.M, o.SawMeth)
		}
		// the rewritten URL through the real header directive's placeholders
		if o.Rpath != e.A {
			return "placeholder", fmt.Sprintf("{rewrite_path}: want %q, got %q", e.A, o.Rpath)
		}
		if want := requestURI(e.A, o.SawQuery); o.Rw != want {
			return "placeholder", fmt.Sprintf("{rewrite_uri}: want %q, got %q", want, o.Rw)
		}
	case "redir":
		if o.Saw || o.Status != e.Code || !o.HasLoc || o.Location != e.A {
			return "redir", fmt.Sprintf("want %d Location %q; got status %d, Location %q (present=%v), reached the handler below=%v", e.Code, e.A, o.Status, o.Location, o.HasLoc, o.Saw)
		}
	case "meta":
		esc := html.EscapeString(e.A)
		if o.Saw || o.Status != 200 || o.HasLoc || !strings.Contains(o.Body, "URL='"+esc+"'") || !strings.Contains(o.Body, `window.location.replace("`+esc+`")`) {
			return "meta", fmt.Sprintf("want the meta-refresh page for %q; got status %d, Location %q, body %q", e.A, o.Status, o.Location, o.Body)
		}
	default:
		return "model", "unknown outcome kind " + e.Kind
	}
	// {uri} and {path} are the ORIGINAL request whatever rewrite did
	if o.Opath != q.P {
		return "placeholder", fmt.Sprintf("{path}: want the original %q, got %q", q.P, o.Opath)
	}
	if want := requestURI(q.P, q.Qs); o.Uri != want {
		return "placeholder", fmt.Sprintf("{uri}: want the original %q, got %q", want, o.Uri)
	}
	return "", ""
}

// ---------------------------------------------------------------- the checker

type checker struct {
	res     *hx.Result
	fx      *fixture
	battery []reqJ
	rw      map[string]rwJ
	rd      map[string]rdJ

	mu      sync.Mutex
	infra   error
	stats   map[string]int
	caught  int // selftest: corruptions noticed
	planted int
}

func (c *checker) setInfra(err error) {
	c.mu.Lock()
	if c.infra == nil {
		c.infra = err
	}
	c.mu.Unlock()
}

func (c *checker) stat(k string) {
	c.mu.Lock()
	c.stats[k]++
	c.mu.Unlock()
}

func (c *checker) lines(tc *tcase, rnd *rand.Rand) []string {
	// rewrite lines and redir lines keep their own order; how the two kinds interleave is seeded
	var rwl, rdl []string
	for _, id := range tc.Rwl {
		rwl = append(rwl, rwText(c.rw[id], rnd))
	}
	for _, id := range tc.Rdl {
		rdl = append(rdl, rdText(c.rd[id], rnd))
	}
	var out []string
	for len(rwl) > 0 || len(rdl) > 0 {
		if len(rdl) == 0 || (len(rwl) > 0 && rnd.Intn(2) == 0) {
			out, rwl = append(out, rwl[0]), rwl[1:]
		} else {
			out, rdl = append(out, rdl[0]), rdl[1:]
		}
	}
	return out
}

func siteIDs(tc *tcase) string {
	return "rw=" + strings.Join(tc.Rwl, ",") + ";rd=" + strings.Join(tc.Rdl, ",")
}

func key(clause, ids string, q *reqJ) string {
	k := "C09/rewriteredir/" + clause + "/" + ids
	if q != nil {
		k += ";req=" + q.String()
	}
	return k
}

// confirm runs the one request again on a fresh instance and reports the mismatch if it is still there.
func (c *checker) confirm(ids string, lines []string, ok bool, q reqJ, e outcome, rnd *rand.Rand) {
	p1, _, cf, startErr, infra := runSite(c.fx, lines, []reqJ{q}, []int{0}, false, rnd)
	if infra != nil {
		c.setInfra(infra)
		return
	}
	if startErr != nil {
		c.setInfra(fmt.Errorf("site started before and is refused now: %v\n%s", startErr, cf))
		return
	}
	clause, what := judge(q, e, p1[0])
	if clause == "" {
		c.stat("not_reproduced")
		return
	}
	qq, ee := q, e
	c.res.Add(hx.Mismatch{Key: key(clause, ids, &q), What: what + "\n" + cf,
		Case:     rcase{Clause: "rewriteredir/" + clause, IDs: ids, Lines: lines, Files: c.fx.files, Ok: ok, Req: &qq, Exp: &ee},
		Expected: e, Observed: p1[0]})
}

func (c *checker) checkSite(tc *tcase, rnd *rand.Rand, selftest bool) {
	ids := siteIDs(tc)
	if tc.Sfree {
		c.stat("setup_unjudged")
		return
	}
	lines := c.lines(tc, rnd)
	idx := make([]int, len(c.battery))
	for k := range idx {
		idx[k] = k
	}
	p1, p2, cf, startErr, infra := runSite(c.fx, lines, c.battery, idx, true, rnd)
	if infra != nil {
		c.setInfra(infra)
		return
	}
	// ---- setup
	if !tc.Ok {
		c.stat("sites_refused")
		if selftest {
			return
		}
		if startErr == nil { // once more on a fresh instance
			if _, _, cf2, startErr2, infra2 := runSite(c.fx, lines, c.battery, idx[:1], false, rnd); infra2 == nil && startErr2 == nil {
				c.res.Add(hx.Mismatch{Key: key("setup", ids, nil), What: "the setup must refuse this site (rewrite: unknown sub-directive / no target / invalid ext; redir: from = to, or an unconditional duplicate from) but casket.Start loads it\n" + cf2,
					Case: rcase{Clause: "rewriteredir/setup", IDs: ids, Lines: lines, Files: c.fx.files, Ok: false}, Expected: "refused", Observed: "started"})
			}
		}
		return
	}
	if startErr != nil {
		if _, _, cf2, startErr2, _ := runSite(c.fx, lines, c.battery, idx[:1], false, rnd); startErr2 != nil {
			c.res.Add(hx.Mismatch{Key: key("setup", ids, nil), What: "the setup must accept this site but casket.Start refuses it: " + startErr2.Error() + "\n" + cf2,
				Case: rcase{Clause: "rewriteredir/setup", IDs: ids, Lines: lines, Files: c.fx.files, Ok: true}, Expected: "started", Observed: startErr2.Error()})
		}
		_ = cf
		return
	}
	c.stat("sites_served")
	if len(tc.Exp) != len(c.battery) {
		c.setInfra(fmt.Errorf("site %s: %d expectations for %d requests", ids, len(tc.Exp), len(c.battery)))
		return
	}
	exp := tc.Exp
	corrupt := -1
	if selftest { // plant one wrong expectation; it must be noticed
		exp = append([]outcome(nil), tc.Exp...)
		corrupt = rnd.Intn(len(exp))
		switch exp[corrupt].Kind {
		case "pass":
			exp[corrupt].A += "x"
			exp[corrupt].Free = false
		case "redir":
			exp[corrupt].Code++
		default:
			exp[corrupt].A += "x"
		}
		c.mu.Lock()
		c.planted++
		c.mu.Unlock()
	}
	for k, q := range c.battery {
		e := exp[k]
		c.stat("outcome_" + e.Kind)
		if e.RwSel > 0 {
			c.stat("rewritten")
		}
		if e.RwSel > 1 {
			c.stat("rewritten_by_a_later_rule")
		}
		if e.RdSel > 1 {
			c.stat("redirected_by_a_later_rule")
		}
		if e.Kind == "redir" && e.A == q.target() {
			// the only loop guard is the setup's from != to: a catch-all or a rewritten path can be
			// redirected to the very URI that was requested. Noted, not judged (it is what the documentation says).
			c.stat("redirect_to_the_requested_uri_noted")
		}
		if e.Free {
			c.stat("query_carry_unjudged")
			if p1[k].Saw && p1[k].SawQuery == e.B {
				c.stat("query_carry_observed_as_modelled")
			}
		}
		clause, _ := judge(q, e, p1[k])
		if clause == "" {
			clause, _ = judge(q, e, p2[k])
		}
		if k == corrupt {
			if clause != "" {
				c.mu.Lock()
				c.caught++
				c.mu.Unlock()
			}
			continue
		}
		if clause != "" {
			c.confirm(ids, lines, true, q, e, rnd)
			continue
		}
		if !reflect.DeepEqual(p1[k], p2[k]) {
			// same request, same site, another connection and other predecessors: must be the same answer
			a, _, _, _, infra := runSite(c.fx, lines, c.battery, idx, true, rnd)
			if infra != nil {
				c.setInfra(infra)
				continue
			}
			if !reflect.DeepEqual(a[k], p1[k]) || !reflect.DeepEqual(a[k], p2[k]) {
				qq := q
				c.res.Add(hx.Mismatch{Key: key("determinism", ids, &q), What: "the same request got different answers on the same site\n" + cf,
					Case:     rcase{Clause: "rewriteredir/determinism", IDs: ids, Lines: lines, Files: c.fx.files, Ok: true, Req: &qq, Exp: &e},
					Expected: p1[k], Observed: p2[k]})
			}
		}
	}
}

// checkConds: one site per atomic condition, once under rewrite and once under redir.
func (c *checker) checkConds(conds []condRow, rnd *rand.Rand, selftest bool) {
	idx := make([]int, len(c.battery))
	for k := range idx {
		idx[k] = k
	}
	for y, cr := range conds {
		if len(cr.Row) != len(c.battery) {
			c.setInfra(fmt.Errorf("condition %d: %d truth values for %d requests", y, len(cr.Row), len(c.battery)))
			return
		}
		row := cr.Row
		corrupt := -1
		if selftest {
			row = append([]bool(nil), cr.Row...)
			corrupt = rnd.Intn(len(row))
			row[corrupt] = !row[corrupt]
			c.planted += 2
		}
		text := condText(cr.Cond)
		for _, host := range []string{"rewrite", "redir"} {
			var lines []string
			if host == "rewrite" {
				lines = []string{block("rewrite", []string{text, "to /cond-true"})}
			} else {
				lines = []string{block("redir 302", []string{text, "/ /cond-true"})}
			}
			p1, _, cf, startErr, infra := runSite(c.fx, lines, c.battery, idx, false, rnd)
			if infra != nil || startErr != nil {
				c.setInfra(fmt.Errorf("condition site: %v %v\n%s", infra, startErr, cf))
				return
			}
			for k, q := range c.battery {
				c.res.Count("")
				got := p1[k].SawPath == "/cond-true"
				if host == "redir" {
					got = p1[k].Status == 302 && p1[k].Location == "/cond-true"
				}
				if got == row[k] {
					continue
				}
				if k == corrupt {
					c.caught++
					continue
				}
				// once more, alone
				a, _, _, _, infra := runSite(c.fx, lines, []reqJ{q}, []int{0}, false, rnd)
				if infra != nil {
					c.setInfra(infra)
					return
				}
				again := a[0].SawPath == "/cond-true"
				if host == "redir" {
					again = a[0].Status == 302 && a[0].Location == "/cond-true"
				}
				if again != row[k] {
					qq := q
					e := outcome{Kind: "pass", Code: 200, A: q.P, B: q.Qs}
					if row[k] && host == "rewrite" {
						e = outcome{Kind: "pass", Code: 200, A: "/cond-true", B: q.Qs, RwSel: 1}
					} else if row[k] {
						e = outcome{Kind: "redir", Code: 302, A: "/cond-true", RdSel: 1}
					}
					c.res.Add(hx.Mismatch{Key: key("cond", host+":"+text, &q), What: fmt.Sprintf("`%s` must be %v for this request\n%s", text, row[k], cf),
						Case:     rcase{Clause: "rewriteredir/cond", IDs: host + ":" + text, Lines: lines, Files: c.fx.files, Ok: true, Req: &qq, Exp: &e},
						Expected: row[k], Observed: a[0]})
				}
			}
		}
	}
}

// ---------------------------------------------------------------- the test

func TestCx09Rewrite(t *testing.T) {
	hx.Quiet()
	res := hx.NewResult("TestCx09Rewrite", "one case = one site (<= MaxRules rewrite / redir lines of the pools of RewriteRedir.tla, every site with <= 1 line (thorough: <= 2) and a hash-selected sample of the larger ones) loaded with casket.Start and probed twice with the 60-request battery; verdicts: setup accepts exactly the modelled sites, the URL seen below rewrite/redir or the redirect equals the model's table, original/rewritten placeholders, same answer both times; non-trivial = site with >= 2 lines")
	defer res.Write(t)

	// a replay file of another test of this property is not ours
	if p := hx.Replay(); p != "" {
		b, _ := os.ReadFile(p)
		var w struct {
			Case struct {
				Clause string `json:"clause"`
			} `json:"case"`
		}
		if json.Unmarshal(b, &w) != nil || !strings.HasPrefix(w.Case.Clause, "rewriteredir/") {
			res.AddExtra("replay", "not a rewriteredir case: skipped")
			return
		}
	}

	// certmagic logs two lines per instance through a logger bound to fd 2: keep them out of the go test log
	if os.Getenv("VERIF_VERBOSE") == "" {
		if dn, err := os.Create(filepath.Join(hx.Scratch(t), "cx09rewrite_stderr.log")); err == nil {
			if saved, err := syscall.Dup(2); err == nil {
				syscall.Dup2(int(dn.Fd()), 2)
				defer func() { syscall.Dup2(saved, 2); syscall.Close(saved); dn.Close() }()
			}
		}
	}

	c := &checker{res: res, stats: map[string]int{}, rw: map[string]rwJ{}, rd: map[string]rdJ{}}

	if rp, ok := hx.LoadReplay[rcase](t); ok {
		replayOne(t, c, &rp)
		return
	}

	var head *tcase
	var sites []*tcase
	seen := map[string]bool{}
	hx.EachCase(t, module, func(line []byte) error {
		var tc tcase
		if err := json.Unmarshal(line, &tc); err != nil {
			return err
		}
		switch tc.Kind {
		case "head":
			head = &tc
		case "site":
			if k := siteIDs(&tc); !seen[k] {
				seen[k] = true
				sites = append(sites, &tc)
			}
		}
		return nil
	})
	if head == nil || len(sites) == 0 {
		res.Infra = "TLC emitted no head / no sites"
		return
	}
	sort.Slice(sites, func(a, b int) bool { return siteIDs(sites[a]) < siteIDs(sites[b]) })
	c.battery = head.Reqs
	for _, r := range head.RwPool {
		c.rw[r.ID] = r
	}
	for _, r := range head.RdPool {
		c.rd[r.ID] = r
	}
	c.fx = newFixture(t, head.Files, head.Dirs)
	res.AddExtra("sites_from_tlc", len(sites))

	selftest := hx.SelfTest()
	todo := sites
	if selftest && len(todo) > 60 {
		todo = todo[:60]
	}

	// warm-up: the first instance of a process initialises certmagic etc.
	if _, _, cf, startErr, infra := runSite(c.fx, nil, c.battery, []int{0}, false, rand.New(rand.NewSource(1))); infra != nil || startErr != nil {
		res.Infra = fmt.Sprintf("cannot start the empty site: %v %v\n%s", infra, startErr, cf)
		return
	}

	workers := 12
	jobs := make(chan *tcase)
	var wg sync.WaitGroup
	for w := 0; w < workers; w++ {
		wg.Add(1)
		rnd := rand.New(rand.NewSource(hx.Seed()*7919 + int64(w)))
		go func() {
			defer wg.Done()
			for tc := range jobs {
				c.checkSite(tc, rnd, selftest)
				nt := ""
				if len(tc.Rwl)+len(tc.Rdl) >= 2 {
					nt = siteIDs(tc)
				}
				res.Count(nt)
			}
		}()
	}
	for k, tc := range todo {
		jobs <- tc
		if k%97 == 5 && tc.Ok {
			res.Sample(map[string]interface{}{"site": siteIDs(tc), "lines": c.lines(tc, rand.New(rand.NewSource(1))), "request": c.battery[8].String(), "expected": tc.Exp[8]})
		}
	}
	close(jobs)
	wg.Wait()

	c.checkConds(head.Conds, hx.Rand(), selftest)

	if c.infra != nil {
		res.Infra = c.infra.Error()
	}
	res.AddExtra("stats", c.stats)
	res.AddExtra("requests_sent", (c.stats["sites_served"]*2+len(head.Conds)*2)*len(c.battery))
	// non-vacuity of the binding itself: every kind of outcome and every branch the clauses talk about was replayed
	if !selftest && res.Infra == "" {
		for _, k := range []string{"sites_refused", "sites_served", "outcome_pass", "outcome_redir", "outcome_meta", "rewritten", "rewritten_by_a_later_rule", "redirected_by_a_later_rule"} {
			if c.stats[k] == 0 {
				res.Infra = "vacuous replay: no case with " + k
			}
		}
	}
	if selftest {
		res.AddExtra("selftest_planted", c.planted)
		res.AddExtra("selftest_caught", c.caught)
		if c.caught != c.planted || c.planted == 0 {
			res.Infra = fmt.Sprintf("selftest: %d wrong expectations planted, %d noticed", c.planted, c.caught)
		}
	}
}

func replayOne(t *testing.T, c *checker, rc *rcase) {
	c.fx = newFixture(t, rc.Files, nil)
	rnd := hx.Rand()
	c.res.Count("replay")
	if rc.Req == nil { // a setup case
		_, _, cf, startErr, infra := runSite(c.fx, rc.Lines, []reqJ{{P: "/", M: "GET"}}, []int{0}, false, rnd)
		if infra != nil {
			c.res.Infra = infra.Error()
			return
		}
		if (startErr == nil) != rc.Ok {
			c.res.Add(hx.Mismatch{Key: key("setup", rc.IDs, nil), What: fmt.Sprintf("setup: want accepted=%v, got error %v\n%s", rc.Ok, startErr, cf), Case: *rc})
		}
		return
	}
	if rc.Exp == nil {
		t.Fatalf("replay file has no expectation")
	}
	c.confirm(rc.IDs, rc.Lines, rc.Ok, *rc.Req, *rc.Exp, rnd)
	if c.infra != nil {
		c.res.Infra = c.infra.Error()
	}
}
