package cx06tlsdir

import (
	"crypto/tls"
	"fmt"
	"testing"
	"time"

	"github.com/tmpim/casket"
	"github.com/tmpim/casket/caskethttp/httpserver"
	"verifharness/hx"
)

func TestExp(t *testing.T) {
	hx.Quiet()
	for _, body := range []string{
		"tls self_signed",
		"tls self_signed {\n key_type ed25519\n}",
		"tls self_signed {\n key_type p384\n}",
		"tls a b c",
		"tls off {\n bogus\n}",
		"tls {\n protocols tls1.1 tls1.2 tls1.3\n}",
		"tls {\n ciphers\n}",
		"tls {\n}",
		"tls",
		"tls {\n load\n}",
		"tls {\n clients REQUIRE\n}",
		"tls {\n must_staple foo\n}",
		"tls self_signed\n tls {\n protocols tls1.0\n}",
		"tls {\n load /nonexistent\n}",
		"",
	} {
		cf := "127.0.0.1:4567 {\n" + body + "\n}\n"
		t0 := time.Now()
		inst, ctx, err := casket.VerifC15Execute(casket.CasketfileInput{Contents: []byte(cf), Filepath: "Casketfile", ServerTypeName: "http"}, true)
		fmt.Printf("--- %q\n  exec err=%v (%v)\n", body, err, time.Since(t0))
		if err == nil {
			st, err2 := httpserver.VerifC15AutoHTTPS(ctx)
			fmt.Printf("  stages err=%v serverErr=%v nservers=%d\n", err2, st.ServerErr, len(st.Servers))
			for _, s := range st.Servers {
				hs := s.(*httpserver.Server)
				if hs.Server.TLSConfig == nil {
					fmt.Println("  plaintext")
					continue
				}
				c, err := hs.Server.TLSConfig.GetConfigForClient(&tls.ClientHelloInfo{ServerName: "127.0.0.1"})
				fmt.Printf("  cfg err=%v min=%x max=%x ciphers=%x curves=%v auth=%v np=%v prefer=%v\n", err, c.MinVersion, c.MaxVersion, c.CipherSuites, c.CurvePreferences, c.ClientAuth, c.NextProtos, c.PreferServerCipherSuites)
			}
		}
		if inst != nil {
			inst.ShutdownCallbacks()
		}
	}
}
