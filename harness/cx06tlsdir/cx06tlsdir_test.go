// Extension of C06: from the tokens of the `tls` directive to the effective crypto/tls
// configuration (specs/TLSDirective.tla, notes/TLSDirective.md).
//
// Replay of the files TLC enumerated. Every case is one site whose `tls` lines were written
// token by token by the specification's author actions; the specification's stepwise model of
// setupTLS / SetDefaultTLSParams / makeTLSConfig / buildStandardTLSConfig says whether the load
// is rejected and, if not, every field of the resulting caskettls.Config and *tls.Config.
//
//   - configuration level (every case): the Casketfile goes through casket's real loader and
//     every directive's setup (casket.VerifC15Execute, parsing callbacks skipped: no ACME), the
//     pure stages of automatic HTTPS and MakeServers (httpserver.VerifC15AutoHTTPS); the
//     site's caskettls.Config is reached through a test-only directive (httpserver.GetConfig),
//     its *tls.Config through the listener configuration's GetConfigForClient;
//   - end to end (a sample of the cases that have exactly one certificate for 127.0.0.1): the
//     site is started for real (casket.Start) and probed with crypto/tls clients: version
//     ranges, single suites, single curves, ALPN offers, client certificates; the model says for
//     every offer whether the handshake succeeds, the version, the admissible suites, whether a
//     client certificate is requested, the negotiated protocol, and the status of one request.
package cx06tlsdir

import (
	"bufio"
	"crypto/ecdsa"
	"crypto/ed25519"
	"crypto/elliptic"
	"crypto/rand"
	"crypto/tls"
	"crypto/x509"
	"crypto/x509/pkix"
	"encoding/json"
	"encoding/pem"
	"fmt"
	"math/big"
	"net"
	"net/http"
	"os"
	"path/filepath"
	"reflect"
	"runtime"
	"sort"
	"strconv"
	"strings"
	"sync"
	"sync/atomic"
	"testing"
	"time"

	"github.com/caddyserver/certmagic"
	"github.com/tmpim/casket"
	"github.com/tmpim/casket/caskethttp/httpserver"
	"github.com/tmpim/casket/caskettls"
	"verifharness/hx"
)

// ---------------------------------------------------------------- test-only plug-ins

// veriftlsdir <id> remembers the site configuration it is set up for (the same key -> config
// look-up every directive goes through), so that the test can read the caskettls.Config the
// `tls` directive and the server type left behind.
var captured sync.Map // id -> *httpserver.SiteConfig


func init() {
	httpserver.RegisterDevDirective("veriftlsdir", "")
	casket.RegisterPlugin("veriftlsdir", casket.Plugin{
		ServerType: "http",
		Action: func(c *casket.Controller) error {
			for c.Next() {
				args := c.RemainingArgs()
				if len(args) == 1 {
					captured.Store(args[0], httpserver.GetConfig(c))
				}
			}
			return nil
		},
	})
	caskettls.RegisterDNSProvider("verifdns", func(c *casket.Controller) (certmagic.ACMEDNSProvider, error) {
		return nil, nil // a solver without a provider: nothing is ever solved here
	})
}

// ---------------------------------------------------------------- the case as TLC prints it

type directive struct {
	Args  []string   `json:"args"`
	Lines [][]string `json:"lines"`
}

type mcerts struct {
	Self bool `json:"self"`
	Pair bool `json:"pair"`
	Dir  bool `json:"dir"`
}

// mcfg is the specification's caskettls.Config
type mcfg struct {
	Enabled     bool     `json:"enabled"`
	Email       string   `json:"email"`
	IssuerEmail string   `json:"issuerEmail"`
	SelfSigned  bool     `json:"selfSigned"`
	Manual      bool     `json:"manual"`
	CA          string   `json:"ca"`
	KeyType     string   `json:"keyType"`
	PMin        int      `json:"pmin"`
	PMax        int      `json:"pmax"`
	Ciphers     []string `json:"ciphers"`
	Prefer      bool     `json:"prefer"`
	Curves      []string `json:"curves"`
	Auth        string   `json:"auth"`
	CCerts      []string `json:"ccerts"`
	SNIOff      bool     `json:"sniOff"`
	ALPN        []string `json:"alpn"`
	MustStaple  bool     `json:"mustStaple"`
	OnDemand    bool     `json:"onDemand"`
	NoRedirect  bool     `json:"noRedirect"`
	DNS         bool     `json:"dns"`
	Hostname    string   `json:"hostname"`
	Managed     bool     `json:"managed"`
	Certs       mcerts   `json:"certs"`
}

// mtls is the specification's *tls.Config
type mtls struct {
	Made    bool     `json:"made"`
	Min     int      `json:"min"`
	Max     int      `json:"max"`
	Ciphers []string `json:"ciphers"`
	Prefer  bool     `json:"prefer"`
	Curves  []string `json:"curves"`
	Auth    string   `json:"auth"`
	CAs     []string `json:"cas"`
	ALPN    []string `json:"alpn"`
}

type offer struct {
	VMin   int      `json:"vmin"`
	VMax   int      `json:"vmax"`
	Suites []string `json:"suites"`
	Curve  string   `json:"curve"`
	ALPN   []string `json:"alpn"`
	CC     string   `json:"cc"`
}

// hsRow is <<ok, version, suite the model picks, admissible suites, certificate requested, protocol>>
type hsRow struct {
	OK      bool
	Ver     int
	Pick    string
	Allowed []string
	Asked   bool
	ALPN    string
}

func (r *hsRow) UnmarshalJSON(b []byte) error {
	var raw []json.RawMessage
	if err := json.Unmarshal(b, &raw); err != nil {
		return err
	}
	if len(raw) != 6 {
		return fmt.Errorf("handshake row with %d fields", len(raw))
	}
	var ok, asked int
	for i, dst := range []interface{}{&ok, &r.Ver, &r.Pick, &r.Allowed, &asked, &r.ALPN} {
		if err := json.Unmarshal(raw[i], dst); err != nil {
			return err
		}
	}
	r.OK, r.Asked = ok == 1, asked == 1
	return nil
}

func b2i(b bool) int {
	if b {
		return 1
	}
	return 0
}

func (r hsRow) MarshalJSON() ([]byte, error) {
	return json.Marshal([]interface{}{b2i(r.OK), r.Ver, r.Pick, r.Allowed, b2i(r.Asked), r.ALPN})
}

type tcase struct {
	Probes []offer     `json:"probes,omitempty"` // only in the one line that carries the offers
	Host   string      `json:"host"`
	Dirs   []directive `json:"dirs"`
	Free   bool        `json:"free"`
	Err    string      `json:"err"`
	Cfg    *mcfg       `json:"cfg,omitempty"`
	CDef   bool        `json:"cdef"`
	TLS    *mtls       `json:"tls,omitempty"`
	Status int         `json:"status"`
	HS     []hsRow     `json:"hs,omitempty"`

	// replay only
	Offers []offer `json:"offers,omitempty"`
	Only   int     `json:"only,omitempty"` // 1-based index of the single offer to try (0: all)
	E2E    bool    `json:"e2e,omitempty"`
}

// ---------------------------------------------------------------- fixtures

type fixtures struct {
	dir         string
	paths       map[string]string // symbolic token -> concrete text
	good, other tls.Certificate
	caSubjects  map[string]string // raw subject -> "CA1" | "CA2"
	pairSerial  string
	dirSerial   string
}

func writePEM(path, typ string, der []byte) error {
	return os.WriteFile(path, pem.EncodeToMemory(&pem.Block{Type: typ, Bytes: der}), 0o600)
}

func newKey() *ecdsa.PrivateKey {
	k, err := ecdsa.GenerateKey(elliptic.P256(), rand.Reader)
	if err != nil {
		panic(err)
	}
	return k
}

func makeCA(cn string, serial int64) (*x509.Certificate, *ecdsa.PrivateKey, []byte, error) {
	now := time.Now()
	k := newKey()
	t := &x509.Certificate{SerialNumber: big.NewInt(serial), Subject: pkix.Name{CommonName: cn}, NotBefore: now.Add(-time.Hour),
		NotAfter: now.Add(240 * time.Hour), IsCA: true, BasicConstraintsValid: true, KeyUsage: x509.KeyUsageCertSign | x509.KeyUsageDigitalSignature}
	der, err := x509.CreateCertificate(rand.Reader, t, t, &k.PublicKey, k)
	if err != nil {
		return nil, nil, nil, err
	}
	c, err := x509.ParseCertificate(der)
	return c, k, der, err
}

func serverCert(serial int64) (certPEM, keyPEM []byte, err error) {
	now := time.Now()
	k := newKey()
	t := &x509.Certificate{SerialNumber: big.NewInt(serial), Subject: pkix.Name{CommonName: "tlsdirective fixture"}, NotBefore: now.Add(-time.Hour),
		NotAfter: now.Add(240 * time.Hour), DNSNames: []string{"sub.example.com"}, IPAddresses: []net.IP{net.ParseIP("127.0.0.1")},
		KeyUsage: x509.KeyUsageDigitalSignature, ExtKeyUsage: []x509.ExtKeyUsage{x509.ExtKeyUsageServerAuth}}
	der, err := x509.CreateCertificate(rand.Reader, t, t, &k.PublicKey, k)
	if err != nil {
		return nil, nil, err
	}
	kb, err := x509.MarshalECPrivateKey(k)
	if err != nil {
		return nil, nil, err
	}
	return pem.EncodeToMemory(&pem.Block{Type: "CERTIFICATE", Bytes: der}), pem.EncodeToMemory(&pem.Block{Type: "EC PRIVATE KEY", Bytes: kb}), nil
}

func makeFixtures(dir string) (*fixtures, error) {
	fx := &fixtures{dir: dir, caSubjects: map[string]string{}, pairSerial: "10", dirSerial: "11"}
	p := func(n string) string { return filepath.Join(dir, n) }
	fx.paths = map[string]string{
		"EMAIL": "admin@example.test", "CERT": p("cert.pem"), "KEY": p("key.pem"), "NOFILE": p("nofile.pem"),
		"CA1": p("ca1.pem"), "CA2": p("ca2.pem"), "NOTPEM": p("notpem.pem"), "DIR": p("bundles"),
	}
	now := time.Now()
	ca1, ca1Key, ca1DER, err := makeCA("tlsdirective client CA 1", 1)
	if err != nil {
		return nil, err
	}
	ca2, _, ca2DER, err := makeCA("tlsdirective client CA 2", 2)
	if err != nil {
		return nil, err
	}
	fx.caSubjects[string(ca1.RawSubject)] = "CA1"
	fx.caSubjects[string(ca2.RawSubject)] = "CA2"
	if err := writePEM(fx.paths["CA1"], "CERTIFICATE", ca1DER); err != nil {
		return nil, err
	}
	if err := writePEM(fx.paths["CA2"], "CERTIFICATE", ca2DER); err != nil {
		return nil, err
	}
	if err := os.WriteFile(fx.paths["NOTPEM"], []byte("this is not a certificate\n"), 0o600); err != nil {
		return nil, err
	}
	gk := newKey()
	gT := &x509.Certificate{SerialNumber: big.NewInt(3), Subject: pkix.Name{CommonName: "good client"}, NotBefore: now.Add(-time.Hour),
		NotAfter: now.Add(240 * time.Hour), KeyUsage: x509.KeyUsageDigitalSignature, ExtKeyUsage: []x509.ExtKeyUsage{x509.ExtKeyUsageClientAuth}}
	gDER, err := x509.CreateCertificate(rand.Reader, gT, ca1, &gk.PublicKey, ca1Key)
	if err != nil {
		return nil, err
	}
	fx.good = tls.Certificate{Certificate: [][]byte{gDER}, PrivateKey: gk}
	ok := newKey()
	oT := &x509.Certificate{SerialNumber: big.NewInt(4), Subject: pkix.Name{CommonName: "other client"}, NotBefore: now.Add(-time.Hour),
		NotAfter: now.Add(240 * time.Hour), KeyUsage: x509.KeyUsageDigitalSignature, ExtKeyUsage: []x509.ExtKeyUsage{x509.ExtKeyUsageClientAuth}}
	oDER, err := x509.CreateCertificate(rand.Reader, oT, oT, &ok.PublicKey, ok)
	if err != nil {
		return nil, err
	}
	fx.other = tls.Certificate{Certificate: [][]byte{oDER}, PrivateKey: ok}
	cp, kp, err := serverCert(10)
	if err != nil {
		return nil, err
	}
	if err := os.WriteFile(fx.paths["CERT"], cp, 0o600); err != nil {
		return nil, err
	}
	if err := os.WriteFile(fx.paths["KEY"], kp, 0o600); err != nil {
		return nil, err
	}
	if err := os.MkdirAll(fx.paths["DIR"], 0o700); err != nil {
		return nil, err
	}
	cp, kp, err = serverCert(11)
	if err != nil {
		return nil, err
	}
	return fx, os.WriteFile(filepath.Join(fx.paths["DIR"], "bundle.pem"), append(cp, kp...), 0o600)
}

// ---------------------------------------------------------------- concretisation

func (fx *fixtures) tok(t string, abstract bool) string {
	if !abstract {
		if v, ok := fx.paths[t]; ok {
			return v
		}
	}
	return t
}

// directiveText renders the `tls` lines. abstract: symbolic file names (for keys and samples).
func directiveText(c *tcase, fx *fixtures, abstract bool, extra string) string {
	var b strings.Builder
	for i, d := range c.Dirs {
		b.WriteString("\ttls")
		for _, a := range d.Args {
			b.WriteString(" " + fx.tok(a, abstract))
		}
		lines := d.Lines
		if extra != "" && i == len(c.Dirs)-1 {
			lines = append(append([][]string{}, lines...), []string{extra})
		}
		if len(lines) > 0 {
			b.WriteString(" {\n")
			for _, ln := range lines {
				b.WriteString("\t\t" + ln[0])
				for _, a := range ln[1:] {
					b.WriteString(" " + fx.tok(a, abstract))
				}
				b.WriteString("\n")
			}
			b.WriteString("\t}")
		}
		b.WriteString("\n")
	}
	return b.String()
}

func siteHost(h string) string {
	if h == "name" {
		return "sub.example.com"
	}
	return "127.0.0.1"
}

// ident is the canonical one-line spelling of a case (no paths, no ports).
func ident(c *tcase) string {
	var parts []string
	for _, d := range c.Dirs {
		s := "tls"
		if len(d.Args) > 0 {
			s += " " + strings.Join(d.Args, " ")
		}
		if len(d.Lines) > 0 {
			var ls []string
			for _, ln := range d.Lines {
				ls = append(ls, strings.Join(ln, " "))
			}
			s += " { " + strings.Join(ls, " ; ") + " }"
		}
		parts = append(parts, s)
	}
	if len(parts) == 0 {
		parts = []string{"(no tls directive)"}
	}
	return c.Host + "/" + strings.Join(parts, " + ")
}

var cipherIDs = map[string]uint16{
	"SCSV":   tls.TLS_FALLBACK_SCSV,
	"EA256G": tls.TLS_ECDHE_ECDSA_WITH_AES_256_GCM_SHA384, "RA256G": tls.TLS_ECDHE_RSA_WITH_AES_256_GCM_SHA384,
	"EA128G": tls.TLS_ECDHE_ECDSA_WITH_AES_128_GCM_SHA256, "RA128G": tls.TLS_ECDHE_RSA_WITH_AES_128_GCM_SHA256,
	"ECHA": tls.TLS_ECDHE_ECDSA_WITH_CHACHA20_POLY1305, "RCHA": tls.TLS_ECDHE_RSA_WITH_CHACHA20_POLY1305,
	"EA128C": tls.TLS_ECDHE_ECDSA_WITH_AES_128_CBC_SHA,
}
var cipherNames = func() map[uint16]string {
	m := map[uint16]string{}
	for k, v := range cipherIDs {
		m[v] = k
	}
	return m
}()
var curveIDs = map[string]tls.CurveID{"X25519": tls.X25519, "P256": tls.CurveP256, "P384": tls.CurveP384, "P521": tls.CurveP521}
var curveNames = map[tls.CurveID]string{tls.X25519: "X25519", tls.CurveP256: "P256", tls.CurveP384: "P384", tls.CurveP521: "P521"}
var versions = map[int]uint16{10: tls.VersionTLS10, 11: tls.VersionTLS11, 12: tls.VersionTLS12, 13: tls.VersionTLS13}
var versionOf = map[uint16]int{0: 0, tls.VersionTLS10: 10, tls.VersionTLS11: 11, tls.VersionTLS12: 12, tls.VersionTLS13: 13}
var authNames = map[tls.ClientAuthType]string{tls.NoClientCert: "none", tls.RequestClientCert: "request", tls.RequireAnyClientCert: "requireany",
	tls.VerifyClientCertIfGiven: "verifyifgiven", tls.RequireAndVerifyClientCert: "requireandverify"}

func cipherList(ids []uint16) []string {
	out := []string{}
	for _, id := range ids {
		if n, ok := cipherNames[id]; ok {
			out = append(out, n)
		} else {
			out = append(out, fmt.Sprintf("0x%04x", id))
		}
	}
	return out
}

func curveList(ids []tls.CurveID) []string {
	out := []string{}
	for _, id := range ids {
		if n, ok := curveNames[id]; ok {
			out = append(out, n)
		} else {
			out = append(out, fmt.Sprintf("curve%d", id))
		}
	}
	return out
}

// The default suite list has two documented orders (config.go: defaultCiphers, and defaultCiphersNonAESNI =
// "List of ciphers we should prefer if native AESNI support is missing"). Which one applies is read from the
// kernel's CPU flags (the harness module must not grow a direct dependency on the cpuid package casket uses);
// where that cannot be told (no x86, no /proc/cpuinfo) either documented order is accepted.
var nonAESNIOrder = []string{"ECHA", "RCHA", "EA256G", "RA256G", "EA128G", "RA128G"}

var aesni = sync.OnceValue(func() string { // "yes" | "no" | "unknown"
	if runtime.GOARCH != "amd64" && runtime.GOARCH != "386" {
		return "unknown"
	}
	b, err := os.ReadFile("/proc/cpuinfo")
	if err != nil {
		return "unknown"
	}
	for _, ln := range strings.Split(string(b), "\n") {
		if strings.HasPrefix(ln, "flags") {
			if strings.Contains(ln+" ", " aes ") {
				return "yes"
			}
			return "no"
		}
	}
	return "unknown"
})

func withDefaultOrder(model []string, order []string) []string {
	out := []string{}
	for _, s := range model {
		if s == "SCSV" {
			out = append(out, s)
		}
	}
	return append(out, order...)
}

// defaultCipherOrder returns the expected default list; observed is consulted only when the CPU cannot be told.
func defaultCipherOrder(model, observed []string) []string {
	alt := withDefaultOrder(model, nonAESNIOrder)
	switch aesni() {
	case "yes":
		return model
	case "no":
		return alt
	}
	if reflect.DeepEqual(observed, alt) {
		return alt
	}
	return model
}

func nz(s []string) []string {
	if s == nil {
		return []string{}
	}
	return s
}

// ---------------------------------------------------------------- configuration level

type observation struct {
	Rejected bool   `json:"rejected"`
	Stage    string `json:"stage,omitempty"` // "load" | "servers"
	Class    string `json:"class,omitempty"`
	ErrText  string `json:"error,omitempty"`
	Cfg      *mcfg  `json:"cfg,omitempty"`
	TLS      *mtls  `json:"tls,omitempty"`
	SelfKey  string `json:"self_signed_key,omitempty"`
}

func classify(msg string) string {
	switch {
	case strings.Contains(msg, "Wrong argument count"):
		return "args"
	case strings.Contains(msg, "Wrong key type name"):
		return "keytype"
	case strings.Contains(msg, "Wrong protocol name"):
		return "protocol"
	case strings.Contains(msg, "Minimum protocol version cannot be higher"):
		return "minmax"
	case strings.Contains(msg, "Wrong cipher name"):
		return "cipher"
	case strings.Contains(msg, "Wrong curve name"):
		return "curve"
	case strings.Contains(msg, "Unknown DNS provider"):
		return "dns"
	case strings.Contains(msg, "wildcard"):
		return "wildcard"
	case strings.Contains(msg, "Unknown subdirective"):
		return "unknown"
	case strings.Contains(msg, "ask must be a valid url"), strings.Contains(msg, "ask URL must use"):
		return "askurl"
	case strings.Contains(msg, "Unable to load certificate and key"):
		return "certload"
	case strings.Contains(msg, "self-signed"):
		return "selfsigned"
	case strings.Contains(msg, "no certificates were successfully parsed"), strings.Contains(msg, "no such file or directory"):
		return "cafile"
	}
	return "other"
}

var idCounter uint64

const sitePort = 4567

func evalConfig(c *tcase, fx *fixtures) (o observation, infra error) {
	id := "c" + strconv.FormatUint(atomic.AddUint64(&idCounter, 1), 10)
	defer captured.Delete(id)
	cf := fmt.Sprintf("%s:%d {\n%s\tveriftlsdir %s\n}\n", siteHost(c.Host), sitePort, directiveText(c, fx, false, ""), id)
	inst, ctx, err := casket.VerifC15Execute(casket.CasketfileInput{Contents: []byte(cf), Filepath: "Casketfile", ServerTypeName: "http"}, true)
	defer func() {
		if inst != nil {
			inst.ShutdownCallbacks()
		}
	}()
	if err != nil {
		return observation{Rejected: true, Stage: "load", Class: classify(err.Error()), ErrText: err.Error()}, nil
	}
	st, err := httpserver.VerifC15AutoHTTPS(ctx)
	if err != nil {
		return observation{Rejected: true, Stage: "autohttps", Class: classify(err.Error()), ErrText: err.Error()}, nil
	}
	if st.ServerErr != nil {
		return observation{Rejected: true, Stage: "servers", Class: classify(st.ServerErr.Error()), ErrText: st.ServerErr.Error()}, nil
	}
	v, ok := captured.Load(id)
	if !ok {
		return o, fmt.Errorf("harness: site configuration of %s was not captured", ident(c))
	}
	sc := v.(*httpserver.SiteConfig)
	t := sc.TLS
	if t == nil {
		return o, fmt.Errorf("harness: site without TLS config")
	}
	m := &mcfg{Enabled: t.Enabled, Email: t.ACMEEmail, SelfSigned: t.SelfSigned, Manual: t.Manual, KeyType: strings.ToUpper(string(t.KeyType)),
		PMin: versionOf[t.ProtocolMinVersion], PMax: versionOf[t.ProtocolMaxVersion], Ciphers: cipherList(t.Ciphers), Prefer: t.PreferServerCipherSuites,
		Curves: curveList(t.CurvePreferences), Auth: authNames[t.ClientAuth], CCerts: nz(append([]string{}, t.ClientCerts...)), SNIOff: t.InsecureDisableSNIMatching,
		ALPN: nz(append([]string{}, t.ALPN...)), NoRedirect: t.NoRedirect, Managed: t.Managed}
	if t.Issuer != nil {
		m.IssuerEmail, m.CA, m.DNS = t.Issuer.Email, t.Issuer.CA, t.Issuer.DNS01Solver != nil
	}
	if t.Manager != nil {
		m.MustStaple, m.OnDemand = t.Manager.MustStaple, t.Manager.OnDemand != nil
	}
	switch t.Hostname {
	case "127.0.0.1":
		m.Hostname = "ip"
	case "sub.example.com":
		m.Hostname = "name"
	case "*.example.com":
		m.Hostname = "wild"
	default:
		m.Hostname = t.Hostname
	}
	// certificates in the instance's cache
	inst.StorageMu.RLock()
	cache, _ := inst.Storage[caskettls.CertCacheInstStorageKey].(*certmagic.Cache)
	inst.StorageMu.RUnlock()
	if cache != nil {
		for _, crt := range cache.AllMatchingCertificates(siteHost(c.Host)) {
			if crt.Leaf == nil {
				continue
			}
			switch crt.Leaf.SerialNumber.String() {
			case fx.pairSerial:
				m.Certs.Pair = true
			case fx.dirSerial:
				m.Certs.Dir = true
			default:
				m.Certs.Self = true
				var pub interface{}
				if len(crt.Certificate.Certificate) > 0 {
					if leaf, err := x509.ParseCertificate(crt.Certificate.Certificate[0]); err == nil {
						pub = leaf.PublicKey
					}
				}
				switch k := pub.(type) {
				case *ecdsa.PublicKey:
					o.SelfKey = "P" + strconv.Itoa(k.Curve.Params().BitSize)
				case ed25519.PublicKey:
					o.SelfKey = "ED25519"
				default:
					o.SelfKey = fmt.Sprintf("%T", k)
				}
			}
		}
	}
	o.Cfg = m
	// the *tls.Config the listener hands out for this site
	o.TLS = &mtls{Ciphers: []string{}, Curves: []string{}, CAs: []string{}, ALPN: []string{}, Auth: "none"}
	for _, s := range st.Servers {
		hs, ok := s.(*httpserver.Server)
		if !ok || hs.Server == nil || hs.Server.TLSConfig == nil {
			continue
		}
		if hs.Server.TLSConfig.GetConfigForClient == nil {
			return o, fmt.Errorf("harness: listener configuration without GetConfigForClient")
		}
		tc, err := hs.Server.TLSConfig.GetConfigForClient(&tls.ClientHelloInfo{ServerName: siteHost(c.Host)})
		if err != nil {
			return o, fmt.Errorf("harness: GetConfigForClient: %v", err)
		}
		if tc == nil {
			continue // the listener has no configuration for the site's own name: observed as "not made"
		}
		x := &mtls{Made: true, Min: versionOf[tc.MinVersion], Max: versionOf[tc.MaxVersion], Ciphers: cipherList(tc.CipherSuites), Prefer: tc.PreferServerCipherSuites,
			Curves: curveList(tc.CurvePreferences), Auth: authNames[tc.ClientAuth], ALPN: nz(append([]string{}, tc.NextProtos...)), CAs: []string{}}
		if tc.ClientCAs != nil {
			for _, sub := range tc.ClientCAs.Subjects() { //nolint:staticcheck // pool built from files, not the system pool
				if n, ok := fx.caSubjects[string(sub)]; ok {
					x.CAs = append(x.CAs, n)
				} else {
					x.CAs = append(x.CAs, "unknown")
				}
			}
			sort.Strings(x.CAs)
		}
		o.TLS = x
	}
	return o, nil
}

type finding struct {
	clause string // rejected-iff-invalid | effective | handshake | request
	detail string
	what   string
	exp    interface{}
	obs    interface{}
	drift  bool // a free construct or a facet that is not judged: recorded, never a violation
	only   int
}

func sortedCopy(s []string) []string {
	o := append([]string{}, s...)
	sort.Strings(o)
	return o
}

// compareConfig judges one observation against the specification's terminal state.
func compareConfig(c *tcase, o observation) (fs []finding) {
	add := func(clause, detail, what string, exp, obs interface{}, drift bool) {
		fs = append(fs, finding{clause: clause, detail: detail, what: what, exp: exp, obs: obs, drift: drift || c.Free})
	}
	if (c.Err != "") != o.Rejected {
		exp := "accepted"
		if c.Err != "" {
			exp = "rejected (" + c.Err + ")"
		}
		obs := "accepted"
		if o.Rejected {
			obs = "rejected at " + o.Stage + ": " + o.ErrText
		}
		add("rejected-iff-invalid", "", "the file is "+exp+" by the specification; the real load: "+obs, exp, obs, false)
		return
	}
	if o.Rejected {
		if o.Class != c.Err {
			add("error-class", "", fmt.Sprintf("rejected as expected, but with error class %q instead of %q: %s", o.Class, c.Err, o.ErrText), c.Err, o.Class, true)
		}
		return
	}
	if c.Cfg == nil || c.TLS == nil {
		return
	}
	// *tls.Config
	want := *c.TLS
	if c.CDef {
		want.Ciphers = defaultCipherOrder(want.Ciphers, o.TLS.Ciphers)
	}
	want.CAs = sortedCopy(want.CAs)
	tf := func(name string, w, h interface{}) {
		if !reflect.DeepEqual(w, h) {
			add("effective", "tls."+name, fmt.Sprintf("tls.Config.%s: the tokens say %v, the built configuration has %v", name, w, h), w, h, false)
		}
	}
	tf("made", want.Made, o.TLS.Made)
	if want.Made && o.TLS.Made {
		tf("MinVersion", want.Min, o.TLS.Min)
		tf("MaxVersion", want.Max, o.TLS.Max)
		tf("CipherSuites", nz(want.Ciphers), o.TLS.Ciphers)
		tf("PreferServerCipherSuites", want.Prefer, o.TLS.Prefer)
		tf("CurvePreferences", nz(want.Curves), o.TLS.Curves)
		tf("ClientAuth", want.Auth, o.TLS.Auth)
		tf("ClientCAs", nz(want.CAs), o.TLS.CAs)
		tf("NextProtos", nz(want.ALPN), o.TLS.ALPN)
	}
	// caskettls.Config
	w, h := c.Cfg, o.Cfg
	cf := func(name string, a, b interface{}) {
		if !reflect.DeepEqual(a, b) {
			add("effective", "config."+name, fmt.Sprintf("caskettls.Config.%s: the tokens say %v, the site configuration has %v", name, a, b), a, b, false)
		}
	}
	cf("Enabled", w.Enabled, h.Enabled)
	cf("ACMEEmail", fxPath(w.Email), h.Email)
	cf("Issuer.Email", fxPath(w.IssuerEmail), h.IssuerEmail)
	cf("SelfSigned", w.SelfSigned, h.SelfSigned)
	cf("Manual", w.Manual, h.Manual)
	if w.CA != "" { // the default directory URL is certmagic's business
		cf("Issuer.CA", w.CA, h.CA)
	}
	cf("KeyType", w.KeyType, h.KeyType)
	cf("ClientAuth", w.Auth, h.Auth)
	cf("InsecureDisableSNIMatching", w.SNIOff, h.SNIOff)
	cf("Manager.MustStaple", w.MustStaple, h.MustStaple)
	cf("Manager.OnDemand", w.OnDemand, h.OnDemand)
	cf("NoRedirect", w.NoRedirect, h.NoRedirect)
	cf("Issuer.DNS01Solver", w.DNS, h.DNS)
	cf("Hostname", w.Hostname, h.Hostname)
	cf("Managed", w.Managed, h.Managed)
	cf("certificates", w.Certs, h.Certs)
	if w.Enabled {
		cf("ProtocolMinVersion", w.PMin, h.PMin)
		cf("ProtocolMaxVersion", w.PMax, h.PMax)
		wc := nz(w.Ciphers)
		if c.CDef {
			wc = defaultCipherOrder(wc, h.Ciphers)
		}
		cf("Ciphers", wc, h.Ciphers)
		cf("CurvePreferences", nz(w.Curves), h.Curves)
		cf("ALPN", nz(w.ALPN), h.ALPN)
		cf("PreferServerCipherSuites", w.Prefer, h.Prefer)
	}
	// file names are compared symbolically
	var hc []string
	for _, f := range h.CCerts {
		hc = append(hc, filepath.Base(f))
	}
	var wcc []string
	for _, f := range w.CCerts {
		wcc = append(wcc, filepath.Base(fxPath(f)))
	}
	cf("ClientCerts", nz(wcc), nz(hc))
	// the key of a self-signed certificate is of the written type
	if w.Certs.Self && h.Certs.Self && w.KeyType != "" && o.SelfKey != w.KeyType {
		add("effective", "selfsigned.key", fmt.Sprintf("key_type %s was written, the self-signed certificate has a %s key", w.KeyType, o.SelfKey), w.KeyType, o.SelfKey, false)
	}
	return
}

var fxGlobal *fixtures

func fxPath(tok string) string {
	if fxGlobal != nil {
		if v, ok := fxGlobal.paths[tok]; ok {
			return v
		}
	}
	return tok
}

// ---------------------------------------------------------------- end to end

var portCounter uint32

func nextPort() int {
	for {
		p := 20000 + int((uint32(os.Getpid())*4001+atomic.AddUint32(&portCounter, 1))%12000)
		if hx.IsQuietPort(p) {
			continue
		}
		ln, err := net.Listen("tcp", "127.0.0.1:"+strconv.Itoa(p))
		if err != nil {
			continue
		}
		ln.Close()
		return p
	}
}

type hsObs struct {
	OK     bool   `json:"ok"`
	Ver    int    `json:"version"`
	Cipher string `json:"cipher"`
	Asked  bool   `json:"client_cert_requested"`
	ALPN   string `json:"alpn"`
	Status int    `json:"status,omitempty"`
	Err    string `json:"error,omitempty"`
}

func probe(addr string, of offer, fx *fixtures) hsObs {
	raw, err := net.DialTimeout("tcp", addr, 5*time.Second)
	if err != nil {
		return hsObs{Err: "dial: " + err.Error()}
	}
	reset := func() {
		if t, ok := raw.(*net.TCPConn); ok {
			t.SetLinger(0) // no TIME_WAIT: the box is shared
		}
		raw.Close()
	}
	asked := false
	cfg := &tls.Config{InsecureSkipVerify: true, MinVersion: versions[of.VMin], MaxVersion: versions[of.VMax], NextProtos: of.ALPN,
		GetClientCertificate: func(*tls.CertificateRequestInfo) (*tls.Certificate, error) {
			asked = true
			switch of.CC {
			case "good":
				return &fx.good, nil
			case "other":
				return &fx.other, nil
			}
			return &tls.Certificate{}, nil
		}}
	for _, s := range of.Suites {
		cfg.CipherSuites = append(cfg.CipherSuites, cipherIDs[s])
	}
	if of.Curve != "any" {
		cfg.CurvePreferences = []tls.CurveID{curveIDs[of.Curve]}
	}
	tc := tls.Client(raw, cfg)
	tc.SetDeadline(time.Now().Add(6 * time.Second))
	if err := tc.Handshake(); err != nil {
		reset()
		return hsObs{Asked: asked, Err: err.Error()}
	}
	st := tc.ConnectionState()
	o := hsObs{OK: true, Ver: versionOf[st.Version], Asked: asked, ALPN: st.NegotiatedProtocol}
	if st.Version == tls.VersionTLS13 {
		o.Cipher = "tls13"
	} else if n, ok := cipherNames[st.CipherSuite]; ok {
		o.Cipher = n
	} else {
		o.Cipher = fmt.Sprintf("0x%04x", st.CipherSuite)
	}
	defer reset()
	if st.NegotiatedProtocol != "" && st.NegotiatedProtocol != "http/1.1" {
		return o // h2 is not spoken here; a protocol net/http has no handler for ends the connection
	}
	// one request: a TLS 1.3 server refuses the client's certificate only after the handshake
	if _, err := fmt.Fprintf(tc, "GET / HTTP/1.1\r\nHost: 127.0.0.1\r\nUser-Agent: cx06tlsdir\r\n\r\n"); err != nil {
		o.OK, o.Err = false, "after handshake: write: "+err.Error()
		return o
	}
	resp, err := http.ReadResponse(bufio.NewReader(tc), &http.Request{Method: "GET"})
	if err != nil {
		o.OK, o.Err = false, "after handshake: read: "+err.Error()
		return o
	}
	resp.Body.Close()
	o.Status = resp.StatusCode
	return o
}

func contains(l []string, x string) bool {
	for _, y := range l {
		if x == y {
			return true
		}
	}
	return false
}

func describe(of offer) string {
	al := strings.Join(of.ALPN, ",")
	if al == "" {
		al = "-"
	}
	return fmt.Sprintf("tls%d-%d/suites=%s/curve=%s/alpn=%s/cc=%s", of.VMin, of.VMax, strings.Join(of.Suites, ","), of.Curve, al, of.CC)
}

// evalE2E starts the site and tries the offers (all, or only the one of a confirmation run).
func evalE2E(c *tcase, offers []offer, fx *fixtures) (fs []finding, n int, infra error) {
	var inst *hx.Site
	var err error
	var port int
	for try := 0; try < 25; try++ {
		port = nextPort()
		cf := fmt.Sprintf("127.0.0.1:%d {\n\tbind 127.0.0.1\n%s\tstatus 204 /\n}\n", port, directiveText(c, fx, false, "no_redirect"))
		inst, err = hx.StartHTTP(cf, "")
		if err == nil || !strings.Contains(err.Error(), "address already in use") {
			break
		}
	}
	if err != nil {
		if strings.Contains(err.Error(), "address already in use") {
			return nil, 0, fmt.Errorf("harness: no free listener port: %v", err)
		}
		return []finding{{clause: "rejected-iff-invalid", detail: "start", what: "the file is accepted by the specification and by the configuration-level load, but casket.Start fails: " + err.Error(),
			exp: "started", obs: err.Error(), drift: c.Free}}, 0, nil
	}
	defer inst.Stop()
	addr := "127.0.0.1:" + strconv.Itoa(port)
	for i, of := range offers {
		if c.Only != 0 && c.Only != i+1 {
			continue
		}
		if len(fs) > 3 {
			break // enough to report about this site
		}
		want := c.HS[i]
		o := probe(addr, of, fx)
		n++
		if strings.HasPrefix(o.Err, "dial:") {
			return fs, n, fmt.Errorf("harness: %s", o.Err)
		}
		bad := ""
		switch {
		case want.OK != o.OK:
			bad = "outcome"
		case !o.OK:
		case want.Ver != o.Ver:
			bad = "version"
		case !contains(want.Allowed, o.Cipher):
			bad = "cipher suite outside the configured and offered ones"
		case want.Asked != o.Asked:
			bad = "client certificate request"
		case want.ALPN != o.ALPN:
			bad = "negotiated protocol"
		}
		if bad != "" {
			fs = append(fs, finding{clause: "handshake", detail: describe(of), only: i + 1, exp: want, obs: o, drift: c.Free,
				what: fmt.Sprintf("handshake with offer %s: %s differs: the specification says %s; observed %+v", describe(of), bad, mustJSON(want), o)})
			continue
		}
		if o.OK && o.Cipher != want.Pick {
			// which of the admissible suites is crypto/tls's business
			fs = append(fs, finding{clause: "suite-choice", detail: describe(of), only: i + 1, exp: want.Pick, obs: o.Cipher, drift: true,
				what: fmt.Sprintf("offer %s: suite %s negotiated, the model's preference order picks %s (both admissible)", describe(of), o.Cipher, want.Pick)})
		}
		if o.OK && (o.ALPN == "" || o.ALPN == "http/1.1") && o.Status != c.Status {
			fs = append(fs, finding{clause: "request", detail: describe(of), only: i + 1, exp: c.Status, obs: o.Status, drift: c.Free,
				what: fmt.Sprintf("request after the handshake with offer %s: status %d expected, %d observed", describe(of), c.Status, o.Status)})
		}
	}
	return
}

func mustJSON(v interface{}) string {
	b, _ := json.Marshal(v)
	return string(b)
}

// ---------------------------------------------------------------- driver

func mmKey(c *tcase, f finding) string {
	k := "C06/tlsdirective/" + f.clause
	if f.detail != "" && f.clause == "effective" {
		k += "/" + f.detail
	}
	k += "/" + ident(c)
	if f.detail != "" && f.clause != "effective" {
		k += "/" + f.detail
	}
	return k
}

func probeable(c *tcase) bool { return c.Err == "" && len(c.HS) > 0 }

func nontrivial(c *tcase) string {
	if len(c.Dirs) == 0 {
		return ""
	}
	if len(c.Dirs) == 1 && len(c.Dirs[0].Lines) == 0 && len(c.Dirs[0].Args) == 1 {
		return ""
	}
	return ident(c)
}

type runner struct {
	res    *hx.Result
	fx     *fixtures
	offers []offer
	mu     sync.Mutex
	drift  map[string]int
	driftS []string
	infra  error
}

func (r *runner) noteDrift(c *tcase, f finding) {
	r.mu.Lock()
	defer r.mu.Unlock()
	r.drift[f.clause]++
	if len(r.driftS) < 12 {
		r.driftS = append(r.driftS, mmKey(c, f)+": "+f.what)
	}
}

func (r *runner) setInfra(err error) {
	r.mu.Lock()
	if r.infra == nil {
		r.infra = err
	}
	r.mu.Unlock()
}

// report confirms a finding on a fresh load / a fresh instance and records it.
func (r *runner) report(c *tcase, f finding, e2e bool) {
	if f.drift {
		r.noteDrift(c, f)
		return
	}
	cc := *c
	cc.Offers = r.offers
	cc.E2E = e2e
	cc.Only = f.only
	var again []finding
	if e2e {
		var inf error
		again, _, inf = evalE2E(&cc, r.offers, r.fx)
		if inf != nil {
			return
		}
	} else {
		o, inf := evalConfig(&cc, r.fx)
		if inf != nil {
			return
		}
		again = compareConfig(&cc, o)
	}
	for _, g := range again {
		if g.clause == f.clause && g.detail == f.detail && !g.drift {
			r.res.Add(hx.Mismatch{Key: mmKey(c, g), What: g.what + "\n" + directiveText(c, r.fx, true, ""), Case: cc, Expected: g.exp, Observed: g.obs})
			return
		}
	}
}

func TestCx06TLSDir(t *testing.T) {
	hx.Quiet()
	res := hx.NewResult("TestCx06TLSDir", "one case = the `tls` lines of one site, written token by token by TLSDirective.tla (argument forms x block lines from an alphabet of valid and "+
		"invalid spellings, up to two `tls` lines, 127.0.0.1 and a name that qualifies for managed TLS); compared after the real load (every directive's setup, automatic-HTTPS stages, "+
		"MakeServers; no ACME): rejected or not, every modelled field of caskettls.Config and of the *tls.Config the listener hands out; a sample is started for real and probed with "+
		"crypto/tls clients (versions, suites, curves, ALPN, client certificates, one request); non-trivial = a block or two `tls` lines")
	defer res.Write(t)

	// casket prints a deprecation warning for max_certs on standard output
	if devnull, err := os.OpenFile(os.DevNull, os.O_WRONLY, 0); err == nil {
		saved := os.Stdout
		os.Stdout = devnull
		defer func() { os.Stdout = saved; devnull.Close() }()
	}

	dir, err := os.MkdirTemp(hx.Scratch(t), "cx06tlsdir")
	if err != nil {
		res.Infra = err.Error()
		return
	}
	defer os.RemoveAll(dir)
	fx, err := makeFixtures(dir)
	if err != nil {
		res.Infra = "fixtures: " + err.Error()
		return
	}
	fxGlobal = fx
	os.Setenv("CASKETPATH", filepath.Join(dir, "assets"))
	r := &runner{res: res, fx: fx, drift: map[string]int{}}

	if hx.Replay() != "" && !replayIsMine() {
		res.AddExtra("replay", "the replay file belongs to another driver of C06: nothing to do here")
		return
	}
	if rp, ok := hx.LoadReplay[tcase](t); ok {
		r.offers = rp.Offers
		res.Count("replay")
		res.Count("replay2")
		if rp.E2E {
			fs, _, inf := evalE2E(&rp, rp.Offers, fx)
			if inf != nil {
				res.Infra = inf.Error()
				return
			}
			for _, f := range fs {
				if !f.drift {
					res.Add(hx.Mismatch{Key: mmKey(&rp, f), What: "replayed: " + f.what, Case: rp, Expected: f.exp, Observed: f.obs})
				}
			}
			return
		}
		o, inf := evalConfig(&rp, fx)
		if inf != nil {
			res.Infra = inf.Error()
			return
		}
		for _, f := range compareConfig(&rp, o) {
			if !f.drift {
				res.Add(hx.Mismatch{Key: mmKey(&rp, f), What: "replayed: " + f.what, Case: rp, Expected: f.exp, Observed: f.obs})
			}
		}
		return
	}

	all := hx.LoadCases[tcase](t, "TLSDirective")
	var cases []tcase
	for i := range all {
		if len(all[i].Probes) > 0 {
			r.offers = all[i].Probes
			continue
		}
		cases = append(cases, all[i])
	}
	if len(r.offers) == 0 {
		res.Infra = "the case file has no line with the handshake offers"
		return
	}
	res.AddExtra("files_from_tlc", len(cases))
	rnd := hx.Rand()

	var (
		stats       = map[string]int{}
		selftested  int32
		selfNoticed int32
		handshakes  int64
		e2eFindings int32
	)
	// ---- configuration level: every case
	{
		jobs := make(chan int)
		var wg sync.WaitGroup
		for w := 0; w < 12; w++ {
			wg.Add(1)
			go func() {
				defer wg.Done()
				for i := range jobs {
					c := &cases[i]
					if hx.SelfTest() {
						cc, ok := corrupt(c, i)
						if !ok {
							continue
						}
						atomic.AddInt32(&selftested, 1)
						o, inf := evalConfig(cc, fx)
						if inf != nil {
							r.setInfra(inf)
							continue
						}
						for _, f := range compareConfig(cc, o) {
							if !f.drift {
								atomic.AddInt32(&selfNoticed, 1)
								break
							}
						}
						continue
					}
					o, inf := evalConfig(c, fx)
					if inf != nil {
						r.setInfra(inf)
						continue
					}
					for _, f := range compareConfig(c, o) {
						r.report(c, f, false)
					}
					res.Count(nontrivial(c))
					r.mu.Lock()
					switch {
					case c.Err != "":
						stats["rejected:"+c.Err]++
					case c.TLS != nil && c.TLS.Made:
						stats["accepted:tls"]++
					default:
						stats["accepted:plaintext"]++
					}
					if c.Free {
						stats["free_constructs"]++
					}
					r.mu.Unlock()
					if i%1777 == 5 {
						res.Sample(map[string]interface{}{"site": siteHost(c.Host), "tls_lines": directiveText(c, fx, true, ""), "rejected_as": c.Err, "effective_tls_config": c.TLS})
					}
				}
			}()
		}
		for i := range cases {
			jobs <- i
		}
		close(jobs)
		wg.Wait()
	}
	// ---- end to end: a seeded sample of the probeable cases, every distinct effective configuration first
	{
		var cand []int
		for i := range cases {
			if probeable(&cases[i]) {
				cand = append(cand, i)
			}
		}
		rnd.Shuffle(len(cand), func(a, b int) { cand[a], cand[b] = cand[b], cand[a] })
		budget := 340
		if hx.Thorough() {
			budget = 2500
		}
		if hx.SelfTest() {
			budget = 40
		}
		seen := map[string]bool{}
		var pick, rest []int
		for _, i := range cand {
			k := mustJSON(cases[i].TLS) + strconv.Itoa(cases[i].Status) + cases[i].Cfg.KeyType + mustJSON(cases[i].Cfg.Certs)
			if !seen[k] {
				seen[k] = true
				pick = append(pick, i)
			} else {
				rest = append(rest, i)
			}
		}
		res.AddExtra("distinct_effective_configurations_probeable", len(pick))
		pick = append(pick, rest...)
		if len(pick) > budget {
			pick = pick[:budget]
		}
		res.AddExtra("instances_started", len(pick))
		jobs := make(chan int)
		var wg sync.WaitGroup
		for w := 0; w < 10; w++ {
			wg.Add(1)
			go func() {
				defer wg.Done()
				for i := range jobs {
					c := &cases[i]
					if hx.SelfTest() {
						cc := *c
						cc.HS = append([]hsRow{}, c.HS...)
						k := i % len(cc.HS)
						cc.HS[k].OK = !cc.HS[k].OK // one handshake outcome flipped
						cc.HS[k].Allowed = []string{"tls13", "EA128G", "EA256G", "EA128C", "ECHA"}
						atomic.AddInt32(&selftested, 1)
						fs, _, inf := evalE2E(&cc, r.offers, fx)
						if inf != nil {
							r.setInfra(inf)
							continue
						}
						for _, f := range fs {
							if !f.drift && f.only == k+1 {
								atomic.AddInt32(&selfNoticed, 1)
								break
							}
						}
						continue
					}
					if atomic.LoadInt32(&e2eFindings) > 60 {
						continue // the listener is broken in general: what was found is reported, the rest is skipped
					}
					fs, n, inf := evalE2E(c, r.offers, fx)
					atomic.AddInt64(&handshakes, int64(n))
					for _, f := range fs {
						if !f.drift {
							atomic.AddInt32(&e2eFindings, 1)
						}
					}
					if inf != nil {
						r.setInfra(inf)
						continue
					}
					for _, f := range fs {
						r.report(c, f, true)
					}
					res.Count("e2e:" + ident(c))
				}
			}()
		}
		for _, i := range pick {
			jobs <- i
		}
		close(jobs)
		wg.Wait()
	}
	res.AddExtra("handshakes", handshakes)
	res.AddExtra("case_statistics", stats)
	res.AddExtra("model_drift", r.drift)
	if len(r.driftS) > 0 {
		res.AddExtra("model_drift_samples", r.driftS)
	}
	res.Replayed = res.Evaluations
	if r.infra != nil {
		res.Infra = r.infra.Error()
	}
	if hx.SelfTest() {
		res.AddExtra("selftest_corrupted", selftested)
		res.AddExtra("selftest_noticed", selfNoticed)
		if selftested == 0 || selfNoticed != selftested {
			res.Infra = fmt.Sprintf("selftest: %d corrupted expectations, only %d noticed", selftested, selfNoticed)
		}
	}
}

// replayIsMine tells whether the replay file was written for a mismatch of this driver (./check hands
// the file to every driver of the property).
func replayIsMine() bool {
	b, err := os.ReadFile(hx.Replay())
	if err != nil {
		return true // let LoadReplay report it
	}
	var w struct {
		Test string `json:"test"`
		Key  string `json:"key"`
	}
	if json.Unmarshal(b, &w) != nil {
		return true
	}
	return w.Test == "TestCx06TLSDir" || strings.HasPrefix(w.Key, "C06/tlsdirective/")
}

// corrupt changes one expectation of a case that is judged (selftest).
func corrupt(c *tcase, idx int) (*tcase, bool) {
	if c.Free {
		return nil, false
	}
	b, _ := json.Marshal(c)
	var cc tcase
	if err := json.Unmarshal(b, &cc); err != nil {
		return nil, false
	}
	if c.Err != "" {
		// a rejected file is expected to load
		cc.Err = ""
		return &cc, true
	}
	if cc.TLS == nil || cc.Cfg == nil {
		return nil, false
	}
	if !cc.TLS.Made {
		cc.Err = "args" // a plaintext site is expected to be rejected
		return &cc, true
	}
	switch idx % 7 {
	case 0:
		cc.TLS.Min--
	case 1:
		if cc.TLS.Auth == "none" {
			cc.TLS.Auth = "request"
		} else {
			cc.TLS.Auth = "none"
		}
	case 2:
		cc.TLS.Ciphers = append([]string{cc.TLS.Ciphers[0]}, cc.TLS.Ciphers[2:]...) // one suite missing
		cc.CDef = false
	case 3:
		cc.TLS.ALPN = cc.TLS.ALPN[:len(cc.TLS.ALPN)-1]
	case 4:
		cc.TLS.Curves = append(cc.TLS.Curves, "P521")
	case 5:
		cc.Cfg.SelfSigned = !cc.Cfg.SelfSigned
	case 6:
		cc.Err = "unknown"
	}
	return &cc, true
}
