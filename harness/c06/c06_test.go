// C06 - TLS settings follow the SNI-matched site; no TLS/plaintext mixing.
//
// Replay of the tables TLC computed from specs/TLSGroup.tla against real casket instances:
// every site set becomes a Casketfile on ONE loopback listener (casket.Start), named sites with
// `tls self_signed` (the certificate's SAN is the site's host pattern, so the presented
// certificate identifies the site), the catch-all site with a harness-generated certificate, each
// with its TLS profile; a crypto/tls client then performs real handshakes (SNI, version range,
// cipher offer, optional client certificate; no verification, manual inspection) and sends one or
// more HTTP/1.1 requests with chosen Host headers on the established connection.
package c06

import (
	"bufio"
	"crypto/ecdsa"
	"crypto/elliptic"
	"crypto/rand"
	"crypto/tls"
	"crypto/x509"
	"crypto/x509/pkix"
	"encoding/json"
	"encoding/pem"
	"fmt"
	"math/big"
	mrand "math/rand"
	"net"
	"net/http"
	"os"
	"path/filepath"
	"sort"
	"strconv"
	"strings"
	"sync"
	"sync/atomic"
	"testing"
	"time"

	"verifharness/hx"
)

// ---- the case as TLC prints it ------------------------------------------------------------

type site struct {
	H    []string `json:"h"`
	P    string   `json:"p"`
	Prof string   `json:"prof"`
}

// hsOut is <<ok, version, cipher, client certificate requested, certificate name>>
type hsOut struct {
	OK     bool
	Ver    int
	Cipher string
	Asked  bool
	Cert   []string
}

func (o *hsOut) UnmarshalJSON(b []byte) error {
	var raw []json.RawMessage
	if err := json.Unmarshal(b, &raw); err != nil {
		return err
	}
	if len(raw) != 5 {
		return fmt.Errorf("handshake outcome with %d fields", len(raw))
	}
	for i, dst := range []interface{}{&o.OK, &o.Ver, &o.Cipher, &o.Asked, &o.Cert} {
		if err := json.Unmarshal(raw[i], dst); err != nil {
			return err
		}
	}
	return nil
}

func (o hsOut) MarshalJSON() ([]byte, error) {
	return json.Marshal([]interface{}{o.OK, o.Ver, o.Cipher, o.Asked, o.Cert})
}

type httpOut struct {
	Kind string
	Site int
}

func (o *httpOut) UnmarshalJSON(b []byte) error {
	var raw []json.RawMessage
	if err := json.Unmarshal(b, &raw); err != nil {
		return err
	}
	if len(raw) != 2 {
		return fmt.Errorf("http outcome with %d fields", len(raw))
	}
	if err := json.Unmarshal(raw[0], &o.Kind); err != nil {
		return err
	}
	return json.Unmarshal(raw[1], &o.Site)
}

func (o httpOut) MarshalJSON() ([]byte, error) { return json.Marshal([]interface{}{o.Kind, o.Site}) }

type tcase struct {
	Sites  []site        `json:"sites"`
	Err    string        `json:"err"`
	SNIs   [][]string    `json:"snis"`
	Offers []string      `json:"offers"`
	CCerts []string      `json:"ccerts"`
	Hosts  [][]string    `json:"hosts"`
	Paths  []string      `json:"paths"`
	Gov    []int         `json:"gov"`
	Outs   [][]hsOut     `json:"outs"` // distinct table entries: each a set of admissible outcomes
	HS     [][][]int     `json:"hs"`   // [sni][offer][ccert] -> index into Outs (1-based)
	HTTP   [][][]httpOut `json:"http"` // [sni][host][path]

	// replay only
	Order []int  `json:"order,omitempty"` // declaration order used
	Only  *probe `json:"only,omitempty"`
}

type probe struct {
	SNI   int    `json:"sni"`   // indices (0-based) into the case's lists
	Offer int    `json:"offer"` //
	CCert int    `json:"ccert"`
	Host  int    `json:"host"`
	Path  int    `json:"path"`
	Upper bool   `json:"upper"` // upper-case spelling of the SNI
	UpHst bool   `json:"upper_host"` // upper-case spelling of the Host header
	Port  bool   `json:"port"`  // Host header carries the listener's port
	What  string `json:"what"`  // "handshake" | "http"
}

// ---- fixtures ------------------------------------------------------------------------------

type fixtures struct {
	dir                string
	caFile             string
	catchCert, catchKy string
	good, other        tls.Certificate
}

func writePEM(path, typ string, der []byte) error {
	return os.WriteFile(path, pem.EncodeToMemory(&pem.Block{Type: typ, Bytes: der}), 0o600)
}

func newKey() *ecdsa.PrivateKey {
	k, err := ecdsa.GenerateKey(elliptic.P256(), rand.Reader)
	if err != nil {
		panic(err)
	}
	return k
}

func makeFixtures(dir string) (*fixtures, error) {
	fx := &fixtures{dir: dir, caFile: filepath.Join(dir, "ca.pem"), catchCert: filepath.Join(dir, "catch.pem"), catchKy: filepath.Join(dir, "catch.key")}
	now := time.Now()
	// client CA
	caKey := newKey()
	caT := &x509.Certificate{SerialNumber: big.NewInt(1), Subject: pkix.Name{CommonName: "c06 client CA"}, NotBefore: now.Add(-time.Hour),
		NotAfter: now.Add(240 * time.Hour), IsCA: true, BasicConstraintsValid: true, KeyUsage: x509.KeyUsageCertSign | x509.KeyUsageDigitalSignature}
	caDER, err := x509.CreateCertificate(rand.Reader, caT, caT, &caKey.PublicKey, caKey)
	if err != nil {
		return nil, err
	}
	if err := writePEM(fx.caFile, "CERTIFICATE", caDER); err != nil {
		return nil, err
	}
	caCert, _ := x509.ParseCertificate(caDER)
	// good client certificate
	gk := newKey()
	gT := &x509.Certificate{SerialNumber: big.NewInt(2), Subject: pkix.Name{CommonName: "good client"}, NotBefore: now.Add(-time.Hour),
		NotAfter: now.Add(240 * time.Hour), KeyUsage: x509.KeyUsageDigitalSignature, ExtKeyUsage: []x509.ExtKeyUsage{x509.ExtKeyUsageClientAuth}}
	gDER, err := x509.CreateCertificate(rand.Reader, gT, caCert, &gk.PublicKey, caKey)
	if err != nil {
		return nil, err
	}
	fx.good = tls.Certificate{Certificate: [][]byte{gDER}, PrivateKey: gk}
	// a stranger's self-signed client certificate
	ok := newKey()
	oT := &x509.Certificate{SerialNumber: big.NewInt(3), Subject: pkix.Name{CommonName: "other client"}, NotBefore: now.Add(-time.Hour),
		NotAfter: now.Add(240 * time.Hour), KeyUsage: x509.KeyUsageDigitalSignature, ExtKeyUsage: []x509.ExtKeyUsage{x509.ExtKeyUsageClientAuth}}
	oDER, err := x509.CreateCertificate(rand.Reader, oT, oT, &ok.PublicKey, ok)
	if err != nil {
		return nil, err
	}
	fx.other = tls.Certificate{Certificate: [][]byte{oDER}, PrivateKey: ok}
	// the catch-all site's certificate: made out to the two names no site pattern matches
	ck := newKey()
	cT := &x509.Certificate{SerialNumber: big.NewInt(4), Subject: pkix.Name{CommonName: "catch-all"}, NotBefore: now.Add(-time.Hour),
		NotAfter: now.Add(240 * time.Hour), DNSNames: []string{"z.y.x", "q.a.b.c"},
		KeyUsage: x509.KeyUsageDigitalSignature, ExtKeyUsage: []x509.ExtKeyUsage{x509.ExtKeyUsageServerAuth}}
	cDER, err := x509.CreateCertificate(rand.Reader, cT, cT, &ck.PublicKey, ck)
	if err != nil {
		return nil, err
	}
	if err := writePEM(fx.catchCert, "CERTIFICATE", cDER); err != nil {
		return nil, err
	}
	kb, err := x509.MarshalECPrivateKey(ck)
	if err != nil {
		return nil, err
	}
	return fx, writePEM(fx.catchKy, "EC PRIVATE KEY", kb)
}

// ---- concretisation -------------------------------------------------------------------------

func join(l []string) string { return strings.Join(l, ".") }

func profileLines(prof string, fx *fixtures) string {
	switch prof {
	case "default":
		return ""
	case "old":
		return "\t\tprotocols tls1.0 tls1.1\n\t\tciphers ECDHE-ECDSA-AES128-CBC-SHA\n"
	case "new":
		return "\t\tprotocols tls1.3\n"
	case "cipher":
		return "\t\tciphers ECDHE-ECDSA-AES256-GCM-SHA384 ECDHE-ECDSA-AES128-CBC-SHA\n"
	case "require":
		return "\t\tclients require\n"
	case "verify":
		return "\t\tclients " + fx.caFile + "\n"
	}
	panic("profile " + prof)
}

func casketfile(c *tcase, order []int, port int, fx *fixtures) string {
	var b strings.Builder
	for _, i := range order {
		s := c.Sites[i]
		fmt.Fprintf(&b, "%s:%d%s {\n\tbind 127.0.0.1\n", join(s.H), port, s.P)
		switch {
		case s.Prof == "off":
			b.WriteString("\ttls off\n")
		case join(s.H) == "":
			fmt.Fprintf(&b, "\ttls %s %s {\n\t\tno_redirect\n%s\t}\n", fx.catchCert, fx.catchKy, profileLines(s.Prof, fx))
		default:
			fmt.Fprintf(&b, "\ttls self_signed {\n\t\tno_redirect\n%s\t}\n", profileLines(s.Prof, fx))
		}
		fmt.Fprintf(&b, "\theader / X-Site s%d\n\tstatus 204 /\n}\n", i+1)
	}
	return b.String()
}

func siteName(s site) string {
	h := join(s.H)
	if h == "" {
		h = "(catch-all)"
	}
	return h + s.P + "{" + s.Prof + "}"
}

func ident(c *tcase) string {
	var n []string
	for _, s := range c.Sites {
		n = append(n, siteName(s))
	}
	sort.Strings(n)
	return strings.Join(n, ",")
}

var versions = map[int]uint16{10: tls.VersionTLS10, 11: tls.VersionTLS11, 12: tls.VersionTLS12, 13: tls.VersionTLS13}
var versionOf = map[uint16]int{tls.VersionTLS10: 10, tls.VersionTLS11: 11, tls.VersionTLS12: 12, tls.VersionTLS13: 13}

func offerConfig(offer string) (min, max uint16, suites []uint16) {
	all := []uint16{tls.TLS_ECDHE_ECDSA_WITH_AES_128_GCM_SHA256, tls.TLS_ECDHE_ECDSA_WITH_AES_256_GCM_SHA384, tls.TLS_ECDHE_ECDSA_WITH_AES_128_CBC_SHA}
	switch offer {
	case "old":
		return tls.VersionTLS10, tls.VersionTLS11, all
	case "12":
		return tls.VersionTLS12, tls.VersionTLS12, all
	case "12b":
		return tls.VersionTLS12, tls.VersionTLS12, all[:1]
	case "13":
		return tls.VersionTLS13, tls.VersionTLS13, all
	case "all":
		return tls.VersionTLS10, tls.VersionTLS13, all
	}
	panic("offer " + offer)
}

func cipherName(v uint16, id uint16) string {
	if v == tls.VersionTLS13 {
		return "tls13"
	}
	switch id {
	case tls.TLS_ECDHE_ECDSA_WITH_AES_128_GCM_SHA256:
		return "gcm128"
	case tls.TLS_ECDHE_ECDSA_WITH_AES_256_GCM_SHA384:
		return "gcm256"
	case tls.TLS_ECDHE_ECDSA_WITH_AES_128_CBC_SHA:
		return "cbc"
	}
	return fmt.Sprintf("0x%04x", id)
}

// ---- one connection ----------------------------------------------------------------------------

type conn struct {
	tc    *tls.Conn
	br    *bufio.Reader
	asked bool
}

type hsObs struct {
	OK     bool     `json:"ok"`
	Ver    int      `json:"version"`
	Cipher string   `json:"cipher"`
	Asked  bool     `json:"client_cert_requested"`
	Names  []string `json:"certificate_names"`
	Err    string   `json:"error,omitempty"`
}

type httpObs struct {
	Status int    `json:"status"`
	XSite  string `json:"x_site"`
	Err    string `json:"error,omitempty"`
}

func spell(l []string, upper bool) string {
	s := join(l)
	if upper {
		s = strings.ToUpper(s)
	}
	return s
}

func dial(addr string, c *tcase, pr probe, fx *fixtures) (*conn, hsObs) {
	raw, err := net.DialTimeout("tcp", addr, 5*time.Second)
	if err != nil {
		return nil, hsObs{Err: "dial: " + err.Error()}
	}
	cn := &conn{}
	min, max, suites := offerConfig(c.Offers[pr.Offer])
	cfg := &tls.Config{ServerName: spell(c.SNIs[pr.SNI], pr.Upper), InsecureSkipVerify: true, MinVersion: min, MaxVersion: max,
		CipherSuites: suites, NextProtos: []string{"http/1.1"},
		GetClientCertificate: func(*tls.CertificateRequestInfo) (*tls.Certificate, error) {
			cn.asked = true
			switch c.CCerts[pr.CCert] {
			case "good":
				return &fx.good, nil
			case "other":
				return &fx.other, nil
			}
			return &tls.Certificate{}, nil
		}}
	cn.tc = tls.Client(raw, cfg)
	cn.tc.SetDeadline(time.Now().Add(15 * time.Second))
	if err := cn.tc.Handshake(); err != nil {
		if t, ok := raw.(*net.TCPConn); ok {
			t.SetLinger(0)
		}
		raw.Close()
		return nil, hsObs{Asked: cn.asked, Err: err.Error()}
	}
	st := cn.tc.ConnectionState()
	o := hsObs{OK: true, Ver: versionOf[st.Version], Cipher: cipherName(st.Version, st.CipherSuite), Asked: cn.asked}
	if len(st.PeerCertificates) > 0 {
		leaf := st.PeerCertificates[0]
		o.Names = append(o.Names, leaf.DNSNames...)
		for _, ip := range leaf.IPAddresses {
			o.Names = append(o.Names, ip.String())
		}
	}
	cn.br = bufio.NewReader(cn.tc)
	return cn, o
}

func (cn *conn) get(host, path string) httpObs {
	cn.tc.SetDeadline(time.Now().Add(15 * time.Second))
	if _, err := fmt.Fprintf(cn.tc, "GET %s HTTP/1.1\r\nHost: %s\r\nUser-Agent: c06\r\n\r\n", path, host); err != nil {
		return httpObs{Err: "write: " + err.Error()}
	}
	resp, err := http.ReadResponse(cn.br, &http.Request{Method: "GET"})
	if err != nil {
		return httpObs{Err: "read: " + err.Error()}
	}
	resp.Body.Close()
	return httpObs{Status: resp.StatusCode, XSite: resp.Header.Get("X-Site")}
}

func (cn *conn) close() {
	if cn != nil && cn.tc != nil {
		// reset instead of an orderly close: hundreds of thousands of client sockets in
		// TIME_WAIT would otherwise exhaust the ephemeral ports of the (shared) machine
		if t, ok := cn.tc.NetConn().(*net.TCPConn); ok {
			t.SetLinger(0)
		}
		cn.tc.Close()
	}
}

// listener ports are taken from below the ephemeral range (never handed out by the kernel to
// outgoing connections or to port-0 binds), one counter for all workers of this process
var portCounter uint32

func nextPort() int {
	for {
		p := 20000 + int((uint32(os.Getpid())*7919+atomic.AddUint32(&portCounter, 1))%12000)
		if hx.IsQuietPort(p) {
			continue
		}
		ln, err := net.Listen("tcp", "127.0.0.1:"+strconv.Itoa(p))
		if err != nil {
			continue
		}
		ln.Close()
		return p
	}
}

// ---- judging --------------------------------------------------------------------------------------

func hsMatches(want hsOut, o hsObs) bool {
	if !want.OK {
		return !o.OK
	}
	if !o.OK || want.Ver != o.Ver || want.Cipher != o.Cipher || want.Asked != o.Asked {
		return false
	}
	w := join(want.Cert)
	for _, n := range o.Names {
		if n == w {
			return true
		}
	}
	return false
}

func hsAdmissible(c *tcase, pr probe, o hsObs) bool {
	for _, w := range c.Outs[c.HS[pr.SNI][pr.Offer][pr.CCert]-1] {
		if hsMatches(w, o) {
			return true
		}
	}
	return false
}

func httpMatches(want httpOut, o httpObs) bool {
	switch want.Kind {
	case "site":
		return o.Status == 204 && o.XSite == "s"+strconv.Itoa(want.Site)
	case "forbidden":
		return o.Status == 403 && o.XSite == ""
	case "nosite":
		return o.Status == 404 && o.XSite == ""
	}
	return false
}

type finding struct {
	clause string
	detail string
	what   string
	exp    interface{}
	obs    interface{}
	pr     probe
}

func (c *tcase) probeDetail(pr probe) string {
	sni := spell(c.SNIs[pr.SNI], pr.Upper)
	if sni == "" {
		sni = "(none)"
	}
	d := fmt.Sprintf("sni=%s/offer=%s/ccert=%s", sni, c.Offers[pr.Offer], c.CCerts[pr.CCert])
	if pr.What == "http" {
		port := ""
		if pr.Port {
			port = ":port"
		}
		d += fmt.Sprintf("/host=%s%s%s", spell(c.Hosts[pr.Host], pr.UpHst), port, c.Paths[pr.Path])
	}
	return d
}

// handshakeProbe performs the handshake and one request; a handshake that only fails once
// application data flows (TLS 1.3 client authentication) counts as failed.
func handshakeProbe(addr string, c *tcase, pr probe, fx *fixtures) (*conn, hsObs, httpObs) {
	cn, o := dial(addr, c, pr, fx)
	if cn == nil {
		return nil, o, httpObs{}
	}
	host := spell(c.Hosts[pr.Host], pr.UpHst)
	if pr.Port {
		_, port, _ := net.SplitHostPort(addr)
		host += ":" + port
	}
	h := cn.get(host, c.Paths[pr.Path])
	if h.Err != "" {
		cn.close()
		o.OK = false
		o.Err = "after handshake: " + h.Err
		return nil, o, h
	}
	return cn, o, h
}

func idxOf(list []string, v string) int {
	for i, x := range list {
		if x == v {
			return i
		}
	}
	return 0
}

// runInstance starts the site set and runs the probe battery. It returns findings (not yet confirmed).
func runInstance(c *tcase, order []int, fx *fixtures, rnd *mrand.Rand, full bool) (fs []finding, nhs, nreq int, infra error) {
	var inst *hx.Site
	var err error
	var port int
	for try := 0; try < 25; try++ {
		port = nextPort()
		inst, err = hx.StartHTTP(casketfile(c, order, port, fx), "")
		if err == nil || !strings.Contains(err.Error(), "address already in use") {
			break
		}
	}
	got := ""
	if err != nil {
		switch {
		case strings.Contains(err.Error(), "address already in use"):
			// 25 ports in a row taken by somebody else: not a verdict about casket
			return nil, 0, 0, fmt.Errorf("harness: no free listener port: %v", err)
		case strings.Contains(err.Error(), "cannot multiplex"):
			got = "mix"
		case strings.Contains(err.Error(), "incompatible TLS configurations for the same SNI"):
			got = "incompatible"
		default:
			got = "other: " + err.Error()
		}
	}
	if inst != nil {
		defer inst.Stop()
	}
	if got != c.Err {
		// with an unexpected start the listener may still be there: make sure TLS is not served in plaintext
		return []finding{{clause: "start", what: fmt.Sprintf("starting the listener: expected error class %q, observed %q", c.Err, got), exp: c.Err, obs: got}}, 0, 0, nil
	}
	if err != nil {
		return nil, 0, 0, nil
	}
	addr := "127.0.0.1:" + strconv.Itoa(port)
	check := func(pr probe) {
		cn, o, h := handshakeProbe(addr, c, pr, fx)
		defer cn.close()
		nhs++
		if strings.HasPrefix(o.Err, "dial:") {
			infra = fmt.Errorf("harness: %s", o.Err)
			return
		}
		if !hsAdmissible(c, pr, o) {
			p := pr
			p.What = "handshake"
			fs = append(fs, finding{clause: "handshake", detail: c.probeDetail(p), pr: p, exp: c.Outs[c.HS[pr.SNI][pr.Offer][pr.CCert]-1], obs: o,
				what: fmt.Sprintf("handshake %s: expected one of %s; observed %+v", c.probeDetail(p), mustJSON(c.Outs[c.HS[pr.SNI][pr.Offer][pr.CCert]-1]), o)})
			return
		}
		if !o.OK {
			return
		}
		nreq++
		want := c.HTTP[pr.SNI][pr.Host][pr.Path]
		if !httpMatches(want, h) {
			p := pr
			p.What = "http"
			fs = append(fs, finding{clause: "request", detail: c.probeDetail(p), pr: p, exp: want, obs: h,
				what: fmt.Sprintf("request after handshake %s: expected %s; observed status=%d X-Site=%q", c.probeDetail(p), mustJSON(want), h.Status, h.XSite)})
		}
	}
	if c.Only != nil {
		check(*c.Only)
		return
	}
	allOffer, goodCert := idxOf(c.Offers, "all"), idxOf(c.CCerts, "good")
	for si := range c.SNIs {
		up := rnd.Intn(4) == 0
		// the handshake matrix, one request each
		for oi := range c.Offers {
			for ci := range c.CCerts {
				if !full && rnd.Intn(3) != 0 && !(oi == allOffer && ci == goodCert) {
					continue
				}
				check(probe{SNI: si, Offer: oi, CCert: ci, Host: rnd.Intn(len(c.Hosts)), Path: rnd.Intn(len(c.Paths)), Upper: up, UpHst: rnd.Intn(4) == 0, Port: rnd.Intn(2) == 0})
				if infra != nil || len(fs) > 3 {
					return
				}
			}
		}
		// the request matrix under the most permissive client
		for hi := range c.Hosts {
			for pi := range c.Paths {
				check(probe{SNI: si, Offer: allOffer, CCert: goodCert, Host: hi, Path: pi, Upper: rnd.Intn(3) == 0, UpHst: rnd.Intn(3) == 0, Port: rnd.Intn(2) == 0})
				if infra != nil || len(fs) > 3 {
					return
				}
			}
		}
	}
	return
}

func mustJSON(v interface{}) string {
	b, _ := json.Marshal(v)
	return string(b)
}

func mmKey(c *tcase, f finding) string {
	k := "C06/" + f.clause + "/sites={" + ident(c) + "}"
	if f.detail != "" {
		k += "/" + strings.ToLower(f.detail)
	}
	return k
}

func identity(n int) []int {
	o := make([]int, n)
	for i := range o {
		o[i] = i
	}
	return o
}

func nontrivial(c *tcase) string {
	if len(c.Sites) >= 2 {
		return ident(c)
	}
	if c.Sites[0].Prof != "default" || c.Sites[0].H[0] == "*" || c.Sites[0].H[0] == "" {
		return ident(c)
	}
	return ""
}

func TestC06(t *testing.T) {
	hx.Quiet()
	res := hx.NewResult("TestC06", "one case = one set of <=K sites (host pattern x TLS profile) on one loopback TLS listener from TLSGroup.tla; real handshakes for "+
		"7 SNI values x 5 version/cipher offers x 3 client-certificate choices and requests with 6 Host headers x 2 paths on the established connections; "+
		"compared: start-up error class, negotiated version, cipher, whether a client certificate was requested, presented certificate, HTTP status and answering site; "+
		"non-trivial = >=2 sites, or a wildcard / catch-all / non-default profile")
	defer res.Write(t)

	dir, err := os.MkdirTemp(hx.Scratch(t), "c06fix")
	if err != nil {
		res.Infra = err.Error()
		return
	}
	fx, err := makeFixtures(dir)
	if err != nil {
		res.Infra = "fixtures: " + err.Error()
		return
	}
	os.Setenv("CASKETPATH", filepath.Join(hx.Scratch(t), "c06assets"))

	if rp, ok := hx.LoadReplay[tcase](t); ok {
		order := rp.Order
		if len(order) != len(rp.Sites) {
			order = identity(len(rp.Sites))
		}
		res.Count("replay")
		res.Count("replay2")
		fs, _, _, infra := runInstance(&rp, order, fx, mrand.New(mrand.NewSource(1)), true)
		if infra != nil {
			res.Infra = infra.Error()
			return
		}
		for _, f := range fs {
			res.Add(hx.Mismatch{Key: mmKey(&rp, f), What: "replayed: " + f.what, Case: rp, Expected: f.exp, Observed: f.obs})
		}
		return
	}

	cases := hx.LoadCases[tcase](t, "TLSGroup")
	rnd := hx.Rand()
	var todo []int
	{
		var small, pairs, triples []int
		for i := range cases {
			switch len(cases[i].Sites) {
			case 1:
				small = append(small, i)
			case 2:
				pairs = append(pairs, i)
			default:
				triples = append(triples, i)
			}
		}
		todo = append(todo, small...)
		np, nt := 220, 0
		if hx.Thorough() {
			np, nt = len(pairs), 1500
		}
		for _, k := range hx.SampleIdx(rnd, len(pairs), np) {
			todo = append(todo, pairs[k])
		}
		for _, k := range hx.SampleIdx(rnd, len(triples), nt) {
			todo = append(todo, triples[k])
		}
	}
	res.AddExtra("site_sets_from_tlc", len(cases))
	res.AddExtra("site_sets_replayed", len(todo))

	var (
		mu             sync.Mutex
		handshakes     int
		requests       int
		infra          error
		stats          = map[string]int{}
		selftested     int
		selftestNotice int
	)
	jobs := make(chan int)
	var wg sync.WaitGroup
	for w := 0; w < 10; w++ {
		wg.Add(1)
		wrnd := mrand.New(mrand.NewSource(hx.Seed()*1000 + int64(w)))
		go func() {
			defer wg.Done()
			for idx := range jobs {
				c := &cases[idx]
				n := len(c.Sites)
				if hx.SelfTest() {
					cc, ok := corrupt(c, idx)
					if !ok {
						continue
					}
					fs, _, _, _ := runInstance(cc, identity(n), fx, wrnd, true)
					mu.Lock()
					selftested++
					if len(fs) > 0 {
						selftestNotice++
					}
					mu.Unlock()
					continue
				}
				orders := [][]int{identity(n)}
				if n >= 2 && c.Err == "" {
					// the tables do not depend on the declaration order (the error class may)
					orders = append(orders, wrnd.Perm(n))
				}
				for _, ord := range orders {
					fs, nh, nr, inf := runInstance(c, ord, fx, wrnd, hx.Thorough())
					mu.Lock()
					handshakes += nh
					requests += nr
					if inf != nil && infra == nil {
						infra = inf
					}
					mu.Unlock()
					for _, f := range fs {
						confirm(res, c, ord, f, fx)
					}
				}
				res.Count(nontrivial(c))
				mu.Lock()
				if c.Err != "" {
					stats["rejected:"+c.Err]++
				} else {
					stats["started"]++
					for _, g := range c.Gov {
						if g == 0 {
							stats["sni_without_matching_site"]++
						} else {
							stats["sni_governed"]++
						}
					}
				}
				mu.Unlock()
				if idx%211 == 0 {
					res.Sample(map[string]interface{}{"sites": ident(c), "casketfile": casketfile(c, identity(n), 12345, &fixtures{caFile: "ca.pem", catchCert: "catch.pem", catchKy: "catch.key"}),
						"expected_error": c.Err, "governing_site_per_sni": c.Gov})
				}
			}
		}()
	}
	for _, i := range todo {
		jobs <- i
	}
	close(jobs)
	wg.Wait()
	res.AddExtra("handshakes", handshakes)
	res.AddExtra("requests", requests)
	res.AddExtra("case_statistics", stats)
	res.Replayed = res.Evaluations
	if infra != nil {
		res.Infra = infra.Error()
	}
	if hx.SelfTest() {
		res.AddExtra("selftest_corrupted", selftested)
		res.AddExtra("selftest_noticed", selftestNotice)
		if selftested == 0 || selftestNotice != selftested {
			res.Infra = fmt.Sprintf("selftest: %d corrupted expectations, only %d noticed", selftested, selftestNotice)
		}
	}
}

// corrupt changes one expectation of a started case (selftest).
func corrupt(c *tcase, idx int) (*tcase, bool) {
	if c.Err != "" {
		return nil, false
	}
	b, _ := json.Marshal(c)
	var cc tcase
	if err := json.Unmarshal(b, &cc); err != nil {
		return nil, false
	}
	changed := false
	switch idx % 3 {
	case 0: // a successful handshake is expected one version lower
		for i := range cc.Outs {
			for j := range cc.Outs[i] {
				if cc.Outs[i][j].OK {
					cc.Outs[i][j].Ver--
					changed = true
				}
			}
		}
	case 1: // client-certificate demand flipped
		for i := range cc.Outs {
			for j := range cc.Outs[i] {
				if cc.Outs[i][j].OK {
					cc.Outs[i][j].Asked = !cc.Outs[i][j].Asked
					changed = true
				}
			}
		}
	case 2: // every served request is expected to be refused
		for i := range cc.HTTP {
			for j := range cc.HTTP[i] {
				for k := range cc.HTTP[i][j] {
					if cc.HTTP[i][j][k].Kind == "site" {
						cc.HTTP[i][j][k] = httpOut{Kind: "forbidden", Site: cc.HTTP[i][j][k].Site}
					}
				}
			}
		}
		// noticed only if a handshake succeeds and its request is served
		for si := range c.SNIs {
			ok := false
			for _, w := range c.Outs[c.HS[si][idxOf(c.Offers, "all")][idxOf(c.CCerts, "good")]-1] {
				ok = ok || w.OK
			}
			if !ok {
				continue
			}
			for j := range c.HTTP[si] {
				for k := range c.HTTP[si][j] {
					if c.HTTP[si][j][k].Kind == "site" && len(c.Outs[c.HS[si][idxOf(c.Offers, "all")][idxOf(c.CCerts, "good")]-1]) == 1 {
						changed = true
					}
				}
			}
		}
	}
	return &cc, changed
}

// confirm repeats the single failing probe against a fresh instance; only a reproduced finding counts.
func confirm(res *hx.Result, c *tcase, order []int, f finding, fx *fixtures) {
	cc := *c
	cc.Order = order
	if f.clause != "start" {
		p := f.pr
		cc.Only = &p
	}
	fs, _, _, infra := runInstance(&cc, order, fx, mrand.New(mrand.NewSource(1)), true)
	if infra != nil {
		return
	}
	for _, g := range fs {
		if g.clause == f.clause {
			res.Add(hx.Mismatch{Key: mmKey(c, g), What: g.what + "\n" + casketfile(c, order, 12345, &fixtures{caFile: "ca.pem", catchCert: "catch.pem", catchKy: "catch.key"}),
				Case: cc, Expected: g.exp, Observed: g.obs})
			return
		}
	}
}
