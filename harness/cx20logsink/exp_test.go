package cx20logsink

import (
	"fmt"
	"os"
	"path/filepath"
	"runtime"
	"strings"
	"testing"
	"time"

	"github.com/tmpim/casket"
	"verifharness/hx"
	_ "verifharness/probe"
)

func fdsOf(dir string) []string {
	var out []string
	es, _ := os.ReadDir("/proc/self/fd")
	for _, e := range es {
		l, err := os.Readlink("/proc/self/fd/" + e.Name())
		if err == nil && strings.HasPrefix(l, dir) {
			out = append(out, e.Name()+"->"+strings.TrimPrefix(l, dir))
		}
	}
	return out
}

func in(txt string) casket.Input {
	return casket.CasketfileInput{Contents: []byte(txt), Filepath: "Casketfile", ServerTypeName: "http"}
}

func TestExp(t *testing.T) {
	hx.Quiet()
	dir := t.TempDir()
	logf := filepath.Join(dir, "a.log")
	p1, p2 := hx.FreePort(), hx.FreePort()
	busy := hx.ListenFresh()
	defer busy.Close()
	pad := strings.Repeat("P", 4000)
	site := func(port int, extra string, sub string) string {
		return fmt.Sprintf("127.0.0.1:%d {\n\tbind 127.0.0.1\n\troot %s\n\tlog / %s \"{>X-Id} %s\" {\n%s\t}\n%s}\n", port, dir, logf, pad, sub, extra)
	}
	cfg := site(p1, "", "\t\trotate_size 1\n\t\trotate_keep 3\n") + site(p2, "\terrors "+logf+"\n\tverifprobe\n", "\t\trotate_size 2\n\t\trotate_keep 1\n")
	inst, err := casket.Start(in(cfg))
	if err != nil {
		t.Fatal(err)
	}
	fmt.Println("after start", fdsOf(dir))
	a1 := fmt.Sprintf("127.0.0.1:%d", p1)
	a2 := fmt.Sprintf("127.0.0.1:%d", p2)
	rc, _ := hx.DialRaw(a1)
	rc2, _ := hx.DialRaw(a2)
	for i := 0; i < 300; i++ {
		rc.Get("GET", "/none", a1, fmt.Sprintf("X-Id: a-%d", i))
		rc2.Get("GET", "/none", a2, fmt.Sprintf("X-Id: b-%d", i), "X-Probe: reterr:500")
	}
	fmt.Println("after burst", fdsOf(dir))
	time.Sleep(100 * time.Millisecond)
	es, _ := os.ReadDir(dir)
	for _, e := range es {
		fi, _ := e.Info()
		fmt.Println(" ", e.Name(), fi.Size())
	}
	b, _ := os.ReadFile(logf)
	lines := strings.Split(string(b), "\n")
	for _, l := range lines[:4] {
		if len(l) > 60 {
			l = l[:60]
		}
		fmt.Printf("  line %q\n", l)
	}
	// failed reload (listen busy) 
	bad := cfg + fmt.Sprintf("%s {\n\tbind 127.0.0.1\n\troot %s\n\tlog / %s {\n\t\trotate_disable\n\t}\n}\n", busy.Addr().String(), dir, filepath.Join(dir, "raw.log"))
	_, err = inst.Restart(in(bad))
	fmt.Println("failed reload:", err != nil, fdsOf(dir))
	_, err = inst.Restart(in(bad))
	fmt.Println("failed reload 2:", err != nil, fdsOf(dir))
	for i := 0; i < 3; i++ {
		runtime.GC()
		time.Sleep(5 * time.Millisecond)
	}
	fmt.Println("after GC:", fdsOf(dir))
	ni, err := inst.Restart(in(cfg))
	fmt.Println("reload:", err, fdsOf(dir))
	rc.Close()
	rc, _ = hx.DialRaw(a1)
	rc.Get("GET", "/none", a1, "X-Id: after")
	fmt.Println("after req:", fdsOf(dir))
	ni.Stop()
	ni.ShutdownCallbacks()
	fmt.Println("after stop:", fdsOf(dir))
}
