package cx20logsink

// Part B: the rotate_* sub-directives (specs/LogRoller.tla).  Every terminal state TLC emits - a
// directive (`log` or `errors`), a block of up to two sub-directive lines over the roller words, a
// near miss and `except`, with 0..2 arguments from {0, 1, 7, -1, x} - is replayed three ways:
//   - the block is loaded through the directive's real setup function (casket.DirectiveAction on a
//     test controller): accepted / refused must be what the specification says;
//   - the roller words are handed to httpserver.ParseRoller on a DefaultLogRoller the way the
//     setup loops do: the resulting fields must be the specification's;
//   - for a sample of the accepted blocks the rolling writer itself is built (GetLogWriter on a
//     file name of its own) and its lumberjack settings compared.

import (
	"fmt"
	"path/filepath"
	"strings"
	"testing"

	"github.com/tmpim/casket"
	"github.com/tmpim/casket/caskethttp/httpserver"
	lumberjack "gopkg.in/natefinch/lumberjack.v2"
	"verifharness/hx"
)

type rline struct {
	What string   `json:"what"`
	Args []string `json:"args"`
}

type rfields struct {
	Size      int  `json:"size"`
	Age       int  `json:"age"`
	Keep      int  `json:"keep"`
	Compress  bool `json:"compress"`
	Disabled  bool `json:"disabled"`
	Localtime bool `json:"localtime"`
}

type rcase struct {
	Dir   string  `json:"dir"`
	Lines []rline `json:"lines"`
	Res   string  `json:"res"`
	R     rfields `json:"r"`
}

func (c rcase) key() string {
	var b strings.Builder
	b.WriteString(c.Dir + ":")
	for _, l := range c.Lines {
		b.WriteString(l.What)
		for _, a := range l.Args {
			b.WriteString(" " + a)
		}
		b.WriteString(";")
	}
	return b.String()
}

func fieldsOf(r *httpserver.LogRoller) rfields {
	return rfields{Size: r.MaxSize, Age: r.MaxAge, Keep: r.MaxBackups, Compress: r.Compress, Disabled: r.Disabled, Localtime: r.LocalTime}
}

// evalRoller runs one case against the real code; it returns what disagrees ("" = nothing).
func evalRoller(c rcase, scratch string, n int, withWriter bool) (clause, what string) {
	// (1) the directive's setup function
	var b strings.Builder
	if c.Dir == "log" {
		b.WriteString("log / " + filepath.Join(scratch, "x.log") + " {\n")
	} else {
		b.WriteString("errors " + filepath.Join(scratch, "x.log") + " {\n")
	}
	for _, l := range c.Lines {
		b.WriteString("\t" + l.What)
		for _, a := range l.Args {
			b.WriteString(" " + a)
		}
		b.WriteString("\n")
	}
	b.WriteString("}\n")
	setup, err := casket.DirectiveAction("http", c.Dir)
	if err != nil {
		return "infra", err.Error()
	}
	serr := setup(casket.NewTestController("http", b.String()))
	got := "ok"
	if serr != nil {
		got = "err"
	}
	if got != c.Res {
		return "accepts", fmt.Sprintf("the %s directive's setup says %s (%v), the specification %s", c.Dir, got, serr, c.Res)
	}
	if c.Res != "ok" {
		return "", ""
	}
	// (2) the fields
	r := httpserver.DefaultLogRoller()
	for _, l := range c.Lines {
		if !httpserver.IsLogRollerSubdirective(l.What) {
			continue
		}
		if err := httpserver.ParseRoller(r, l.What, l.Args...); err != nil {
			return "fields", fmt.Sprintf("ParseRoller refuses %s %v of an accepted block: %v", l.What, l.Args, err)
		}
	}
	if f := fieldsOf(r); f != c.R {
		return "fields", fmt.Sprintf("fields %+v, the specification says %+v", f, c.R)
	}
	// (3) the writer
	if withWriter && !r.Disabled {
		r.Filename = filepath.Join(scratch, fmt.Sprintf("w%d.log", n))
		lj, ok := r.GetLogWriter().(*lumberjack.Logger)
		if !ok {
			return "writer", "GetLogWriter did not hand out a lumberjack writer"
		}
		if lj.MaxSize != c.R.Size || lj.MaxAge != c.R.Age || lj.MaxBackups != c.R.Keep || lj.Compress != c.R.Compress || lj.LocalTime != c.R.Localtime {
			return "writer", fmt.Sprintf("writer settings %d/%d/%d/%v/%v, the specification says %+v", lj.MaxSize, lj.MaxAge, lj.MaxBackups, lj.Compress, lj.LocalTime, c.R)
		}
		if c.R.Size < 0 {
			return "effective-limit-positive", "an accepted block leaves the rolling writer a negative size limit: it refuses every entry"
		}
	}
	return "", ""
}

func partRoller(t *testing.T, res *hx.Result) {
	if hx.CasesPath("LogRoller") == "" {
		return // the quick tier does not run LogRoller.tla
	}
	hx.Quiet()
	scratch := hx.Scratch(t)
	cases := hx.LoadCases[rcase](t, "LogRoller")
	rnd := hx.Rand()
	flipped := false
	perClause := map[string]int{}
	for n, c := range cases {
		nontrivial := ""
		if len(c.Lines) > 0 {
			nontrivial = c.key()
		}
		res.Count(nontrivial)
		if hx.SelfTest() && !flipped && c.Res == "ok" && len(c.Lines) > 0 {
			flipped = true
			c.R.Keep++ // --selftest: one expectation corrupted
		}
		clause, what := evalRoller(c, scratch, n, rnd.Intn(200) == 0)
		if clause == "infra" {
			res.Infra = what
			return
		}
		if clause == "" {
			continue
		}
		// once more, fresh controller
		if clause2, what2 := evalRoller(c, scratch, n+len(cases), clause == "writer" || clause == "effective-limit-positive"); clause2 == clause {
			// one cause shows in many blocks: a few instances are reported, the rest counted
			perClause[clause]++
			if perClause[clause] <= 6 {
				res.Add(hx.Mismatch{Key: "C20/logroller/" + clause + "/" + c.key(), What: what, Case: c, Observed: what2})
			}
		}
	}
	res.AddExtra("logroller_cases", len(cases))
	if len(perClause) > 0 {
		res.AddExtra("logroller_mismatching_cases", perClause)
	}
	if hx.SelfTest() && res.MismatchCount() == 0 {
		res.Infra = "selftest: a corrupted roller expectation went unnoticed"
	}
}
