// C20 extension - where access-log and error-log entries end up over the life of a process:
// shared log files, rotation, reloads.  Bound to specs/LogSink.tla by trace validation
// (specs/LogSinkTrace.tla) plus a comparison of the file contents with what the clients received.
//
// TLC (LogSinkHist.tla, seeded simulation) emits histories over {start, API reload, SIGUSR1
// reload, stop} x configuration x failure stage, and the configuration table itself.  Every
// history runs in this process against real instances (casket.Start / Instance.Restart / a real
// SIGUSR1 through casket.TrapSignals and a registered loader / Instance.Stop + ShutdownCallbacks)
// in a directory of its own (the rolling writers are process-global, keyed by file name).
//   - Every log entry is padded to ONE fixed length B (capunit*B <= 1 MB < (capunit+1)*B; the
//     access-log format carries a long literal, the error-log entry gets its length through the
//     request path), so that a file of rotate_size 1 holds exactly capunit entries and the
//     specification can say which entry starts a new file.
//   - 8 keep-alive clients send requests with a per-client sequence number in the X-Id header
//     (printed by the log format, part of the path of an error request); a burst runs ACROSS
//     every operation (some of its requests sleep in the handler so that the old instance of a
//     reload drains while the new one serves; most of them go to a path the log directives
//     except, a bounded number is logged: see runHistory) and another one after it.
//   - Observed: every response (status, the generation that answered: a `header` directive), every
//     entry in the current file and all backups (gunzipped when rotate_compress is on), the
//     descriptors of this process naming the files (/proc/self/fd), the result of every operation.
//   - Judged by TLC: the recorded trace (call / w / ret / obs events, see LogSinkTrace.tla).
//     Judged here on the contents: every record of every file is one whole entry; every entry a
//     client was answered for is there exactly once (or was in a backup the mill removed: then it
//     is older than everything that is left); per-connection order; no stray descriptors.
package cx20logsink

import (
	"bytes"
	"compress/gzip"
	"encoding/json"
	"fmt"
	"io"
	"math/rand"
	"net"
	"os"
	"path/filepath"
	"sort"
	"strconv"
	"strings"
	"sync"
	"sync/atomic"
	"syscall"
	"testing"
	"time"

	"github.com/tmpim/casket"
	"github.com/tmpim/casket/caskethttp/httpserver"
	"verifharness/hx"
	"verifharness/probe"
)

const prefix = "C20/logsink/"

// ------------------------------------------------------------------------------- cases

type sink struct {
	Kind string `json:"kind"`
	File string `json:"file"`
	Size int    `json:"size"`
	Keep int    `json:"keep"`
}

type op struct {
	T string `json:"t"`
	C string `json:"c"`
	F string `json:"f"`
}

type hcase struct {
	Ops     []op                `json:"ops,omitempty"`
	Table   map[string][][]sink `json:"table,omitempty"`
	CapUnit int                 `json:"capunit,omitempty"`
	Grace   bool                `json:"grace,omitempty"` // the harness shortens the grace period and keeps a slow request in flight across every reload
}

func (h hcase) key() string {
	var b strings.Builder
	if h.Grace {
		b.WriteString("grace:")
	}
	for _, o := range h.Ops {
		switch {
		case o.T == "stop":
			b.WriteString("stop;")
		case o.F == "none":
			fmt.Fprintf(&b, "%s.%s;", o.T, o.C)
		default:
			fmt.Fprintf(&b, "%s.%s.%s;", o.T, o.C, o.F)
		}
	}
	return b.String()
}

var fileNames = []string{"f1", "f2", "r1"}

func isRaw(f string) bool { return f == "r1" }

// ------------------------------------------------------------------------------- world

type event map[string]interface{}

type respInfo struct {
	gen, site int
	err       bool
	quiet     bool // a request under the path every log directive excepts: no entry anywhere
	status    int
}

type rec struct {
	id      string
	client  int
	seq     int
	g, s, i int // s, i = 0 for an error-log entry (the text does not name its sink)
	errlog  bool
}

type world struct {
	h        hcase
	B        int
	dir, cwd string
	files    map[string]string // f1 -> absolute path
	ports    [3]int
	busy     net.Listener
	compress bool
	rnd      *rand.Rand
	nClients int

	inst   *casket.Instance
	curGen int
	ngen   int
	genCfg map[int]string // generation -> configuration (loads that got as far as the directives)

	mu       sync.Mutex
	seq      []int
	resp     map[string]respInfo
	retried  map[string]bool
	sent     int64
	pace     sync.Mutex
	nsent    int
	sigDone  chan string
	seen     map[string]bool // id|g|s|i found in a file at an earlier observation
	cache    map[string][]rec
	events   []event
	problems []problem
	tr       int
	ambig    string            // the trace cannot be written unambiguously (never a verdict)
	selfDrop bool              // --selftest: hide one found entry from the comparison
	fails    int64             // requests sent in the current phase whose connection died before the response
	prevTail map[string]string // per file: the last entry of the current file at the previous observation
}

type problem struct {
	clause, what string
}

func (w *world) emit(e event) {
	e["tr"] = w.tr
	w.events = append(w.events, e)
}

func (w *world) bad(clause, format string, a ...interface{}) {
	w.problems = append(w.problems, problem{clause, fmt.Sprintf(format, a...)})
}

func input(txt string) casket.Input {
	return casket.CasketfileInput{Contents: []byte(txt), Filepath: "Casketfile", ServerTypeName: "http"}
}

// sinkFile spells the file of a sink: absolute, or relative to the working directory (the
// rolling writers are keyed by the absolute name, whatever the spelling)
func (w *world) sinkFile(f string, rel bool) string {
	if rel {
		if r, err := filepath.Rel(w.cwd, w.files[f]); err == nil {
			return r
		}
	}
	return w.files[f]
}

func (w *world) rotateBlock(sk sink) string {
	if isRaw(sk.File) {
		if sk.Kind == "log" {
			return "\t\trotate_disable\n\t\texcept /quiet\n"
		}
		return "\t\trotate_disable\n"
	}
	s := fmt.Sprintf("\t\trotate_size %d\n\t\trotate_keep %d\n", sk.Size, sk.Keep)
	if sk.Kind == "log" {
		s += "\t\texcept /quiet\n"
	}
	if w.compress {
		s += "\t\trotate_compress\n"
	}
	return s
}

const accessHead = len("c00-q00000 g00 s0 i0 ")

// config writes the Casketfile of one load attempt.
func (w *world) config(gen int, name, fail string) string {
	var b strings.Builder
	early, late := -1, -1
	if fail == "early" {
		early = w.rnd.Intn(3)
		if early == 2 && w.h.Table[name][0][0].Kind != "log" {
			early = 1 // the surplus argument goes to the first sink, which must be a log directive
		}
	}
	if fail == "late" {
		late = w.rnd.Intn(2)
	}
	for s, site := range w.h.Table[name] {
		fmt.Fprintf(&b, "127.0.0.1:%d {\n\tbind 127.0.0.1\n\troot %s\n\theader / X-Gen \"%d\"\n\tverifprobe\n", w.ports[s], filepath.Join(w.dir, "root"), gen)
		if s == 0 {
			if late == 1 {
				fmt.Fprintf(&b, "\tverifgate %d failstartup\n", gen)
			} else {
				fmt.Fprintf(&b, "\tverifgate %d\n", gen)
			}
			if early == 1 {
				b.WriteString("\tnosuchdirective x\n")
			}
		}
		for i, sk := range site {
			fn := w.sinkFile(sk.File, w.rnd.Intn(3) == 0)
			if sk.Kind == "log" {
				head := fmt.Sprintf("g%02d s%d i%d ", gen, s+1, i+1)
				pad := strings.Repeat("P", w.B-1-accessHead)
				extra := ""
				if early == 2 && s == 0 && i == 0 {
					extra = " surplus argument"
				}
				fmt.Fprintf(&b, "\tlog / %s \"{>X-Id} %s%s\"%s {\n%s\t}\n", fn, head, pad, extra, w.rotateBlock(sk))
			} else {
				fmt.Fprintf(&b, "\terrors %s {\n%s\t}\n", fn, w.rotateBlock(sk))
			}
		}
		b.WriteString("}\n")
	}
	if late == 0 { // a further site whose port is held: rejected at listen time, after every startup callback
		fmt.Fprintf(&b, "%s {\n\tbind 127.0.0.1\n\troot %s\n}\n", w.busy.Addr().String(), filepath.Join(w.dir, "root"))
	}
	if early == 0 {
		b.WriteString("127.0.0.1:1 {\n\troot /\n")
	}
	return b.String()
}

// errSink returns the index (0-based) of the errors sink of a site, -1 if it has none.
func errSink(site []sink) int {
	for i, sk := range site {
		if sk.Kind == "errors" {
			return i
		}
	}
	return -1
}

// ------------------------------------------------------------------------------- SIGUSR1

var (
	sigOnce  sync.Once
	sigInput atomic.Value
)

func armSignals() {
	sigOnce.Do(func() {
		casket.RegisterCasketfileLoader("verifcx20logsink", casket.LoaderFunc(func(string) (casket.Input, error) {
			in, _ := sigInput.Load().(casket.Input)
			return in, nil
		}))
		casket.TrapSignals()
		time.Sleep(20 * time.Millisecond) // the handler goroutines install themselves asynchronously
	})
}

var errHang = fmt.Errorf("the operation did not return")

// reloadBySignal sends SIGUSR1 to this process and waits for the reload the handler runs.
func (w *world) reloadBySignal(in casket.Input) (*casket.Instance, error) {
	old := w.inst
	sigInput.Store(in)
	select {
	case <-w.sigDone:
	default:
	}
	if err := syscall.Kill(os.Getpid(), syscall.SIGUSR1); err != nil {
		return old, err
	}
	select {
	case r := <-w.sigDone:
		if r == "err" {
			return old, fmt.Errorf("reload by SIGUSR1 failed")
		}
	case <-time.After(30 * time.Second):
		return old, errHang
	}
	for i := 0; i < 20000; i++ {
		if l := casket.Instances(); len(l) == 1 && l[0] != old {
			return l[0], nil
		}
		time.Sleep(100 * time.Microsecond)
	}
	return old, fmt.Errorf("instance list not updated after a reload by SIGUSR1")
}

// ------------------------------------------------------------------------------- clients

type burst struct {
	wg   sync.WaitGroup
	done int64
}

// tick paces the clients: whenever requests good for capunit/2 entries in one file have been sent,
// nothing new is sent for 2 ms, so that two rotations of one file never fall into the same
// millisecond (lumberjack names a backup by the time to the millisecond; a second rotation in the
// same millisecond overwrites the first backup). weight = the entries the request can add to one file.
func (w *world) tick(weight int) {
	w.pace.Lock()
	w.nsent += weight
	if w.nsent >= w.h.CapUnit/2 {
		w.nsent = 0
		time.Sleep(2 * time.Millisecond)
	}
	w.pace.Unlock()
}

// weightOf returns the largest number of entries one request to the site can add to one file under
// any of the configurations that may answer it.
func (w *world) weightOf(cfgs []string, site int, isErr bool) int {
	max := 1
	for _, c := range cfgs {
		if site >= len(w.h.Table[c]) {
			continue
		}
		per := map[string]int{}
		for _, sk := range w.h.Table[c][site] {
			if sk.Kind == "log" || isErr {
				per[sk.File]++
				if per[sk.File] > max {
					max = per[sk.File]
				}
			}
		}
	}
	return max
}

// startBurst sends `total` requests from the clients to the given sites (0-based); errSites may be
// sent requests that fail in the handler (an error-log entry); slow = every so-manyth request sleeps
// in the handler; giveUp = a refused connection ends the client's share (the instance is being stopped).
func (w *world) startBurst(cfgs []string, total, maxLog int, sites []int, errSites map[int]bool, slowEvery, slowMs int, giveUp bool) *burst {
	b := &burst{}
	var ticket int64
	for c := 0; c < w.nClients; c++ {
		b.wg.Add(1)
		go func(c int) {
			defer b.wg.Done()
			conns := map[int]*hx.RawConn{}
			defer func() {
				for _, rc := range conns {
					rc.Close()
				}
			}()
			for {
				n := int(atomic.AddInt64(&ticket, 1))
				if n > total {
					return
				}
				site := sites[(n+c)%len(sites)]
				// maxLog of the requests, evenly spread, are logged; the others go to /quiet/, which every
				// log directive excepts: they keep the connections busy and leave nothing in the files
				quiet := n*maxLog/total == (n-1)*maxLog/total
				if !quiet {
					w.tick(w.weightOf(cfgs, site, errSites[site] && n%3 == 0))
				}
				w.mu.Lock()
				w.seq[c]++
				id := fmt.Sprintf("c%02d-q%05d", c, w.seq[c])
				w.mu.Unlock()
				isErr := errSites[site] && n%3 == 0 && !quiet
				slow := slowEvery > 0 && n%slowEvery == 0
				addr := fmt.Sprintf("127.0.0.1:%d", w.ports[site])
				target := "/n/" + id
				if quiet {
					target = "/quiet/" + id
				}
				hdr := []string{"X-Id: " + id}
				if isErr {
					// "[ERROR 500 " + path + "] probe error\n" has the fixed entry length
					target = "/e/" + id + "/" + strings.Repeat("E", w.B-25-14)
					hdr = append(hdr, "X-Probe: reterr:500")
				} else if slow {
					hdr = append(hdr, fmt.Sprintf("X-Probe: sleep:%d;next", slowMs))
				}
				deadline := time.Now().Add(10 * time.Second)
				for attempt := 0; ; attempt++ {
					if attempt > 0 {
						w.mu.Lock()
						w.retried[id] = true
						w.mu.Unlock()
					}
					rc := conns[site]
					if rc == nil {
						var err error
						rc, err = hx.DialRaw(addr)
						if err != nil {
							if giveUp || time.Now().After(deadline) {
								return
							}
							time.Sleep(200 * time.Microsecond)
							continue
						}
						conns[site] = rc
					}
					r, err := rc.Get("GET", target, addr, hdr...)
					if err != nil {
						if !quiet {
							atomic.AddInt64(&w.fails, 1) // sent, fate unknown: it may have been handled and logged
						}
						rc.Close()
						delete(conns, site)
						if time.Now().After(deadline) {
							return
						}
						continue
					}
					gen, _ := strconv.Atoi(r.Header.Get("X-Gen"))
					w.mu.Lock()
					w.resp[id] = respInfo{gen: gen, site: site, err: isErr, quiet: quiet, status: r.Status}
					w.mu.Unlock()
					atomic.AddInt64(&b.done, 1)
					break
				}
			}
		}(c)
	}
	return b
}

// ------------------------------------------------------------------------------- reading the files

// parse splits the content of one physical file into entries; anything that is not a sequence
// of whole entries of the fixed length is reported (OneLineOneWrite).
func (w *world) parse(name string, data []byte) []rec {
	var out []rec
	if len(data)%w.B != 0 {
		w.bad("one-line-one-write", "%s: %d bytes are not a whole number of entries of %d bytes", name, len(data), w.B)
	}
	for off := 0; off+w.B <= len(data); off += w.B {
		r, ok := w.parseOne(data[off : off+w.B])
		if !ok {
			head := data[off : off+40]
			w.bad("one-line-one-write", "%s: record %d is not one whole entry: %q...", name, off/w.B, head)
			continue
		}
		out = append(out, r)
	}
	return out
}

func allByte(b []byte, c byte) bool {
	return bytes.Count(b, []byte{c}) == len(b)
}

func parseID(b []byte) (client, seq int, ok bool) {
	// cNN-qNNNNN
	if len(b) != 10 || b[0] != 'c' || b[3] != '-' || b[4] != 'q' {
		return 0, 0, false
	}
	client, e1 := strconv.Atoi(string(b[1:3]))
	seq, e2 := strconv.Atoi(string(b[5:10]))
	return client, seq, e1 == nil && e2 == nil
}

func (w *world) parseOne(b []byte) (rec, bool) {
	if b[len(b)-1] != '\n' {
		return rec{}, false
	}
	if b[0] == '[' {
		const head, tail = "[ERROR 500 /e/", "] probe error\n"
		if !bytes.HasPrefix(b, []byte(head)) || !bytes.HasSuffix(b, []byte(tail)) {
			return rec{}, false
		}
		id := b[len(head) : len(head)+10]
		c, q, ok := parseID(id)
		if !ok || b[len(head)+10] != '/' || !allByte(b[len(head)+11:len(b)-len(tail)], 'E') {
			return rec{}, false
		}
		return rec{id: string(id), client: c, seq: q, errlog: true}, true
	}
	// "cNN-qNNNNN gNN sN iN PPP...\n"
	c, q, ok := parseID(b[:10])
	if !ok || b[10] != ' ' || b[11] != 'g' || b[14] != ' ' || b[15] != 's' || b[17] != ' ' || b[18] != 'i' || b[20] != ' ' {
		return rec{}, false
	}
	g, e1 := strconv.Atoi(string(b[12:14]))
	s, e2 := strconv.Atoi(string(b[16:17]))
	i, e3 := strconv.Atoi(string(b[19:20]))
	if e1 != nil || e2 != nil || e3 != nil || !allByte(b[accessHead:len(b)-1], 'P') {
		return rec{}, false
	}
	return rec{id: string(b[:10]), client: c, seq: q, g: g, s: s, i: i}, true
}

type fileObs struct {
	fds    int
	chain  [][]rec // backups oldest first, then the current file
	names  []string
	strays []string
}

func gunzip(p string) ([]byte, error) {
	f, err := os.Open(p)
	if err != nil {
		return nil, err
	}
	defer f.Close()
	zr, err := gzip.NewReader(f)
	if err != nil {
		return nil, err
	}
	return io.ReadAll(zr)
}

// listing returns the names in the scratch directory (with sizes) as one string.
func (w *world) listing() string {
	es, _ := os.ReadDir(w.dir)
	var b strings.Builder
	for _, e := range es {
		fi, err := e.Info()
		if err == nil && !e.IsDir() {
			fmt.Fprintf(&b, "%s:%d;", e.Name(), fi.Size())
		}
	}
	return b.String()
}

// settle waits until the directory has not changed for `quiet` (the mill goroutine prunes and
// compresses backups in the background) and, with compression, until no backup waits for it.
func (w *world) settle(quiet time.Duration) {
	deadline := time.Now().Add(5 * time.Second)
	last, since := w.listing(), time.Now()
	for time.Now().Before(deadline) {
		time.Sleep(500 * time.Microsecond)
		now := w.listing()
		if now != last {
			last, since = now, time.Now()
			continue
		}
		pending := false
		if w.compress {
			for _, part := range strings.Split(now, ";") {
				name := strings.SplitN(part, ":", 2)[0]
				if strings.Contains(name, "-20") && strings.HasSuffix(name, ".log") {
					pending = true // a backup that is not compressed yet
				}
			}
		}
		if !pending && time.Since(since) >= quiet {
			return
		}
	}
}

// observe reads every file with its backups and the descriptor table.
func (w *world) observe() map[string]*fileObs {
	out := map[string]*fileObs{}
	for attempt := 0; ; attempt++ {
		ok := true
		for _, f := range fileNames {
			o := &fileObs{}
			out[f] = o
			cur := w.files[f]
			base := strings.TrimSuffix(filepath.Base(cur), ".log")
			es, _ := os.ReadDir(w.dir)
			var backups []string
			have := map[string]bool{}
			for _, e := range es {
				have[e.Name()] = true
			}
			for n := range have {
				if !strings.HasPrefix(n, base+"-") {
					continue
				}
				if strings.HasSuffix(n, ".log.gz") && have[strings.TrimSuffix(n, ".gz")] {
					continue // being compressed: the uncompressed file is still the backup
				}
				backups = append(backups, n)
			}
			sort.Slice(backups, func(a, b int) bool {
				return strings.TrimSuffix(backups[a], ".gz") < strings.TrimSuffix(backups[b], ".gz")
			})
			for _, n := range backups {
				p := filepath.Join(w.dir, n)
				fi, err := os.Stat(p)
				if err != nil {
					ok = false
					continue
				}
				ck := fmt.Sprintf("%s:%d", n, fi.Size())
				recs, hit := w.cache[ck]
				if !hit {
					var data []byte
					if strings.HasSuffix(n, ".gz") {
						data, err = gunzip(p)
					} else {
						data, err = os.ReadFile(p)
					}
					if err != nil {
						ok = false
						continue
					}
					recs = w.parse(n, data)
					w.cache[ck] = recs
				}
				o.chain = append(o.chain, recs)
				o.names = append(o.names, n)
			}
			data, err := os.ReadFile(cur)
			if err != nil && !os.IsNotExist(err) {
				ok = false
			}
			o.chain = append(o.chain, w.parse(filepath.Base(cur), data))
			o.names = append(o.names, filepath.Base(cur))
		}
		if ok || attempt >= 5 {
			break
		}
		time.Sleep(2 * time.Millisecond) // a backup vanished or was being compressed while it was read
	}
	fds, _ := os.ReadDir("/proc/self/fd")
	for _, e := range fds {
		l, err := os.Readlink("/proc/self/fd/" + e.Name())
		if err != nil || !strings.HasPrefix(l, w.dir+"/") {
			continue
		}
		hit := false
		for _, f := range fileNames {
			if l == w.files[f] {
				out[f].fds++
				hit = true
			}
		}
		if !hit && !strings.HasPrefix(l, filepath.Join(w.dir, "root")) {
			out["f1"].strays = append(out["f1"].strays, strings.TrimPrefix(l, w.dir+"/"))
		}
	}
	return out
}

// expectedSinks returns the sinks (0-based site-local indices) that must get an entry for a
// request answered by generation gen on a site.
func (w *world) expectedSinks(ri respInfo) []int {
	cfg, ok := w.genCfg[ri.gen]
	if !ok || ri.quiet || ri.site >= len(w.h.Table[cfg]) {
		return nil
	}
	var out []int
	for i, sk := range w.h.Table[cfg][ri.site] {
		if sk.Kind == "log" || (sk.Kind == "errors" && ri.err) {
			out = append(out, i)
		}
	}
	return out
}

// account compares the files with the responses, emits the w / wdrop events of everything new
// and the obs event.
func (w *world) account(final bool) {
	if final {
		w.settle(100 * time.Millisecond)
	} else {
		w.settle(2 * time.Millisecond)
	}
	obs := w.observe()
	w.mu.Lock()
	defer w.mu.Unlock()
	files := event{}
	hidden := false
	// the entries of this phase: the order among files is not observable, and the order inside a
	// file does not matter to the specification (entries have one length).  They are logged
	// files-found-closed first (whatever was written to a shared file that is closed now was
	// written before the old instance's shutdown callback closed it; a file that is open now got
	// an entry after that), then by generation: a legal linearization of any real order
	var phase []event
	openNow := map[string]bool{}
	for _, f := range fileNames {
		o := obs[f]
		foundNow := map[string]int{}
		type ent struct {
			key     string
			g, s, i int
			late    bool
		}
		// may the entry of this request have been written after its logger's Close?
		mayBeLate := func(id string) bool {
			_, answered := w.resp[id]
			return w.h.Grace || !answered || w.retried[id]
		}
		var found []ent
		minFound := map[int]int{} // client -> smallest sequence number still in the file
		for ci, part := range o.chain {
			last := map[int]int{}
			_ = ci
			for _, r := range part {
				s, i, g := r.s, r.i, r.g
				ri, answered := w.resp[r.id]
				if r.errlog {
					if !answered || w.retried[r.id] {
						// (a request that was sent again after a connection error may have been
						// handled twice, by different generations: the text does not say by which)
						w.ambig = "an error-log entry of a request that was never answered or was sent twice: " + r.id
						continue
					}
					cfg := w.genCfg[ri.gen]
					s, g = ri.site+1, ri.gen
					i = errSink(w.h.Table[cfg][ri.site]) + 1
					if i == 0 {
						w.bad("no-line-lost", "%s holds an error-log entry for %s, answered by generation %d whose site %d has no errors sink", f, r.id, g, s)
						continue
					}
				} else if answered && ri.gen != g && !w.retried[r.id] {
					w.bad("no-line-lost", "%s: the entry of %s names generation %d, the response generation %d", f, r.id, g, ri.gen)
				}
				if cfg, ok := w.genCfg[g]; !ok || s-1 >= len(w.h.Table[cfg]) || i-1 >= len(w.h.Table[cfg][s-1]) || w.h.Table[cfg][s-1][i-1].File != f {
					w.bad("no-line-lost", "%s holds an entry of %s written through sink g%d s%d i%d, which does not name this file", f, r.id, g, s, i)
					continue
				}
				// (a request that was sent again after a connection error may have been handled
				// twice, the first time late: it has no place in its client's order)
				if !w.retried[r.id] {
					if prev, ok := last[r.client]; ok && r.seq < prev {
						w.bad("per-connection-order", "%s (%s): client %d's entry %d comes after its entry %d", f, o.names[ci], r.client, r.seq, prev)
					}
					last[r.client] = r.seq
					if m, ok := minFound[r.client]; !ok || r.seq < m {
						minFound[r.client] = r.seq
					}
				}
				k := fmt.Sprintf("%s|%d|%d|%d", r.id, g, s, i)
				if w.selfDrop && !hidden && !w.seen[k] {
					hidden = true // --selftest: this entry is hidden from the comparison
					continue
				}
				foundNow[k]++
				if foundNow[k] == 2 && !w.retried[r.id] {
					w.bad("no-line-duplicated", "%s holds the entry of %s for sink s%d i%d twice", f, r.id, s, i)
				}
				if !w.seen[k] && (foundNow[k] == 1 || w.retried[r.id]) {
					found = append(found, ent{k, g, s, i, mayBeLate(r.id)})
				}
			}
		}
		// Was anything removed by the mill that no observation has seen?  Not if the last entry of
		// the previous observation is still there (the mill removes the oldest first).  If it is gone
		// AND a request of this phase lost its connection after it was sent, that request may have
		// been handled and its entry removed unseen: the number of writes is not known, the trace
		// of this history is not written (never a verdict)
		tailKey := func(r rec) string { return fmt.Sprintf("%s|%d|%d|%d|%v", r.id, r.g, r.s, r.i, r.errlog) }
		if pt := w.prevTail[f]; pt != "" && !isRaw(f) {
			still := false
			for _, part := range o.chain {
				for _, r := range part {
					if tailKey(r) == pt {
						still = true
					}
				}
			}
			if !still && atomic.LoadInt64(&w.fails) > 0 {
				w.ambig = fmt.Sprintf("%s: backups were removed unseen in a phase in which %d requests lost their connection after they were sent", f, atomic.LoadInt64(&w.fails))
			}
		}
		if c := o.chain[len(o.chain)-1]; len(c) > 0 {
			w.prevTail[f] = tailKey(c[len(c)-1])
		} else if len(o.chain) > 1 {
			if b := o.chain[len(o.chain)-2]; len(b) > 0 {
				w.prevTail[f] = tailKey(b[len(b)-1])
			}
		}
		// the order across the physical files: a client's entries in a later file are later ones
		lastOf := map[int]int{}
		for ci, part := range o.chain {
			for _, r := range part {
				if w.retried[r.id] {
					continue
				}
				if prev, ok := lastOf[r.client]; ok && r.seq < prev {
					w.bad("per-connection-order", "%s: client %d's entry %d (in %s) comes after its entry %d", f, r.client, r.seq, o.names[ci], prev)
				}
				lastOf[r.client] = r.seq
			}
		}
		// answered, expected in this file, never seen
		var missing []ent
		ids := make([]string, 0, len(w.resp))
		for id := range w.resp {
			ids = append(ids, id)
		}
		sort.Strings(ids)
		for _, id := range ids {
			ri := w.resp[id]
			cfg := w.genCfg[ri.gen]
			for _, i := range w.expectedSinks(ri) {
				if w.h.Table[cfg][ri.site][i].File != f {
					continue
				}
				k := fmt.Sprintf("%s|%d|%d|%d", id, ri.gen, ri.site+1, i+1)
				if w.seen[k] || foundNow[k] > 0 {
					continue
				}
				missing = append(missing, ent{k, ri.gen, ri.site + 1, i + 1, mayBeLate(id)})
				w.seen[k] = true
				c, q, _ := parseID([]byte(id))
				if isRaw(f) || len(o.chain) == 1 {
					// a file that is never rotated / has no backup and lost none cannot have lost it to the mill
					w.bad("no-line-lost", "%s: the request %s was answered (%d, generation %d) but sink s%d i%d has no entry for it", f, id, ri.status, ri.gen, ri.site+1, i+1)
				} else if m, ok := minFound[c]; ok && m < q && !w.retried[id] {
					w.bad("pruned-are-oldest", "%s: the entry of %s is gone although the older entry %d of the same client is still there", f, id, m)
				}
			}
		}
		for _, e := range missing {
			ev := "w"
			if isRaw(f) {
				ev = "wdrop"
			}
			phase = append(phase, event{"ev": ev, "g": e.g, "s": e.s, "i": e.i, "f": f, "late": e.late, "gone": true})
		}
		for _, e := range found {
			w.seen[e.key] = true
			phase = append(phase, event{"ev": "w", "g": e.g, "s": e.s, "i": e.i, "f": f, "late": e.late})
		}
		bks := []int{}
		for _, part := range o.chain[:len(o.chain)-1] {
			bks = append(bks, len(part))
		}
		files[f] = event{"fds": o.fds, "cur": len(o.chain[len(o.chain)-1]), "bks": bks}
		openNow[f] = o.fds > 0 && !isRaw(f)
		if isRaw(f) {
			// ClosedWhenLastUserGone on the descriptor table itself: a file that is not rolled is
			// open at most once per sink of the serving instance that names it
			users := 0
			if w.inst != nil {
				for _, site := range w.h.Table[w.genCfg[w.curGen]] {
					for _, sk := range site {
						if sk.File == f {
							users++
						}
					}
				}
			}
			if o.fds > users {
				w.bad("closed-when-last-user-gone", "%s is open %d times; the serving configuration has %d sinks naming it", f, o.fds, users)
			}
		}
		if final && len(o.strays) > 0 {
			w.bad("stray-descriptor", "descriptors of this process name %v", o.strays)
		}
	}
	sort.SliceStable(phase, func(a, b int) bool {
		oa, ob := openNow[phase[a]["f"].(string)], openNow[phase[b]["f"].(string)]
		if oa != ob {
			return !oa
		}
		return phase[a]["g"].(int) < phase[b]["g"].(int)
	})
	for _, e := range phase {
		w.emit(e)
	}
	w.emit(event{"ev": "obs", "final": final, "files": files})
	atomic.StoreInt64(&w.fails, 0)
}

// ------------------------------------------------------------------------------- one history

type outcome struct {
	events   []event
	problems []problem
	ambig    string
	infra    string
	requests int
	retried  int
}

var runNo int64

func runHistory(t *testing.T, h hcase, seed int64, tr int, selfDrop bool) outcome {
	hx.Quiet()
	armSignals()
	n := atomic.AddInt64(&runNo, 1)
	dir, err := os.MkdirTemp(hx.Scratch(t), fmt.Sprintf("cx20ls%d_", n))
	if err != nil {
		return outcome{infra: err.Error()}
	}
	defer os.RemoveAll(dir)
	os.Mkdir(filepath.Join(dir, "root"), 0o755)
	cwd, _ := os.Getwd()
	B := 1048576/h.CapUnit - 72
	if h.CapUnit < 2 || h.CapUnit*B > 1048576 || (h.CapUnit+1)*B <= 1048576 || 2*h.CapUnit*B > 2097152 || (2*h.CapUnit+1)*B <= 2097152 {
		return outcome{infra: "entry length does not fit the capacity unit"}
	}
	w := &world{h: h, B: B, dir: dir, cwd: cwd, files: map[string]string{}, rnd: rand.New(rand.NewSource(seed)), nClients: 8,
		genCfg: map[int]string{}, resp: map[string]respInfo{}, retried: map[string]bool{}, seen: map[string]bool{},
		cache: map[string][]rec{}, sigDone: make(chan string, 1), tr: tr, selfDrop: selfDrop, prevTail: map[string]string{}}
	w.seq = make([]int, w.nClients)
	for _, f := range fileNames {
		w.files[f] = filepath.Join(dir, f+".log")
	}
	for i := range w.ports {
		w.ports[i] = hx.FreePort()
	}
	w.busy = hx.ListenFresh()
	defer w.busy.Close()
	w.compress = w.rnd.Intn(3) == 0
	if h.Grace {
		oldGrace := httpserver.GracefulTimeout
		httpserver.GracefulTimeout = 40 * time.Millisecond
		defer func() { httpserver.GracefulTimeout = oldGrace }()
	}
	probe.SetGate(func(point string, gen int) {
		switch point {
		case "restartfailed":
			select {
			case w.sigDone <- "err":
			default:
			}
		case "shutdown":
			select {
			case w.sigDone <- "ok":
			default:
			}
		}
	})
	defer probe.SetGate(nil)
	defer func() {
		if w.inst != nil {
			w.inst.Stop()
			w.inst.ShutdownCallbacks()
		}
	}()
	w.emit(event{"ev": "reset", "key": "logsink/" + h.key(), "keypos": "before"})

	// sites (0-based) a burst may use while generation `a` and possibly generation `b` serve
	sitesOf := func(cfgs ...string) ([]int, map[int]bool) {
		n := 3
		for _, c := range cfgs {
			if l := len(h.Table[c]); l < n {
				n = l
			}
		}
		var sites []int
		errs := map[int]bool{}
		for s := 0; s < n; s++ {
			sites = append(sites, s)
			all := true
			for _, c := range cfgs {
				if errSink(h.Table[c][s]) < 0 {
					all = false
				}
			}
			errs[s] = all
		}
		return sites, errs
	}
	burstSize := func() int { return h.CapUnit + 2 + w.rnd.Intn(h.CapUnit) }

	ops := append([]op{}, h.Ops...)
	// the history always ends with nothing serving
	live := false
	for _, o := range ops {
		if o.T == "stop" {
			live = false
		} else if o.F == "none" {
			live = true
		}
	}
	if live {
		ops = append(ops, op{T: "stop", C: "-", F: "none"})
	}
	for oi, o := range ops {
		curCfg := w.genCfg[w.curGen]
		var during *burst
		if w.inst != nil {
			cfgs := []string{curCfg}
			if o.T != "stop" && o.F == "none" {
				cfgs = append(cfgs, o.C)
			}
			sites, errs := sitesOf(cfgs...)
			slowMs := 12
			if h.Grace {
				slowMs = 200
			}
			// The burst across an operation adds at most one file's worth of entries to any file, so
			// that at most one rotation falls into it and no backup is removed before it was seen:
			// requests of this burst lose their connections (the old instance closes them) and what
			// became of such a request is only known from the files.  The burst after the
			// operation, where every request is answered, is the one with several rotations.
			maxW := 1
			for _, s := range sites {
				if x := w.weightOf(cfgs, s, errs[s]); x > maxW {
					maxW = x
				}
			}
			n := h.CapUnit/maxW - 2 - w.rnd.Intn(2)
			if n < 2 {
				n = 2
			}
			during = w.startBurst(cfgs, 3*burstSize(), n, sites, errs, 4, slowMs, o.T == "stop")
			// let it get under way
			for i := 0; i < 2000 && atomic.LoadInt64(&during.done) < 3; i++ {
				time.Sleep(100 * time.Microsecond)
			}
		}
		w.emit(event{"ev": "call", "op": event{"t": o.T, "c": o.C, "f": o.F}})
		var opErr error
		opInfra := ""
		opDone := make(chan struct{})
		go func() {
			defer close(opDone)
			switch o.T {
			case "stop":
				w.inst.Stop()
				w.inst.ShutdownCallbacks()
				w.inst = nil
			default:
				w.ngen++
				gen := w.ngen
				in := input(w.config(gen, o.C, o.F))
				if o.F != "early" {
					w.genCfg[gen] = o.C
				}
				var ni *casket.Instance
				switch o.T {
				case "start":
					sigInput.Store(in)
					loaded, lerr := casket.LoadCasketfile("http") // records the loader SIGUSR1 reloads will use
					if lerr != nil || loaded == nil {
						opInfra = fmt.Sprintf("LoadCasketfile: %v", lerr)
						return
					}
					ni, opErr = casket.Start(loaded)
					if opErr != nil {
						ni = nil
					}
				case "reload":
					ni, opErr = w.inst.Restart(in)
				case "usr1":
					ni, opErr = w.reloadBySignal(in)
				}
				if opErr == nil {
					w.inst, w.curGen = ni, gen
					if o.F != "none" {
						// (TLC would reject the trace at `ret`; the rest of the history has no meaning)
						w.bad("op-result", "operation %d (%s %s) was scripted to fail at stage %s and succeeded", oi+1, o.T, o.C, o.F)
						w.genCfg[gen] = o.C
					}
				}
				if opErr == errHang {
					opInfra = "a reload by SIGUSR1 did not finish within 30 s"
				} else if oi == 0 && opErr != nil {
					opInfra = fmt.Sprintf("the first start failed: %v", opErr)
				}
			}
		}()
		// the watchdog: an operation that has not returned after 200 ms gets a connection per site
		// every 100 ms (a reload of an idle instance can wait for the next connection to arrive:
		// known finding C16 call-blocked); one that has not returned after 90 s is the harness's
		// trouble, not a verdict
		began := time.Now()
	wait:
		for {
			select {
			case <-opDone:
				break wait
			case <-time.After(100 * time.Millisecond):
				if time.Since(began) > 90*time.Second {
					return outcome{infra: fmt.Sprintf("operation %d (%s %s) of %s did not return within 90 s", oi+1, o.T, o.C, h.key())}
				}
				if time.Since(began) > 200*time.Millisecond {
					for _, p := range w.ports {
						if c, err := net.DialTimeout("tcp", fmt.Sprintf("127.0.0.1:%d", p), time.Second); err == nil {
							c.Close()
						}
					}
				}
			}
		}
		if opInfra != "" {
			return outcome{infra: opInfra}
		}
		if during != nil {
			during.wg.Wait()
		}
		res := "ok"
		if opErr != nil {
			res = "err"
		}
		// the entries of the burst that ran across the operation, then the return
		w.account(false)
		obsEv := w.events[len(w.events)-1]
		w.events = w.events[:len(w.events)-1]
		w.emit(event{"ev": "ret", "res": res})
		w.emit(obsEv)
		if w.inst != nil {
			sites, errs := sitesOf(w.genCfg[w.curGen])
			nb := burstSize()
			after := w.startBurst([]string{w.genCfg[w.curGen]}, nb, nb, sites, errs, 0, 0, false)
			after.wg.Wait()
		}
		w.account(oi == len(ops)-1)
	}
	// which generations write at all, and the last entry of each
	lastOf := map[int]int{}
	for i, e := range w.events {
		if e["ev"] == "w" || e["ev"] == "wdrop" {
			lastOf[e["g"].(int)] = i
			e["last"] = false
		}
	}
	gens := []int{}
	for g, i := range lastOf {
		gens = append(gens, g)
		w.events[i]["last"] = true
	}
	sort.Ints(gens)
	w.events[0]["gens"] = gens
	return outcome{events: w.events, problems: w.problems, ambig: w.ambig, requests: len(w.resp), retried: len(w.retried)}
}

// ------------------------------------------------------------------------------- the test

// fixed histories run with every seed: the two situations the repair of logger.go is about, the
// same with the rolling writer, and a reload onto other settings for a shared file
func fixedHistories(table map[string][][]sink, capUnit int) []hcase {
	mk := func(grace bool, ops ...op) hcase {
		return hcase{Ops: ops, Table: table, CapUnit: capUnit, Grace: grace}
	}
	return []hcase{
		mk(false, op{"start", "raw2", "none"}, op{"reload", "raw2", "late"}, op{"usr1", "rawf", "late"}, op{"stop", "-", "none"}),
		mk(true, op{"start", "raw", "none"}, op{"reload", "raw", "none"}, op{"stop", "-", "none"}),
		mk(true, op{"start", "one", "none"}, op{"usr1", "share", "none"}, op{"stop", "-", "none"}),
		mk(false, op{"start", "share", "none"}, op{"reload", "big", "none"}, op{"stop", "-", "none"}, op{"start", "erfst", "none"}),
	}
}

func TestCx20LogSink(t *testing.T) {
	res := hx.NewResult("TestCx20LogSink", "histories of start / reload / SIGUSR1 reload / stop with failure stages drawn by TLC (LogSinkHist.tla, seeded) plus four fixed ones, executed on real instances with bursts of keep-alive requests across and after every operation; non-trivial = histories with a rotation, a reload or a rejected load")
	defer res.Write(t)
	var cases []hcase
	if hx.Replay() == "" {
		partRoller(t, res)
		if res.Infra != "" {
			return
		}
	}
	if rc, ok := hx.LoadReplay[rcase](t); ok && rc.Dir != "" {
		// a case of LogRoller.tla
		hx.Quiet()
		res.Count(rc.key())
		if clause, what := evalRoller(rc, hx.Scratch(t), 0, true); clause != "" {
			res.Add(hx.Mismatch{Key: "C20/logroller/" + clause + "/" + rc.key(), What: what, Case: rc})
		}
		return
	}
	if rp, ok := hx.LoadReplay[hcase](t); ok {
		cases = []hcase{rp}
	} else {
		var table map[string][][]sink
		capUnit := 0
		var hist []hcase
		for _, c := range hx.LoadCases[hcase](t, "LogSinkHist") {
			if c.Table != nil {
				table, capUnit = c.Table, c.CapUnit
			} else {
				hist = append(hist, c)
			}
		}
		if table == nil || capUnit == 0 || len(hist) == 0 {
			res.Infra = "LogSinkHist emitted no configuration table or no history"
			return
		}
		// distinct histories only
		seen := map[string]bool{}
		for _, h := range append(fixedHistories(table, capUnit), hist...) {
			h.Table, h.CapUnit = table, capUnit
			if !seen[h.key()] {
				seen[h.key()] = true
				cases = append(cases, h)
			}
		}
	}
	tw := hx.NewTrace(t, "logsink.ndjson")
	defer tw.Close()
	ntr, nreq, nretried, nambig := 0, 0, 0, 0
	rnd := hx.Rand()
	var selfTrace []event
	// on a machine that is much slower than usual the histories that do not fit into the time the
	// driver gives this test are left out (counted), rather than the test being killed
	began, budget, skipped := time.Now(), 150*time.Second, 0
	if hx.Thorough() {
		budget = 500 * time.Second
	}
	for ci, h := range cases {
		seed := rnd.Int63()
		if time.Since(began) > budget {
			skipped++
			continue
		}
		out := runHistory(t, h, seed, ci+1, false)
		if out.infra != "" {
			res.Infra = "history " + h.key() + ": " + out.infra
			return
		}
		nontrivial := ""
		for _, o := range h.Ops {
			if o.T == "reload" || o.T == "usr1" {
				nontrivial = h.key()
			}
		}
		res.Count(nontrivial)
		nreq += out.requests
		nretried += out.retried
		if ci < 2 {
			res.Sample(map[string]interface{}{"history": h.key(), "events": len(out.events), "requests": out.requests})
		}
		if len(out.problems) > 0 {
			// confirm in isolation: the same history once more, fresh directory, fresh files
			again := runHistory(t, h, seed+1, 0, false)
			for _, p := range out.problems {
				for _, q := range again.problems {
					if q.clause == p.clause {
						res.Add(hx.Mismatch{Key: prefix + p.clause + "/" + h.key(), What: p.what, Case: h, Observed: q.what})
						break
					}
				}
			}
		}
		if out.ambig != "" {
			nambig++
			res.AddExtra("logsink_ambiguous_example", h.key()+": "+out.ambig)
			continue
		}
		for _, e := range out.events {
			tw.Emit(e)
		}
		ntr++
		if selfTrace == nil && len(out.events) > 40 {
			selfTrace = out.events
		}
	}
	res.AddExtra("logsink_requests", nreq)
	res.AddExtra("logsink_requests_sent_again", nretried)
	res.AddExtra("logsink_histories", len(cases))
	if skipped > 0 {
		res.AddExtra("logsink_histories_left_out_for_time", skipped)
	}
	res.AddExtra("logsink_traces_not_written_ambiguous", nambig)
	tw.Close()
	if ntr > 0 {
		res.Traces = append(res.Traces, hx.TraceFile{Spec: "logsink", File: tw.Path, Count: ntr})
	}
	if hx.SelfTest() {
		selfTest(t, res, cases, selfTrace)
	}
}

// selfTest corrupts the recorded trace in three ways and the comparison in one; every corruption
// must be noticed (TLC rejects / a mismatch appears), the unmodified trace must be accepted.
func selfTest(t *testing.T, res *hx.Result, cases []hcase, trace []event) {
	if trace == nil {
		res.Infra = "selftest: no trace long enough"
		return
	}
	write := func(name string, evs []event) string {
		tw := hx.NewTrace(t, name)
		for _, e := range evs {
			tw.Emit(e)
		}
		tw.Close()
		return tw.Path
	}
	clone := func() []event {
		b, _ := json.Marshal(trace)
		var out []event
		json.Unmarshal(b, &out)
		return out
	}
	if rc, tail := hx.RunTraceSpec(t, "LogSinkTrace", "LogSinkTrace.cfg", write("self_ok.ndjson", trace)); rc != 0 {
		res.Infra = fmt.Sprintf("selftest: the unmodified trace is not accepted (rc=%d): %s", rc, tail)
		return
	}
	// (1) one entry fewer, (2) an entry attributed to a generation that never served, (3) one
	// more entry in the current file of the last observation
	c1 := clone()
	for i, e := range c1 {
		if e["ev"] == "w" {
			c1 = append(c1[:i], c1[i+1:]...)
			break
		}
	}
	c2 := clone()
	for _, e := range c2 {
		if e["ev"] == "w" {
			e["g"] = 6
			break
		}
	}
	c3 := clone()
	for i := len(c3) - 1; i >= 0; i-- {
		if c3[i]["ev"] == "obs" {
			f1 := c3[i]["files"].(map[string]interface{})["f1"].(map[string]interface{})
			f1["fds"] = f1["fds"].(float64) + 1
			break
		}
	}
	for n, c := range [][]event{c1, c2, c3} {
		rc, tail := hx.RunTraceSpec(t, "LogSinkTrace", "LogSinkTrace.cfg", write(fmt.Sprintf("self_bad%d.ndjson", n+1), c))
		if rc != 10 && rc != 12 && rc != 13 {
			res.Infra = fmt.Sprintf("selftest: corrupted trace %d was not rejected (rc=%d): %s", n+1, rc, tail)
			return
		}
	}
	// the comparison: one entry hidden from it must show up as lost
	out := runHistory(t, cases[0], 7, 0, true)
	hit := false
	for _, p := range out.problems {
		if p.clause == "no-line-lost" || p.clause == "pruned-are-oldest" {
			hit = true
		}
	}
	if !hit {
		res.Infra = "selftest: an entry hidden from the comparison was not missed"
		return
	}
	res.Add(hx.Mismatch{Key: prefix + "selftest", What: "selftest: three corrupted traces rejected by TLC, a hidden entry missed by the comparison"})
}
