package cx14health

import (
	"encoding/json"
	"fmt"
	"net"
	"net/http"
	"net/http/httptest"
	"strconv"
	"strings"
	"sync"
	"sync/atomic"
	"time"

	"github.com/tmpim/casket/casketfile"
	"github.com/tmpim/casket/caskethttp/httpserver"
	"github.com/tmpim/casket/caskethttp/proxy"
)

const (
	hcPath = "/hc"
	hcText = "alive-and-well"
)

// settings of one upstream under test (the proxy block) and of its scripted backends
type settings struct {
	N        int
	HC       bool
	Contains bool
	MaxFails int
	MaxConns int
	Retry    bool
	Policy   string
	Interval time.Duration
	Timeout  time.Duration
	HCPort   bool // probes go to a separate listener per backend (health_check_port)
	Modes    []string
	Key      string
}

type arrival struct {
	h       int
	at      time.Time
	release chan struct{}
}

type fixture struct {
	st   settings
	up   proxy.Upstream
	px   *proxy.Proxy
	pool proxy.HostPool

	mu     sync.Mutex // the one mutex: every event gets its place in the trace under it
	events []json.RawMessage
	mode   []string

	gated    int32
	arrivals chan *arrival
	pendMu   sync.Mutex
	pending  []*arrival // arrivals nobody has taken yet (released when the gates open)

	t0          time.Time   // before NewStaticUpstreams was called
	roundStarts []time.Time // arrival of every probe of host 1 (under mu)
	probes      int         // probes answered (under mu)
	tainted     string      // a wall-clock anomaly of the harness itself: the run proves nothing
	wrongPort   int32

	lns  []net.Listener
	srvs []*http.Server
}

func (fx *fixture) emitLocked(ev map[string]interface{}) {
	b, err := json.Marshal(ev)
	if err != nil {
		panic(err)
	}
	fx.events = append(fx.events, b)
}

func (fx *fixture) emit(ev map[string]interface{}) {
	fx.mu.Lock()
	fx.emitLocked(ev)
	fx.mu.Unlock()
}

func (fx *fixture) taint(s string) {
	fx.mu.Lock()
	if fx.tainted == "" {
		fx.tainted = s
	}
	fx.mu.Unlock()
}

func (fx *fixture) taintedSoFar() string {
	fx.mu.Lock()
	defer fx.mu.Unlock()
	return fx.tainted
}

// health endpoint of backend h (1-based)
func (fx *fixture) serveHealth(h int, w http.ResponseWriter, r *http.Request) {
	a := &arrival{h: h, at: time.Now(), release: make(chan struct{})}
	if h == 1 {
		fx.mu.Lock()
		fx.roundStarts = append(fx.roundStarts, a.at)
		fx.mu.Unlock()
	}
	if atomic.LoadInt32(&fx.gated) == 1 {
		fx.pendMu.Lock()
		if atomic.LoadInt32(&fx.gated) == 1 {
			fx.pending = append(fx.pending, a)
			fx.pendMu.Unlock()
			select {
			case fx.arrivals <- a:
			default:
			}
			<-a.release
		} else {
			fx.pendMu.Unlock()
		}
	}
	// the answer is decided here, by the backend's present mode
	fx.mu.Lock()
	m := fx.mode[h-1]
	fx.emitLocked(map[string]interface{}{"ev": "probe", "h": h, "m": m})
	fx.probes++
	decided := time.Now()
	fx.mu.Unlock()
	if m != "timeout" && decided.Sub(a.at) > fx.st.Timeout/3 {
		fx.taint(fmt.Sprintf("probe of host %d was held %v with health_check_timeout %v", h, decided.Sub(a.at), fx.st.Timeout))
	}
	switch m {
	case "ok":
		w.WriteHeader(200)
		fmt.Fprintf(w, "status: %s\n", hcText)
	case "s399":
		w.WriteHeader(399)
		fmt.Fprintf(w, "status: %s\n", hcText)
	case "s400":
		w.WriteHeader(400)
		fmt.Fprintf(w, "status: %s\n", hcText)
	case "s500":
		w.WriteHeader(500)
		fmt.Fprintf(w, "status: %s\n", hcText)
	case "nobody":
		w.WriteHeader(200)
		fmt.Fprint(w, "status: something else\n")
	case "timeout":
		// say nothing until the prober has given up
		select {
		case <-r.Context().Done():
		case <-time.After(fx.st.Timeout + 5*time.Second):
			fx.taint("the prober did not give up after health_check_timeout + 5s")
		}
		return
	case "reset":
		if hj, ok := w.(http.Hijacker); ok {
			if c, _, err := hj.Hijack(); err == nil {
				c.Close()
				return
			}
		}
		panic(http.ErrAbortHandler)
	}
	if f, ok := w.(http.Flusher); ok {
		f.Flush()
	}
	if m != "timeout" && time.Since(decided) > fx.st.Timeout/3 {
		fx.taint("writing a probe answer took more than a third of health_check_timeout")
	}
}

func (fx *fixture) handler(h int, health, app bool) http.Handler {
	return http.HandlerFunc(func(w http.ResponseWriter, r *http.Request) {
		if r.URL.Path == hcPath {
			if !health {
				// a probe on the traffic port although health_check_port names another one
				atomic.AddInt32(&fx.wrongPort, 1)
				fx.emit(map[string]interface{}{"ev": "probe", "h": h, "m": "wrong-port"})
				w.WriteHeader(200)
				fmt.Fprintf(w, "status: %s\n", hcText)
				return
			}
			fx.serveHealth(h, w, r)
			return
		}
		if !app {
			w.WriteHeader(404)
			return
		}
		rid, _ := strconv.Atoi(r.Header.Get("X-Rid"))
		fx.emit(map[string]interface{}{"ev": "fwd", "r": rid, "h": h})
		w.WriteHeader(200)
		fmt.Fprint(w, "app\n")
	})
}

func (fx *fixture) listen(addr string, h http.Handler) (net.Listener, error) {
	ln, err := net.Listen("tcp", addr)
	if err != nil {
		return nil, err
	}
	srv := &http.Server{Handler: h}
	srv.SetKeepAlivesEnabled(false) // every probe on a fresh connection: the client never re-sends one
	fx.lns = append(fx.lns, ln)
	fx.srvs = append(fx.srvs, srv)
	go srv.Serve(ln)
	return ln, nil
}

func portOf(ln net.Listener) int { return ln.Addr().(*net.TCPAddr).Port }

// newFixture starts the scripted backends, logs the "script" event and builds the upstream with
// proxy.NewStaticUpstreams (which starts the health-check worker).
func newFixture(st settings) (*fixture, error) {
	fx := &fixture{st: st, arrivals: make(chan *arrival, 64), mode: append([]string{}, st.Modes...), gated: 1}
	var names []string
	hcPort := 0
	if st.HC && st.HCPort {
		// one health port for all backends: they differ by loopback address
		for try := 0; try < 30 && hcPort == 0; try++ {
			var got []net.Listener
			p := 0
			ok := true
			for h := 1; h <= st.N; h++ {
				ln, err := net.Listen("tcp", fmt.Sprintf("127.0.1.%d:%d", h, p))
				if err != nil {
					ok = false
					break
				}
				got = append(got, ln)
				p = portOf(ln)
			}
			if !ok {
				for _, ln := range got {
					ln.Close()
				}
				continue
			}
			hcPort = p
			for i, ln := range got {
				srv := &http.Server{Handler: fx.handler(i+1, true, false)}
				srv.SetKeepAlivesEnabled(false)
				fx.lns = append(fx.lns, ln)
				fx.srvs = append(fx.srvs, srv)
				go srv.Serve(ln)
			}
		}
		if hcPort == 0 {
			return nil, fmt.Errorf("no common health port on 127.0.1.x")
		}
	}
	for h := 1; h <= st.N; h++ {
		ip := "127.0.0.1"
		if hcPort != 0 {
			ip = fmt.Sprintf("127.0.1.%d", h)
		}
		ln, err := fx.listen(ip+":0", fx.handler(h, hcPort == 0, true))
		if err != nil {
			fx.closeBackends()
			return nil, err
		}
		names = append(names, fmt.Sprintf("http://%s:%d", ip, portOf(ln)))
	}
	var b strings.Builder
	fmt.Fprintf(&b, "proxy / %s {\n", strings.Join(names, " "))
	fmt.Fprintf(&b, "\tpolicy %s\n\tmax_fails %d\n\tmax_conns %d\n\tfail_timeout 1h\n", st.Policy, st.MaxFails, st.MaxConns)
	if st.Retry {
		b.WriteString("\ttry_duration 15ms\n\ttry_interval 3ms\n")
	}
	if st.HC {
		fmt.Fprintf(&b, "\thealth_check %s\n\thealth_check_interval %s\n\thealth_check_timeout %s\n", hcPath, st.Interval, st.Timeout)
		if st.Contains {
			fmt.Fprintf(&b, "\thealth_check_contains %s\n", hcText)
		}
		if hcPort != 0 {
			fmt.Fprintf(&b, "\thealth_check_port %d\n", hcPort)
		}
	}
	b.WriteString("}\n")
	fx.emit(map[string]interface{}{"ev": "script", "key": "proxyhealth/" + st.Key, "n": st.N, "hc": st.HC, "contains": st.Contains,
		"maxfails": st.MaxFails, "maxconns": st.MaxConns, "retry": st.Retry, "modes": st.Modes,
		"policy": st.Policy, "hcport": st.HCPort, "interval": st.Interval.String(), "timeout": st.Timeout.String()})
	fx.t0 = time.Now()
	ups, err := proxy.NewStaticUpstreams(casketfile.NewDispenser("Testfile", strings.NewReader(b.String())), "")
	if err != nil || len(ups) != 1 {
		for _, u := range ups {
			u.Stop()
		}
		fx.closeBackends()
		return nil, fmt.Errorf("NewStaticUpstreams: %v (%d upstreams) for %q", err, len(ups), b.String())
	}
	fx.up = ups[0]
	fx.pool = proxy.VerifHealthHosts(fx.up)
	if len(fx.pool) != st.N {
		fx.up.Stop()
		fx.closeBackends()
		return nil, fmt.Errorf("upstream has %d hosts, expected %d", len(fx.pool), st.N)
	}
	fx.px = &proxy.Proxy{Next: httpserver.EmptyNext, Upstreams: ups}
	return fx, nil
}

func (fx *fixture) closeBackends() {
	for _, ln := range fx.lns {
		ln.Close()
	}
	for _, s := range fx.srvs {
		s.Close()
	}
}

// openGates lets every held and every future probe through.
func (fx *fixture) openGates() {
	fx.pendMu.Lock()
	atomic.StoreInt32(&fx.gated, 0)
	for _, a := range fx.pending {
		close(a.release)
	}
	fx.pending = nil
	fx.pendMu.Unlock()
}

// nextArrival waits for the probe that is (or comes to be) held at a gate.
func (fx *fixture) nextArrival(d time.Duration) *arrival {
	deadline := time.Now().Add(d)
	for {
		fx.pendMu.Lock()
		if len(fx.pending) > 0 {
			a := fx.pending[0]
			fx.pendMu.Unlock()
			return a
		}
		fx.pendMu.Unlock()
		left := time.Until(deadline)
		if left <= 0 {
			return nil
		}
		select {
		case <-fx.arrivals:
		case <-time.After(left):
		}
	}
}

func (fx *fixture) releaseArrival(a *arrival) {
	fx.pendMu.Lock()
	for i, p := range fx.pending {
		if p == a {
			fx.pending = append(fx.pending[:i], fx.pending[i+1:]...)
			break
		}
	}
	fx.pendMu.Unlock()
	close(a.release)
}

func (fx *fixture) pendingCount() int {
	fx.pendMu.Lock()
	defer fx.pendMu.Unlock()
	return len(fx.pending)
}

func (fx *fixture) flags() ([]int32, []string) {
	f := make([]int32, len(fx.pool))
	r := make([]string, len(fx.pool))
	for i, h := range fx.pool {
		f[i] = atomic.LoadInt32(&h.Unhealthy)
		r[i] = "none"
		if v, ok := h.HealthCheckResult.Load().(string); ok {
			r[i] = v
		}
	}
	return f, r
}

// observe logs one atomic load of host h's flag and one of its HealthCheckResult.
func (fx *fixture) observe(h int) {
	host := fx.pool[h-1]
	fx.mu.Lock()
	fx.emitLocked(map[string]interface{}{"ev": "obs", "h": h, "f": atomic.LoadInt32(&host.Unhealthy)})
	fx.mu.Unlock()
	fx.mu.Lock()
	res := "none"
	if v, ok := host.HealthCheckResult.Load().(string); ok {
		res = v
	}
	fx.emitLocked(map[string]interface{}{"ev": "obsres", "h": h, "res": res})
	fx.mu.Unlock()
}

func (fx *fixture) setMode(h int, m string) {
	fx.mu.Lock()
	if fx.mode[h-1] != m {
		fx.mode[h-1] = m
		fx.emitLocked(map[string]interface{}{"ev": "set", "h": h, "m": m})
	}
	fx.mu.Unlock()
}

// env moves a host's exported counters the way the proxy's own accounting does (ProxyConc.tla).
func (fx *fixture) env(a string, h int) {
	host := fx.pool[h-1]
	fx.mu.Lock()
	switch a {
	case "fail":
		atomic.AddInt32(&host.Fails, 1)
	case "expire":
		atomic.AddInt32(&host.Fails, -1)
	case "take":
		atomic.AddInt64(&host.Conns, 1)
	case "release":
		atomic.AddInt64(&host.Conns, -1)
	}
	fx.emitLocked(map[string]interface{}{"ev": a, "h": h})
	fx.mu.Unlock()
}

func (fx *fixture) hostIndex(uh *proxy.UpstreamHost) int {
	for i, h := range fx.pool {
		if h == uh {
			return i + 1
		}
	}
	return 0
}

// selectOnce is a bare upstream.Select in request slot r; returns the 1-based host (0 = nil).
func (fx *fixture) selectOnce(r int) int {
	req := httptest.NewRequest("GET", "http://front.invalid/app/x", nil)
	req.RemoteAddr = fmt.Sprintf("10.0.0.%d:1234", r)
	fx.emit(map[string]interface{}{"ev": "call", "r": r, "k": "select"})
	uh := fx.up.Select(req)
	h := 0
	if uh != nil {
		h = fx.hostIndex(uh)
		if h == 0 {
			h = -1
		}
	}
	fx.emit(map[string]interface{}{"ev": "ret", "r": r, "h": h})
	return h
}

// serveOnce sends one request through Proxy.ServeHTTP in slot r; returns the status (200 / 502 ...).
func (fx *fixture) serveOnce(r int) int {
	req := httptest.NewRequest("GET", "http://front.invalid/app/x", nil)
	req.Header.Set("X-Rid", strconv.Itoa(r))
	rec := httptest.NewRecorder()
	fx.emit(map[string]interface{}{"ev": "call", "r": r, "k": "serve"})
	status, _ := fx.px.ServeHTTP(rec, req)
	if status == 0 {
		status = rec.Code
	}
	fx.emit(map[string]interface{}{"ev": "end", "r": r, "st": status})
	return status
}

// stop calls Stop() and watches it: stopcall, (stop channel seen closed: stopsig), stopret, and
// after three more intervals: quiet. Returns how long Stop() took, or an error text.
func (fx *fixture) stop(openFirst bool) (time.Duration, string) {
	fx.emit(map[string]interface{}{"ev": "stopcall"})
	began := time.Now()
	done := make(chan struct{})
	go func() {
		fx.up.Stop()
		close(done)
	}()
	sigDeadline := time.Now().Add(2 * time.Second)
	for !proxy.VerifHealthStopClosed(fx.up) && time.Now().Before(sigDeadline) {
		time.Sleep(50 * time.Microsecond)
	}
	if proxy.VerifHealthStopClosed(fx.up) {
		fx.emit(map[string]interface{}{"ev": "stopsig"})
	}
	fx.openGates()
	bound := 2*time.Duration(fx.st.N)*fx.st.Timeout + 3*time.Second
	var took time.Duration
	select {
	case <-done:
		took = time.Since(began)
		fx.emit(map[string]interface{}{"ev": "stopret"})
	case <-time.After(bound):
		return 0, fmt.Sprintf("Stop() did not return within %v (two rounds of %d probes with health_check_timeout %v, plus 3s)", bound, fx.st.N, fx.st.Timeout)
	}
	time.Sleep(3*fx.st.Interval + 2*time.Millisecond)
	fx.emit(map[string]interface{}{"ev": "quiet"})
	return took, ""
}

// periodViolation checks the rounds seen so far against the ticker's grid: the k-th round after
// the immediate one cannot begin before t0 + k * health_check_interval.
func (fx *fixture) periodViolation() string {
	fx.mu.Lock()
	defer fx.mu.Unlock()
	for k, at := range fx.roundStarts {
		earliest := fx.t0.Add(time.Duration(k) * fx.st.Interval)
		if at.Before(earliest.Add(-500 * time.Microsecond)) {
			return fmt.Sprintf("round %d began %v after the upstream was created; with health_check_interval %v it cannot begin before %v",
				k, at.Sub(fx.t0), fx.st.Interval, time.Duration(k)*fx.st.Interval)
		}
	}
	return ""
}

func (fx *fixture) takeEvents() []json.RawMessage {
	fx.mu.Lock()
	defer fx.mu.Unlock()
	ev := fx.events
	fx.events = nil
	return ev
}
