package cx02browse

// A small HTML tokenizer, enough for the default template of browse (golang.org/x/net/html is in the module cache,
// but importing it would make the go command rewrite the shared go.mod).  It follows the HTML tokenisation rules for
// what the template can contain: start / end tags with double-quoted, single-quoted or bare attribute values,
// comments, a doctype, text, and the raw-text elements script and style.  Character references are decoded with the
// standard library (html.UnescapeString).  Like a browser it treats ANY "<" + letter as the start of a tag: a file
// name that reaches the page unescaped becomes a token of its own here.

import (
	"html"
	"strings"
)

type tokKind int

const (
	textTok tokKind = iota
	startTok
	endTok
	otherTok // comment, doctype
)

type htmlAttr struct {
	Key, Val, Raw string // Raw: the value as written, before character references are decoded
}

type htmlTok struct {
	Kind tokKind
	Data string // tag name (lower case) or decoded text
	Raw  string // the token as written
	Attr []htmlAttr
}

func (t *htmlTok) attr(key string) (string, bool) {
	for _, a := range t.Attr {
		if a.Key == key {
			return a.Val, true
		}
	}
	return "", false
}

func (t *htmlTok) rawAttr(key string) string {
	for _, a := range t.Attr {
		if a.Key == key {
			return a.Raw
		}
	}
	return ""
}

func isLetter(c byte) bool { return (c >= 'a' && c <= 'z') || (c >= 'A' && c <= 'Z') }
func isSpace(c byte) bool  { return c == ' ' || c == '\t' || c == '\n' || c == '\r' || c == '\f' }

// tokenize splits a document into tokens.
func tokenize(s string) []htmlTok {
	var out []htmlTok
	text := func(raw string) {
		if raw != "" {
			out = append(out, htmlTok{Kind: textTok, Data: html.UnescapeString(raw), Raw: raw})
		}
	}
	i, start := 0, 0
	for i < len(s) {
		if s[i] != '<' || i+1 >= len(s) {
			i++
			continue
		}
		c := s[i+1]
		switch {
		case isLetter(c) || (c == '/' && i+2 < len(s) && isLetter(s[i+2])):
			text(s[start:i])
			j, t := readTag(s, i)
			out = append(out, t)
			i, start = j, j
			if t.Kind == startTok && (t.Data == "script" || t.Data == "style") {
				// raw text up to the matching end tag
				end := strings.Index(strings.ToLower(s[i:]), "</"+t.Data)
				if end < 0 {
					end = len(s) - i
				}
				if end > 0 {
					out = append(out, htmlTok{Kind: textTok, Data: s[i : i+end], Raw: s[i : i+end]})
				}
				i += end
				start = i
			}
		case c == '!' || c == '?':
			text(s[start:i])
			end := strings.Index(s[i:], ">")
			if strings.HasPrefix(s[i:], "<!--") {
				end = strings.Index(s[i:], "-->")
				if end >= 0 {
					end += 2
				}
			}
			if end < 0 {
				end = len(s) - i - 1
			}
			out = append(out, htmlTok{Kind: otherTok, Raw: s[i : i+end+1]})
			i += end + 1
			start = i
		default:
			i++
		}
	}
	text(s[start:])
	return out
}

// readTag reads one start or end tag beginning at s[i] == '<'.
func readTag(s string, i int) (int, htmlTok) {
	t := htmlTok{Kind: startTok}
	j := i + 1
	if s[j] == '/' {
		t.Kind = endTok
		j++
	}
	k := j
	for k < len(s) && !isSpace(s[k]) && s[k] != '>' && s[k] != '/' {
		k++
	}
	t.Data = strings.ToLower(s[j:k])
	for k < len(s) {
		for k < len(s) && (isSpace(s[k]) || s[k] == '/') {
			k++
		}
		if k >= len(s) {
			break
		}
		if s[k] == '>' {
			k++
			break
		}
		// attribute name
		n := k
		for k < len(s) && !isSpace(s[k]) && s[k] != '=' && s[k] != '>' && s[k] != '/' {
			k++
		}
		a := htmlAttr{Key: strings.ToLower(s[n:k])}
		for k < len(s) && isSpace(s[k]) {
			k++
		}
		if k < len(s) && s[k] == '=' {
			k++
			for k < len(s) && isSpace(s[k]) {
				k++
			}
			if k < len(s) && (s[k] == '"' || s[k] == '\'') {
				q := s[k]
				k++
				v := k
				for k < len(s) && s[k] != q {
					k++
				}
				a.Raw = s[v:k]
				if k < len(s) {
					k++
				}
			} else {
				v := k
				for k < len(s) && !isSpace(s[k]) && s[k] != '>' {
					k++
				}
				a.Raw = s[v:k]
			}
			a.Val = html.UnescapeString(a.Raw)
		}
		if a.Key != "" {
			t.Attr = append(t.Attr, a)
		}
	}
	t.Raw = s[i:k]
	return k, t
}
