package cx02browse

import (
	"fmt"
	"os"
	"path/filepath"
	"strings"
	"syscall"
	"testing"

	"verifharness/hx"
)

func TestExplore(t *testing.T) {
	if os.Getenv("CX02_EXPLORE") == "" {
		t.Skip()
	}
	base, _ := os.MkdirTemp("", "cx02b")
	defer os.RemoveAll(base)
	root := filepath.Join(base, "root")
	d := filepath.Join(root, "pub", "c1")
	os.MkdirAll(d, 0o755)
	names := []string{"A.txt", "a.txt", ".dot", "a b", "%41", "x#y", "x?y#z", "a&b", "a\"b", "it's", "<b>", "<script>", "t.", "\xc3\xa9.txt", "\xff\xfe", "a\nb", "a:b", "back\\slash"}
	for i, n := range names {
		if err := os.WriteFile(filepath.Join(d, n), []byte(strings.Repeat("x", i)), 0o644); err != nil {
			t.Log("write", n, err)
		}
	}
	os.Mkdir(filepath.Join(d, "Sub"), 0o755)
	os.Symlink("A.txt", filepath.Join(d, "lnf"))
	os.Symlink("Sub", filepath.Join(d, "lnd"))
	os.Symlink("nowhere", filepath.Join(d, "lnx"))
	port := hx.FreePort()
	cf := fmt.Sprintf("127.0.0.1:%d {\n\tbind 127.0.0.1\n\ttls off\n\troot %s\n\tinternal /pub/int\n\tbrowse /\n}\n", port, root)
	cfp := filepath.Join(root, "Casketfile")
	os.WriteFile(cfp, []byte(cf), 0o644)
	os.WriteFile(filepath.Join(root, "pub", "int"), []byte("int"), 0o644)
	os.Link(cfp, filepath.Join(d, "Casketfile"))
	os.Link(filepath.Join(root, "pub", "int"), filepath.Join(d, "intl"))
	ts := []syscall.Timespec{{Sec: 1000, Nsec: 0}, {Sec: 1000, Nsec: 0}}
	_ = ts
	s, err := hx.StartHTTP(cf, cfp)
	if err != nil {
		t.Fatal(err)
	}
	defer s.Stop()
	addr := fmt.Sprintf("127.0.0.1:%d", port)
	for _, q := range []string{"/pub/c1/?sort=name", "/pub/c1/?sort=size&order=desc&limit=3", "/pub/c1/?limit=abc", "/pub/c1?x=1", "/pub/c1/?sort=bogus"} {
		r, err := hx.OneShot(addr, "GET", q, addr, "Accept: application/json")
		if err != nil {
			t.Fatal(err)
		}
		t.Logf("%s -> %d %v\n%s", q, r.Status, r.Header, r.Body)
	}
	r, _ := hx.OneShot(addr, "GET", "/pub/c1/", addr)
	body := string(r.Body)
	i := strings.Index(body, "<header>")
	j := strings.Index(body, "<footer>")
	t.Logf("HTML %d %v\n%s", r.Status, r.Header, body[i:j])
	for _, m := range []string{"HEAD", "POST", "OPTIONS", "PROPFIND", "DELETE"} {
		r, err := hx.OneShot(addr, m, "/pub/c1/", addr)
		t.Logf("%s -> %v %+v", m, err, r)
	}
}
