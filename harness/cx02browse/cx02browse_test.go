// Extension of C02 (notes/BrowseListing.md): the directory listings of the browse directive.
//
// TLC (specs/BrowseListing.tla) enumerates small directories over a pool of adversarial entries (case twins, leading
// dot, space, %41, ? #, &lt;, quotes, <script>, trailing dot, non-ASCII, bytes that are not UTF-8, newline, colon,
// backslash, sub-directories, symbolic links to a file / a directory / nothing / the Casketfile, the hidden
// Casketfile and an `internal` file as hard links, an index page) and emits per directory a seeded sample of requests
// (site x path x method x sort x order x limit x cookies x Accept x archive) with the complete expected outcome.
// This driver builds every directory in a scratch root, runs ONE real instance (casket.Start from the Casketfile that
// lies inside the root, three sites), sends the requests byte-exact over HTTP/1.1, parses the JSON, the default HTML
// template (with the HTML tokenizer of htmltok.go) and a custom template, compares with the model, and follows every link.
//
// Verdict = the declarative clauses (listing = directory minus hidden, each once; order consistent with the tie groups
// of the requested key; counters of the listing; cookies; no error page; HEAD = GET; JSON = HTML; links resolve, names
// are inert; parent link inside a scope; archives only where configured).  Differences from the operational model
// that satisfy the clauses (exact status of a refused method, exact text of an escape) are counted as model drift.
package cx02browse

import (
	"bytes"
	"encoding/json"
	"fmt"
	"math/rand"
	"net/url"
	"os"
	"path/filepath"
	"sort"
	"strconv"
	"strings"
	"sync"
	"sync/atomic"
	"syscall"
	"testing"
	"time"
	"unicode/utf8"
	"unsafe"

	"verifharness/hx"
)

// ---- cases emitted by TLC ---------------------------------------------------------------------

type tok struct {
	K string `json:"k"`
	C string `json:"c"`
}

type poolEnt struct {
	ID      string   `json:"id"`
	Kind    string   `json:"kind"`
	Name    []string `json:"name"`
	Size    int      `json:"size"`
	Mt      int      `json:"mt"`
	Lr      int      `json:"lr"`
	IsDir   bool     `json:"isdir"`
	IsLink  bool     `json:"islink"`
	Hidden  bool     `json:"hidden"`
	Follows string   `json:"follows"`
	UTF8    bool     `json:"utf8"`
	URL     []tok    `json:"url"`
	Href    []tok    `json:"href"`
	Label   []tok    `json:"label"`

	real    string // the name on disk
	content string // what a regular file holds
}

type siteCfg struct {
	Text string   `json:"text"`
	Tpl  string   `json:"tpl"`
	Arch []string `json:"arch"`
}

type siteDef struct {
	Name    string    `json:"name"`
	Index   []string  `json:"index"`
	Configs []siteCfg `json:"configs"`
}

type atoiEnt struct {
	Ok bool `json:"ok"`
	N  int  `json:"n"`
}

type request struct {
	Site    string   `json:"site"`
	Segs    []string `json:"segs"`
	Slash   bool     `json:"slash"`
	Method  string   `json:"method"`
	Sortq   string   `json:"sortq"`
	Orderq  string   `json:"orderq"`
	Limitq  string   `json:"limitq"`
	Sortck  string   `json:"sortck"`
	Orderck string   `json:"orderck"`
	Accept  string   `json:"accept"`
	Archq   string   `json:"archq"`
}

type expect struct {
	Kind     string     `json:"kind"`
	Status   int        `json:"status"`
	Fmt      string     `json:"fmt"`
	Opaque   bool       `json:"opaque"`
	Groups   [][]string `json:"groups"`
	Shown    int        `json:"shown"`
	Limited  int        `json:"limited"`
	Ndirs    int        `json:"ndirs"`
	Nfiles   int        `json:"nfiles"`
	Up       bool       `json:"up"`
	Sort     string     `json:"sort"`
	Order    string     `json:"order"`
	Setsort  string     `json:"setsort"`
	Setorder string     `json:"setorder"`
	Cpath    string     `json:"cpath"`
}

type reqCase struct {
	Rq  request `json:"rq"`
	Exp expect  `json:"exp"`
}

type head struct {
	Pool       []poolEnt          `json:"pool"`
	Atoi       map[string]atoiEnt `json:"atoi"`
	AcceptJSON []string           `json:"acceptjson"`
	Sites      []siteDef          `json:"sites"`
}

type bcase struct {
	T    string    `json:"t"`
	Ents []string  `json:"ents"`
	Reqs []reqCase `json:"reqs"`
	head
}

// replayCase is what a mismatch / replay file carries: the head, one directory, one request.
type replayCase struct {
	T      string   `json:"t"` // "browselisting"
	Head   *head    `json:"head"`
	Ents   []string `json:"ents"`
	Req    reqCase  `json:"req"`
	Clause string   `json:"clause"`
	Key    string   `json:"key"`
	Follow bool     `json:"follow,omitempty"` // the clause is about following the links of the listing
}

// ---- names: tokens -> bytes ---------------------------------------------------------------------

var symBytes = map[string]string{"SP": " ", "PCT": "%", "QM": "?", "HASH": "#", "AMP": "&", "SEMI": ";", "DQ": "\"", "SQ": "'",
	"LT": "<", "GT": ">", "COLON": ":", "BS": "\\", "LF": "\n", "E9": "\xc3\xa9", "XFF": "\xff", "XFE": "\xfe"}

// what text/template's html function writes for a character
var goEntity = map[string]string{"DQ": "&#34;", "SQ": "&#39;", "AMP": "&amp;", "LT": "&lt;", "GT": "&gt;"}

func charBytes(c string) string {
	if len(c) == 1 {
		return c
	}
	if b, ok := symBytes[c]; ok {
		return b
	}
	panic("unknown character token " + c)
}

func nameBytes(name []string) string {
	var b strings.Builder
	for _, c := range name {
		b.WriteString(charBytes(c))
	}
	return b.String()
}

// concrete renders a piece of model text (raw / pct / ent tokens) the way the Go library spells it.
func concrete(ts []tok) string {
	var b strings.Builder
	for _, t := range ts {
		raw := charBytes(t.C)
		switch t.K {
		case "raw":
			b.WriteString(raw)
		case "pct":
			for i := 0; i < len(raw); i++ {
				fmt.Fprintf(&b, "%%%02X", raw[i])
			}
		case "ent":
			b.WriteString(goEntity[t.C])
		}
	}
	return b.String()
}

// ---- fixture ------------------------------------------------------------------------------------------

const customTpl = `BLTPL sort={{printf "%q" .Sort}} order={{printf "%q" .Order}} limited={{.ItemsLimitedTo}} ndirs={{.NumDirs}} nfiles={{.NumFiles}} up={{.CanGoUp}}
NAME {{printf "%q" .Name}}
PATH {{printf "%q" .Path}}
ARCH{{range .ArchiveTypes}} {{.}}{{end}}
{{range .Items}}ITEM {{printf "%q" .Name}} {{printf "%q" .URL}} {{.IsDir}} {{.IsSymlink}} {{.Size}}
{{end}}END
`

const (
	cfToken   = "BL-CASKETFILE-CONTENT-7f3a"
	intToken  = "BL-INTERNAL-CONTENT-91c2"
	tgtToken  = "BL-TARGET-FILE\n"
	mtimeBase = 1500000000
)

type fixture struct {
	h     *head
	pool  map[string]*poolEnt
	base  string
	root  string
	site  *hx.Site
	addr  map[string]string // site name -> 127.0.0.1:port
	seq   atomic.Int64
	sites map[string]*siteDef
}

func (f *fixture) close() {
	if f.site != nil {
		f.site.Stop()
	}
	os.RemoveAll(f.base)
}

func writeFile(p, s string) error { return os.WriteFile(p, []byte(s), 0o644) }

func newFixture(scratch string, h *head) (*fixture, error) {
	base, err := os.MkdirTemp(scratch, "cx02browse")
	if err != nil {
		return nil, err
	}
	f := &fixture{h: h, base: base, root: filepath.Join(base, "root"), pool: map[string]*poolEnt{}, addr: map[string]string{}, sites: map[string]*siteDef{}}
	for i := range h.Pool {
		e := &h.Pool[i]
		e.real = nameBytes(e.Name)
		// a regular file holds the first `size` bytes of its own id repeated: different entries, different content
		rep := strings.Repeat(e.ID+"|", 8)
		e.content = rep[:e.Size]
		f.pool[e.ID] = e
	}
	for i := range h.Sites {
		f.sites[h.Sites[i].Name] = &h.Sites[i]
	}
	for _, d := range []string{"cases", "int", "tgt/dir", "up/a/Sub", "up/ab", "up/b/Sub"} {
		if err := os.MkdirAll(filepath.Join(f.root, d), 0o755); err != nil {
			return nil, err
		}
	}
	files := map[string]string{"int/secret.txt": intToken + "\n", "tgt/file.txt": tgtToken, "tgt/dir/in-tgt.txt": "in-tgt\n",
		"up/a/Sub/f.txt": "x\n", "up/a/f.txt": "x\n", "up/ab/f.txt": "x\n", "up/b/Sub/f.txt": "x\n"} // no index page of any site among them
	for n, c := range files {
		if err := writeFile(filepath.Join(f.root, n), c); err != nil {
			return nil, err
		}
	}
	tpl := filepath.Join(base, "tpl.html") // outside the root
	if err := writeFile(tpl, customTpl); err != nil {
		return nil, err
	}
	var lastErr error
	for try := 0; try < 4; try++ {
		var cf strings.Builder
		fmt.Fprintf(&cf, "# %s\n", cfToken)
		for _, s := range h.Sites {
			port := hx.FreePort()
			f.addr[s.Name] = fmt.Sprintf("127.0.0.1:%d", port)
			fmt.Fprintf(&cf, "127.0.0.1:%d {\n\tbind 127.0.0.1\n\ttls off\n\troot %s\n\tinternal /int/secret.txt\n", port, f.root)
			if len(s.Index) == 1 { // the default list is not written out
				fmt.Fprintf(&cf, "\tindex %s\n", s.Index[0])
			}
			for _, c := range s.Configs {
				line := "\tbrowse " + c.Text
				if c.Tpl == "custom" {
					line += " " + tpl // the `browse /path tpl.html` form
				}
				switch {
				case len(c.Arch) == 0:
					cf.WriteString(line + "\n")
				case len(c.Arch) == 9: // `servearchive` without arguments: every type
					cf.WriteString(line + " {\n\t\tservearchive\n\t}\n")
				default:
					cf.WriteString(line + " {\n\t\tservearchive " + strings.Join(c.Arch, " ") + "\n\t}\n")
				}
			}
			cf.WriteString("}\n")
		}
		cfp := filepath.Join(f.root, "Casketfile")
		if err := writeFile(cfp, cf.String()); err != nil {
			return nil, err
		}
		s, err := hx.StartHTTP(cf.String(), cfp)
		if err == nil {
			f.site = s
			return f, nil
		}
		lastErr = err
		if !strings.Contains(err.Error(), "address already in use") {
			break
		}
	}
	os.RemoveAll(base)
	return nil, lastErr
}

func lutimes(p string, sec int64) error {
	// utimensat(AT_FDCWD, p, ts, AT_SYMLINK_NOFOLLOW): the time of the link itself, which is what Readdir reports
	ts := [2]syscall.Timespec{{Sec: sec}, {Sec: sec}}
	bp, err := syscall.BytePtrFromString(p)
	if err != nil {
		return err
	}
	const atFdcwd, atSymlinkNofollow = -100, 0x100
	if _, _, e := syscall.Syscall6(syscall.SYS_UTIMENSAT, uintptr(atFdcwd&0xffffffffffffffff), uintptr(unsafe.Pointer(bp)), uintptr(unsafe.Pointer(&ts[0])), atSymlinkNofollow, 0, 0); e != 0 {
		return e
	}
	return nil
}

// buildDir materialises one directory of the model below cases/ and returns its name.
func (f *fixture) buildDir(ents []string) (string, error) {
	name := fmt.Sprintf("c%06d", f.seq.Add(1))
	d := filepath.Join(f.root, "cases", name)
	if err := os.Mkdir(d, 0o755); err != nil {
		return "", err
	}
	for _, id := range ents {
		e := f.pool[id]
		if e == nil {
			return "", fmt.Errorf("entry %q is not in the pool", id)
		}
		p := filepath.Join(d, e.real)
		var err error
		switch e.Kind {
		case "file":
			err = writeFile(p, e.content)
		case "dir":
			if err = os.Mkdir(p, 0o755); err == nil {
				err = writeFile(filepath.Join(p, "in-"+e.ID+".txt"), "in-"+e.ID+"\n")
			}
		case "lnfile":
			err = os.Symlink("../../tgt/file.txt", p)
		case "lndir":
			err = os.Symlink("../../tgt/dir", p)
		case "lndangling":
			err = os.Symlink("nowhere", p)
		case "lnhidden":
			err = os.Symlink("../../Casketfile", p)
		case "hidcf":
			err = os.Link(filepath.Join(f.root, "Casketfile"), p)
		case "hidint":
			err = os.Link(filepath.Join(f.root, "int", "secret.txt"), p)
		default:
			err = fmt.Errorf("unknown kind %q", e.Kind)
		}
		if err != nil {
			return "", err
		}
		if !e.Hidden { // a hard link shares its inode (and its time) with the hidden file
			if err := lutimes(p, mtimeBase+int64(e.Mt)*1000); err != nil {
				return "", err
			}
		}
	}
	return name, nil
}

func (f *fixture) dropDir(name string) { os.RemoveAll(filepath.Join(f.root, "cases", name)) }

// calibrate checks the constants of the model against the platform: sizes as lstat reports them, the rank of the
// lower-cased names, strconv.Atoi, the Accept shapes.  A disagreement is the model's problem, never a verdict.
func (f *fixture) calibrate() error {
	var all []string
	for _, e := range f.h.Pool {
		all = append(all, e.ID)
	}
	name, err := f.buildDir(all)
	if err != nil {
		return fmt.Errorf("cannot build the directory with every pool entry: %v", err)
	}
	defer f.dropDir(name)
	for _, e := range f.h.Pool {
		fi, err := os.Lstat(filepath.Join(f.root, "cases", name, e.real))
		if err != nil {
			return err
		}
		if !fi.IsDir() && !e.Hidden && int(fi.Size()) != e.Size {
			return fmt.Errorf("pool entry %s: size %d in the model, %d on disk", e.ID, e.Size, fi.Size())
		}
		if (fi.Mode()&os.ModeSymlink != 0) != e.IsLink || (fi.IsDir() != (e.Kind == "dir")) {
			return fmt.Errorf("pool entry %s: kind %s in the model, mode %v on disk", e.ID, e.Kind, fi.Mode())
		}
	}
	for _, a := range f.h.Pool {
		for _, b := range f.h.Pool {
			la, lb := strings.ToLower(a.real), strings.ToLower(b.real)
			if (la < lb) != (a.Lr < b.Lr) || (la == lb) != (a.Lr == b.Lr) {
				return fmt.Errorf("pool entries %s / %s: lr %d / %d does not order like strings.ToLower", a.ID, b.ID, a.Lr, b.Lr)
			}
		}
	}
	for s, want := range f.h.Atoi {
		n, err := strconv.Atoi(s)
		if (err == nil) != want.Ok || (err == nil && n != want.N) {
			return fmt.Errorf("AtoiTab[%q] = %+v, strconv.Atoi gives %d, %v", s, want, n, err)
		}
	}
	isJSON := map[string]bool{}
	for _, a := range f.h.AcceptJSON {
		isJSON[a] = true
	}
	for a := range acceptLines {
		joined := strings.ToLower(strings.Join(acceptValues(a), ","))
		if strings.Contains(joined, "application/json") != isJSON[a] {
			return fmt.Errorf("Accept shape %q: the model and the header text disagree", a)
		}
	}
	return nil
}

// ---- requests ---------------------------------------------------------------------------------------

var acceptLines = map[string][]string{
	"-":        nil,
	"html":     {"text/html"},
	"json":     {"application/json"},
	"JSON":     {"Application/JSON"},
	"mixed":    {"text/html, application/json;q=0.9"},
	"twolines": {"text/html", "application/json"},
	"star":     {"*/*"},
}

func acceptValues(a string) []string { return acceptLines[a] }

// wire is a concrete request.
type wire struct {
	method, target string
	hdr            []string
}

// render concretises a model request for the directory called dirName; rnd chooses among equivalent spellings
// (parameter order, an empty value for an absent parameter, parameters browse ignores).
func render(rq *request, dirName string, rnd *rand.Rand) wire {
	var p strings.Builder
	for _, s := range rq.Segs {
		p.WriteByte('/')
		if s == "c" && len(rq.Segs) >= 2 && rq.Segs[0] == "cases" {
			p.WriteString(dirName)
		} else {
			p.WriteString(s)
		}
	}
	if rq.Slash || len(rq.Segs) == 0 {
		p.WriteByte('/')
	}
	var q []string
	add := func(k, v string) {
		if v == "-" {
			if rnd != nil && rnd.Intn(4) == 0 {
				q = append(q, k+"=") // an empty value is an absent parameter
			}
			return
		}
		q = append(q, k+"="+url.QueryEscape(v))
	}
	add("sort", rq.Sortq)
	add("order", rq.Orderq)
	add("limit", rq.Limitq)
	if rq.Archq != "-" {
		q = append(q, "archive="+url.QueryEscape(rq.Archq))
	}
	if rnd != nil {
		if rnd.Intn(4) == 0 {
			q = append(q, "offset=1") // this fork has no offset: ignored
		}
		if rnd.Intn(6) == 0 {
			q = append(q, "filter=a")
		}
		rnd.Shuffle(len(q), func(i, j int) { q[i], q[j] = q[j], q[i] })
	}
	w := wire{method: rq.Method, target: p.String()}
	if len(q) > 0 {
		w.target += "?" + strings.Join(q, "&")
	}
	var ck []string
	if rq.Sortck != "-" {
		ck = append(ck, "sort="+rq.Sortck)
	}
	if rq.Orderck != "-" {
		ck = append(ck, "order="+rq.Orderck)
	}
	if len(ck) > 0 {
		if rnd != nil && rnd.Intn(2) == 0 {
			ck = append([]string{"theme=dark"}, ck...)
		}
		w.hdr = append(w.hdr, "Cookie: "+strings.Join(ck, "; "))
	}
	for _, a := range acceptValues(rq.Accept) {
		w.hdr = append(w.hdr, "Accept: "+a)
	}
	return w
}

// client keeps one keep-alive connection per site.
type client struct {
	f     *fixture
	conns map[string]*hx.RawConn
}

func (c *client) close() {
	for _, rc := range c.conns {
		rc.Close()
	}
	c.conns = map[string]*hx.RawConn{}
}

func (c *client) do(site string, w wire) (*hx.RawResp, error) {
	addr := c.f.addr[site]
	if addr == "" {
		return nil, fmt.Errorf("no site %q", site)
	}
	for attempt := 0; ; attempt++ {
		rc := c.conns[site]
		if rc == nil {
			var err error
			if rc, err = hx.DialRaw(addr); err != nil {
				return nil, err
			}
			c.conns[site] = rc
		}
		r, err := rc.Get(w.method, w.target, addr, w.hdr...)
		if err == nil && r.Err == "" && !strings.EqualFold(r.Header.Get("Connection"), "close") {
			return r, nil
		}
		rc.Close()
		delete(c.conns, site)
		if err == nil {
			return r, nil
		}
		if attempt >= 1 {
			return nil, err
		}
	}
}

// ---- observations -------------------------------------------------------------------------------------

type item struct {
	Name      string `json:"name"` // as the rendering shows it (JSON: invalid UTF-8 arrives as U+FFFD)
	URL       string `json:"url"`  // the reference, after the rendering's own unescaping (attribute value, JSON string)
	RawHref   string `json:"raw_href,omitempty"`
	RawLabel  string `json:"raw_label,omitempty"`
	IsDir     bool   `json:"is_dir"`
	IsSymlink bool   `json:"is_symlink"`
	Size      int64  `json:"size"`
	ModTime   string `json:"mod_time,omitempty"`
	Markup    bool   `json:"markup,omitempty"` // an element appeared where only the name's text belongs
}

type listing struct {
	Fmt      string   `json:"fmt"`
	Items    []item   `json:"items"`
	HasMeta  bool     `json:"has_meta"` // counters, parent link, archive links are visible in this rendering
	Ndirs    int      `json:"ndirs"`
	Nfiles   int      `json:"nfiles"`
	Limited  int      `json:"limited"`
	Up       bool     `json:"up"`
	Arch     []string `json:"arch"`
	Sort     string   `json:"sort,omitempty"`
	Order    string   `json:"order,omitempty"`
	DirName  string   `json:"dir_name,omitempty"` // Listing.Name and Listing.Path (custom template)
	DirPath  string   `json:"dir_path,omitempty"`
	Scripts  int      `json:"scripts,omitempty"`
	ParseErr string   `json:"parse_err,omitempty"`
}

var jsonFields = []string{"Name", "Size", "URL", "ModTime", "Mode", "IsDir", "IsSymlink"}

type jsonItem struct {
	Name      string
	Size      int64
	URL       string
	ModTime   string
	Mode      uint32
	IsDir     bool
	IsSymlink bool
}

// looksLikeListing: is this body one of the three renderings of a listing?
func looksLikeListing(r *hx.RawResp) bool {
	if r.Status != 200 {
		return false
	}
	ct := r.Header.Get("Content-Type")
	b := r.Body
	switch {
	case strings.HasPrefix(ct, "application/json"):
		return true
	case bytes.HasPrefix(b, []byte("BLTPL ")):
		return true
	case bytes.Contains(b, []byte(`<table aria-describedby="summary">`)):
		return true
	}
	return false
}

func parseJSON(b []byte) *listing {
	l := &listing{Fmt: "json"}
	var js []jsonItem
	if err := json.Unmarshal(b, &js); err != nil { // an empty directory is `null`
		l.ParseErr = err.Error()
		return l
	}
	for _, j := range js {
		l.Items = append(l.Items, item{Name: j.Name, URL: j.URL, IsDir: j.IsDir, IsSymlink: j.IsSymlink, Size: j.Size, ModTime: j.ModTime})
	}
	// the field names are part of the interface (FileInfo has no json tags: the Go names)
	var raw []map[string]json.RawMessage
	if json.Unmarshal(b, &raw) == nil {
		for _, m := range raw {
			for _, k := range jsonFields {
				if _, ok := m[k]; !ok {
					l.ParseErr = "an item lacks the field " + k
				}
			}
			if len(m) != len(jsonFields) {
				l.ParseErr = fmt.Sprintf("an item has %d fields, expected %v", len(m), jsonFields)
			}
		}
	}
	return l
}

func parseCustom(b []byte) *listing {
	l := &listing{Fmt: "custom", HasMeta: true}
	lines := strings.Split(string(b), "\n")
	bad := func(s string) *listing { l.ParseErr = s; return l }
	if len(lines) < 5 {
		return bad("short output")
	}
	var so, oo string
	var up string
	if _, err := fmt.Sscanf(lines[0], "BLTPL sort=%q order=%q limited=%d ndirs=%d nfiles=%d up=%s", &so, &oo, &l.Limited, &l.Ndirs, &l.Nfiles, &up); err != nil {
		return bad("first line: " + err.Error())
	}
	l.Sort, l.Order, l.Up = so, oo, up == "true"
	if _, err := fmt.Sscanf(lines[1], "NAME %q", &l.DirName); err != nil {
		return bad("NAME line: " + err.Error())
	}
	if _, err := fmt.Sscanf(lines[2], "PATH %q", &l.DirPath); err != nil {
		return bad("PATH line: " + err.Error())
	}
	if !strings.HasPrefix(lines[3], "ARCH") {
		return bad("no ARCH line")
	}
	l.Arch = strings.Fields(lines[3])[1:]
	end := false
	for _, ln := range lines[4:] {
		switch {
		case ln == "END":
			end = true
		case strings.HasPrefix(ln, "ITEM "):
			var it item
			if _, err := fmt.Sscanf(ln, "ITEM %q %q %t %t %d", &it.Name, &it.URL, &it.IsDir, &it.IsSymlink, &it.Size); err != nil {
				return bad("item line: " + err.Error())
			}
			l.Items = append(l.Items, it)
		case ln == "":
		default:
			return bad("unexpected line " + strconv.Quote(ln))
		}
	}
	if !end {
		return bad("no END line")
	}
	return l
}

// parseDefault reads the default template with the tokenizer of htmltok.go: one item per <tr class="file">, its first
// <a href>, the text of <span class="name">.  Any tag inside that span, or another number of start tags in a row than
// the template writes, is a name that was read as markup.
func parseDefault(b []byte) *listing {
	l := &listing{Fmt: "default", HasMeta: true}
	var (
		inRow, inName, inSummary, inB, inTbody bool
		cur                                   item
		tagsInRow                             int
		nums                                  []int
		haveHref                              bool
	)
	toks := tokenize(string(b))
	for ti := range toks {
		t := &toks[ti]
		switch t.Kind {
		case startTok:
			cls, _ := t.attr("class")
			id, _ := t.attr("id")
			if t.Data == "script" {
				l.Scripts++
			}
			if t.Data == "tbody" {
				inTbody = true
			}
			if t.Data == "div" && id == "summary" {
				inSummary = true
			}
			if inSummary && t.Data == "b" {
				inB = true
			}
			if t.Data == "a" {
				if h, ok := t.attr("href"); ok {
					if strings.HasPrefix(h, "?archive=") {
						l.Arch = append(l.Arch, strings.TrimPrefix(h, "?archive="))
					}
					if h == ".." && inTbody && !inRow {
						l.Up = true
					}
				}
			}
			if t.Data == "tr" && cls == "file" {
				inRow, cur, tagsInRow, haveHref = true, item{}, 0, false
				continue
			}
			if !inRow {
				continue
			}
			tagsInRow++
			if inName {
				cur.Markup = true
			}
			switch {
			case t.Data == "a" && !haveHref:
				cur.URL, _ = t.attr("href")
				cur.RawHref = t.rawAttr("href")
				haveHref = true
			case t.Data == "span" && cls == "name":
				inName = true
			case t.Data == "use":
				if x, ok := t.attr("xlink:href"); ok {
					cur.IsDir = strings.HasPrefix(x, "#folder")
					cur.IsSymlink = strings.HasSuffix(x, "-shortcut")
				}
			case t.Data == "td":
				if o, ok := t.attr("data-order"); ok {
					cur.Size, _ = strconv.ParseInt(o, 10, 64)
				}
			}
		case textTok:
			if inName {
				cur.Name += t.Data
				cur.RawLabel += t.Raw
			}
			if inB {
				if n, err := strconv.Atoi(strings.TrimSpace(t.Data)); err == nil {
					nums = append(nums, n)
				}
			}
		case endTok:
			switch t.Data {
			case "span":
				inName = false
			case "b":
				inB = false
			case "div":
				inSummary = false
			case "tbody":
				inTbody = false
			case "tr":
				if inRow {
					// the template writes 10 start tags per row: td td a svg use span td td time td
					if tagsInRow != 10 {
						cur.Markup = true
					}
					l.Items = append(l.Items, cur)
					inRow, inName = false, false
				}
			}
		}
	}
	if inRow { // the document ended inside a row: something swallowed the rest
		cur.Markup = true
		l.Items = append(l.Items, cur)
	}
	if len(nums) < 2 {
		l.ParseErr = "no counters in the summary"
		return l
	}
	l.Ndirs, l.Nfiles = nums[0], nums[1]
	if len(nums) > 2 {
		l.Limited = nums[2]
	}
	if l.Scripts != 1 {
		l.ParseErr = fmt.Sprintf("%d script elements (the template has one)", l.Scripts)
	}
	return l
}

func parseListing(r *hx.RawResp) *listing {
	ct := r.Header.Get("Content-Type")
	switch {
	case strings.HasPrefix(ct, "application/json"):
		return parseJSON(r.Body)
	case bytes.HasPrefix(r.Body, []byte("BLTPL ")):
		return parseCustom(r.Body)
	default:
		return parseDefault(r.Body)
	}
}

// ---- judging ------------------------------------------------------------------------------------------

type problem struct {
	clause string
	what   string
	key    string // identity of the failing input when it is not the directory + request (following a link: the entry)
}

// resolveItem follows RFC 3986 from the URL of the request: the path the client would ask for next.
func resolveItem(reqTarget, ref string) (*url.URL, error) {
	base, err := url.Parse("http://site.test" + reqTarget)
	if err != nil {
		return nil, err
	}
	r, err := url.Parse(ref)
	if err != nil {
		return nil, err
	}
	return base.ResolveReference(r), nil
}

func shownName(real string, fmtName string) string {
	if fmtName == "json" { // encoding/json replaces every byte that is not UTF-8 by U+FFFD
		var b strings.Builder
		for i := 0; i < len(real); {
			r, n := utf8.DecodeRuneInString(real[i:])
			if r == utf8.RuneError && n == 1 {
				b.WriteString("\uFFFD")
			} else {
				b.WriteString(real[i : i+n])
			}
			i += n
		}
		return b.String()
	}
	return real
}

// identify maps an observed item to the pool entry it shows (by its name) and the entry its link leads to.
func (f *fixture) identify(ents []string, dirTarget string, it *item, fmtName string) (byName, byLink string, linkErr string) {
	for _, id := range ents {
		e := f.pool[id]
		if shownName(e.real, fmtName) == it.Name {
			byName = id
		}
	}
	u, err := resolveItem(dirTarget, it.URL)
	if err != nil {
		return byName, "", "the reference does not parse: " + err.Error()
	}
	if u.Host != "site.test" || u.Scheme != "http" {
		return byName, "", "the reference leaves the site: " + u.String()
	}
	p := u.Path // decoded once, as the server will
	dirPath := strings.SplitN(dirTarget, "?", 2)[0]
	if !strings.HasPrefix(p, dirPath) {
		return byName, "", "the reference leaves the directory: " + p
	}
	rest := strings.TrimPrefix(p, dirPath)
	for _, id := range ents {
		e := f.pool[id]
		if rest == e.real || rest == e.real+"/" {
			byLink = id
		}
	}
	if byLink == "" {
		return byName, "", "the reference names nothing in the directory: " + strconv.Quote(rest)
	}
	return byName, byLink, ""
}

func contains(xs []string, x string) bool {
	for _, y := range xs {
		if y == x {
			return true
		}
	}
	return false
}

// consistent: is seq a possible prefix (of length shown) of a linearisation of the tie groups?
func consistent(groups [][]string, shown int, seq []string) string {
	if len(seq) != shown {
		return fmt.Sprintf("%d items, the window has %d", len(seq), shown)
	}
	g, used := 0, map[string]bool{}
	left := 0
	if len(groups) > 0 {
		left = len(groups[0])
	}
	for k, id := range seq {
		for g < len(groups) && left == 0 {
			g++
			if g < len(groups) {
				left = len(groups[g])
			}
		}
		if g >= len(groups) {
			return fmt.Sprintf("item %d (%s) is beyond the listing", k+1, id)
		}
		if !contains(groups[g], id) || used[id] {
			return fmt.Sprintf("item %d is %s, expected one of %v", k+1, id, groups[g])
		}
		used[id] = true
		left--
	}
	return ""
}

func visibleOf(f *fixture, ents []string) (vis []string, ndirs, nfiles int) {
	for _, id := range ents {
		e := f.pool[id]
		if e.Hidden {
			continue
		}
		vis = append(vis, id)
		if e.IsDir {
			ndirs++
		} else {
			nfiles++
		}
	}
	return
}

func cookiesOf(r *hx.RawResp) map[string]string {
	out := map[string]string{}
	for _, sc := range r.Header.Values("Set-Cookie") {
		parts := strings.Split(sc, ";")
		kv := strings.SplitN(strings.TrimSpace(parts[0]), "=", 2)
		if len(kv) != 2 {
			continue
		}
		v := kv[1]
		for _, p := range parts[1:] {
			p = strings.TrimSpace(p)
			if strings.HasPrefix(strings.ToLower(p), "path=") {
				v += " path=" + p[5:]
			}
		}
		out[kv[0]] = v
	}
	return out
}

func (f *fixture) archOf(site, cpath string) []string {
	for _, c := range f.sites[site].Configs {
		if c.Text == cpath {
			return c.Arch
		}
	}
	return nil
}

func sameSet(a, b []string) bool {
	if len(a) != len(b) {
		return false
	}
	x, y := append([]string(nil), a...), append([]string(nil), b...)
	sort.Strings(x)
	sort.Strings(y)
	for i := range x {
		if x[i] != y[i] {
			return false
		}
	}
	return true
}

type verdict struct {
	probs []problem
	drift string
	kind  string   // which kind of agreement this was (vacuity accounting)
	seq   []string // the ids in the order shown (listings)
	lst   *listing
}

// judge compares one response with the expectation of the model.
func (f *fixture) judge(ents []string, rc *reqCase, w wire, r *hx.RawResp) verdict {
	var v verdict
	e := &rc.Exp
	add := func(clause, format string, a ...interface{}) {
		v.probs = append(v.probs, problem{clause: clause, what: fmt.Sprintf(format, a...)})
	}
	drift := func(format string, a ...interface{}) {
		if v.drift == "" {
			v.drift = fmt.Sprintf(format, a...)
		}
	}
	isListing := looksLikeListing(r)
	isArchive := strings.HasPrefix(r.Header.Get("Content-Disposition"), "attachment")
	if r.Status >= 500 && r.Status != 501 {
		add("no-error-page", "status %d: %s", r.Status, clip(string(r.Body), 120))
		return v
	}
	if isArchive && e.Kind != "archive" {
		add("archive-only-if-configured", "an archive is served (%s) although the request does not name a configured type", r.Header.Get("Content-Type"))
		return v
	}
	switch e.Kind {
	case "next":
		v.kind = "next"
		if isListing {
			add("answers-only-when-due", "a listing is served (status %d) where browse has to pass the request on (method %s, path %s)", r.Status, w.method, w.target)
		}
		return v
	case "status":
		v.kind = fmt.Sprintf("status-%d", e.Status)
		if isListing {
			add("answers-only-when-due", "a listing is served where the model refuses with %d", e.Status)
		} else if e.Status == 400 && (r.Status < 400 || r.Status > 499) {
			add("bad-limit", "a limit that is not a number is answered %d, not with a client error", r.Status)
		} else if r.Status != e.Status {
			drift("status %d, model %d", r.Status, e.Status)
		}
		return v
	case "redirect":
		v.kind = "redirect"
		loc := r.Header.Get("Location")
		want := strings.SplitN(w.target, "?", 2)
		if r.Status < 300 || r.Status > 399 {
			add("slash-redirect", "a directory asked for without the trailing slash is answered %d", r.Status)
		} else if !strings.HasPrefix(loc, want[0]+"/") || (len(loc) > len(want[0])+1 && loc[len(want[0])+1] != '?') {
			add("slash-redirect", "Location %q is not the slash form of %q", loc, want[0])
		} else if r.Status != e.Status || (len(want) == 2 && loc != want[0]+"/?"+want[1]) {
			drift("redirect %d %q", r.Status, loc)
		}
		return v
	case "archive":
		v.kind = "archive"
		if r.Status != 200 || !isArchive {
			drift("archive request answered %d without attachment", r.Status)
		}
		return v
	}
	// ---- a listing
	v.kind = "listing-" + e.Fmt
	if w.method == "HEAD" {
		v.kind = "head"
	}
	if r.Status != 200 {
		add("no-error-page", "status %d where the model lists the directory (sort %q order %q limit %q, cookies %q %q)", r.Status, rc.Rq.Sortq, rc.Rq.Orderq, rc.Rq.Limitq, rc.Rq.Sortck, rc.Rq.Orderck)
		return v
	}
	ct := r.Header.Get("Content-Type")
	wantJSON := e.Fmt == "json"
	if wantJSON != strings.HasPrefix(ct, "application/json") {
		add("rendering", "Content-Type %q for Accept shape %q", ct, rc.Rq.Accept)
		return v
	}
	ck := cookiesOf(r)
	wantCk := map[string]string{}
	if e.Setsort != "-" {
		wantCk["sort"] = e.Setsort + " path=" + e.Cpath
	}
	if e.Setorder != "-" {
		wantCk["order"] = e.Setorder + " path=" + e.Cpath
	}
	for _, k := range []string{"sort", "order"} {
		if ck[k] != wantCk[k] {
			add("cookies", "Set-Cookie %s: %q, expected %q (query sort=%q order=%q)", k, ck[k], wantCk[k], rc.Rq.Sortq, rc.Rq.Orderq)
		}
	}
	if w.method == "HEAD" {
		if len(r.Body) != 0 {
			add("head-equals-get", "HEAD carries a body of %d bytes", len(r.Body))
		}
		return v
	}
	l := parseListing(r)
	v.lst = l
	if l.ParseErr != "" && (e.Fmt != "default" || e.Opaque || strings.HasPrefix(l.ParseErr, "no counters")) {
		add("rendering", "the %s rendering does not parse: %s (%s)", e.Fmt, l.ParseErr, clip(string(r.Body), 80))
		return v
	}
	if l.Fmt != e.Fmt {
		add("rendering", "the answer is the %s rendering, expected %s", l.Fmt, e.Fmt)
		return v
	}
	if l.Fmt == "custom" {
		// Listing.Name: "the name of the directory (the last element of the path)"; Listing.Path: "the full path of the request"
		p := strings.SplitN(w.target, "?", 2)[0]
		if l.DirPath != p || l.DirName != filepath.Base(p) {
			add("listing-name", ".Name %q .Path %q for the request path %q", l.DirName, l.DirPath, p)
		}
	}
	if e.Opaque { // a directory whose content the model does not know: parent link only
		if l.HasMeta && l.Up != e.Up {
			add("up-link", "parent link shown: %v, expected %v", l.Up, e.Up)
		}
		return v
	}
	vis, ndirs, nfiles := visibleOf(f, ents)
	dirTarget := strings.SplitN(w.target, "?", 2)[0]
	seen := map[string]bool{}
	for k := range l.Items {
		it := &l.Items[k]
		byName, byLink, lerr := f.identify(ents, dirTarget, it, l.Fmt)
		id := byLink
		if id == "" {
			id = byName
		}
		if it.Markup {
			add("names-inert", "item %d (%s): the name was read as markup (href %q, label %q)", k+1, id, it.RawHref, it.RawLabel)
		}
		if lerr != "" {
			add("links-resolve", "item %d (%s): %s (reference %q)", k+1, byName, lerr, it.URL)
		} else if byName != byLink {
			add("links-resolve", "item %d shows the name of %q but its link %q leads to %q", k+1, byName, it.URL, byLink)
		}
		if id == "" {
			add("listing-equals-directory", "item %d (%q) is no entry of the directory", k+1, it.Name)
			continue
		}
		pe := f.pool[id]
		if pe.Hidden {
			add("no-hidden-names", "the hidden entry %s is listed", id)
		}
		if seen[id] {
			add("listing-equals-directory", "%s is listed twice", id)
		}
		seen[id] = true
		v.seq = append(v.seq, id)
		if it.IsDir != pe.IsDir || it.IsSymlink != pe.IsLink {
			add("entry-kind", "%s: shown as dir=%v symlink=%v, it is dir=%v symlink=%v", id, it.IsDir, it.IsSymlink, pe.IsDir, pe.IsLink)
		}
		if !pe.IsDir && it.Size != int64(pe.Size) {
			add("entry-size", "%s: size %d shown, lstat says %d", id, it.Size, pe.Size)
		}
		if it.ModTime != "" {
			if tm, err := time.Parse(time.RFC3339Nano, it.ModTime); err != nil || tm.Unix() != mtimeBase+int64(pe.Mt)*1000 {
				add("entry-time", "%s: ModTime %q, the entry was last modified at %d", id, it.ModTime, mtimeBase+int64(pe.Mt)*1000)
			}
		}
		if byName == id {
			// exact spelling of the escapes: model drift only
			switch l.Fmt {
			case "json", "custom":
				if it.URL != concrete(pe.URL) {
					drift("%s: URL %q, model %q", id, it.URL, concrete(pe.URL))
				}
			case "default":
				if it.RawHref != concrete(pe.Href) || it.RawLabel != concrete(pe.Label) {
					drift("%s: href %q label %q, model %q %q", id, it.RawHref, it.RawLabel, concrete(pe.Href), concrete(pe.Label))
				}
			}
		}
	}
	if l.ParseErr != "" {
		add("names-inert", "the default rendering is damaged: %s", l.ParseErr)
	}
	if e.Shown == len(vis) {
		for _, id := range vis {
			if !seen[id] {
				add("listing-equals-directory", "%s is missing from the listing", id)
			}
		}
	}
	if len(v.probs) == 0 {
		if why := consistent(e.Groups, e.Shown, v.seq); why != "" {
			add("sort-order", "sort %q order %q limit %q (cookies %q %q): %s; shown %v", rc.Rq.Sortq, rc.Rq.Orderq, rc.Rq.Limitq, rc.Rq.Sortck, rc.Rq.Orderck, why, v.seq)
		}
	}
	if l.HasMeta {
		if l.Ndirs != ndirs || l.Nfiles != nfiles {
			add("counts", "NumDirs %d NumFiles %d, the listing has %d directories and %d files", l.Ndirs, l.Nfiles, ndirs, nfiles)
		}
		if l.Up != e.Up {
			add("up-link", "parent link shown: %v, expected %v", l.Up, e.Up)
		}
		// "If != 0 then Items have been limited to that many elements"; a window equal to the whole listing may say either
		if (l.Limited != 0 && l.Limited != len(l.Items)) || (len(l.Items) < len(vis) && l.Limited != len(l.Items)) {
			add("limit-window", "ItemsLimitedTo %d with %d of %d items shown", l.Limited, len(l.Items), len(vis))
		} else if l.Limited != e.Limited {
			drift("ItemsLimitedTo %d, model %d", l.Limited, e.Limited)
		}
		if !sameSet(l.Arch, f.archOf(rc.Rq.Site, e.Cpath)) {
			add("archive-only-if-configured", "archive links %v, configured %v", l.Arch, f.archOf(rc.Rq.Site, e.Cpath))
		}
		if l.Ndirs != e.Ndirs || l.Nfiles != e.Nfiles {
			drift("counters %d/%d, model %d/%d", l.Ndirs, l.Nfiles, e.Ndirs, e.Nfiles)
		}
	}
	if l.Fmt == "custom" && (l.Sort != e.Sort || l.Order != e.Order) {
		valid := map[string]bool{"name": true, "namedirfirst": true, "size": true, "time": true}
		if valid[e.Sort] && l.Sort != e.Sort {
			add("sort-order", ".Sort is %q, requested %q", l.Sort, e.Sort)
		} else {
			drift(".Sort %q .Order %q, model %q %q", l.Sort, l.Order, e.Sort, e.Order)
		}
	}
	return v
}

func clip(s string, n int) string {
	if len(s) > n {
		return s[:n] + "..."
	}
	return s
}

// fkey: following a link depends on the entry and the site only
func fkey(pe *poolEnt, site, outcome string) string {
	return "follow/entry=" + pe.ID + "/site=" + site + "/" + outcome
}

// follow asks for every link of a listing (and the parent link) the way a client would and checks what comes back.
func (f *fixture) follow(c *client, ents []string, site string, w wire, l *listing, seq []string) []problem {
	var ps []problem
	dirTarget := strings.SplitN(w.target, "?", 2)[0]
	if l.HasMeta && l.Up {
		// the parent link of the default template is href=".."; where it is offered it must lead to a listing
		if u, err := resolveItem(dirTarget, ".."); err == nil {
			r, err := c.do(site, wire{method: "GET", target: u.EscapedPath(), hdr: []string{"Accept: application/json"}})
			if err != nil || !looksLikeListing(r) {
				st := 0
				if r != nil {
					st = r.Status
				}
				ps = append(ps, problem{clause: "up-link", what: fmt.Sprintf("the parent link is offered but GET %s is answered %d, not with a listing", u.EscapedPath(), st)})
			}
		}
	}
	for k := range l.Items {
		if k >= len(seq) {
			break
		}
		it, pe := &l.Items[k], f.pool[seq[k]]
		u, err := resolveItem(dirTarget, it.URL)
		if err != nil {
			continue // reported by judge
		}
		target := u.EscapedPath()
		if u.RawQuery != "" {
			target += "?" + u.RawQuery
		}
		r, err := c.do(site, wire{method: "GET", target: target, hdr: []string{"Accept: application/json"}})
		if err != nil {
			ps = append(ps, problem{"links-resolve", fmt.Sprintf("%s: GET %s fails: %v", pe.ID, target, err), fkey(pe, site, "no answer")})
			continue
		}
		if bytes.Contains(r.Body, []byte(cfToken)) || bytes.Contains(r.Body, []byte(intToken)) {
			ps = append(ps, problem{"no-hidden-names", fmt.Sprintf("%s: GET %s returns the content of a hidden file", pe.ID, target), fkey(pe, site, "hidden content")})
			continue
		}
		switch pe.Follows {
		case "content":
			want := pe.content
			if pe.Kind == "lnfile" {
				want = tgtToken
			}
			if r.Status != 200 || string(r.Body) != want {
				ps = append(ps, problem{"links-resolve", fmt.Sprintf("%s: GET %s -> %d %q, the file holds %q", pe.ID, target, r.Status, clip(string(r.Body), 60), want), fkey(pe, site, fmt.Sprintf("status=%d", r.Status))})
			}
		case "listing":
			inner := "in-" + pe.ID + ".txt"
			if pe.Kind == "lndir" {
				inner = "in-tgt.txt"
			}
			ll := parseJSON(r.Body)
			if r.Status != 200 || ll.ParseErr != "" || len(ll.Items) != 1 || ll.Items[0].Name != inner {
				ps = append(ps, problem{"links-resolve", fmt.Sprintf("%s: GET %s -> %d %q, expected the listing of that directory (%s)", pe.ID, target, r.Status, clip(string(r.Body), 80), inner), fkey(pe, site, fmt.Sprintf("status=%d", r.Status))})
			}
		case "notfound":
			if r.Status != 404 {
				ps = append(ps, problem{"links-resolve", fmt.Sprintf("%s: GET %s -> %d, expected 404 (%s)", pe.ID, target, r.Status, pe.Kind), fkey(pe, site, fmt.Sprintf("status=%d", r.Status))})
			}
		}
	}
	return ps
}

// ---- the run ------------------------------------------------------------------------------------------------

type runner struct {
	t     *testing.T
	res   *hx.Result
	f     *fixture
	h     *head
	mu    sync.Mutex
	agree map[string]int
	drift map[string]int
	dsamp []string
	bads  map[string]*replayCase
	what  map[string]string
	per   map[string]int
	self  int
	infra string
	// mismatches other than the recorded deviation of net/http (a name that is not UTF-8 cannot be fetched)
	unexpected int
}

func (r *runner) setInfra(s string) {
	r.mu.Lock()
	if r.infra == "" {
		r.infra = s
	}
	r.mu.Unlock()
}

func rqText(q *request) string {
	p := "/" + strings.Join(q.Segs, "/")
	if q.Slash && len(q.Segs) > 0 {
		p += "/"
	}
	return fmt.Sprintf("site=%s %s %s ?sort=%s&order=%s&limit=%s&archive=%s cookies=%s,%s accept=%s", q.Site, q.Method, p, q.Sortq, q.Orderq, q.Limitq, q.Archq, q.Sortck, q.Orderck, q.Accept)
}

func mmKey(clause string, ents []string, q *request) string {
	return "C02/browselisting/" + clause + "/dir=" + strings.Join(ents, ",") + "/" + rqText(q)
}

func probKey(p problem, ents []string, q *request) string {
	if p.key != "" {
		return "C02/browselisting/" + p.key
	}
	return mmKey(p.clause, ents, q)
}

func (r *runner) record(ents []string, rc *reqCase, v verdict, followed bool) {
	r.mu.Lock()
	defer r.mu.Unlock()
	if len(v.probs) > 0 {
		if hx.SelfTest() {
			for _, p := range v.probs {
				if p.clause == "sort-order" { // the clause the corruption is about (the known finding does not count)
					r.self++
				}
			}
			return
		}
		for _, p := range v.probs {
			k := probKey(p, ents, &rc.Rq)
			if !strings.HasPrefix(p.key, "follow/entry=") || r.f.pool[strings.SplitN(strings.TrimPrefix(p.key, "follow/entry="), "/", 2)[0]].UTF8 {
				r.unexpected++
			}
			if _, ok := r.bads[k]; !ok && r.per[p.clause] < 8 {
				r.per[p.clause]++
				r.bads[k] = &replayCase{T: "browselisting", Head: r.h, Ents: ents, Req: *rc, Clause: p.clause, Key: k, Follow: followed}
				r.what[k] = p.what
			}
		}
		return
	}
	if v.drift != "" {
		r.drift[v.kind]++
		if len(r.dsamp) < 10 {
			r.dsamp = append(r.dsamp, fmt.Sprintf("dir=%v %s: %s", ents, rqText(&rc.Rq), v.drift))
		}
		return
	}
	r.agree[v.kind]++
}

// runDir builds one directory, sends its requests, follows the links of one listing, compares the renderings.
func (r *runner) runDir(c *client, bc *bcase, rnd *rand.Rand) {
	f := r.f
	name, err := f.buildDir(bc.Ents)
	if err != nil {
		r.setInfra("cannot build a directory: " + err.Error())
		return
	}
	defer f.dropDir(name)
	followed := false
	for k := range bc.Reqs {
		rc := &bc.Reqs[k]
		w := render(&rc.Rq, name, rnd)
		resp, err := c.do(rc.Rq.Site, w)
		if err != nil {
			r.setInfra(fmt.Sprintf("request failed: %s: %v", rqText(&rc.Rq), err))
			return
		}
		v := f.judge(bc.Ents, rc, w, resp)
		nt := ""
		if len(bc.Ents) > 0 {
			nt = v.kind + "/" + strings.Join(bc.Ents, ",") + "/" + rc.Rq.Sortq + rc.Rq.Orderq + rc.Rq.Limitq
		}
		r.res.Count(nt)
		r.record(bc.Ents, rc, v, false)
		if len(v.probs) > 0 || v.lst == nil || w.method != "GET" {
			continue
		}
		if rc.Exp.Opaque { // a fixed directory: only the parent link can be followed
			if v.lst.Up {
				r.res.Count("")
				r.record(bc.Ents, rc, verdict{probs: f.follow(c, bc.Ents, rc.Rq.Site, w, v.lst, nil), kind: "follow-up"}, true)
			}
			continue
		}
		// the other rendering of the same request: same items, same order (up to ties), HEAD = GET
		if !followed || rnd.Intn(3) == 0 {
			r.twin(c, bc.Ents, rc, name, v)
		}
		if !followed && len(v.seq) > 0 {
			followed = true
			ps := f.follow(c, bc.Ents, rc.Rq.Site, w, v.lst, v.seq)
			fv := verdict{probs: ps, kind: "follow"}
			r.res.Count("follow/" + strings.Join(bc.Ents, ","))
			r.record(bc.Ents, rc, fv, true)
		}
	}
}

// twin sends the same request once more in the other rendering and as HEAD.
func (r *runner) twin(c *client, ents []string, rc *reqCase, name string, v verdict) {
	other := *rc
	if rc.Exp.Fmt == "json" {
		other.Rq.Accept = "html"
		other.Exp.Fmt = "default"
		for _, cf := range r.f.sites[rc.Rq.Site].Configs {
			if cf.Text == rc.Exp.Cpath {
				other.Exp.Fmt = cf.Tpl
			}
		}
	} else {
		other.Rq.Accept = "json"
		other.Exp.Fmt = "json"
	}
	w := render(&other.Rq, name, nil)
	resp, err := c.do(other.Rq.Site, w)
	if err != nil {
		r.setInfra("request failed: " + err.Error())
		return
	}
	tv := r.f.judge(ents, &other, w, resp)
	tv.kind = "twin"
	if len(tv.probs) == 0 && strings.Join(tv.seq, ",") != strings.Join(v.seq, ",") {
		tv.drift = fmt.Sprintf("the two renderings order ties differently: %v / %v", v.seq, tv.seq)
	}
	r.res.Count("")
	r.record(ents, &other, tv, false)

	hd := *rc
	hd.Rq.Method = "HEAD"
	hw := render(&hd.Rq, name, nil)
	hresp, err := c.do(hd.Rq.Site, hw)
	if err != nil {
		r.setInfra("request failed: " + err.Error())
		return
	}
	hv := r.f.judge(ents, &hd, hw, hresp)
	hv.kind = "head-twin"
	r.res.Count("")
	r.record(ents, &hd, hv, false)
}

// confirm re-runs one failing case against a fresh instance in a fresh root.
func (r *runner) confirm(key string, b *replayCase) {
	f, err := newFixture(hx.Scratch(r.t), b.Head)
	if err != nil {
		r.setInfra("cannot start a fixture for the confirmation: " + err.Error())
		return
	}
	defer f.close()
	c := &client{f: f, conns: map[string]*hx.RawConn{}}
	defer c.close()
	name, err := f.buildDir(b.Ents)
	if err != nil {
		r.setInfra("cannot build a directory: " + err.Error())
		return
	}
	w := render(&b.Req.Rq, name, nil)
	resp, err := c.do(b.Req.Rq.Site, w)
	if err != nil {
		return
	}
	v := f.judge(b.Ents, &b.Req, w, resp)
	ps := v.probs
	if b.Follow && len(ps) == 0 && v.lst != nil {
		ps = f.follow(c, b.Ents, b.Req.Rq.Site, w, v.lst, v.seq)
	}
	for _, p := range ps {
		if probKey(p, b.Ents, &b.Req.Rq) != key {
			continue
		}
		r.res.Add(hx.Mismatch{Key: key, What: fmt.Sprintf("dir {%s}, %s: %s", strings.Join(b.Ents, ", "), rqText(&b.Req.Rq), p.what),
			Case: b, Expected: b.Req.Exp, Observed: map[string]interface{}{"request": w.method + " " + w.target, "headers": w.hdr, "status": resp.Status, "response_header": resp.Header, "listing": v.lst, "body": clip(string(resp.Body), 400)}})
		return
	}
}

func TestCx02Browse(t *testing.T) {
	hx.Quiet()
	res := hx.NewResult("TestCx02Browse", "one evaluation = one request of BrowseListing.tla sent to a real instance: a directory of <= 5 entries from a pool of 25 adversarial names/kinds (built on disk, hidden entries as hard links to the Casketfile / an internal file) x site (browse /, browse /cases tpl { servearchive zip }, index a.txt + browse { servearchive }) x method x path (slash, no slash, missing) x sort x order x limit x sort/order cookies x Accept shape x archive, chosen by TLC with a hash of the directory and the seed; the listing is parsed (JSON, default HTML with an HTML tokenizer, custom template), compared with the model and every link followed; non-trivial = a non-empty directory")
	defer res.Write(t)
	r := &runner{t: t, res: res, agree: map[string]int{}, drift: map[string]int{}, bads: map[string]*replayCase{}, what: map[string]string{}, per: map[string]int{}}

	if rp, ok := hx.LoadReplay[replayCase](t); ok {
		if rp.T != "browselisting" || rp.Head == nil {
			return // a replay file of another driver of this property
		}
		res.Count("replay")
		res.Count("replay2")
		r.h = rp.Head
		r.confirm(rp.Key, &rp)
		res.Infra = r.infra
		return
	}

	all := hx.LoadCases[bcase](t, "BrowseListing")
	var dirs []*bcase
	var up *bcase
	for i := range all {
		c := &all[i]
		switch c.T {
		case "pool":
			hd := c.head
			r.h = &hd
		case "up":
			up = c
		case "dir":
			dirs = append(dirs, c)
		}
	}
	if r.h == nil || up == nil || len(dirs) == 0 {
		res.Infra = fmt.Sprintf("TLC cases incomplete: head=%v up=%v dirs=%d", r.h != nil, up != nil, len(dirs))
		return
	}
	f, err := newFixture(hx.Scratch(t), r.h)
	if err != nil {
		res.Infra = "cannot start the fixture: " + err.Error()
		return
	}
	r.f = f
	defer f.close()
	if err := f.calibrate(); err != nil {
		res.Infra = "the constants of BrowseListing.tla do not describe this platform: " + err.Error()
		return
	}
	// the Casketfile and the internal file are hidden from the static file server (else the hide list is not active)
	for _, s := range r.h.Sites {
		for _, tgt := range []string{"/Casketfile", "/int/secret.txt"} {
			resp, err := hx.OneShot(f.addr[s.Name], "GET", tgt, f.addr[s.Name])
			if err != nil || resp.Status != 404 {
				res.Infra = fmt.Sprintf("fixture: site %s answers %v %v for %s (hide list not active?)", s.Name, resp, err, tgt)
				return
			}
		}
	}
	if hx.SelfTest() {
		// corrupt expectations: reverse the order of a listing with several groups, drop a visible entry elsewhere
		n := 0
		for _, d := range dirs {
			for k := range d.Reqs {
				e := &d.Reqs[k].Exp
				if e.Kind == "listing" && len(e.Groups) >= 2 && n < 40 {
					e.Groups[0], e.Groups[len(e.Groups)-1] = e.Groups[len(e.Groups)-1], e.Groups[0]
					n++
				}
			}
		}
	}

	// the parent-link table first (fixed directories), then the directories
	upCase := &bcase{T: "dir", Ents: nil, Reqs: up.Reqs}
	jobs := append([]*bcase{upCase}, dirs...)
	workers := 12
	var wg sync.WaitGroup
	ch := make(chan int, len(jobs))
	for i := range jobs {
		ch <- i
	}
	close(ch)
	for wk := 0; wk < workers; wk++ {
		wg.Add(1)
		go func(wk int) {
			defer wg.Done()
			c := &client{f: f, conns: map[string]*hx.RawConn{}}
			defer c.close()
			for i := range ch {
				if r.infra != "" {
					return
				}
				rnd := rand.New(rand.NewSource(hx.Seed()*1000003 + int64(i)))
				r.runDir(c, jobs[i], rnd)
			}
		}(wk)
	}
	wg.Wait()
	// the server closes the keep-alive connections first (Stop below), see hx notes on TIME_WAIT

	if r.infra != "" {
		res.Infra = r.infra
		return
	}
	keys := hx.SortedKeys(r.bads)
	for _, k := range keys {
		r.confirm(k, r.bads[k])
	}
	if r.infra != "" {
		res.Infra = r.infra
		return
	}
	total := 0
	for _, n := range r.drift {
		total += n
	}
	res.AddExtra("agree", r.agree)
	res.AddExtra("model_drift", r.drift)
	res.AddExtra("model_drift_samples", r.dsamp)
	res.AddExtra("directories", len(dirs))
	res.Replayed = len(dirs)
	if hx.SelfTest() {
		res.AddExtra("selftest_noticed", r.self)
		if r.self == 0 {
			res.Infra = "selftest: corrupted expectations were not noticed"
		}
		return
	}
	if r.unexpected == 0 {
		for _, k := range []string{"listing-json", "listing-default", "listing-custom", "head", "redirect", "next", "status-400", "status-501", "archive", "twin", "head-twin", "follow", "follow-up"} {
			if r.agree[k] == 0 {
				res.Infra = "vacuous: no case of kind '" + k + "' agreed with the model (fixture or parser broken?)"
			}
		}
		if total*50 > res.Evaluations {
			res.Infra = fmt.Sprintf("the operational model no longer describes the code: %d of %d evaluations differ without violating a clause, e.g. %v", total, res.Evaluations, r.dsamp)
		}
	}
}
