// C03 - protected paths are never disclosed without valid credentials: replay of the outcome
// tables TLC computed from Protect.tla against real casket sites.
//
// One real site per (protection variant x directive shape) of Protect.tla, all on one loopback
// listener and told apart by the Host header; every second site additionally carries `gzip`.
// The tree of Protect.tla is materialised with one unique token per file.  For every table entry
//
//   - without valid credentials (none / wrong password / wrong user / garbage, GET and sometimes
//     HEAD or POST) the fully decoded body (gunzip, unzip) must not contain the token of any file
//     in the site's Protected set                                             -> C03/disclosed/...
//   - with valid credentials the response must equal the response of the twin site that has
//     the same directives but no protection                                   -> C03/auth-not-transparent/...
//
// The emitted tables describe the code as it is (including the two recorded deviations: an index
// page substituted for a directory URL and a directory archive are produced after the
// credential check).  A disclosure the as-found model predicts through one of these two channels
// gets the key C03/via-index|via-archive/prot=.../file=...; anything else is keyed by the request.
package c03

import (
	"crypto/sha1"
	"encoding/base64"
	"fmt"
	"math/rand"
	"os"
	"path/filepath"
	"sort"
	"strings"
	"sync"
	"testing"

	"verifharness/hx"
)

// ---- cases ---------------------------------------------------------------------------------

type shape struct {
	Tf     string `json:"tf"`
	Rw     bool   `json:"rw"`
	Ext    bool   `json:"ext"`
	Browse string `json:"browse"`
}

type outcome struct {
	St  int        `json:"st"`
	K   string     `json:"k"`
	Rd  bool       `json:"rd"`
	Via string     `json:"via"`
	Sv  [][]string `json:"sv"`
	Ls  []string   `json:"ls"`
}

type pcase struct {
	Segs      []string      `json:"segs"`
	Prot      string        `json:"prot"`
	Kind      string        `json:"kind"`
	P         []string      `json:"p"`
	Ex        [][]string    `json:"ex"`
	Protected [][]string    `json:"protected"`
	Shapes    []shape       `json:"shapes"`
	Modes     []string      `json:"modes"`
	Aes       [][]string    `json:"aes"`
	Res       []outcome     `json:"res"`
	Tab       [][][][][]int `json:"tab"`
	Only      *only         `json:"only,omitempty"`
}

type only struct {
	Shape  shape    `json:"shape"`
	Gzip   bool     `json:"gzip"`
	Slash  bool     `json:"slash"`
	Mode   string   `json:"mode"`
	AE     []string `json:"ae"`
	Creds  string   `json:"creds"` // none | wrongpw | wronguser | garbage | right | right-lc
	Method string   `json:"method"`
	Target string   `json:"target"`
	Want   outcome  `json:"want"`
	// Redeployed: the request was made after the tree had been served once and then redeployed
	Redeployed bool `json:"redeployed,omitempty"`
	// Alt: the request goes to the second key of the site's server block
	Alt bool `json:"alt,omitempty"`
}

// ---- fixture ---------------------------------------------------------------------------------------

const ns = "c03"
const user, pass = "alice", "s3cret-pw"

var nodes = []string{"root/index.html", "root/d/g", "root/d/g.gz", "root/d/index.html", "root/d/index.html.gz", "root/e/g", "root/e/s/g", "root/Casketfile"}

var tokenToNode = func() map[string]string {
	m := map[string]string{}
	for _, n := range nodes {
		m[hx.Token(ns, n)] = n
	}
	return m
}()

type protDef struct {
	id, kind, p string
	ex          []string
}

var prots = []protDef{
	{"none", "none", "", nil},
	{"basic_d", "basic", "/d", nil},
	{"basic_d_exg", "basic", "/d", []string{"/d/g"}},
	{"basic_index", "basic", "/index.html", nil},
	{"internal_d", "internal", "/d", nil},
	{"basic_es", "basic", "/e/s", nil},
	{"internal_es", "internal", "/e/s", nil},
	{"internal_dindex", "internal", "/d/index.html", nil},
	{"basic_d_exgs", "basic", "/d", []string{"/d/g/"}},
}

func protByID(id string) *protDef {
	for i := range prots {
		if prots[i].id == id {
			return &prots[i]
		}
	}
	return nil
}

func shapeKey(s shape) string {
	return fmt.Sprintf("tf=%s,rw=%v,ext=%v,browse=%s", s.Tf, s.Rw, s.Ext, s.Browse)
}

func allShapes() []shape {
	var out []shape
	for _, tf := range []string{"none", "default", "dg"} {
		for _, rw := range []bool{false, true} {
			for _, ext := range []bool{false, true} {
				for _, b := range []string{"off", "arch"} {
					out = append(out, shape{tf, rw, ext, b})
				}
			}
		}
	}
	return out
}

// gzipOn: the gzip directive is not a dimension of the model; it is on for every second shape
func gzipOn(s shape, seed int64) bool {
	n := int(seed)
	if s.Rw {
		n++
	}
	if s.Ext {
		n++
	}
	if s.Browse == "arch" {
		n++
	}
	n += len(s.Tf)
	return n%2 == 0
}

func hostOf(prot string, s shape, gz bool) string {
	h := fmt.Sprintf("%s-%s-%v-%v-%s-%v.test", prot, s.Tf, s.Rw, s.Ext, s.Browse, gz)
	return strings.ReplaceAll(strings.ToLower(h), "_", "")
}

func siteBlock(port int, root string, pd *protDef, s shape, gz bool) string {
	var b strings.Builder
	// two keys per block: whatever a directive sets up per block has to hold for every site of it
	fmt.Fprintf(&b, "%s:%d, alt.%s:%d {\n\tbind 127.0.0.1\n\ttls off\n\troot %s\n", hostOf(pd.id, s, gz), port, hostOf(pd.id, s, gz), port, root)
	switch s.Tf {
	case "default":
		b.WriteString("\ttryfiles\n")
	case "dg":
		b.WriteString("\ttryfiles {path} d/g\n")
	}
	if s.Rw {
		b.WriteString("\trewrite ^/pub/(.*)$ /{1}\n")
	}
	if s.Ext {
		b.WriteString("\text .html\n")
	}
	if gz {
		b.WriteString("\tgzip\n")
	}
	switch pd.kind {
	case "basic":
		if gz {
			// password table in a file named relative to the site root; a decoy site with another
			// root names its own table the same way (see newFixture)
			fmt.Fprintf(&b, "\tbasicauth %s %s htpasswd=../htpasswd", pd.p, user)
		} else {
			fmt.Fprintf(&b, "\tbasicauth %s %s %s", pd.p, user, pass)
		}
		if len(pd.ex) > 0 {
			b.WriteString(" {\n")
			for _, e := range pd.ex {
				fmt.Fprintf(&b, "\t\texclude %s\n", e)
			}
			b.WriteString("\t}")
		}
		b.WriteString("\n")
	case "internal":
		fmt.Fprintf(&b, "\tinternal %s\n", pd.p)
	}
	if s.Browse == "arch" {
		b.WriteString("\tbrowse / {\n\t\tservearchive\n\t}\n")
	}
	b.WriteString("}\n")
	return b.String()
}

type fixture struct {
	base string
	site *hx.Site
	port int
	seed int64
}

// newFixture starts the sites of the given protection variants (all when nil) x the given shapes.
func newFixture(dir string, seed int64, protIDs []string, shapes []shape) (*fixture, error) {
	base, err := os.MkdirTemp(dir, "c03fix")
	if err != nil {
		return nil, err
	}
	root := filepath.Join(base, "root")
	for _, d := range []string{"root/d", "root/e/s"} {
		if err := os.MkdirAll(filepath.Join(base, d), 0o755); err != nil {
			return nil, err
		}
	}
	for _, n := range nodes {
		if n == "root/Casketfile" {
			continue
		}
		content := []byte("<p>" + hx.Token(ns, n) + "</p>\n")
		if strings.HasSuffix(n, ".gz") {
			content = hx.Gzip(content)
		}
		if err := os.WriteFile(filepath.Join(base, n), content, 0o644); err != nil {
			return nil, err
		}
	}
	// password tables: the sites' own (../htpasswd seen from their root) and, under the same
	// relative name, the one of a decoy site with another root, same user, another password
	sha := func(pw string) string {
		h := sha1.Sum([]byte(pw))
		return "{SHA}" + base64.StdEncoding.EncodeToString(h[:])
	}
	os.MkdirAll(filepath.Join(base, "decoy", "root"), 0o755)
	os.WriteFile(filepath.Join(base, "htpasswd"), []byte(user+":"+sha(pass)+"\n"), 0o644)
	os.WriteFile(filepath.Join(base, "decoy", "htpasswd"), []byte(user+":"+sha(decoyPass)+"\n"), 0o644)
	var lastErr error
	for try := 0; try < 4; try++ {
		port := hx.FreePort()
		var cf strings.Builder
		fmt.Fprintf(&cf, "# %s\n", hx.Token(ns, "root/Casketfile"))
		fmt.Fprintf(&cf, "decoy.test:%d {\n\tbind 127.0.0.1\n\ttls off\n\troot %s\n\tbasicauth / %s htpasswd=../htpasswd\n}\n", port, filepath.Join(base, "decoy", "root"), user)
		for i := range prots {
			if protIDs != nil && !contains(protIDs, prots[i].id) {
				continue
			}
			for _, s := range shapes {
				cf.WriteString(siteBlock(port, root, &prots[i], s, gzipOn(s, seed)))
			}
		}
		cfp := filepath.Join(root, "Casketfile")
		if err := os.WriteFile(cfp, []byte(cf.String()), 0o644); err != nil {
			return nil, err
		}
		s, err := hx.StartHTTP(cf.String(), cfp)
		if err == nil {
			return &fixture{base: base, site: s, port: port, seed: seed}, nil
		}
		lastErr = err
		if !strings.Contains(err.Error(), "address already in use") {
			break
		}
	}
	os.RemoveAll(base)
	return nil, lastErr
}

// redeploy replaces every directory and regular file below the root by a new file-system object
// of the same name and content (staged under a temporary name, renamed into place).
func (f *fixture) redeploy() error {
	root := filepath.Join(f.base, "root")
	var copyTree func(src, dst string) error
	copyTree = func(src, dst string) error {
		if err := os.Mkdir(dst, 0o755); err != nil {
			return err
		}
		ents, err := os.ReadDir(src)
		if err != nil {
			return err
		}
		for _, e := range ents {
			sp, dp := filepath.Join(src, e.Name()), filepath.Join(dst, e.Name())
			if e.IsDir() {
				if err := copyTree(sp, dp); err != nil {
					return err
				}
				continue
			}
			b, err := os.ReadFile(sp)
			if err != nil {
				return err
			}
			if err := os.WriteFile(dp, b, 0o644); err != nil {
				return err
			}
		}
		return nil
	}
	ents, err := os.ReadDir(root)
	if err != nil {
		return err
	}
	for _, e := range ents {
		cur := filepath.Join(root, e.Name())
		staged, old := cur+".staged", cur+".old"
		if e.IsDir() {
			if err := copyTree(cur, staged); err != nil {
				return err
			}
			if err := os.Rename(cur, old); err != nil {
				return err
			}
			if err := os.Rename(staged, cur); err != nil {
				return err
			}
			os.RemoveAll(old)
			continue
		}
		b, err := os.ReadFile(cur)
		if err != nil {
			return err
		}
		if err := os.WriteFile(staged, b, 0o644); err != nil {
			return err
		}
		if err := os.Rename(staged, cur); err != nil { // the old object still exists at this point: a new inode
			return err
		}
	}
	return nil
}

func (f *fixture) close() {
	f.site.Stop()
	os.RemoveAll(f.base)
}

// ---- requests -----------------------------------------------------------------------------------------

type obs struct {
	Status   int      `json:"status"`
	Location string   `json:"location,omitempty"`
	Files    []string `json:"files"`
	Names    []string `json:"names,omitempty"`
	CE       string   `json:"content_encoding,omitempty"`
	WWWAuth  bool     `json:"www_authenticate"`
	BodyLen  int      `json:"body_len"`
}

func authHeader(creds string) []string {
	enc := func(u, p string) string { return base64.StdEncoding.EncodeToString([]byte(u + ":" + p)) }
	switch creds {
	case "wrongpw":
		return []string{"Authorization: Basic " + enc(user, pass+"x")}
	case "decoypw":
		return []string{"Authorization: Basic " + enc(user, decoyPass)}
	case "wronguser":
		return []string{"Authorization: Basic " + enc("mallory", pass)}
	case "garbage":
		return []string{"Authorization: Basic !!notbase64!!"}
	case "right":
		return []string{"Authorization: Basic " + enc(user, pass)}
	case "right-lc":
		return []string{"authorization: basic " + enc(user, pass)}
	}
	return nil
}

type client struct {
	f  *fixture
	rc *hx.RawConn
}

func (c *client) close() {
	if c.rc != nil {
		c.rc.Close()
	}
}

func (c *client) do(prot string, on *only) (obs, error) {
	addr := fmt.Sprintf("127.0.0.1:%d", c.f.port)
	host := fmt.Sprintf("%s:%d", hostOf(prot, on.Shape, on.Gzip), c.f.port)
	if on.Alt {
		host = "alt." + host
	}
	hdr := authHeader(on.Creds)
	if len(on.AE) > 0 {
		hdr = append(hdr, "Accept-Encoding: "+strings.Join(on.AE, ", "))
	}
	var lastErr error
	for try := 0; try < 3; try++ {
		if c.rc == nil {
			rc, err := hx.DialRaw(addr)
			if err != nil {
				lastErr = err
				continue
			}
			c.rc = rc
		}
		var r *hx.RawResp
		var err error
		if on.Method == "POST" {
			raw := fmt.Sprintf("POST %s HTTP/1.1\r\nHost: %s\r\nContent-Length: 3\r\n%s\r\n\r\nx=1", on.Target, host, strings.Join(hdr, "\r\n"))
			if len(hdr) == 0 {
				raw = fmt.Sprintf("POST %s HTTP/1.1\r\nHost: %s\r\nContent-Length: 3\r\n\r\nx=1", on.Target, host)
			}
			r, err = c.rc.Do("POST", []byte(raw))
		} else {
			r, err = c.rc.Get(on.Method, on.Target, host, hdr...)
		}
		if err != nil {
			c.rc.Close()
			c.rc = nil
			lastErr = err
			continue
		}
		if r.Header.Get("Connection") == "close" {
			c.rc.Close()
			c.rc = nil
		}
		o := obs{Status: r.Status, Location: r.Header.Get("Location"), CE: r.Header.Get("Content-Encoding"),
			WWWAuth: r.Header.Get("Www-Authenticate") != "", BodyLen: len(r.Body)}
		found := map[string]bool{}
		var names []string
		hx.ScanTokens(r.Body, tokenToNode, found, &names)
		for n := range found {
			o.Files = append(o.Files, n)
		}
		sort.Strings(o.Files)
		sort.Strings(names)
		o.Names = names
		return o, nil
	}
	return obs{}, lastErr
}

func contains(xs []string, x string) bool {
	for _, y := range xs {
		if x == y {
			return true
		}
	}
	return false
}

func joinNodes(ns [][]string) []string {
	out := make([]string, 0, len(ns))
	for _, n := range ns {
		out = append(out, strings.Join(n, "/"))
	}
	sort.Strings(out)
	return out
}

func target(segs []string, slash bool, mode string, level int, rnd *rand.Rand) string {
	t := hx.SpellPath(segs, slash, level, rnd)
	if mode == "zip" {
		t += "?archive=zip"
	}
	return t
}

// ---- judgement ---------------------------------------------------------------------------------------------

type finding struct {
	key, what string
	on        *only
	observed  interface{}
	expected  interface{}
}

// judgeUnauth: NoDisclosure on one observation of a request without valid credentials
func judgeUnauth(c *pcase, on *only, o *obs) []finding {
	protected := joinNodes(c.Protected)
	modelSv := joinNodes(on.Want.Sv)
	var fs []finding
	for _, f := range o.Files {
		if !contains(protected, f) {
			continue
		}
		key := fmt.Sprintf("C03/disclosed/prot=%s/%s/creds=%s/%s %s", c.Prot, shapeKey(on.Shape), on.Creds, on.Method, on.Target)
		if on.Method == "GET" && (on.Want.Via == "index" || on.Want.Via == "archive") && contains(modelSv, f) {
			// the as-found model predicts exactly this disclosure through a recorded channel
			key = fmt.Sprintf("C03/via-%s/prot=%s/file=%s", on.Want.Via, c.Prot, f)
		}
		fs = append(fs, finding{key: key, on: on, observed: o, expected: map[string]interface{}{"protected": protected},
			what: fmt.Sprintf("%s %s on a site with %s (%s, gzip=%v), credentials: %s -> status %d and the body contains the content of protected %s",
				on.Method, on.Target, protText(c.Prot), shapeKey(on.Shape), on.Gzip, on.Creds, o.Status, f)})
	}
	return fs
}

func protText(id string) string {
	pd := protByID(id)
	if pd == nil {
		return id
	}
	switch pd.kind {
	case "basic":
		t := "basicauth " + pd.p
		if len(pd.ex) > 0 {
			t += " exclude " + strings.Join(pd.ex, ",")
		}
		return t
	case "internal":
		return "internal " + pd.p
	}
	return "no protection"
}

func sameResp(a, b *obs) bool {
	return a.Status == b.Status && a.Location == b.Location && strings.Join(a.Files, ",") == strings.Join(b.Files, ",") &&
		strings.Join(a.Names, ",") == strings.Join(b.Names, ",")
}

func drift(on *only, o *obs) string {
	if on.Method == "POST" {
		return "" // the tables are for GET; the file server answers 405 to anything but GET/HEAD
	}
	if o.Status != on.Want.St {
		return fmt.Sprintf("status %d, model %d", o.Status, on.Want.St)
	}
	if (o.Location != "") != on.Want.Rd {
		return fmt.Sprintf("redirect %q, model %v", o.Location, on.Want.Rd)
	}
	if on.Method == "GET" {
		if sv := joinNodes(on.Want.Sv); strings.Join(sv, ",") != strings.Join(o.Files, ",") {
			return fmt.Sprintf("served %v, model %v", o.Files, sv)
		}
	}
	return ""
}

// ---- the test -------------------------------------------------------------------------------------------------------

type job struct {
	c             *pcase
	i, s, m, a, v int
	level         int
}

var unauthCreds = []string{"none", "wrongpw", "wronguser", "garbage", "decoypw"}

const decoyPass = "the-decoy-sites-password"

func mkOnly(c *pcase, j job, seed int64, rnd *rand.Rand) *only {
	sh := c.Shapes[j.i]
	on := &only{Shape: sh, Gzip: gzipOn(sh, seed), Slash: j.s == 1, Mode: c.Modes[j.m], AE: c.Aes[j.a], Method: "GET",
		Want: c.Res[c.Tab[j.i][j.s][j.m][j.a][j.v]-1]}
	valid := j.v == 1
	switch {
	case valid && j.level > 0 && rnd.Intn(4) == 0:
		on.Creds = "right-lc"
	case valid:
		on.Creds = "right"
	case j.level == 0:
		on.Creds = "none"
	default:
		on.Creds = unauthCreds[rnd.Intn(len(unauthCreds))]
	}
	if !valid && j.level > 0 {
		switch rnd.Intn(8) {
		case 0:
			on.Method = "HEAD"
		case 1:
			on.Method = "POST"
		}
	}
	on.Target = target(c.Segs, on.Slash, on.Mode, j.level, rnd)
	return on
}

func TestC03(t *testing.T) {
	hx.Quiet()
	res := hx.NewResult("TestC03", "one evaluation = one request (path of <=L segments over 11 segment spellings x trailing slash x archive query x Accept-Encoding x credentials none/wrong/garbage/right) against one of 168 real sites = 7 protection variants (basicauth dir / dir+exclude / single file / nested dir, internal dir / nested dir, none) x 24 directive shapes (tryfiles none/default/non-rooted target, rewrite regexp, ext, browse+archives; gzip on every second) from Protect.tla; non-trivial = a protection directive is present and the model serves a file/archive or answers 401/404 by the protection")
	defer res.Write(t)

	if rp, ok := hx.LoadReplay[pcase](t); ok {
		replayOne(t, res, &rp)
		return
	}
	cases := hx.LoadCases[pcase](t, "Protect")
	seed := hx.Seed()
	rnd := hx.Rand()
	fx, err := newFixture(hx.Scratch(t), seed, nil, allShapes())
	if err != nil {
		res.Infra = "cannot start the fixture: " + err.Error()
		return
	}
	defer fx.close()

	// quick: every table entry of the paths with <= 1 segment + a seeded sample of the 2-segment
	// ones; thorough: every entry up to 2 segments + a seeded sample of the 3-segment ones
	shortLen, budget := 1, 140000
	if hx.Thorough() {
		shortLen, budget = 2, 3000000
	}
	var jobs []job
	var long []*pcase
	for ci := range cases {
		c := &cases[ci]
		if protByID(c.Prot) == nil {
			res.Infra = "unknown protection variant in the cases: " + c.Prot
			return
		}
		if len(c.Segs) > shortLen {
			long = append(long, c)
			continue
		}
		for i := range c.Tab {
			for s := range c.Tab[i] {
				for m := range c.Tab[i][s] {
					for a := range c.Tab[i][s][m] {
						for v := range c.Tab[i][s][m][a] {
							if c.Kind != "basic" && v == 1 {
								continue // credentials mean nothing to internal / unprotected sites
							}
							jobs = append(jobs, job{c, i, s, m, a, v, 1})
						}
					}
				}
			}
		}
	}
	nshort := len(jobs)
	for k := 0; len(long) > 0 && k < budget; k++ {
		c := long[rnd.Intn(len(long))]
		v := rnd.Intn(2)
		if c.Kind != "basic" {
			v = 0
		}
		jobs = append(jobs, job{c, rnd.Intn(len(c.Shapes)), rnd.Intn(2), rnd.Intn(len(c.Modes)), rnd.Intn(len(c.Aes)), v, rnd.Intn(3)})
	}
	res.AddExtra("cases_from_tlc", len(cases))
	res.AddExtra("table_entries_exhaustive_short_paths", nshort)
	res.AddExtra("table_entries_sampled_long_paths", len(jobs)-nshort)

	const workers = 12
	var mu sync.Mutex
	var infra string
	found := map[string]finding{}
	foundCase := map[string]*pcase{}
	perClass := map[string]int{}
	drifts, driftSamples := 0, []string{}
	agree := map[string]int{}
	requests, selftestHit := 0, 0
	pass := func(passNo int, jobs []job) {
		ch := make(chan job, 256)
		var wg sync.WaitGroup
		for w := 0; w < workers; w++ {
			wg.Add(1)
			wrnd := rand.New(rand.NewSource(seed*104729 + int64(w) + int64(passNo)*7919))
			go func() {
				defer wg.Done()
				cl := &client{f: fx}
				defer cl.close()
				for j := range ch {
					c := j.c
					// selftest: responses obtained WITH valid credentials are judged as if they had been
					// obtained without - the token search must then report the protected content
					on := mkOnly(c, j, seed, wrnd)
					on.Redeployed = passNo == 1
					on.Alt = wrnd.Intn(3) == 0
					o, err := cl.do(c.Prot, on)
					nreq := 1
					var fs []finding
					var d string
					if err == nil {
						if j.v == 0 || hx.SelfTest() {
							fs = judgeUnauth(c, on, &o)
						}
						if j.v == 1 && !hx.SelfTest() {
							// AuthTransparent: the twin site without the protection directive
							var o2 obs
							o2, err = cl.do("none", on)
							nreq++
							if err == nil && !sameResp(&o, &o2) {
								fs = append(fs, finding{key: fmt.Sprintf("C03/auth-not-transparent/prot=%s/%s/%s %s", c.Prot, shapeKey(on.Shape), on.Method, on.Target),
									on: on, observed: map[string]interface{}{"protected_site": o, "unprotected_twin": o2},
									what: fmt.Sprintf("%s %s with valid credentials on a site with %s (%s) is not served like on the same site without protection: status %d files %v vs status %d files %v",
										on.Method, on.Target, protText(c.Prot), shapeKey(on.Shape), o.Status, o.Files, o2.Status, o2.Files)})
							}
						}
						d = drift(on, &o)
					}
					mu.Lock()
					requests += nreq
					if err != nil {
						if infra == "" {
							infra = fmt.Sprintf("request %s %s failed: %v", on.Method, on.Target, err)
						}
						mu.Unlock()
						continue
					}
					if hx.SelfTest() {
						selftestHit += len(fs)
					} else {
						for _, f := range fs {
							class := strings.Join(strings.SplitN(f.key, "/", 5)[:4], "/") // clause, protection variant, shape / file
							if _, ok := found[f.key]; !ok && perClass[class] < 2 && len(found) < 300 {
								perClass[class]++
								found[f.key] = f
								foundCase[f.key] = c
							}
						}
					}
					if len(fs) == 0 {
						if d != "" {
							drifts++
							if len(driftSamples) < 8 {
								driftSamples = append(driftSamples, fmt.Sprintf("%s %s prot=%s %s creds=%s ae=%v: %s", on.Method, on.Target, c.Prot, shapeKey(on.Shape), on.Creds, on.AE, d))
							}
						} else if on.Method == "GET" {
							agree[fmt.Sprintf("%d/%s", on.Want.St, on.Want.K)]++
						}
					}
					mu.Unlock()
					nt := ""
					if c.Kind != "none" && (on.Want.K != "none" || on.Want.St == 401 || (c.Kind == "internal" && on.Want.St == 404)) {
						nt = fmt.Sprintf("%s|%s|%s|%v|%s|%v|%d", c.Prot, shapeKey(on.Shape), strings.Join(c.Segs, "/"), on.Slash, on.Mode, on.AE, j.v)
					}
					res.Count(nt)
					if nt != "" && j.level > 0 && (j.i+j.s+j.m+j.a)%11 == 0 && len(c.Segs) >= 2 {
						res.Sample(map[string]interface{}{"site": protText(c.Prot) + " " + shapeKey(on.Shape), "request": on.Method + " " + on.Target, "credentials": on.Creds,
							"model": on.Want, "observed": o})
					}
				}
			}()
		}
		for _, j := range jobs {
			ch <- j
		}
		close(ch)
		wg.Wait()
	}
	pass(0, jobs)
	// second pass after a redeploy: every directory and file of the tree is replaced by a copy
	// under the same name (staged next to it and renamed into place, as deployments do); the
	// table of Protect.tla applies unchanged - protection is by name, not by file identity
	if infra == "" && !hx.SelfTest() {
		if err := fx.redeploy(); err != nil {
			res.Infra = "redeploy of the fixture tree: " + err.Error()
			return
		}
		n2 := len(jobs) / 5
		idx := hx.SampleIdx(rnd, len(jobs), n2)
		var again []job
		for _, i := range idx {
			again = append(again, jobs[i])
		}
		res.AddExtra("table_entries_repeated_after_redeploy", len(again))
		pass(1, again)
	}

	for _, k := range hx.SortedKeys(found) {
		confirm(t, res, foundCase[k], found[k])
	}
	res.AddExtra("requests_sent", requests)
	res.AddExtra("model_drift", drifts)
	res.AddExtra("model_drift_samples", driftSamples)
	res.AddExtra("exact_agreement_by_status_and_kind", agree)
	res.Replayed = res.Evaluations
	if infra != "" {
		res.Infra = infra
		return
	}
	if hx.SelfTest() {
		res.AddExtra("selftest_noticed", selftestHit)
		if selftestHit == 0 {
			res.Infra = "selftest: responses carrying protected content were not noticed"
		}
		return
	}
	for _, k := range []string{"200/file", "200/archive", "401/none", "404/none"} {
		if agree[k] == 0 {
			res.Infra = "vacuous: no request with outcome " + k + " agreed with the model (fixture or decoder broken?)"
		}
	}
	if drifts*50 > res.Evaluations && res.MismatchCount() == 0 {
		res.Infra = fmt.Sprintf("the operational model no longer describes the code: %d of %d requests differ without violating the property, e.g. %v", drifts, res.Evaluations, driftSamples)
	}
}

// confirm re-runs the request on a fresh instance (only the sites involved) over a fresh
// connection; only a reproduced finding is reported.
func confirm(t *testing.T, res *hx.Result, c *pcase, f finding) {
	fx, err := newFixture(hx.Scratch(t), seedFor(f.on), []string{c.Prot, "none"}, []shape{f.on.Shape})
	if err != nil {
		return
	}
	defer fx.close()
	cl := &client{f: fx}
	defer cl.close()
	if f.on.Redeployed {
		// the same history in small: serve once, redeploy, ask again
		cl.do(c.Prot, f.on)
		if fx.redeploy() != nil {
			return
		}
		f.what += " (after the tree had been served and then redeployed: every file and directory replaced by a copy of the same name)"
	}
	o, err := cl.do(c.Prot, f.on)
	if err != nil {
		return
	}
	still := false
	if strings.HasPrefix(f.key, "C03/auth-not-transparent/") {
		o2, err := cl.do("none", f.on)
		still = err == nil && !sameResp(&o, &o2)
	} else {
		for _, g := range judgeUnauth(c, f.on, &o) {
			if g.key == f.key {
				still = true
			}
		}
	}
	if !still {
		return
	}
	cc := *c
	cc.Res, cc.Tab, cc.Shapes = nil, nil, nil
	cc.Only = f.on
	res.Add(hx.Mismatch{Key: f.key, What: f.what, Case: &cc, Expected: f.expected, Observed: f.observed})
}

// seedFor returns a fixture seed under which the shape gets the same gzip setting as in the
// original run (the host name of a site carries it)
func seedFor(on *only) int64 {
	if gzipOn(on.Shape, 0) == on.Gzip {
		return 0
	}
	return 1
}

func replayOne(t *testing.T, res *hx.Result, c *pcase) {
	if c.Only == nil {
		t.Fatalf("replay file has no single request")
	}
	res.Count("replay")
	res.Count("replay2")
	on := c.Only
	fx, err := newFixture(hx.Scratch(t), seedFor(on), []string{c.Prot, "none"}, []shape{on.Shape})
	if err != nil {
		res.Infra = "cannot start the fixture: " + err.Error()
		return
	}
	cl := &client{f: fx}
	if on.Redeployed {
		cl.do(c.Prot, on)
		if err := fx.redeploy(); err != nil {
			res.Infra = "redeploy: " + err.Error()
			return
		}
	}
	o, err := cl.do(c.Prot, on)
	cl.close()
	fx.close()
	if err != nil {
		res.Infra = err.Error()
		return
	}
	var fs []finding
	if strings.HasPrefix(on.Creds, "right") {
		fx2, err := newFixture(hx.Scratch(t), seedFor(on), []string{c.Prot, "none"}, []shape{on.Shape})
		if err == nil {
			cl2 := &client{f: fx2}
			o1, e1 := cl2.do(c.Prot, on)
			o2, e2 := cl2.do("none", on)
			cl2.close()
			fx2.close()
			if e1 == nil && e2 == nil && !sameResp(&o1, &o2) {
				fs = append(fs, finding{key: fmt.Sprintf("C03/auth-not-transparent/prot=%s/%s/%s %s", c.Prot, shapeKey(on.Shape), on.Method, on.Target),
					what: "replayed: authorised response differs from the unprotected twin", on: on, observed: map[string]interface{}{"protected_site": o1, "unprotected_twin": o2}})
			}
		}
	} else {
		fs = judgeUnauth(c, on, &o)
	}
	for _, f := range fs {
		cc := *c
		res.Add(hx.Mismatch{Key: f.key, What: "replayed: " + f.what, Case: &cc, Observed: f.observed})
	}
}
