package cx19push

// A minimal HTTP/2 client on top of golang.org/x/net/http2's Framer that ACCEPTS server push
// (net/http's own client switches push off): it writes the frames of one request, reads every
// frame the server sends until the request's stream and every promised stream have ended, and
// returns them in wire order. The module golang.org/x/net is part of casket's own module graph
// (see /repo/go.mod), nothing is fetched.

import (
	"bytes"
	"crypto/tls"
	"errors"
	"fmt"
	"io"
	"net"
	"strings"
	"time"

	"golang.org/x/net/http2"
	"golang.org/x/net/http2/hpack"
)

// hfield is one header field as it crossed the wire.
type hfield struct{ N, V string }

// h2frame is one frame received, reduced to what the check looks at.
type h2frame struct {
	Kind     string   `json:"kind"` // promise | headers | data | rst | goaway
	Stream   uint32   `json:"stream"`
	Promised uint32   `json:"promised,omitempty"`
	Fields   []hfield `json:"fields,omitempty"`
	Data     string   `json:"data,omitempty"`
	End      bool     `json:"end,omitempty"`
	Code     string   `json:"code,omitempty"`
}

// h2stream is what one stream (the request's own, or a promised one) carried.
type h2stream struct {
	ID       uint32
	Promise  []hfield // the promised request (pseudo headers first), nil for the client's own stream
	Status   string
	Header   []hfield
	Body     []byte
	Ended    bool
	Reset    string
	FirstIdx int // index (in wire order) of the first HEADERS/DATA frame of this stream, -1 if none
	PromIdx  int // index of the PUSH_PROMISE frame that announced it
}

type h2result struct {
	Frames  []h2frame
	Streams map[uint32]*h2stream
	Order   []uint32 // promised stream ids in the order of their PUSH_PROMISE frames
	Err     string
}

func (s *h2stream) get(name string) string {
	for _, f := range s.Header {
		if f.N == name {
			return f.V
		}
	}
	return ""
}

func fieldsGet(fs []hfield, name string) (string, bool) {
	for _, f := range fs {
		if f.N == name {
			return f.V, true
		}
	}
	return "", false
}

// h2opts describes the one request to send.
type h2opts struct {
	Addr      string // 127.0.0.1:port
	SNI       string
	Authority string
	Method    string
	Path      string
	Fields    []hfield // regular request header fields, lower-case names, in order
	NoPush    bool     // announce SETTINGS_ENABLE_PUSH = 0
	Timeout   time.Duration
}

func h2do(o h2opts) *h2result {
	res := &h2result{Streams: map[uint32]*h2stream{}}
	if o.Timeout == 0 {
		o.Timeout = 10 * time.Second
	}
	raw, err := net.DialTimeout("tcp", o.Addr, 5*time.Second)
	if err != nil {
		res.Err = "dial: " + err.Error()
		return res
	}
	defer raw.Close()
	raw.SetDeadline(time.Now().Add(o.Timeout))
	c := tls.Client(raw, &tls.Config{InsecureSkipVerify: true, ServerName: o.SNI, NextProtos: []string{"h2"}})
	if err := c.Handshake(); err != nil {
		res.Err = "tls: " + err.Error()
		return res
	}
	if p := c.ConnectionState().NegotiatedProtocol; p != "h2" {
		res.Err = "alpn: negotiated " + p
		return res
	}
	if _, err := io.WriteString(c, http2.ClientPreface); err != nil {
		res.Err = "preface: " + err.Error()
		return res
	}
	fr := http2.NewFramer(c, c)
	dec := hpack.NewDecoder(4096, nil)
	fr.ReadMetaHeaders = dec
	fr.MaxHeaderListSize = 1 << 20
	push := uint32(1)
	if o.NoPush {
		push = 0
	}
	if err := fr.WriteSettings(http2.Setting{ID: http2.SettingEnablePush, Val: push},
		http2.Setting{ID: http2.SettingInitialWindowSize, Val: 1 << 24}); err != nil {
		res.Err = "settings: " + err.Error()
		return res
	}
	fr.WriteWindowUpdate(0, 1<<24)
	var hb bytes.Buffer
	enc := hpack.NewEncoder(&hb)
	w := func(n, v string) { enc.WriteField(hpack.HeaderField{Name: n, Value: v}) }
	w(":method", o.Method)
	w(":scheme", "https")
	w(":authority", o.Authority)
	w(":path", o.Path)
	for _, f := range o.Fields {
		w(strings.ToLower(f.N), f.V)
	}
	if err := fr.WriteHeaders(http2.HeadersFrameParam{StreamID: 1, BlockFragment: hb.Bytes(), EndStream: true, EndHeaders: true}); err != nil {
		res.Err = "headers: " + err.Error()
		return res
	}
	res.Streams[1] = &h2stream{ID: 1, FirstIdx: -1, PromIdx: -1}
	open := func() bool {
		for _, s := range res.Streams {
			if !s.Ended && s.Reset == "" {
				return true
			}
		}
		return false
	}
	conv := func(fs []hpack.HeaderField) []hfield {
		out := make([]hfield, 0, len(fs))
		for _, f := range fs {
			out = append(out, hfield{f.Name, f.Value})
		}
		return out
	}
	touch := func(id uint32) *h2stream {
		s := res.Streams[id]
		if s == nil {
			s = &h2stream{ID: id, FirstIdx: -1, PromIdx: -1}
			res.Streams[id] = s
		}
		if s.FirstIdx < 0 {
			s.FirstIdx = len(res.Frames)
		}
		return s
	}
	for open() {
		f, err := fr.ReadFrame()
		if err != nil {
			var ne net.Error
			if errors.As(err, &ne) && ne.Timeout() {
				res.Err = "timeout waiting for frames"
			} else {
				res.Err = "read: " + err.Error()
			}
			return res
		}
		switch f := f.(type) {
		case *http2.SettingsFrame:
			if !f.IsAck() {
				fr.WriteSettingsAck()
			}
		case *http2.PingFrame:
			if !f.IsAck() {
				fr.WritePing(true, f.Data)
			}
		case *http2.MetaHeadersFrame:
			s := touch(f.StreamID)
			fs := conv(f.Fields)
			if v, ok := fieldsGet(fs, ":status"); ok && s.Status == "" {
				s.Status = v
				s.Header = fs
			}
			if f.StreamEnded() {
				s.Ended = true
			}
			res.Frames = append(res.Frames, h2frame{Kind: "headers", Stream: f.StreamID, Fields: fs, End: f.StreamEnded()})
		case *http2.PushPromiseFrame:
			// the framer hands PUSH_PROMISE over undecoded: decode the block in wire order (hpack state!)
			frag := append([]byte{}, f.HeaderBlockFragment()...)
			ended := f.HeadersEnded()
			for !ended {
				nf, err := fr.ReadFrame()
				if err != nil {
					res.Err = "read continuation: " + err.Error()
					return res
				}
				cf, ok := nf.(*http2.ContinuationFrame)
				if !ok {
					res.Err = fmt.Sprintf("expected CONTINUATION, got %T", nf)
					return res
				}
				frag = append(frag, cf.HeaderBlockFragment()...)
				ended = cf.HeadersEnded()
			}
			hf, err := dec.DecodeFull(frag)
			if err != nil {
				res.Err = "hpack: " + err.Error()
				return res
			}
			fs := conv(hf)
			res.Streams[f.PromiseID] = &h2stream{ID: f.PromiseID, Promise: fs, FirstIdx: -1, PromIdx: len(res.Frames)}
			res.Order = append(res.Order, f.PromiseID)
			res.Frames = append(res.Frames, h2frame{Kind: "promise", Stream: f.StreamID, Promised: f.PromiseID, Fields: fs})
		case *http2.DataFrame:
			s := touch(f.StreamID)
			s.Body = append(s.Body, f.Data()...)
			if f.StreamEnded() {
				s.Ended = true
			}
			d := string(f.Data())
			if len(d) > 64 {
				d = d[:64]
			}
			res.Frames = append(res.Frames, h2frame{Kind: "data", Stream: f.StreamID, Data: d, End: f.StreamEnded()})
		case *http2.RSTStreamFrame:
			s := touch(f.StreamID)
			s.Reset = f.ErrCode.String()
			res.Frames = append(res.Frames, h2frame{Kind: "rst", Stream: f.StreamID, Code: f.ErrCode.String()})
		case *http2.GoAwayFrame:
			res.Frames = append(res.Frames, h2frame{Kind: "goaway", Code: f.ErrCode.String()})
			res.Err = "goaway " + f.ErrCode.String() + " " + string(f.DebugData())
			return res
		}
	}
	return res
}
