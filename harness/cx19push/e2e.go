package cx19push

// End to end: a running casket site (tls self_signed, the real chain with basicauth and header in
// front of push) asked over real HTTP/2 by a client that accepts PUSH_PROMISE frames (h2wire.go),
// next to a twin site that differs only in having no push lines.

import (
	"fmt"
	"net/url"
	"os"
	"path/filepath"
	"sort"
	"strings"

	"verifharness/hx"
)

// makeRoot writes the site root of the specification (section 1).
func makeRoot(dir string) error {
	files := map[string]string{
		"index.html":   "INDEX",
		"a.css":        "ACSS-content",
		"b.js":         "BJS-content",
		"d/index.html": "D-INDEX",
		"d/p.html":     "D-P",
		"sec/s.css":    "SECRET-style",
	}
	for name, body := range files {
		p := filepath.Join(dir, filepath.FromSlash(name))
		if err := os.MkdirAll(filepath.Dir(p), 0o755); err != nil {
			return err
		}
		if err := os.WriteFile(p, []byte(body), 0o644); err != nil {
			return err
		}
	}
	return nil
}

// liveBatch is one running casket instance: a vhost per site of the batch (s<i>.push.test) and the
// twin plain.test, all on one TLS port. (One instance at a time: every instance with a TLS site also
// binds the process-wide plaintext redirect port.)
type liveBatch struct {
	site *hx.Site
	port int
	text string
}

// liveSite is one vhost of a running batch.
type liveSite struct {
	b    *liveBatch
	host string
}

func batchText(port int, root string, sites []*tcase) string {
	var b strings.Builder
	block := func(host string, lines []lineJ) {
		fmt.Fprintf(&b, "%s:%d {\n\tbind 127.0.0.1\n\ttls self_signed\n\troot %s\n\tbasicauth /sec u p\n\theader / X-Site yes\n", host, port, root)
		if lines != nil {
			b.WriteString(hx.Indent(siteText(lines)))
		}
		b.WriteString("\tverifpushinner\n}\n")
	}
	for i, s := range sites {
		block(fmt.Sprintf("s%d.push.test", i), s.Lines)
	}
	block("plain.test", nil)
	return b.String()
}

// startBatch starts the sites (each with its push lines) and plain.test (without any) on one TLS port.
func startBatch(root string, sites []*tcase) (*liveBatch, error) {
	var lastErr error
	for try := 0; try < 4; try++ {
		port := hx.StablePort()
		text := batchText(port, root, sites)
		s, err := hx.StartHTTP(text, "")
		if err == nil {
			return &liveBatch{site: s, port: port, text: text}, nil
		}
		lastErr = err
		if !strings.Contains(err.Error(), "address already in use") {
			break
		}
	}
	return nil, lastErr
}

func (b *liveBatch) stop() { b.site.Stop() }
func (b *liveBatch) vhost(i int) *liveSite {
	return &liveSite{b: b, host: fmt.Sprintf("s%d.push.test", i)}
}

func (l *liveSite) do(host, method, path string, fields []hfield, noPush bool) *h2result {
	if host == "" {
		host = l.host
	}
	return h2do(h2opts{Addr: fmt.Sprintf("127.0.0.1:%d", l.b.port), SNI: host, Authority: fmt.Sprintf("%s:%d", host, l.b.port),
		Method: method, Path: path, Fields: fields, NoPush: noPush})
}

// requestFields renders the client's header and the script of the wrapped handler as HTTP/2 fields.
func requestFields(c *tcase) []hfield {
	var fs []hfield
	names := make([]string, 0, len(c.Hdr))
	for k := range c.Hdr {
		names = append(names, k)
	}
	sort.Strings(names)
	for _, k := range names {
		for _, v := range c.Hdr[k] {
			fs = append(fs, hfield{strings.ToLower(k), v})
		}
	}
	if c.Mode == "fs" {
		return fs
	}
	for _, l := range c.linkTexts() {
		fs = append(fs, hfield{"x-inner-link", url.QueryEscape(l)})
	}
	switch c.Mode {
	case "ret404":
		fs = append(fs, hfield{"x-inner-ret", "404"})
	default:
		fs = append(fs, hfield{"x-inner-body", "hello"})
		if c.Mode == "flush" {
			fs = append(fs, hfield{"x-inner-flush", "1"})
		}
	}
	return fs
}

// obsPromise is one PUSH_PROMISE as the client saw it.
type obsPromise struct {
	Parent    uint32   `json:"parent"`
	Method    string   `json:"method"`
	Authority string   `json:"authority"`
	Path      string   `json:"path"`
	Fields    []string `json:"fields"`
	FrameIdx  int      `json:"frame"`
	Status    string   `json:"status"`
	Body      string   `json:"body"`
	SawXpush  string   `json:"saw_xpush,omitempty"`
}

type obsLive struct {
	Err       string       `json:"err,omitempty"`
	Promises  []obsPromise `json:"promises"`
	MainFirst int          `json:"main_first_frame"`
	Status    string       `json:"status"`
	Body      string       `json:"body"`
	Header    []string     `json:"header"`
	Frames    []h2frame    `json:"frames,omitempty"`
}

func respFields(fs []hfield) []string {
	var out []string
	for _, f := range fs {
		if f.N == "date" || f.N == "x-saw-xpush" {
			continue
		}
		out = append(out, f.N+": "+f.V)
	}
	sort.Strings(out)
	return out
}

func observe(r *h2result) obsLive {
	o := obsLive{Err: r.Err, MainFirst: -1}
	if len(r.Frames) <= 40 {
		o.Frames = r.Frames
	}
	for _, id := range r.Order {
		s := r.Streams[id]
		p := obsPromise{FrameIdx: s.PromIdx, Status: s.Status, Body: string(s.Body), SawXpush: s.get("x-saw-xpush")}
		if s.PromIdx >= 0 && s.PromIdx < len(r.Frames) {
			p.Parent = r.Frames[s.PromIdx].Stream
		}
		for _, f := range s.Promise {
			switch f.N {
			case ":method":
				p.Method = f.V
			case ":authority":
				p.Authority = f.V
			case ":path":
				p.Path = f.V
			case ":scheme":
			default:
				p.Fields = append(p.Fields, f.N+": "+f.V)
			}
		}
		sort.Strings(p.Fields)
		o.Promises = append(o.Promises, p)
	}
	if m := r.Streams[1]; m != nil {
		o.MainFirst, o.Status, o.Body, o.Header = m.FirstIdx, m.Status, string(m.Body), respFields(m.Header)
	}
	return o
}

// promisesDiffer compares the PUSH_PROMISE frames with the accepted calls of one expectation.
func (l *liveSite) promisesDiffer(c *tcase, o *obsLive) string {
	var exp []callJ
	if c.Script != "from1" {
		for _, x := range c.Calls {
			if x.Res == "ok" {
				exp = append(exp, x)
			}
		}
	}
	if len(exp) != len(o.Promises) {
		return fmt.Sprintf("%d PUSH_PROMISE frames, the model has %d accepted pushes", len(o.Promises), len(exp))
	}
	own := fmt.Sprintf("%s:%d", l.host, l.b.port)
	for i, e := range exp {
		p := o.Promises[i]
		auth := own
		if e.Auth != "self" {
			auth = e.Auth
		}
		switch {
		case p.Parent != 1:
			return fmt.Sprintf("promise %d was sent on stream %d (a pushed stream)", i+1, p.Parent)
		case p.Method != e.M || p.Path != e.Ppath || p.Authority != auth:
			return fmt.Sprintf("promise %d is %s %s%s, the model has %s %s%s", i+1, p.Method, p.Authority, p.Path, e.M, auth, e.Ppath)
		case strings.Join(p.Fields, "\n") != strings.Join(wireFields(e.H), "\n"):
			return fmt.Sprintf("promise %d (%s %s) carries %q, the model has %q", i+1, p.Method, p.Path, p.Fields, wireFields(e.H))
		case e.Ph == "rule" && !(p.FrameIdx < o.MainFirst):
			return fmt.Sprintf("rule promise %d (%s) is frame %d, the response began with frame %d", i+1, p.Path, p.FrameIdx, o.MainFirst)
		}
	}
	return ""
}

// judgeLive asks the running site the request of the run cases cs (the same request under every rule
// order the model knows) and evaluates the clauses on the frames.
func (l *liveSite) judgeLive(cs []*tcase) []finding {
	c := cs[0]
	fields := requestFields(c)
	noPush := c.Script == "from1"
	o := observe(l.do("", "GET", c.Path, fields, noPush))
	if o.Err != "" {
		return []finding{{"e2e-infra", o.Err, o}}
	}
	var out []finding
	// PushedSetExact on the wire: the promises are the accepted pushes of one of the orders
	var match *tcase
	why := ""
	for _, x := range cs {
		d := l.promisesDiffer(x, &o)
		if d == "" {
			match = x
			break
		}
		if why == "" {
			why = d
		}
	}
	if match == nil {
		out = append(out, finding{"e2e-promises", why, o})
	}
	// MainResponseUnaltered: the twin without push lines answers the same
	tw := observe(l.do("plain.test", "GET", c.Path, fields, noPush))
	if tw.Err != "" {
		return append(out, finding{"e2e-infra", "twin: " + tw.Err, tw})
	}
	if len(tw.Promises) != 0 {
		out = append(out, finding{"e2e-main", "the twin without push lines sent PUSH_PROMISE frames", tw})
	}
	if o.Status != tw.Status || o.Body != tw.Body || strings.Join(o.Header, "\n") != strings.Join(tw.Header, "\n") {
		out = append(out, finding{"e2e-main", fmt.Sprintf("with push: %s %q %q; twin: %s %q %q", o.Status, o.Body, o.Header, tw.Status, tw.Body, tw.Header), o})
	}
	// a pushed response is what the client gets when it asks itself with the promised header (C03: a
	// resource behind basicauth is not handed out by way of push); the marker arrives with rule pushes
	if match != nil {
		var exp []callJ
		if match.Script != "from1" {
			for _, x := range match.Calls {
				if x.Res == "ok" {
					exp = append(exp, x)
				}
			}
		}
		for i, e := range exp {
			p := o.Promises[i]
			if e.Auth != "self" {
				continue
			}
			var fs []hfield
			for _, f := range p.Fields {
				kv := strings.SplitN(f, ": ", 2)
				fs = append(fs, hfield{kv[0], kv[1]})
			}
			direct := observe(l.do("plain.test", p.Method, p.Path, fs, true))
			if direct.Err != "" {
				out = append(out, finding{"e2e-infra", "direct: " + direct.Err, direct})
				continue
			}
			if p.Status != direct.Status || p.Body != direct.Body {
				out = append(out, finding{"e2e-pushed", fmt.Sprintf("pushed %s %s answered %s %q, asked directly with the same header: %s %q", p.Method, p.Path, p.Status, p.Body, direct.Status, direct.Body), o})
			}
			if p.SawXpush != "" {
				want := "false"
				if e.Ph == "rule" || hasKey(e.H, "X-Push") {
					want = "true"
				}
				if p.SawXpush != want {
					out = append(out, finding{"e2e-marker", fmt.Sprintf("the promised request for %s (%s phase) reached the chain with X-Push present=%s, expected %s", p.Path, e.Ph, p.SawXpush, want), o})
				}
			}
		}
	}
	return out
}

func hasKey(h hdrMap, k string) bool { _, ok := h[k]; return ok }
