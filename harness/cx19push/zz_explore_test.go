package cx19push

import (
	"fmt"
	"net/url"
	"os"
	"path/filepath"
	"testing"

	"verifharness/hx"
)

func TestZZExplore(t *testing.T) {
	if os.Getenv("ZZ") == "" {
		t.Skip()
	}
	hx.Quiet()
	root := t.TempDir()
	os.MkdirAll(filepath.Join(root, "sec"), 0o755)
	os.MkdirAll(filepath.Join(root, "d"), 0o755)
	os.WriteFile(filepath.Join(root, "index.html"), []byte("INDEX"), 0o644)
	os.WriteFile(filepath.Join(root, "a.css"), []byte("ACSS"), 0o644)
	os.WriteFile(filepath.Join(root, "b.js"), []byte("BJS"), 0o644)
	os.WriteFile(filepath.Join(root, "sec", "s.css"), []byte("SECRET"), 0o644)
	p := hx.StablePort()
	cf := fmt.Sprintf(`push.test:%d {
	bind 127.0.0.1
	tls self_signed
	root %s
	basicauth /sec u p
	push / /a.css /sec/s.css
	push /a /b.js
	verifpushinner
}
plain.test:%d {
	bind 127.0.0.1
	tls self_signed
	root %s
	basicauth /sec u p
	verifpushinner
}
`, p, root, p, root)
	s, err := hx.StartHTTP(cf, "")
	if err != nil {
		t.Fatal(err)
	}
	defer s.Stop()
	addr := fmt.Sprintf("127.0.0.1:%d", p)
	show := func(o h2opts) {
		o.Addr = addr
		if o.SNI == "" {
			o.SNI = "push.test"
		}
		if o.Authority == "" {
			o.Authority = fmt.Sprintf("%s:%d", o.SNI, p)
		}
		o.Method = "GET"
		r := h2do(o)
		fmt.Printf("== %s %s %v -> err=%q\n", o.SNI, o.Path, o.Fields, r.Err)
		for i, f := range r.Frames {
			fmt.Printf("   %2d %+v\n", i, f)
		}
	}
	show(h2opts{Path: "/index.html", Fields: []hfield{{"accept-encoding", "identity"}, {"cookie", "a=b"}, {"authorization", "Basic dTpw"}}})
	show(h2opts{Path: "/", Fields: []hfield{{"x-inner-link", url.QueryEscape("</b.js>; rel=preload, <HTTPS://other.test/y>; rel=preload")}, {"x-inner-body", "hello"}, {"x-inner-flush", "1"}}})
	show(h2opts{Path: "/", Fields: []hfield{{"x-inner-link", url.QueryEscape("<rel.css>, </b.js>")}, {"x-inner-body", "hello"}}})
	show(h2opts{Path: "/", Fields: []hfield{{"x-push", "1"}}})
	show(h2opts{Path: "/", Fields: []hfield{{"host", "evil.test"}}})
	show(h2opts{Path: "/", NoPush: true})
	show(h2opts{SNI: "plain.test", Path: "/"})
}
