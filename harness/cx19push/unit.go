package cx19push

// Replay against the real push.Middleware built by the real setup function from Casketfile text,
// with a recording http.Pusher in place of net/http's.

import (
	"fmt"
	"net/http"
	"net/http/httptest"
	"sort"
	"strings"

	"github.com/tmpim/casket"
	"github.com/tmpim/casket/caskethttp/httpserver"
	"github.com/tmpim/casket/caskethttp/push"
)

// builtSite is the outcome of the real setup function for one site text.
type builtSite struct {
	err    error
	panicv string
	mw     push.Middleware
}

// buildSite runs casket's setup of the push directive on the text (as the package's own tests do:
// casket.NewTestController) with the site root set to root.
func buildSite(text, root string) (b builtSite) {
	defer func() {
		if p := recover(); p != nil {
			b.panicv = fmt.Sprint(p)
		}
	}()
	c := casket.NewTestController("http", text)
	cfg := httpserver.GetConfig(c)
	cfg.Root = root
	action, err := casket.DirectiveAction("http", "push")
	if err != nil {
		b.err = err
		return
	}
	if err := action(c); err != nil {
		b.err = err
		return
	}
	mids := cfg.Middleware()
	if len(mids) == 0 {
		b.err = fmt.Errorf("setup added no middleware")
		return
	}
	h := mids[len(mids)-1](httpserver.HandlerFunc(func(http.ResponseWriter, *http.Request) (int, error) { return 0, nil }))
	mw, ok := h.(push.Middleware)
	if !ok {
		b.err = fmt.Errorf("setup built a %T", h)
		return
	}
	b.mw = mw
	return
}

// rulesOf turns the real rules into the model's form, sorted by path.
func rulesOf(rs []push.Rule) []ruleJ {
	var out []ruleJ
	for _, r := range rs {
		rj := ruleJ{Path: r.Path, Res: []resJ{}}
		for _, x := range r.Resources {
			rj.Res = append(rj.Res, resJ{T: x.Path, M: x.Method, H: cloneHeader(x.Header)})
		}
		out = append(out, rj)
	}
	sort.Slice(out, func(i, j int) bool { return out[i].Path < out[j].Path })
	return out
}

func rulesEqual(a, b []ruleJ) bool {
	if len(a) != len(b) {
		return false
	}
	for i := range a {
		if a[i].Path != b[i].Path || len(a[i].Res) != len(b[i].Res) {
			return false
		}
		for j := range a[i].Res {
			x, y := a[i].Res[j], b[i].Res[j]
			if x.T != y.T || x.M != y.M || !hdrEqual(x.H, y.H) {
				return false
			}
		}
	}
	return true
}

func sortedRules(rs []ruleJ) []ruleJ {
	out := append([]ruleJ{}, rs...)
	for i := range out {
		if out[i].Res == nil {
			out[i].Res = []resJ{}
		}
	}
	sort.Slice(out, func(i, j int) bool { return out[i].Path < out[j].Path })
	return out
}

// inOrder returns the middleware with its rule slice in the order the model chose (the setup ranges
// over a map: any order can come out of it).
func inOrder(mw push.Middleware, order []string) (push.Middleware, bool) {
	if len(order) != len(mw.Rules) {
		return mw, false
	}
	rs := make([]push.Rule, 0, len(order))
	for _, p := range order {
		found := false
		for _, r := range mw.Rules {
			if r.Path == p {
				rs = append(rs, r)
				found = true
				break
			}
		}
		if !found {
			return mw, false
		}
	}
	mw.Rules = rs
	return mw, true
}

// obsCall is one call the middleware made to the Pusher.
type obsCall struct {
	Ph  string `json:"ph"`
	M   string `json:"m"`
	T   string `json:"t"`
	H   hdrMap `json:"h"`
	Res string `json:"res"`
}

// recPusher records Push calls and answers like the writer kind it stands for.
type recPusher struct {
	http.ResponseWriter
	kind   string // h1w | h2 | h2p
	script string
	calls  []obsCall
	nnext  *int
}

func (p *recPusher) Flush() {
	if f, ok := p.ResponseWriter.(http.Flusher); ok {
		f.Flush()
	}
}

func (p *recPusher) Push(target string, opts *http.PushOptions) error {
	if opts == nil {
		opts = &http.PushOptions{}
	}
	n := len(p.calls) + 1
	ph := "rule"
	if *p.nnext > 0 {
		ph = "link"
	}
	c := obsCall{Ph: ph, M: opts.Method, T: target, H: cloneHeader(opts.Header)}
	var err error
	switch p.kind {
	case "h1w":
		// one of casket's own wrappers around an HTTP/1.1 writer: ask the real one
		err = (&httpserver.ResponseWriterWrapper{ResponseWriter: httptest.NewRecorder()}).Push(target, opts)
		c.Res = "notsupported"
		if err == nil {
			c.Res = "ok"
		}
	case "h2p":
		err, c.Res = errRecursive, "recursive"
	default:
		fails := p.script == "from1" || (p.script == "only1" && n == 1) || (p.script == "only2" && n == 2)
		if fails {
			err, c.Res = errFull, "full"
		} else if v := h2Verdict(target, opts); v != "ok" {
			err, c.Res = fmt.Errorf("http2: push refused: %s", v), v
		} else {
			c.Res = "ok"
		}
	}
	p.calls = append(p.calls, c)
	return err
}

// obsRun is what one ServeHTTP call did.
type obsRun struct {
	Calls  []obsCall   `json:"calls"`
	NNext  int         `json:"next_calls"`
	NextAt int         `json:"next_at"`
	Code   int         `json:"code"`
	Err    string      `json:"err,omitempty"`
	Status int         `json:"status"`
	Body   string      `json:"body"`
	Header http.Header `json:"header"`
	Panic  string      `json:"panic,omitempty"`
}

// stubNext is the wrapped handler of the replay: it does what the case's inner mode says.
func stubNext(mode string, links []string, nnext, nextAt *int, calls func() int) httpserver.Handler {
	return httpserver.HandlerFunc(func(w http.ResponseWriter, r *http.Request) (int, error) {
		*nnext++
		*nextAt = calls()
		for _, l := range links {
			w.Header().Add("Link", l)
		}
		switch mode {
		case "ret404":
			return 404, nil
		case "fs":
			w.WriteHeader(200)
			w.Write([]byte("fs:" + r.URL.Path))
		default:
			w.Header().Set("Content-Type", "text/plain")
			w.WriteHeader(200)
			w.Write([]byte("hello"))
			if mode == "flush" {
				if f, ok := w.(http.Flusher); ok {
					f.Flush()
				}
			}
		}
		return 0, nil
	})
}

// serveOnce runs the middleware once. w: h1 | h1w | h2 | h2p.
func serveOnce(mw push.Middleware, path, w string, hdr hdrMap, mode string, links []string, script string) (o obsRun) {
	rec := httptest.NewRecorder()
	o.NextAt = -1
	var rp *recPusher
	calls := func() int {
		if rp == nil {
			return 0
		}
		return len(rp.calls)
	}
	mw.Next = stubNext(mode, links, &o.NNext, &o.NextAt, calls)
	r := httptest.NewRequest("GET", "https://push.test"+path, nil)
	r.Header = hdr.httpHeader()
	var writer http.ResponseWriter = rec
	if w != "h1" {
		rp = &recPusher{ResponseWriter: rec, kind: w, script: script, nnext: &o.NNext}
		writer = rp
	}
	func() {
		defer func() {
			if p := recover(); p != nil {
				o.Panic = fmt.Sprint(p)
			}
		}()
		code, err := mw.ServeHTTP(writer, r)
		o.Code = code
		if err != nil {
			o.Err = err.Error()
		}
	}()
	if rp != nil {
		o.Calls = rp.calls
	}
	o.Status, o.Body, o.Header = rec.Code, rec.Body.String(), rec.Header().Clone()
	return o
}

// bareNext runs the wrapped handler alone: the response the client would get without the directive.
func bareNext(path string, hdr hdrMap, mode string, links []string) (o obsRun) {
	rec := httptest.NewRecorder()
	r := httptest.NewRequest("GET", "https://push.test"+path, nil)
	r.Header = hdr.httpHeader()
	code, err := stubNext(mode, links, &o.NNext, &o.NextAt, func() int { return 0 }).ServeHTTP(rec, r)
	o.Code = code
	if err != nil {
		o.Err = err.Error()
	}
	o.Status, o.Body, o.Header = rec.Code, rec.Body.String(), rec.Header().Clone()
	return o
}

func callsDiffer(exp []callJ, obs []obsCall) string {
	if len(exp) != len(obs) {
		return fmt.Sprintf("%d calls to the Pusher, the model has %d", len(obs), len(exp))
	}
	for i := range exp {
		e, o := exp[i], obs[i]
		switch {
		case e.M != o.M || e.T != o.T:
			return fmt.Sprintf("call %d is %s %q, the model has %s %q", i+1, o.M, o.T, e.M, e.T)
		case !hdrEqual(e.H, o.H):
			return fmt.Sprintf("call %d (%s %q) carries header %v, the model has %v", i+1, o.M, o.T, o.H, e.H)
		case e.Ph != o.Ph:
			return fmt.Sprintf("call %d (%s %q) was made in the %s phase (before/after the wrapped handler), the model has %s", i+1, o.M, o.T, o.Ph, e.Ph)
		case e.Res != o.Res:
			return fmt.Sprintf("call %d (%s %q): the pusher answered %s, the model has %s", i+1, o.M, o.T, o.Res, e.Res)
		}
	}
	return ""
}

// verdict of one clause on one run case.
type finding struct {
	clause string
	what   string
	obs    interface{}
}

// judgeUnit replays one run case against the (already built) middleware and evaluates every clause.
func judgeUnit(mw push.Middleware, c *tcase) []finding {
	var out []finding
	m, ok := inOrder(mw, c.Order)
	if !ok {
		return []finding{{"rules", fmt.Sprintf("the real rule paths %v are not the model's %v", rulePaths(mw.Rules), c.Order), nil}}
	}
	links := c.linkTexts()
	o := serveOnce(m, c.Path, c.W, c.Hdr, c.Mode, links, c.Script)
	if o.Panic != "" {
		return []finding{{"panic", "Middleware.ServeHTTP panicked: " + o.Panic, o}}
	}
	// PushedSetExact (+ phase = RulePushesBeforeNext, + result = the pusher model)
	if d := callsDiffer(c.Calls, o.Calls); d != "" {
		cl := "PushedSetExact"
		if c.W == "h1w" || c.W == "h1" {
			cl = "NoPushWhenUnsupported"
		}
		out = append(out, finding{cl, d, o})
	}
	if c.W == "h1" && len(o.Calls) != 0 {
		out = append(out, finding{"NoPushWhenUnsupported", "a writer without Push got pushes", o})
	}
	// MainResponseUnaltered / PushErrorsContained: next ran once, its response and result are the client's
	bare := bareNext(c.Path, c.Hdr, c.Mode, links)
	if o.NNext != 1 {
		out = append(out, finding{"MainResponseUnaltered", fmt.Sprintf("the wrapped handler ran %d times", o.NNext), o})
	} else if o.Code != bare.Code || o.Err != bare.Err || o.Status != bare.Status || o.Body != bare.Body || !hdrEqual(cloneHeader(o.Header), cloneHeader(bare.Header)) {
		out = append(out, finding{"MainResponseUnaltered", fmt.Sprintf("with push: (%d, %q) status %d body %q header %v; the wrapped handler alone: (%d, %q) status %d body %q header %v",
			o.Code, o.Err, o.Status, o.Body, o.Header, bare.Code, bare.Err, bare.Status, bare.Body, bare.Header), o})
	}
	if fmt.Sprint(o.Code) != c.Ret {
		out = append(out, finding{"MainResponseUnaltered", fmt.Sprintf("returned code %d, the model has %s", o.Code, c.Ret), o})
	}
	if len(o.Calls) > 0 && o.NextAt != c.NextAt {
		out = append(out, finding{"RulePushesBeforeNext", fmt.Sprintf("the wrapped handler ran after %d pushes, the model has %d", o.NextAt, c.NextAt), o})
	}
	// GuardMarkerArrives, LinkSemantics, ClientCannotSuppressOrForge: declaratively on the observation
	for i, oc := range o.Calls {
		if oc.Ph == "rule" {
			if _, has := oc.H["X-Push"]; !has {
				out = append(out, finding{"GuardMarkerArrives", fmt.Sprintf("rule push %d (%s %q) does not carry the X-Push marker the setup gave the resource: header %v", i+1, oc.M, oc.T, oc.H), o})
				break
			}
		}
	}
	for i, oc := range o.Calls {
		if oc.Ph != "link" {
			continue
		}
		lt := strings.ToLower(oc.T)
		if strings.HasPrefix(lt, "//") || strings.HasPrefix(lt, "http://") || strings.HasPrefix(lt, "https://") {
			out = append(out, finding{"LinkSemantics", fmt.Sprintf("link push %d names another origin: %q", i+1, oc.T), o})
			break
		}
	}
	for i, oc := range o.Calls {
		for k := range oc.H {
			if k == "Cookie" || k == "Authorization" || k == "X-Other" {
				if oc.Ph == "link" || !operatorName(m.Rules, k) {
					out = append(out, finding{"ClientCannotSuppressOrForge", fmt.Sprintf("push %d (%s %q) forwards the client's %s", i+1, oc.M, oc.T, k), o})
				}
			}
		}
	}
	// NoPushOnPushed: net/http serves every accepted promise through the same chain on a pushed stream
	ki := 0
	for i, oc := range o.Calls {
		if oc.Res != "ok" {
			continue
		}
		auth, ppath := promisedOf(oc.T)
		if auth != "self" {
			continue
		}
		ko := serveOnce(m, ppath, "h2p", oc.H, "fs", nil, "none")
		var exp []callJ
		if ki < len(c.Kids) {
			exp = c.Kids[ki].Calls
			if c.Kids[ki].Of != i+1 || c.Kids[ki].Path != ppath {
				out = append(out, finding{"NoPushOnPushed", fmt.Sprintf("promised request %d is call %d %q, the model has call %d %q", ki+1, i+1, ppath, c.Kids[ki].Of, c.Kids[ki].Path), ko})
			}
		} else {
			out = append(out, finding{"NoPushOnPushed", fmt.Sprintf("promised request for %q has no counterpart in the model", ppath), ko})
		}
		ki++
		if ko.Panic != "" {
			out = append(out, finding{"NoPushOnPushed", "panic serving the promised request: " + ko.Panic, ko})
			continue
		}
		if d := callsDiffer(exp, ko.Calls); d != "" {
			out = append(out, finding{"NoPushOnPushed", fmt.Sprintf("the promised request for %q (call %d, %s phase): %s", ppath, i+1, oc.Ph, d), ko})
		}
		if ko.NNext != 1 {
			out = append(out, finding{"NoPushOnPushed", fmt.Sprintf("the promised request for %q reached the wrapped handler %d times", ppath, ko.NNext), ko})
		}
	}
	if ki != len(c.Kids) && callsDiffer(c.Calls, o.Calls) == "" {
		out = append(out, finding{"NoPushOnPushed", fmt.Sprintf("%d promised requests on this site, the model has %d", ki, len(c.Kids)), o})
	}
	return out
}

func operatorName(rs []push.Rule, k string) bool {
	for _, r := range rs {
		for _, x := range r.Resources {
			if _, ok := x.Header[k]; ok {
				return true
			}
		}
	}
	return false
}

func rulePaths(rs []push.Rule) []string {
	var out []string
	for _, r := range rs {
		out = append(out, r.Path)
	}
	return out
}

// judgeParse compares the model's reading of every Link line with the real parser's.
func judgeParse(c *tcase) *finding {
	for i, text := range c.linkTexts() {
		got := push.VerifParseLinkHeader(text)
		var exp []entJ
		if i < len(c.Parsed) {
			exp = c.Parsed[i]
		}
		bad := len(got) != len(exp)
		for j := 0; !bad && j < len(exp); j++ {
			var keys []string
			for k := range got[j].Params {
				keys = append(keys, k)
			}
			sort.Strings(keys)
			ek := append([]string{}, exp[j].Keys...)
			sort.Strings(ek)
			bad = got[j].URI != exp[j].Uri || strings.Join(keys, "\x00") != strings.Join(ek, "\x00")
		}
		if bad {
			return &finding{"link-parse", fmt.Sprintf("parseLinkHeader(%q) = %v, the model has %v", text, got, exp), got}
		}
	}
	return nil
}
