package cx19push

// The cases specs/PushRules.tla emits (kind "site" and kind "run"), their rendering as Casketfile
// text / header values, and an independent re-statement of what net/http's HTTP/2 server answers to
// a Push call (h2Verdict) for the recording pusher; the end-to-end part checks that re-statement
// against the real server.

import (
	"encoding/json"
	"errors"
	"fmt"
	"net/http"
	"net/url"
	"sort"
	"strings"
)

// hdrMap is a header as the model prints it: an object name -> values, or [] for the header without keys.
type hdrMap map[string][]string

func (h *hdrMap) UnmarshalJSON(b []byte) error {
	s := strings.TrimSpace(string(b))
	if s == "[]" || s == "null" {
		*h = hdrMap{}
		return nil
	}
	m := map[string][]string{}
	if err := json.Unmarshal(b, &m); err != nil {
		return err
	}
	*h = m
	return nil
}

type itemJ struct {
	K string   `json:"k"`
	A []string `json:"a"`
}
type lineJ struct {
	Hp  bool     `json:"hp"`
	P   string   `json:"p"`
	Inl []string `json:"inl"`
	Blk []itemJ  `json:"blk"`
}
type resJ struct {
	T string `json:"t"`
	M string `json:"m"`
	H hdrMap `json:"h"`
}
type ruleJ struct {
	Path string `json:"path"`
	Res  []resJ `json:"res"`
}
type callJ struct {
	Ph    string `json:"ph"`
	M     string `json:"m"`
	T     string `json:"t"`
	H     hdrMap `json:"h"`
	Res   string `json:"res"`
	Auth  string `json:"auth,omitempty"`
	Ppath string `json:"ppath,omitempty"`
}
type entJ struct {
	Uri  string   `json:"uri"`
	Keys []string `json:"keys"`
}
type kidJ struct {
	Of     int     `json:"of"`
	Path   string  `json:"path"`
	Marked bool    `json:"marked"`
	Calls  []callJ `json:"calls"`
}

// tcase is one CASE line of the model.
type tcase struct {
	Kind string `json:"kind"`
	Ids  []int  `json:"ids"`
	// kind site
	Ok    bool    `json:"ok,omitempty"`
	Err   string  `json:"err,omitempty"`
	Lines []lineJ `json:"lines,omitempty"`
	Rules []ruleJ `json:"rules,omitempty"`
	// kind run
	Order  []string   `json:"order,omitempty"`
	Path   string     `json:"path,omitempty"`
	W      string     `json:"w,omitempty"`
	Ch     string     `json:"ch,omitempty"`
	Hdr    hdrMap     `json:"hdr,omitempty"`
	Mode   string     `json:"mode,omitempty"`
	Links  [][]string `json:"links,omitempty"`
	Script string     `json:"script,omitempty"`
	Parsed [][]entJ   `json:"parsed,omitempty"`
	Calls  []callJ    `json:"calls,omitempty"`
	NextAt int        `json:"next_at,omitempty"`
	Ret    string     `json:"ret,omitempty"`
	Kids   []kidJ     `json:"kids,omitempty"`
}

func idsKey(ids []int) string {
	s := make([]string, len(ids))
	for i, v := range ids {
		s[i] = fmt.Sprint(v)
	}
	return strings.Join(s, ".")
}

func (c *tcase) linkTexts() []string {
	out := make([]string, len(c.Links))
	for i, l := range c.Links {
		out[i] = strings.Join(l, "")
	}
	return out
}

// reqKey identifies the request of a run case (without the rule order the model chose).
func (c *tcase) reqKey() string {
	return fmt.Sprintf("GET %s;w=%s;ch=%s;inner=%s:%s;script=%s", c.Path, c.W, c.Ch, c.Mode, strings.Join(c.linkTexts(), " || "), c.Script)
}

func token(s string) string {
	if s == "" || strings.ContainsAny(s, " \t\"") {
		return `"` + strings.ReplaceAll(s, `"`, `\"`) + `"`
	}
	return s
}

// text renders one push line as Casketfile text.
func (l lineJ) text() string {
	var b strings.Builder
	b.WriteString("push")
	if l.Hp {
		b.WriteString(" " + token(l.P))
	}
	for _, r := range l.Inl {
		b.WriteString(" " + token(r))
	}
	if len(l.Blk) > 0 {
		b.WriteString(" {\n")
		for _, it := range l.Blk {
			b.WriteString("\t")
			switch it.K {
			case "res":
				b.WriteString(token(it.A[0]))
			default:
				b.WriteString(it.K)
				for _, a := range it.A {
					b.WriteString(" " + token(a))
				}
			}
			b.WriteString("\n")
		}
		b.WriteString("}")
	}
	return b.String()
}

func siteText(lines []lineJ) string {
	var out []string
	for _, l := range lines {
		out = append(out, l.text())
	}
	return strings.Join(out, "\n")
}

// ---------------------------------------------------------------- header helpers

func cloneHeader(h http.Header) hdrMap {
	out := hdrMap{}
	for k, v := range h {
		out[k] = append([]string{}, v...)
	}
	return out
}

func (h hdrMap) httpHeader() http.Header {
	out := http.Header{}
	for k, v := range h {
		out[k] = append([]string{}, v...)
	}
	return out
}

func hdrEqual(a, b hdrMap) bool {
	if len(a) != len(b) {
		return false
	}
	for k, va := range a {
		vb, ok := b[k]
		if !ok || len(va) != len(vb) {
			return false
		}
		for i := range va {
			if va[i] != vb[i] {
				return false
			}
		}
	}
	return true
}

// wireFields is the header as it shows on the wire of a PUSH_PROMISE: lower-case names, one field per
// value, keys without values are not sent; sorted.
func wireFields(h hdrMap) []string {
	var out []string
	for k, vs := range h {
		for _, v := range vs {
			out = append(out, strings.ToLower(k)+": "+v)
		}
	}
	sort.Strings(out)
	return out
}

// ---------------------------------------------------------------- net/http's Push, re-stated

var (
	errFull      = errors.New("http2: push would exceed peer's SETTINGS_MAX_CONCURRENT_STREAMS")
	errRecursive = errors.New("http2: recursive push not allowed")
)

// h2Verdict says what http2responseWriter.Push answers for a request that came in over TLS
// (net/http h2_bundle.go): "ok" or the kind of refusal.
func h2Verdict(target string, opts *http.PushOptions) string {
	u, err := url.Parse(target)
	if err != nil {
		return "badtarget"
	}
	if u.Scheme == "" {
		if !strings.HasPrefix(target, "/") {
			return "badtarget"
		}
	} else {
		if u.Scheme != "https" {
			return "badscheme"
		}
		if u.Host == "" {
			return "badtarget"
		}
	}
	for k, vv := range opts.Header {
		if strings.HasPrefix(k, ":") {
			return "badheader"
		}
		switch strings.ToLower(k) {
		case "content-length", "content-encoding", "trailer", "te", "expect", "host",
			"connection", "proxy-connection", "keep-alive", "transfer-encoding", "upgrade":
			_ = vv
			return "badheader"
		}
	}
	if opts.Method != "GET" && opts.Method != "HEAD" {
		return "badmethod"
	}
	return "ok"
}

// promisedOf gives authority ("self" or a host) and request-URI of the promised request net/http builds.
func promisedOf(target string) (string, string) {
	u, err := url.Parse(target)
	if err != nil {
		return "self", target
	}
	if u.Scheme == "" {
		u.Host = ""
		return "self", u.RequestURI()
	}
	return u.Host, u.RequestURI()
}
