// Package cx19push binds specs/PushRules.tla (the `push` directive: which resources are pushed for
// which request) to the real push.Middleware; it is an extension of property C19.
package cx19push

import (
	"net/http"
	"net/url"
	"strconv"

	"github.com/tmpim/casket"
	"github.com/tmpim/casket/caskethttp/httpserver"
)

// verifpushinner is a test-only directive: the innermost middleware of the site (registered at the
// end of the directive list, directly in front of the static file server). It is the wrapped
// handler ("next") of the specification's action CallNext, scripted per request by request headers
// that push never forwards to a promised request (so a pushed request always falls through to the
// static file server):
//
//	X-Inner-Link: <query-escaped value>   one `Link` response header LINE per field, in order (Header.Add)
//	X-Inner-Status: N                      WriteHeader(N) (default 200)
//	X-Inner-Body: S                        the body to write
//	X-Inner-Flush: 1                       Flush after the body: the response has left before push sees the links
//	X-Inner-Ret: N                         write nothing, return (N, nil)
//
// Without X-Inner-Link / -Body / -Ret the next handler (the static file server) runs.
// It also reports on every response what the chain handed to it: X-Saw-Xpush (is the key X-Push
// in the request header map), X-Saw-Auth (value of Authorization), X-Saw-Cookie.
func init() {
	httpserver.RegisterDevDirective("verifpushinner", "")
	casket.RegisterPlugin("verifpushinner", casket.Plugin{ServerType: "http", Action: func(c *casket.Controller) error {
		for c.Next() {
			if len(c.RemainingArgs()) > 0 {
				return c.ArgErr()
			}
		}
		httpserver.GetConfig(c).AddMiddleware(func(next httpserver.Handler) httpserver.Handler {
			return httpserver.HandlerFunc(func(w http.ResponseWriter, r *http.Request) (int, error) {
				return innerServe(next, w, r)
			})
		})
		return nil
	}})
}

func innerServe(next httpserver.Handler, w http.ResponseWriter, r *http.Request) (int, error) {
	h := w.Header()
	_, xp := r.Header["X-Push"]
	h["X-Saw-Xpush"] = []string{strconv.FormatBool(xp)}
	h["X-Saw-Auth"] = []string{r.Header.Get("Authorization")}
	h["X-Saw-Cookie"] = []string{r.Header.Get("Cookie")}
	links, hasLinks := r.Header["X-Inner-Link"]
	body, ret := r.Header.Get("X-Inner-Body"), r.Header.Get("X-Inner-Ret")
	if !hasLinks && body == "" && ret == "" {
		return next.ServeHTTP(w, r)
	}
	for _, l := range links {
		v, err := url.QueryUnescape(l)
		if err != nil {
			v = l
		}
		h.Add("Link", v)
	}
	if ret != "" {
		n, _ := strconv.Atoi(ret)
		return n, nil
	}
	status := 200
	if s := r.Header.Get("X-Inner-Status"); s != "" {
		status, _ = strconv.Atoi(s)
	}
	h.Set("Content-Type", "text/plain; charset=utf-8")
	w.WriteHeader(status)
	w.Write([]byte(body))
	if r.Header.Get("X-Inner-Flush") != "" {
		if f, ok := w.(http.Flusher); ok {
			f.Flush()
		}
	}
	return 0, nil
}
