package cx19push

import (
	"encoding/json"
	"fmt"
	"math/rand"
	"os"
	"sort"
	"strings"
	"sync"
	"testing"

	"verifharness/hx"
)

// rcase is the `case` member of a mismatch (and so of a replay file): self-contained.
type rcase struct {
	Pr *prCase `json:"pr,omitempty"`
	// a replay file of C19 is read by TestC19 as well, which insists on finding a case of its own:
	// a harmless one of its kind `link` (a Link header value handed to the parser under recover)
	G *trivialG `json:"g,omitempty"`
}
type trivialG struct {
	K string   `json:"k"`
	T []string `json:"t"`
}

var harmlessG = &trivialG{K: "link", T: []string{"<", "a", ">"}}

type prCase struct {
	Via    string   `json:"via"` // setup | unit | e2e | e2e-setup
	Clause string   `json:"clause"`
	Site   *tcase   `json:"site"`
	Runs   []*tcase `json:"runs,omitempty"` // the same request under every rule order of the model (unit: exactly one)
}

func siteKey(s *tcase) string { return "ids=" + idsKey(s.Ids) }

func mkKey(clause string, s *tcase, run *tcase) string {
	k := "C19/pushrules/" + clause + "/" + siteKey(s)
	if run != nil {
		k += ";" + run.reqKey()
		if len(run.Order) > 1 {
			k += ";order=" + strings.Join(run.Order, ",")
		}
	}
	return k
}

type world struct {
	root  string
	sites map[string]*tcase
	runs  map[string][]*tcase // by site
}

func loadWorld(t *testing.T) *world {
	w := &world{sites: map[string]*tcase{}, runs: map[string][]*tcase{}}
	hx.EachCase(t, "PushRules", func(line []byte) error {
		c := &tcase{}
		if err := json.Unmarshal(line, c); err != nil {
			return err
		}
		k := idsKey(c.Ids)
		switch c.Kind {
		case "site":
			w.sites[k] = c
		case "run":
			w.runs[k] = append(w.runs[k], c)
		}
		return nil
	})
	return w
}

// ---- one site: the setup verdict and the rules (SetupRejectsIffInvalid, RulesAsWritten)
func judgeSetup(root string, s *tcase) (builtSite, []finding) {
	b := buildSite(siteText(s.Lines), root)
	var out []finding
	switch {
	case b.panicv != "":
		out = append(out, finding{"setup-panic", "the setup function panicked: " + b.panicv, nil})
	case s.Ok && b.err != nil:
		out = append(out, finding{"SetupRejectsIffInvalid", "the setup refused a site the model accepts: " + b.err.Error(), nil})
	case !s.Ok && b.err == nil:
		out = append(out, finding{"SetupRejectsIffInvalid", fmt.Sprintf("the setup accepted a site the model refuses (%s)", s.Err), rulesOf(b.mw.Rules)})
	case s.Ok:
		got, exp := rulesOf(b.mw.Rules), sortedRules(s.Rules)
		if !rulesEqual(got, exp) {
			out = append(out, finding{"RulesAsWritten", fmt.Sprintf("rules built %v, as written %v", got, exp), got})
		}
	}
	return b, out
}

func TestCx19Push(t *testing.T) {
	res := hx.NewResult("TestCx19Push", "specs/PushRules.tla: every sampled site of <= 3 push lines (34-line pool: forms, merges, methods, headers, refusals) is built by the real setup function from Casketfile text and compared rule by rule; every request of its battery (9 paths x writer kinds x client headers x wrapped-handler behaviours x pusher scripts; 1 679 Link header values on two sites) is replayed into the real push.Middleware with a recording http.Pusher and into a running TLS site over real HTTP/2 with a client that reads PUSH_PROMISE frames; non-trivial = distinct (site, request) pairs")
	defer res.Write(t)
	hx.Quiet()

	root, err := os.MkdirTemp(hx.Scratch(t), "cx19push_root_")
	if err != nil {
		res.Infra = err.Error()
		return
	}
	defer os.RemoveAll(root)
	if err := makeRoot(root); err != nil {
		res.Infra = err.Error()
		return
	}

	if rp, ok := hx.LoadReplay[rcase](t); ok {
		replayOne(res, root, &rp)
		return
	}

	w := loadWorld(t)
	if len(w.sites) == 0 {
		res.Infra = "no PushRules cases"
		return
	}
	rnd := rand.New(rand.NewSource(hx.Seed()))
	keys := hx.SortedKeys(w.sites)
	vac := map[string]int{}
	var vmu sync.Mutex
	tick := func(k string) { vmu.Lock(); vac[k]++; vmu.Unlock() }
	selfDone := map[string]bool{}

	add := func(via string, s *tcase, runs []*tcase, f finding) {
		var run *tcase
		if len(runs) > 0 {
			run = runs[0]
		}
		res.Add(hx.Mismatch{Key: mkKey(f.clause, s, run), What: f.what, Case: rcase{Pr: &prCase{Via: via, Clause: f.clause, Site: s, Runs: runs}, G: harmlessG},
			Expected: run, Observed: f.obs})
	}

	// ---------------------------------------------------------------- 1. setup + recording pusher, every case
	for _, k := range keys {
		s := w.sites[k]
		b, fs := judgeSetup(root, s)
		res.Count("site:" + k)
		if s.Ok {
			tick("site-accepted")
		} else {
			tick("site-refused")
		}
		if len(s.Rules) > 1 {
			tick("several-rules")
		}
		for _, f := range fs {
			// confirmation in isolation: a fresh controller
			if _, fs2 := judgeSetup(root, s); hasClause(fs2, f.clause) {
				add("setup", s, nil, f)
			}
		}
		if len(fs) > 0 || !s.Ok {
			continue
		}
		for _, c := range w.runs[k] {
			c := c
			exp := c
			if hx.SelfTest() && !selfDone["unit"] && len(c.Calls) >= 2 && c.W == "h2" {
				// corrupt one expectation: the last expected call disappears
				cp := *c
				cp.Calls = cp.Calls[:len(cp.Calls)-1]
				exp = &cp
				selfDone["unit"] = true
			}
			res.Count(k + ";" + c.reqKey())
			countVacuity(tick, c)
			fs := judgeUnit(b.mw, exp)
			if pf := judgeParse(exp); pf != nil {
				fs = append(fs, *pf)
			}
			if len(fs) == 0 {
				continue
			}
			// confirmation in isolation: a freshly built middleware
			b2 := buildSite(siteText(s.Lines), root)
			if b2.err != nil || b2.panicv != "" {
				continue
			}
			fs2 := judgeUnit(b2.mw, exp)
			if pf := judgeParse(exp); pf != nil {
				fs2 = append(fs2, *pf)
			}
			for _, f := range fs {
				if hasClause(fs2, f.clause) {
					if exp != c {
						selfDone["unit-seen"] = true
						continue
					}
					add("unit", s, []*tcase{c}, f)
				}
			}
		}
	}
	res.Sample(map[string]interface{}{"site": siteText(w.sites[keys[len(keys)/2]].Lines), "rules": w.sites[keys[len(keys)/2]].Rules})

	// ---------------------------------------------------------------- 2. end to end over HTTP/2
	type job struct {
		s      *tcase
		groups [][]*tcase
	}
	var jobs []job
	nOther, capOther, capReq, capLink := 0, 6, 12, 50
	if hx.Thorough() {
		capOther, capReq, capLink = 70, 30, 500
	}
	perm := rnd.Perm(len(keys))
	for _, pi := range perm {
		k := keys[pi]
		s := w.sites[k]
		if !s.Ok {
			continue
		}
		pinned := len(s.Ids) == 1 || pinnedSites[k]
		if !pinned {
			if nOther >= capOther {
				continue
			}
			nOther++
		}
		byReq := map[string][]*tcase{}
		var order []string
		for _, c := range w.runs[k] {
			if c.W != "h2" || (c.Script != "none" && c.Script != "from1") {
				continue
			}
			if _, cred := c.Hdr["Authorization"]; strings.HasPrefix(c.Path, "/sec") && !cred {
				continue // basicauth stands in front of push: without credentials the request never reaches the middleware
			}
			rk := c.reqKey()
			if _, ok := byReq[rk]; !ok {
				order = append(order, rk)
			}
			byReq[rk] = append(byReq[rk], c)
		}
		sort.Strings(order)
		rnd.Shuffle(len(order), func(i, j int) { order[i], order[j] = order[j], order[i] })
		limit := capReq
		if k == "1" || k == "2" {
			limit = capLink
		}
		var groups [][]*tcase
		for _, rk := range order {
			if len(groups) >= limit {
				break
			}
			groups = append(groups, byReq[rk])
		}
		if len(groups) > 0 {
			jobs = append(jobs, job{s, groups})
		}
	}
	infra := ""
	var infraMu sync.Mutex
	setInfra := func(s string) {
		infraMu.Lock()
		if infra == "" {
			infra = s
		}
		infraMu.Unlock()
	}
	// one instance serves every site of the batch as a vhost; requests run in parallel, suspects are
	// confirmed afterwards on a fresh instance of their own
	type suspect struct {
		j         job
		g, exp    []*tcase
		fs        []finding
		corrupted bool
	}
	var suspects []suspect
	var smu sync.Mutex
	var batchSites []*tcase
	for _, j := range jobs {
		batchSites = append(batchSites, j.s)
	}
	if bt, err := startBatch(root, batchSites); err != nil {
		setInfra("cannot start the end-to-end instance: " + err.Error())
	} else {
		type unit struct {
			ji int
			g  []*tcase
		}
		var units []unit
		for ji, j := range jobs {
			for _, g := range j.groups {
				units = append(units, unit{ji, g})
			}
		}
		selfE2E := hx.SelfTest()
		uch := make(chan unit)
		var wg sync.WaitGroup
		for wk := 0; wk < 8; wk++ {
			wg.Add(1)
			go func() {
				defer wg.Done()
				for u := range uch {
					g, exp, corrupted := u.g, u.g, false
					smu.Lock()
					if selfE2E && len(g) == 1 && len(g[0].Calls) >= 1 && g[0].Calls[0].Res == "ok" && g[0].Script == "none" {
						cp := *g[0]
						cp.Calls = append([]callJ{}, cp.Calls...)
						cp.Calls[0].M = "HEAD+"
						exp, corrupted, selfE2E = []*tcase{&cp}, true, false
					}
					smu.Unlock()
					res.Count("e2e:" + siteKey(jobs[u.ji].s) + ";" + g[0].reqKey())
					tick("e2e-request")
					if fs := bt.vhost(u.ji).judgeLive(exp); len(fs) > 0 {
						smu.Lock()
						suspects = append(suspects, suspect{jobs[u.ji], g, exp, fs, corrupted})
						smu.Unlock()
					}
				}
			}()
		}
		for _, u := range units {
			uch <- u
		}
		close(uch)
		wg.Wait()
		bt.stop()
	}
	sort.Slice(suspects, func(i, j int) bool {
		return mkKey("", suspects[i].j.s, suspects[i].g[0]) < mkKey("", suspects[j].j.s, suspects[j].g[0])
	})
	for i, sp := range suspects {
		if i >= 60 {
			break // (each further one would be one more key of the same kind)
		}
		b2, err := startBatch(root, []*tcase{sp.j.s})
		if err != nil {
			setInfra("cannot start the confirmation instance: " + err.Error())
			continue
		}
		fs2 := b2.vhost(0).judgeLive(sp.exp)
		b2.stop()
		for _, f := range sp.fs {
			if !hasClause(fs2, f.clause) {
				continue
			}
			if f.clause == "e2e-infra" {
				setInfra("HTTP/2 exchange failed twice: " + f.what)
				continue
			}
			if sp.corrupted {
				selfDone["e2e-seen"] = true
				continue
			}
			add("e2e", sp.j.s, sp.g, f)
		}
	}
	// refused sites do not start
	nref := 0
	for _, k := range keys {
		s := w.sites[k]
		if s.Ok || (nref >= 4 && !hx.Thorough()) || nref >= 20 {
			continue
		}
		nref++
		b2, err := startBatch(root, []*tcase{s})
		if err == nil {
			b2.stop()
			add("e2e-setup", s, nil, finding{"e2e-setup", fmt.Sprintf("casket.Start accepted a site the model refuses (%s)", s.Err), nil})
		}
		tick("e2e-refused-site")
	}
	if infra != "" {
		res.Infra = infra
	}

	// ---------------------------------------------------------------- vacuity, self-test
	need := []string{"site-accepted", "site-refused", "several-rules", "rule-push", "link-push", "both-phases", "refused-by-pusher", "rule-abort-then-links",
		"guard-suppressed", "host-suppressed", "h1", "h1w", "kid-marked", "kid-unmarked-attempt", "nopush-skipped", "remote-skipped", "other-authority-rule",
		"index-file-match", "several-orders", "no-match", "e2e-request", "e2e-refused-site", "head-method", "merged-forwarded-header"}
	for _, n := range need {
		if vac[n] == 0 && res.MismatchCount() == 0 { // (a site whose setup disagrees is not served: that is a verdict, not vacuity)
			res.Infra = "vacuous: no case exercised " + n
		}
	}
	res.AddExtra("vacuity", vac)
	res.AddExtra("sites", len(keys))
	res.AddExtra("e2e_sites", len(jobs))
	if hx.SelfTest() {
		if !selfDone["unit-seen"] {
			res.Infra = "selftest: a dropped expected call went unnoticed by the recording-pusher replay"
		} else if !selfDone["e2e-seen"] {
			res.Infra = "selftest: a corrupted expected promise went unnoticed by the HTTP/2 replay"
		} else {
			res.Add(hx.Mismatch{Key: "C19/pushrules/selftest/corrupted-expectations-noticed", What: "selftest: both corrupted expectations were noticed"})
		}
	}
}

var pinnedSites = map[string]bool{"2.3": true, "3.2": true, "2.1": true, "2.7": true, "1.2": true, "7.3": true, "2.5": true, "5.6": true, "9.3": true,
	"14.4": true, "8.4": true, "10.22": true, "2.5.17": true, "2.7.3": true, "4.1.4": true}

func hasClause(fs []finding, clause string) bool {
	for _, f := range fs {
		if f.clause == clause {
			return true
		}
	}
	return false
}

func countVacuity(tick func(string), c *tcase) {
	nr, nl, bad := 0, 0, false
	for i, x := range c.Calls {
		if x.Ph == "rule" {
			nr++
			if x.Res != "ok" && i+1 < len(c.Calls) {
				tick("rule-abort-then-links")
			}
		} else {
			nl++
		}
		if x.Res != "ok" && c.W == "h2" {
			bad = true
		}
		if x.Ph == "rule" && x.Auth != "" && x.Auth != "self" {
			tick("other-authority-rule")
		}
		if x.M == "HEAD" {
			tick("head-method")
		}
		if len(x.H["Accept-Encoding"]) == 2 {
			tick("merged-forwarded-header")
		}
	}
	if nr > 0 {
		tick("rule-push")
	}
	if nl > 0 {
		tick("link-push")
	}
	if nr > 0 && nl > 0 {
		tick("both-phases")
	}
	if bad {
		tick("refused-by-pusher")
	}
	if c.W == "h2" && c.Ch == "xpush" {
		tick("guard-suppressed")
	}
	if c.Ch == "host" && len(c.Calls) > 0 {
		tick("host-suppressed")
	}
	if c.W == "h1" || c.W == "h1w" {
		tick(c.W)
	}
	for _, k := range c.Kids {
		if k.Marked && len(k.Calls) == 0 {
			tick("kid-marked")
		}
		if !k.Marked && len(k.Calls) > 0 {
			tick("kid-unmarked-attempt")
		}
	}
	for _, es := range c.Parsed {
		for _, e := range es {
			for _, key := range e.Keys {
				if key == "nopush" {
					tick("nopush-skipped")
				}
			}
			if strings.Contains(e.Uri, "other.test") {
				tick("remote-skipped")
			}
		}
	}
	if c.W == "h2" && c.Ch == "std" && c.Mode == "fs" && len(c.Calls) == 0 {
		tick("no-match")
	}
	if (c.Path == "/" || c.Path == "/d/") && nr > 0 {
		for _, o := range c.Order {
			if strings.HasSuffix(o, "index.html") {
				tick("index-file-match")
			}
		}
	}
	if len(c.Order) > 1 {
		tick("several-orders")
	}
}

// replayOne re-runs exactly the stored case.
func replayOne(res *hx.Result, root string, rp *rcase) {
	if rp.Pr == nil || rp.Pr.Site == nil {
		res.Count("") // a replay file of another part of C19
		return
	}
	p := rp.Pr
	res.Count("replay")
	report := func(fs []finding) {
		for _, f := range fs {
			if f.clause != p.Clause {
				continue
			}
			var run *tcase
			if len(p.Runs) > 0 {
				run = p.Runs[0]
			}
			res.Add(hx.Mismatch{Key: mkKey(f.clause, p.Site, run), What: f.what, Case: rp, Expected: run, Observed: f.obs})
		}
	}
	switch p.Via {
	case "setup":
		_, fs := judgeSetup(root, p.Site)
		report(fs)
	case "unit":
		b, fs := judgeSetup(root, p.Site)
		if len(fs) > 0 || len(p.Runs) == 0 {
			report(fs)
			return
		}
		fs = judgeUnit(b.mw, p.Runs[0])
		if pf := judgeParse(p.Runs[0]); pf != nil {
			fs = append(fs, *pf)
		}
		report(fs)
	case "e2e", "e2e-setup":
		bt, err := startBatch(root, []*tcase{p.Site})
		if err != nil {
			if p.Site.Ok {
				report([]finding{{"e2e-setup", "casket.Start refused a site the model accepts: " + err.Error(), nil}})
			}
			return
		}
		defer bt.stop()
		ls := bt.vhost(0)
		if !p.Site.Ok {
			report([]finding{{"e2e-setup", "casket.Start accepted a site the model refuses", nil}})
			return
		}
		if len(p.Runs) > 0 {
			report(ls.judgeLive(p.Runs))
		}
	}
}
