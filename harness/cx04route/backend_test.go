package cx04route

// A recording backend: a raw TCP listener that logs the request line of every request VERBATIM
// (no URL parsing, nothing normalised), together with the Host line and the X-Case header that
// names the case, and answers 200 with its own name. One listener per rule position.

import (
	"bufio"
	"fmt"
	"net"
	"os"
	"path/filepath"
	"strings"
	"sync"
	"time"
)

type hit struct {
	Backend int    `json:"backend"` // rule position (1-based) the listener stands for
	Line    string `json:"line"`    // request line as read off the wire, without CRLF
	Host    string `json:"host"`
}

type recorder struct {
	mu   sync.Mutex
	got  map[string][]hit
	lns  []net.Listener
	cons map[net.Conn]struct{}
}

func newRecorder() *recorder {
	return &recorder{got: map[string][]hit{}, cons: map[net.Conn]struct{}{}}
}

// listen opens one more backend (TCP on loopback) and returns its address.
func (r *recorder) listen(idx int) (string, error) {
	ln, err := net.Listen("tcp", "127.0.0.1:0")
	if err != nil {
		return "", err
	}
	r.serveOn(ln, idx)
	return ln.Addr().String(), nil
}

// listenUnix opens a backend on a unix socket below dir.
func (r *recorder) listenUnix(idx int, dir string) (string, error) {
	p := filepath.Join(dir, fmt.Sprintf("b%d.sock", idx))
	os.Remove(p)
	ln, err := net.Listen("unix", p)
	if err != nil {
		return "", err
	}
	r.serveOn(ln, idx)
	return p, nil
}

func (r *recorder) serveOn(ln net.Listener, idx int) {
	r.mu.Lock()
	r.lns = append(r.lns, ln)
	r.mu.Unlock()
	go func() {
		for {
			c, err := ln.Accept()
			if err != nil {
				return
			}
			r.mu.Lock()
			r.cons[c] = struct{}{}
			r.mu.Unlock()
			go r.serve(c, idx)
		}
	}()
}

func (r *recorder) serve(c net.Conn, idx int) {
	defer func() {
		c.Close()
		r.mu.Lock()
		delete(r.cons, c)
		r.mu.Unlock()
	}()
	br := bufio.NewReaderSize(c, 16<<10)
	for {
		c.SetReadDeadline(time.Now().Add(120 * time.Second))
		line, err := br.ReadString('\n')
		if err != nil {
			return
		}
		h := hit{Backend: idx, Line: strings.TrimRight(line, "\r\n")}
		id := ""
		for {
			l, err := br.ReadString('\n')
			if err != nil {
				return
			}
			l = strings.TrimRight(l, "\r\n")
			if l == "" {
				break
			}
			if k, v, ok := strings.Cut(l, ":"); ok {
				switch strings.ToLower(k) {
				case "x-case":
					id = strings.TrimSpace(v)
				case "host":
					h.Host = strings.TrimSpace(v)
				}
			}
		}
		r.mu.Lock()
		r.got[id] = append(r.got[id], h)
		r.mu.Unlock()
		body := fmt.Sprintf("b%d", idx)
		c.SetWriteDeadline(time.Now().Add(20 * time.Second))
		if _, err := fmt.Fprintf(c, "HTTP/1.1 200 OK\r\nContent-Type: text/plain\r\nX-Backend: %d\r\nContent-Length: %d\r\n\r\n%s", idx, len(body), body); err != nil {
			return
		}
	}
}

// collect returns and forgets what the backends read for one case id.
func (r *recorder) collect(id string) []hit {
	r.mu.Lock()
	defer r.mu.Unlock()
	g := r.got[id]
	delete(r.got, id)
	return g
}

// close stops the listeners and closes every connection from the backend's side.
func (r *recorder) close() {
	r.mu.Lock()
	defer r.mu.Unlock()
	for _, ln := range r.lns {
		ln.Close()
	}
	for c := range r.cons {
		c.Close()
	}
}
