// Package cx04route binds specs/ProxyRoute.tla (which `proxy` rule takes a request and what target it is
// sent to; an extension of property C04) to the real code.
//
// TLC emits one CASE per Casketfile (kind cfg: <= 3 proxy rules with from / except / without / upstream
// tokens, and whether the setup must refuse it) and one per answered request (no kind: the request line
// the client sends, which rule - or none - answers, which host of its pool, and the exact path and query
// the backend must read). Binding:
//
//   - every accepted Casketfile is one site of ONE real casket instance (casket.Start, sites told apart by
//     Host); behind it stand recording backends, raw TCP / unix listeners that log the request line
//     verbatim; the client is a raw HTTP/1.1 connection, so the spelling under test is the one on the wire;
//     a request nobody takes must be answered by the next handler (the test-only directive verifprobe, status 299) with no backend hit;
//   - every Casketfile of the pool space additionally goes through proxy.NewStaticUpstreams and the director
//     of each host (exported API), which also reaches targets that cannot be dialled here (srv://, a
//     scheme-less host whose name begins with the letters http);
//   - every refused Casketfile must be refused by casket.Start.
//
// A difference is confirmed against a fresh instance that holds only that site before it is reported.
package cx04route

import (
	"bufio"
	"encoding/json"
	"fmt"
	"math/rand"
	"net"
	"net/http"
	"os"
	"path/filepath"
	"sort"
	"strconv"
	"strings"
	"sync"
	"sync/atomic"
	"syscall"
	"testing"

	"github.com/tmpim/casket/casketfile"
	"github.com/tmpim/casket/caskethttp/proxy"

	"verifharness/hx"
	_ "verifharness/probe" // the test-only directive verifprobe: the handler behind the proxy
)

const module = "ProxyRoute"
const nBackends = 5 // abstract ports 1..5 of ProxyRoute.tla
const nextStatus = 299 // what the handler behind the proxy (verifprobe) answers

// ---------------------------------------------------------------- cases

type tokJ struct {
	Sch   string `json:"sch"`
	Name  string `json:"name"`
	Ports []int  `json:"ports"`
	Path  string `json:"path"`
	Q     string `json:"q"`
}

type ruleJ struct {
	From string   `json:"from"`
	Ex   []string `json:"ex"`
	Wo   string   `json:"wo"`
	To   []tokJ   `json:"to"`
	Ups  []tokJ   `json:"ups"`
}

type hostJ struct {
	Kind   string `json:"kind"`
	Scheme string `json:"scheme"`
	Auth   string `json:"auth"`
	Port   int    `json:"port"`
}

// caseJ is one CASE line of either kind.
type caseJ struct {
	Kind    string    `json:"kind"`
	ID      string    `json:"id"`
	Space   string    `json:"space,omitempty"`
	Refused bool      `json:"refused,omitempty"`
	Rules   []ruleJ   `json:"rules,omitempty"`
	Pools   [][]hostJ `json:"pools,omitempty"`

	T    string `json:"t,omitempty"`
	Q    string `json:"q,omitempty"`
	FQ   bool   `json:"fq,omitempty"`
	Rule int    `json:"r,omitempty"`
	Host int    `json:"h,omitempty"`
	W    string `json:"w,omitempty"`
	WQ   string `json:"wq,omitempty"`
	WFQ  bool   `json:"wfq,omitempty"`
	Esc  bool   `json:"esc,omitempty"`
	Al   bool   `json:"al,omitempty"`
}

// want is one admissible outcome of a request: rule 0 = the next handler.
type want struct {
	Rule   int    `json:"rule"`
	Host   int    `json:"host"`
	Kind   string `json:"kind,omitempty"`
	Scheme string `json:"scheme,omitempty"`
	Auth   string `json:"auth,omitempty"`
	Port   int    `json:"port,omitempty"` // abstract port of the backend (0: unix / not dialled)
	Path   string `json:"path,omitempty"`
	Query  string `json:"query,omitempty"`
	FQ     bool   `json:"fq,omitempty"`
	Esc    bool   `json:"esc,omitempty"`
	Al     bool   `json:"al,omitempty"`
}

func (w want) uri() string {
	s := w.Path
	if w.FQ || w.Query != "" {
		s += "?" + w.Query
	}
	return s
}

// reqG is one request with everything the model admits for it (one entry per host of the answering pool).
type reqG struct {
	T     string `json:"t"`
	Q     string `json:"q"`
	FQ    bool   `json:"fq"`
	Wants []want `json:"wants"`
}

func (r reqG) target() string {
	s := r.T
	if r.FQ || r.Q != "" {
		s += "?" + r.Q
	}
	return s
}

type cfgG struct {
	ID      string    `json:"id"`
	Space   string    `json:"space"`
	Refused bool      `json:"refused"`
	Rules   []ruleJ   `json:"rules"`
	Pools   [][]hostJ `json:"pools"`
	Reqs    []*reqG   `json:"-"`
	idx     int
}

// rcase is what a replay file carries.
type rcase struct {
	Clause string `json:"clause"`
	Cfg    cfgG   `json:"cfg"`
	Req    *reqG  `json:"req,omitempty"`
	Via    string `json:"via"` // "site" | "api" | "setup"
}

// ---------------------------------------------------------------- fixture

type fixture struct {
	rec   *recorder
	base  int    // real port of abstract port 1
	sock  string // unix socket of the backend that stands for `unix:`
	root  string // empty site root: the next handler answers 404
}

func newFixture(dir string) (*fixture, error) {
	fx := &fixture{rec: newRecorder(), root: filepath.Join(dir, "root")}
	if err := os.MkdirAll(fx.root, 0o755); err != nil {
		return nil, err
	}
	// nBackends consecutive loopback ports (port ranges are part of the model), below the ephemeral range
	for try := 0; try < 400 && fx.base == 0; try++ {
		p := hx.StablePort()
		if p+nBackends > 32000 {
			continue
		}
		var lns []net.Listener
		for k := 0; k < nBackends; k++ {
			ln, err := net.Listen("tcp", "127.0.0.1:"+strconv.Itoa(p+k))
			if err != nil {
				break
			}
			lns = append(lns, ln)
		}
		if len(lns) < nBackends {
			for _, ln := range lns {
				ln.Close()
			}
			continue
		}
		for k, ln := range lns {
			fx.rec.serveOn(ln, k+1)
		}
		fx.base = p
	}
	if fx.base == 0 {
		return nil, fmt.Errorf("no %d consecutive free loopback ports", nBackends)
	}
	sdir, err := os.MkdirTemp("", "cx04r") // a unix socket path must stay short
	if err != nil {
		return nil, err
	}
	sock, err := fx.rec.listenUnix(0, sdir)
	if err != nil {
		return nil, err
	}
	fx.sock = sock
	return fx, nil
}

func (fx *fixture) close() {
	fx.rec.close()
	if fx.sock != "" {
		os.RemoveAll(filepath.Dir(fx.sock))
	}
}

// tokText is the upstream as it is written in the Casketfile.
func (fx *fixture) tokText(t tokJ) string {
	if t.Sch == "unix:" {
		return "unix:" + fx.sock
	}
	host := t.Name
	port := func(p int) string { return strconv.Itoa(8000 + p) }
	switch t.Name {
	case "B":
		host = "127.0.0.1"
		port = func(p int) string { return strconv.Itoa(fx.base + p - 1) }
	case "httpd":
		host = "httpd.test"
	case "svc":
		host = "svc.test"
	}
	s := t.Sch + host
	switch len(t.Ports) {
	case 1:
		s += ":" + port(t.Ports[0])
	case 2:
		s += ":" + port(t.Ports[0]) + "-" + port(t.Ports[1])
	}
	s += t.Path
	if t.Q != "" {
		s += "?" + t.Q
	}
	return s
}

// authText is the authority the model calls auth ("B:2", "svc", "socket") with the harness's addresses.
func (fx *fixture) authText(a string) string {
	name, p, hasPort := strings.Cut(a, ":")
	n, _ := strconv.Atoi(p)
	switch name {
	case "B":
		return "127.0.0.1:" + strconv.Itoa(fx.base+n-1)
	case "httpd":
		name = "httpd.test"
	case "svc":
		name = "svc.test"
	}
	if hasPort {
		return name + ":" + strconv.Itoa(8000+n)
	}
	return name
}

func (fx *fixture) ruleText(r ruleJ, pool int) string {
	var b strings.Builder
	b.WriteString("proxy " + r.From)
	for _, t := range r.To {
		b.WriteString(" " + fx.tokText(t))
	}
	b.WriteString(" {\n")
	for _, t := range r.Ups {
		b.WriteString("\tupstream " + fx.tokText(t) + "\n")
	}
	if len(r.Ex) > 0 {
		b.WriteString("\texcept " + strings.Join(r.Ex, " ") + "\n")
	}
	if r.Wo != "" {
		b.WriteString("\twithout " + r.Wo + "\n")
	}
	if pool != 1 {
		b.WriteString("\tpolicy round_robin\n")
	}
	b.WriteString("}\n")
	return b.String()
}

func (fx *fixture) siteText(c *cfgG, host string, port int) string {
	var b strings.Builder
	fmt.Fprintf(&b, "http://%s:%d {\n\tbind 127.0.0.1\n\ttls off\n\troot %s\n\tverifprobe\n", host, port, fx.root)
	for k, r := range c.Rules {
		n := 0
		if k < len(c.Pools) {
			n = len(c.Pools[k])
		}
		b.WriteString(hx.Indent(fx.ruleText(r, n)))
	}
	b.WriteString("}\n")
	return b.String()
}

// dialable: every host of every pool is one of the harness's backends.
func dialable(c *cfgG) bool {
	for _, p := range c.Pools {
		for _, h := range p {
			if !(h.Kind == "unix" || (h.Kind == "tcp" && strings.HasPrefix(h.Auth, "B:"))) {
				return false
			}
		}
	}
	return true
}

// startSites starts one instance with the given sites (site k is named c<idx>.test).
func (fx *fixture) startSites(cs []*cfgG) (*hx.Site, int, string, error) {
	var err error
	for try := 0; try < 8; try++ {
		port := hx.StablePort()
		var b strings.Builder
		for _, c := range cs {
			b.WriteString(fx.siteText(c, siteHost(c), port))
		}
		var site *hx.Site
		site, err = hx.StartHTTP(b.String(), "")
		if err == nil {
			return site, port, b.String(), nil
		}
		if !strings.Contains(err.Error(), "address already in use") {
			return nil, 0, b.String(), err
		}
	}
	return nil, 0, "", err
}

func siteHost(c *cfgG) string { return fmt.Sprintf("c%d.test", c.idx) }

// ---------------------------------------------------------------- checker

type checker struct {
	res     *hx.Result
	fx      *fixture
	mu      sync.Mutex
	stats   map[string]int
	infra   error
	planted int32
	caught  int32
	caseN   uint64
	confirm map[string]int
}

func (c *checker) stat(k string, n int) {
	c.mu.Lock()
	c.stats[k] += n
	c.mu.Unlock()
}

func (c *checker) setInfra(err error) {
	c.mu.Lock()
	if c.infra == nil {
		c.infra = err
	}
	c.mu.Unlock()
}

func key(clause, id, req string) string {
	k := "C04/proxyroute/" + clause + "/" + id
	if req != "" {
		k += "/" + req
	}
	return k
}

// observation of one request through a site
type obs struct {
	Status int   `json:"status"`
	Hits   []hit `json:"hits"`
	Err    string `json:"err,omitempty"`
}

// ask sends the request of g once and returns status and backend hits.
func (c *checker) ask(rc **hx.RawConn, addr, host string, g *reqG) obs {
	id := "k" + strconv.FormatUint(atomic.AddUint64(&c.caseN, 1), 10)
	for attempt := 0; ; attempt++ {
		if *rc == nil {
			var err error
			if *rc, err = hx.DialRaw(addr); err != nil {
				return obs{Err: "dial: " + err.Error()}
			}
		}
		resp, err := (*rc).Get("GET", g.target(), host, "X-Case: "+id, "User-Agent: cx04route", "Accept-Encoding: identity", "X-Probe: status:299;text:next")
		if err != nil {
			(*rc).Close()
			*rc = nil
			if attempt == 0 && len(c.fx.rec.collect(id)) == 0 {
				continue // a connection the server had closed in the meantime
			}
			return obs{Err: err.Error(), Hits: c.fx.rec.collect(id)}
		}
		return obs{Status: resp.Status, Hits: c.fx.rec.collect(id)}
	}
}

// judge compares what a series of len(g.Wants) identical requests produced with what the model admits.
// Returns clause ("" = agrees) and a description.
func (c *checker) judge(g *reqG, got []obs) (string, string) {
	if g.Wants[0].Rule == 0 {
		o := got[0]
		if o.Err != "" {
			return "rule", "request failed: " + o.Err
		}
		if len(o.Hits) != 0 {
			return "rule", fmt.Sprintf("no rule takes the request, but backend %d read %q", o.Hits[0].Backend, o.Hits[0].Line)
		}
		if o.Status != nextStatus {
			return "rule", fmt.Sprintf("no rule takes the request: want the answer of the next handler (%d), got %d", nextStatus, o.Status)
		}
		return "", ""
	}
	// the multiset of (backend, request line) over the round-robin series
	var wantL, gotL []string
	for _, w := range g.Wants {
		wantL = append(wantL, fmt.Sprintf("%d GET %s HTTP/1.1", w.Port, w.uri()))
	}
	for _, o := range got {
		if o.Err != "" {
			return "rule", "request failed: " + o.Err
		}
		if len(o.Hits) == 0 {
			return "rule", fmt.Sprintf("rule %d must answer, but no backend was contacted (status %d)", g.Wants[0].Rule, o.Status)
		}
		if len(o.Hits) > 1 {
			return "rule", fmt.Sprintf("one request reached %d backends", len(o.Hits))
		}
		if o.Status != 200 {
			return "rule", fmt.Sprintf("backend %d answered, the client got %d", o.Hits[0].Backend, o.Status)
		}
		gotL = append(gotL, fmt.Sprintf("%d %s", o.Hits[0].Backend, o.Hits[0].Line))
	}
	sort.Strings(wantL)
	sort.Strings(gotL)
	if strings.Join(wantL, "\n") == strings.Join(gotL, "\n") {
		return "", ""
	}
	// which clause? a wrong backend is a routing difference, a wrong line a target difference
	wantB, gotB := map[string]bool{}, map[string]bool{}
	for _, l := range wantL {
		wantB[strings.SplitN(l, " ", 2)[0]] = true
	}
	for _, l := range gotL {
		gotB[strings.SplitN(l, " ", 2)[0]] = true
	}
	clause := "target"
	for b := range gotB {
		if !wantB[b] {
			clause = "rule"
		}
	}
	if clause == "target" && len(g.Wants) == 1 {
		w := g.Wants[0]
		gotURI := strings.TrimSuffix(strings.TrimPrefix(strings.SplitN(gotL[0], " ", 2)[1], "GET "), " HTTP/1.1")
		gp, gq, _ := strings.Cut(gotURI, "?")
		if gp == w.Path && (gq != w.Query || strings.Contains(gotURI, "?") != (w.FQ || w.Query != "")) {
			clause = "query"
		}
	}
	if len(g.Wants) > 1 && clause == "target" {
		clause = "pool"
	}
	return clause, fmt.Sprintf("backend and request line: want %q, got %q", wantL, gotL)
}

// runSite asks every request of the configuration through the running instance.
func (c *checker) runSite(cf *cfgG, addr string, port int, selftest bool, rnd *rand.Rand) {
	var rc *hx.RawConn
	defer func() {
		if rc != nil {
			rc.Close()
		}
	}()
	host := fmt.Sprintf("%s:%d", siteHost(cf), port)
	for _, g0 := range cf.Reqs {
		g := g0
		planted := false
		if selftest && rnd.Intn(40) == 0 {
			// corrupt the expectation: another rule, or one more byte in the path
			cp := *g0
			cp.Wants = append([]want(nil), g0.Wants...)
			if cp.Wants[0].Rule == 0 {
				cp.Wants[0] = want{Rule: 1, Host: 1, Port: 1, Path: cp.T}
			} else if rnd.Intn(2) == 0 {
				cp.Wants[0].Path += "x"
			} else {
				cp.Wants[0].Port = cp.Wants[0].Port%nBackends + 1
			}
			g, planted = &cp, true
			atomic.AddInt32(&c.planted, 1)
		}
		var got []obs
		for range g.Wants {
			got = append(got, c.ask(&rc, addr, host, g))
		}
		clause, what := c.judge(g, got)
		c.count(cf, g)
		if clause == "" {
			continue
		}
		if planted {
			atomic.AddInt32(&c.caught, 1)
			continue
		}
		c.confirmSite(clause, what, cf, g)
	}
}

func (c *checker) count(cf *cfgG, g *reqG) {
	w := g.Wants[0]
	nt := ""
	switch {
	case w.Rule == 0:
		c.stat("next_handler", 1)
	case w.Rule >= 2:
		c.stat("later_rule_answers", 1)
		nt = cf.ID + " " + g.target()
	default:
		c.stat("first_rule_answers", 1)
	}
	if w.Esc {
		c.stat("dot_segments_leave_base", 1)
	}
	if w.Rule != 0 && !w.Al {
		c.stat("escaped_slash_at_joint", 1)
	}
	if len(g.Wants) > 1 {
		c.stat("pool_series", 1)
		nt = cf.ID + " " + g.target()
	}
	if w.Kind == "unix" {
		c.stat("unix_target", 1)
	}
	if len(cf.Rules) > 1 && w.Rule != 0 {
		nt = cf.ID + " " + g.target()
	}
	c.res.Count(nt)
}

// confirmSite repeats one request against a fresh instance holding only this site; a difference that shows
// again is reported.
func (c *checker) confirmSite(clause, what string, cf *cfgG, g *reqG) {
	c.mu.Lock()
	c.confirm[clause]++
	n := c.confirm[clause]
	c.mu.Unlock()
	if n > 12 { // each confirmation costs an instance; the counts are in mismatch_counts anyway
		c.res.Add(hx.Mismatch{Key: key(clause, cf.ID, g.target()), What: what + " (not confirmed separately: more than 12 of this clause)", Case: rcase{Clause: "proxyroute/" + clause, Cfg: *cf, Req: g, Via: "site"}})
		return
	}
	clause2, what2, infra := c.oneSite(cf, g)
	if infra != nil {
		c.setInfra(fmt.Errorf("confirming %s: %v", key(clause, cf.ID, g.target()), infra))
		return
	}
	if clause2 == "" {
		c.stat("not_reproduced", 1)
		return
	}
	c.res.Add(hx.Mismatch{Key: key(clause2, cf.ID, g.target()), What: what2, Case: rcase{Clause: "proxyroute/" + clause2, Cfg: *cf, Req: g, Via: "site"},
		Expected: g.Wants, Observed: what2})
}

// oneSite: fresh instance with this one site, the request asked once per admissible host.
func (c *checker) oneSite(cf *cfgG, g *reqG) (string, string, error) {
	site, port, text, err := c.fx.startSites([]*cfgG{cf})
	if err != nil {
		return "", "", fmt.Errorf("cannot start the site: %v\n%s", err, text)
	}
	defer site.Stop()
	var rc *hx.RawConn
	var got []obs
	for range g.Wants {
		got = append(got, c.ask(&rc, fmt.Sprintf("127.0.0.1:%d", port), fmt.Sprintf("%s:%d", siteHost(cf), port), g))
	}
	if rc != nil {
		rc.Close()
	}
	clause, what := c.judge(g, got)
	if clause != "" {
		what += "\n" + text
	}
	return clause, what, nil
}

// ---------------------------------------------------------------- the exported API: NewStaticUpstreams + director

type apiHost struct {
	Name   string `json:"name"`
	Scheme string `json:"scheme"`
	Host   string `json:"host"`
	URI    string `json:"uri"`
}

// apiRun loads the (single) rule with proxy.NewStaticUpstreams and returns, for the request, what the director
// of every host of the pool makes of it (hosts in pool order, thanks to round robin).
func (c *checker) apiRun(cf *cfgG, g *reqG) ([]apiHost, error) {
	n := 1
	if len(cf.Pools) > 0 {
		n = len(cf.Pools[0])
	}
	text := c.fx.ruleText(cf.Rules[0], n)
	ups, err := proxy.NewStaticUpstreams(casketfile.NewDispenser("Casketfile", strings.NewReader(text)), "")
	if err != nil {
		return nil, err
	}
	defer func() {
		for _, u := range ups {
			u.Stop()
		}
	}()
	if len(ups) != 1 {
		return nil, fmt.Errorf("%d upstreams from one rule", len(ups))
	}
	if g == nil {
		return nil, nil
	}
	in, perr := http.ReadRequest(bufioReader("GET " + g.target() + " HTTP/1.1\r\nHost: site.test\r\n\r\n"))
	if perr != nil {
		return nil, fmt.Errorf("harness: cannot parse request: %v", perr)
	}
	var out []apiHost
	for k := 0; k < n; k++ {
		h := ups[0].Select(in)
		if h == nil {
			out = append(out, apiHost{Name: "<nil>"})
			continue
		}
		u := *in.URL
		o := in.Clone(in.Context())
		o.URL = &u
		h.ReverseProxy.Director(o)
		out = append(out, apiHost{Name: h.Name, Scheme: o.URL.Scheme, Host: o.URL.Host, URI: o.URL.RequestURI()})
	}
	return out, nil
}

func (c *checker) judgeAPI(g *reqG, got []apiHost) string {
	var wantL, gotL []string
	for _, w := range g.Wants {
		if w.Kind == "broken" { // the as-found cfg only: a target without a usable scheme
			wantL = append(wantL, "unusable")
			continue
		}
		wantL = append(wantL, fmt.Sprintf("%s://%s %s", w.Scheme, c.fx.authText(w.Auth), w.uri()))
	}
	for _, h := range got {
		if h.Scheme != "http" && h.Scheme != "https" {
			gotL = append(gotL, "unusable")
			continue
		}
		gotL = append(gotL, fmt.Sprintf("%s://%s %s", h.Scheme, h.Host, h.URI))
	}
	sort.Strings(wantL)
	sort.Strings(gotL)
	if strings.Join(wantL, "\n") == strings.Join(gotL, "\n") {
		return ""
	}
	return fmt.Sprintf("scheme://authority and request URI after the director, per host of the pool: want %q, got %q", wantL, gotL)
}

func (c *checker) checkAPI(cf *cfgG, selftest bool, rnd *rand.Rand) {
	for _, g0 := range cf.Reqs {
		g := g0
		planted := false
		if selftest && rnd.Intn(10) == 0 {
			cp := *g0
			cp.Wants = append([]want(nil), g0.Wants...)
			cp.Wants[0].Scheme += "x"
			g, planted = &cp, true
			atomic.AddInt32(&c.planted, 1)
		}
		got, err := c.apiRun(cf, g)
		c.stat("api_requests", 1)
		for _, w := range g.Wants {
			c.stat("api_kind_"+w.Kind, 1)
		}
		c.res.Count("")
		what := ""
		if err != nil {
			what = "NewStaticUpstreams refuses a rule the model accepts: " + err.Error()
		} else {
			what = c.judgeAPI(g, got)
		}
		if what == "" {
			continue
		}
		if planted {
			atomic.AddInt32(&c.caught, 1)
			continue
		}
		// (the call is a pure function of the text: the second, isolated evaluation)
		got2, err2 := c.apiRun(cf, g)
		if err2 == nil && c.judgeAPI(g, got2) == "" {
			c.stat("not_reproduced", 1)
			continue
		}
		c.res.Add(hx.Mismatch{Key: key("pool", cf.ID, g.target()), What: what + "\n" + c.fx.ruleText(cf.Rules[0], len(g.Wants)),
			Case: rcase{Clause: "proxyroute/pool", Cfg: *cf, Req: g, Via: "api"}, Expected: g.Wants, Observed: got})
	}
}

// checkRefused: a Casketfile the model refuses must not load.
func (c *checker) checkRefused(cf *cfgG, selftest bool) {
	c.res.Count("")
	c.stat("refused_configs", 1)
	try := func() (bool, string) {
		site, _, text, err := c.fx.startSites([]*cfgG{cf})
		if err == nil {
			site.Stop()
			return true, text
		}
		return false, text
	}
	loaded, text := try()
	if selftest {
		atomic.AddInt32(&c.planted, 1)
		loaded = !loaded // pretend the opposite verdict
		if loaded {
			atomic.AddInt32(&c.caught, 1)
		}
		return
	}
	if !loaded {
		return
	}
	if loaded2, _ := try(); !loaded2 {
		c.stat("not_reproduced", 1)
		return
	}
	c.res.Add(hx.Mismatch{Key: key("setup", cf.ID, ""), What: "the model refuses this Casketfile, casket.Start loads it\n" + text,
		Case: rcase{Clause: "proxyroute/setup", Cfg: *cf, Via: "setup"}})
}

// ---------------------------------------------------------------- loading

func loadCases(t *testing.T) []*cfgG {
	byID := map[string]*cfgG{}
	var order []*cfgG
	var reqs []caseJ
	hx.EachCase(t, module, func(line []byte) error {
		var cj caseJ
		if err := json.Unmarshal(line, &cj); err != nil {
			return err
		}
		switch cj.Kind {
		case "cfg":
			if byID[cj.ID] == nil {
				c := &cfgG{ID: cj.ID, Space: cj.Space, Refused: cj.Refused, Rules: cj.Rules, Pools: cj.Pools}
				byID[cj.ID] = c
				order = append(order, c)
			}
		case "": // a request line
			reqs = append(reqs, cj)
		}
		return nil
	})
	groups := map[string]*reqG{}
	for _, r := range reqs {
		c := byID[r.ID]
		if c == nil {
			t.Fatalf("request case for unknown configuration %q", r.ID)
		}
		gk := r.ID + "\x00" + r.T + "\x00" + r.Q + "\x00" + strconv.FormatBool(r.FQ)
		g := groups[gk]
		if g == nil {
			g = &reqG{T: r.T, Q: r.Q, FQ: r.FQ}
			groups[gk] = g
			c.Reqs = append(c.Reqs, g)
		}
		w := want{Rule: r.Rule, Host: r.Host, Path: r.W, Query: r.WQ, FQ: r.WFQ, Esc: r.Esc, Al: r.Al}
		if r.Rule != 0 {
			if r.Rule > len(c.Pools) || r.Host < 1 || r.Host > len(c.Pools[r.Rule-1]) {
				t.Fatalf("request case names host %d of rule %d, which %q does not have", r.Host, r.Rule, r.ID)
			}
			h := c.Pools[r.Rule-1][r.Host-1]
			w.Kind, w.Scheme, w.Auth, w.Port = h.Kind, h.Scheme, h.Auth, h.Port
		}
		g.Wants = append(g.Wants, w)
	}
	sort.Slice(order, func(a, b int) bool { return order[a].ID < order[b].ID })
	for k, c := range order {
		c.idx = k + 1
		sort.Slice(c.Reqs, func(a, b int) bool { return c.Reqs[a].target() < c.Reqs[b].target() })
		for _, g := range c.Reqs {
			sort.Slice(g.Wants, func(a, b int) bool { return g.Wants[a].Host < g.Wants[b].Host })
		}
	}
	return order
}

// ---------------------------------------------------------------- the test

func TestCx04Route(t *testing.T) {
	hx.Quiet()
	res := hx.NewResult("TestCx04Route", "one case = one request line against one Casketfile of <= 3 proxy rules (ProxyRoute.tla: spaces route / target / query / pool); every accepted Casketfile is a site of one real casket instance in front of recording raw backends (TCP and unix), the raw request line is sent and the backend that was hit and the request line it read are compared with the model (nobody takes it: the next handler - verifprobe, 299 - answers and no backend is hit); pool Casketfiles also through proxy.NewStaticUpstreams + each host's director; refused Casketfiles must fail casket.Start; non-trivial = a rule other than the first, or a pool of several hosts, answers")
	defer res.Write(t)

	// a replay file of another test of this property is not ours
	if p := hx.Replay(); p != "" {
		b, _ := os.ReadFile(p)
		var w struct {
			Case struct {
				Clause string `json:"clause"`
			} `json:"case"`
		}
		if json.Unmarshal(b, &w) != nil || !strings.HasPrefix(w.Case.Clause, "proxyroute/") {
			res.AddExtra("replay", "not a proxyroute case: skipped")
			return
		}
	}

	// certmagic logs two lines per instance through a logger bound to fd 2: keep them out of the go test log
	if os.Getenv("VERIF_VERBOSE") == "" {
		if dn, err := os.Create(filepath.Join(hx.Scratch(t), "cx04route_stderr.log")); err == nil {
			if saved, err := syscall.Dup(2); err == nil {
				syscall.Dup2(int(dn.Fd()), 2)
				defer func() { syscall.Dup2(saved, 2); syscall.Close(saved); dn.Close() }()
			}
		}
	}

	fx, err := newFixture(hx.Scratch(t))
	if err != nil {
		res.Infra = "fixture: " + err.Error()
		return
	}
	defer fx.close()
	c := &checker{res: res, fx: fx, stats: map[string]int{}, confirm: map[string]int{}}

	if rp, ok := hx.LoadReplay[rcase](t); ok {
		replayOne(c, &rp)
		return
	}

	cfgs := loadCases(t)
	selftest := hx.SelfTest()
	var live, refused, pool []*cfgG
	for _, cf := range cfgs {
		switch {
		case cf.Refused:
			refused = append(refused, cf)
		default:
			if cf.Space == "pool" {
				pool = append(pool, cf)
			}
			if dialable(cf) {
				live = append(live, cf)
			}
		}
	}
	res.AddExtra("configurations", map[string]int{"all": len(cfgs), "served_by_a_real_site": len(live), "refused": len(refused), "pool_through_the_api": len(pool)})
	if len(live) == 0 || len(refused) == 0 || len(pool) == 0 {
		res.Infra = "TLC emitted no served / refused / pool configurations"
		return
	}

	// 1. all served configurations: one instance, one site each
	site, port, text, err := fx.startSites(live)
	if err != nil {
		// which site is it? load them one by one: a site the model accepts and casket refuses is a finding
		bad := 0
		var good []*cfgG
		for _, cf := range live {
			s1, _, t1, e1 := fx.startSites([]*cfgG{cf})
			if e1 != nil {
				if s2, _, _, e2 := fx.startSites([]*cfgG{cf}); e2 == nil {
					s2.Stop()
					good = append(good, cf)
					continue
				}
				bad++
				res.Add(hx.Mismatch{Key: key("setup", cf.ID, ""), What: "the model accepts this Casketfile, casket.Start refuses it: " + e1.Error() + "\n" + t1,
					Case: rcase{Clause: "proxyroute/setup", Cfg: *cf, Via: "setup"}})
				continue
			}
			s1.Stop()
			good = append(good, cf)
		}
		if bad == 0 {
			res.Infra = fmt.Sprintf("cannot start the instance with all sites although each one loads alone: %v (%d bytes of Casketfile)", err, len(text))
			return
		}
		if site, port, _, err = fx.startSites(good); err != nil {
			res.Infra = "cannot start the instance with the remaining sites: " + err.Error()
			return
		}
		live = good
	}
	addr := fmt.Sprintf("127.0.0.1:%d", port)
	jobs := make(chan *cfgG)
	var wg sync.WaitGroup
	for w := 0; w < 12; w++ {
		wg.Add(1)
		rnd := rand.New(rand.NewSource(hx.Seed()*7919 + int64(w)))
		go func() {
			defer wg.Done()
			for cf := range jobs {
				c.runSite(cf, addr, port, selftest, rnd)
			}
		}()
	}
	for k, cf := range live {
		jobs <- cf
		if k%53 == 7 && len(cf.Reqs) > 3 {
			g := cf.Reqs[len(cf.Reqs)/2]
			res.Sample(map[string]interface{}{"casketfile": cf.ID, "request": g.target(), "expected": g.Wants})
		}
	}
	close(jobs)
	wg.Wait()
	site.Stop()
	c.stat("sites_served", len(live))

	// 2. the pool space through the exported API (also the targets that cannot be dialled here)
	rnd := hx.Rand()
	for _, cf := range pool {
		c.checkAPI(cf, selftest, rnd)
	}

	// 3. refused Casketfiles
	for k, cf := range refused {
		if selftest && k >= 10 {
			break
		}
		c.checkRefused(cf, selftest)
	}

	if c.infra != nil {
		res.Infra = c.infra.Error()
	}
	res.AddExtra("stats", c.stats)
	if !selftest && res.Infra == "" {
		for _, k := range []string{"next_handler", "first_rule_answers", "later_rule_answers", "dot_segments_leave_base", "escaped_slash_at_joint",
			"pool_series", "unix_target", "refused_configs", "api_kind_srv", "api_kind_tcp", "api_kind_unix"} {
			if c.stats[k] == 0 {
				res.Infra = "vacuous replay: no case with " + k
			}
		}
	}
	if selftest {
		res.AddExtra("selftest_planted", c.planted)
		res.AddExtra("selftest_caught", c.caught)
		if c.caught != c.planted || c.planted == 0 {
			res.Infra = fmt.Sprintf("selftest: %d wrong expectations planted, %d noticed", c.planted, c.caught)
		}
	}
}

func replayOne(c *checker, rc *rcase) {
	c.res.Count("replay")
	cf := &rc.Cfg
	cf.idx = 1
	switch rc.Via {
	case "setup":
		_, _, text, err := func() (*hx.Site, int, string, error) {
			s, p, tx, e := c.fx.startSites([]*cfgG{cf})
			if e == nil {
				s.Stop()
			}
			return s, p, tx, e
		}()
		if (err != nil) != cf.Refused {
			c.res.Add(hx.Mismatch{Key: key("setup", cf.ID, ""), What: fmt.Sprintf("setup: model refuses=%v, casket.Start error: %v\n%s", cf.Refused, err, text), Case: *rc})
		}
	case "api":
		cf.Reqs = []*reqG{rc.Req}
		c.checkAPI(cf, false, hx.Rand())
	default:
		if rc.Req == nil {
			c.res.Infra = "replay file has no request"
			return
		}
		clause, what, infra := c.oneSite(cf, rc.Req)
		if infra != nil {
			c.res.Infra = infra.Error()
			return
		}
		if clause != "" {
			c.res.Add(hx.Mismatch{Key: key(clause, cf.ID, rc.Req.target()), What: what, Case: *rc, Expected: rc.Req.Wants})
		}
	}
	if c.infra != nil {
		c.res.Infra = c.infra.Error()
	}
}

func bufioReader(s string) *bufio.Reader { return bufio.NewReader(strings.NewReader(s)) }
