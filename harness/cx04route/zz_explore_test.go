package cx04route

import (
	"fmt"
	"os"
	"strings"
	"testing"

	"verifharness/hx"
)

// TestZZ is an experiment helper (not run by the driver):
//
//	ZZ_RULES='proxy / {B1}/svc { except /a/x }|proxy /a {B2}' ZZ_REQS="/a/x /A/x?q" go test -tags verif -run TestZZ -v ./cx04route/
//
// {Bn} is replaced by the address of recording backend n, {Un} by a unix socket path of backend n.
func TestZZ(t *testing.T) {
	if os.Getenv("ZZ_RULES") == "" {
		t.Skip()
	}
	hx.Quiet()
	rec := newRecorder()
	defer rec.close()
	root := t.TempDir()
	rules := os.Getenv("ZZ_RULES")
	for i := 1; i <= 4; i++ {
		if strings.Contains(rules, fmt.Sprintf("{B%d}", i)) {
			a, err := rec.listen(i)
			if err != nil {
				t.Fatal(err)
			}
			rules = strings.ReplaceAll(rules, fmt.Sprintf("{B%d}", i), a)
		}
		if strings.Contains(rules, fmt.Sprintf("{U%d}", i)) {
			a, err := rec.listenUnix(i, root)
			if err != nil {
				t.Fatal(err)
			}
			rules = strings.ReplaceAll(rules, fmt.Sprintf("{U%d}", i), a)
		}
	}
	port := hx.FreePort()
	cf := fmt.Sprintf("http://zz.test:%d {\n\tbind 127.0.0.1\n\ttls off\n\troot %s\n", port, root)
	for _, l := range strings.Split(rules, "|") {
		cf += "\t" + strings.ReplaceAll(l, ";", "\n\t") + "\n"
	}
	cf += "}\n"
	t.Logf("\n%s", cf)
	site, err := hx.StartHTTP(cf, "")
	if err != nil {
		t.Fatalf("start: %v", err)
	}
	defer site.Stop()
	rc, err := hx.DialRaw(fmt.Sprintf("127.0.0.1:%d", port))
	if err != nil {
		t.Fatal(err)
	}
	defer rc.Close()
	for i, q := range strings.Fields(os.Getenv("ZZ_REQS")) {
		id := fmt.Sprintf("zz%d", i)
		resp, err := rc.Get("GET", q, fmt.Sprintf("zz.test:%d", port), "X-Case: "+id)
		if err != nil {
			t.Logf("%-28s error %v", q, err)
			rc.Close()
			rc, _ = hx.DialRaw(fmt.Sprintf("127.0.0.1:%d", port))
			continue
		}
		t.Logf("%-28s -> %d %v", q, resp.Status, rec.collect(id))
	}
}
