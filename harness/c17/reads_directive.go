package c17

// verifc17reads: test-only innermost middleware (registered through casket's public plugin API)
// that reads the request body the way the X-C17-Reads header scripts it and reports what it got.
//
//	X-C17-Reads: 1,3,99;post=2
//
// means: call r.Body.Read with buffers of 1, 3, 99, 1, 3, ... bytes (cycling) until a call returns
// an error, then call Read twice more (buffer sizes continue the cycle). The JSON report:
//
//	{"total":n,"sum":sha1(delivered bytes),"err":"EOF"|"MAX"|text,"calls":c,
//	 "post":[{"n":..,"err":..},...]}
//
// "MAX" means err == httpserver.ErrMaxBytesExceeded (identity, not text).

import (
	"crypto/sha1"
	"encoding/hex"
	"encoding/json"
	"io"
	"net/http"
	"strconv"
	"strings"

	"github.com/tmpim/casket"
	"github.com/tmpim/casket/caskethttp/httpserver"
)

func init() {
	httpserver.RegisterDevDirective("verifc17reads", "")
	casket.RegisterPlugin("verifc17reads", casket.Plugin{ServerType: "http", Action: func(c *casket.Controller) error {
		for c.Next() {
			c.RemainingArgs()
		}
		httpserver.GetConfig(c).AddMiddleware(func(next httpserver.Handler) httpserver.Handler {
			return readsHandler{next: next}
		})
		return nil
	}})
}

type readsHandler struct{ next httpserver.Handler }

type postCall struct {
	N   int    `json:"n"`
	Err string `json:"err"`
}

type readsReport struct {
	Total int64      `json:"total"`
	Sum   string     `json:"sum"`
	Err   string     `json:"err"`
	Calls int        `json:"calls"`
	Post  []postCall `json:"post"`
}

func errName(err error) string {
	switch {
	case err == nil:
		return "nil"
	case err == io.EOF:
		return "EOF"
	case err == httpserver.ErrMaxBytesExceeded:
		return "MAX"
	}
	return err.Error()
}

// readScripted drives any reader with the script; shared by the live directive and the harness.
func readScripted(body io.Reader, sizes []int, post int, maxCalls int) readsReport {
	var rep readsReport
	h := sha1.New()
	i := 0
	var err error
	for err == nil && rep.Calls < maxCalls {
		buf := make([]byte, sizes[i%len(sizes)])
		i++
		var n int
		n, err = body.Read(buf)
		rep.Calls++
		rep.Total += int64(n)
		h.Write(buf[:n])
	}
	rep.Err = errName(err)
	rep.Sum = hex.EncodeToString(h.Sum(nil))
	rep.Post = []postCall{}
	for j := 0; j < post && err != nil; j++ {
		buf := make([]byte, sizes[i%len(sizes)])
		i++
		n, e := body.Read(buf)
		rep.Post = append(rep.Post, postCall{N: n, Err: errName(e)})
	}
	return rep
}

func parseReads(s string) (sizes []int, post int) {
	parts := strings.Split(s, ";")
	for _, f := range strings.Split(parts[0], ",") {
		if k, err := strconv.Atoi(strings.TrimSpace(f)); err == nil && k > 0 {
			sizes = append(sizes, k)
		}
	}
	for _, p := range parts[1:] {
		if strings.HasPrefix(p, "post=") {
			post, _ = strconv.Atoi(p[5:])
		}
	}
	if len(sizes) == 0 {
		sizes = []int{512}
	}
	return
}

func (h readsHandler) ServeHTTP(w http.ResponseWriter, r *http.Request) (int, error) {
	script := r.Header.Get("X-C17-Reads")
	if script == "" {
		return h.next.ServeHTTP(w, r)
	}
	sizes, post := parseReads(script)
	rep := readScripted(r.Body, sizes, post, 1<<22)
	b, _ := json.Marshal(rep)
	w.Header().Set("Content-Type", "application/json")
	w.Header().Set("Content-Length", strconv.Itoa(len(b)))
	w.WriteHeader(200)
	w.Write(b)
	return 0, nil
}
