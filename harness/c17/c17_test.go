// C17 - body-size limits are exact; shared listener limits are the strictest.
//
// Four bindings of specs/Limits.tla and specs/ListenerMerge.tla to the real code:
//
//	reader  every behaviour of the maxBytesReader model (LimitsReads) is replayed call by call
//	        against limits.MaxBytesReader over a scripted underlying body;
//	live    every limit table of Limits.tla is loaded into a real casket site (casket.Start),
//	        bodies around the applicable limit are sent in several framings and read by a scripted
//	        innermost handler (verifc17reads): scope selection, delivered prefix, error, stickiness;
//	proxy   the same tables in front of `proxy`: 413 iff too large, backend never sees more than
//	        the limit, smaller bodies arrive intact;
//	merge   every site group of ListenerMerge.tla is started for real and the effective
//	        http.Server fields of the shared listener are compared with the declarative Strictest.
//
// The verdict is always the declarative property evaluated on what the real code did; a
// per-call difference from the operational model that still satisfies it is counted as drift.
package c17

import (
	"bufio"
	"bytes"
	"crypto/sha1"
	"encoding/hex"
	"encoding/json"
	"errors"
	"fmt"
	"io"
	"math/rand"
	"net"
	"net/http"
	"net/http/httptest"
	"sort"
	"strconv"
	"strings"
	"sync"
	"testing"
	"time"

	"github.com/tmpim/casket/caskethttp/httpserver"
	"github.com/tmpim/casket/caskethttp/limits"
	"verifharness/hx"
)

// ---------------------------------------------------------------- case types

type entry struct {
	S   []string `json:"s"`
	Lim int      `json:"lim"`
}

type outcome struct {
	Deliver  int  `json:"deliver"`
	TooLarge bool `json:"toolarge"`
}

type tableCase struct {
	Table   []entry     `json:"table"`
	Paths   [][]string  `json:"paths"`
	Want    []int       `json:"want"`
	Outcome [][]outcome `json:"outcome"`
}

type call struct {
	K   int    `json:"k"`
	Um  int    `json:"um"`
	Ue  string `json:"ue"`
	N   int    `json:"n"`
	Err string `json:"err"`
}

type readsCase struct {
	Lim       int    `json:"lim"`
	Len       int    `json:"len"`
	Calls     []call `json:"calls"`
	Delivered int    `json:"delivered"`
	Herr      string `json:"herr"`
}

type mergeCase struct {
	Sites []map[string]int `json:"sites"`
	Want  map[string]int   `json:"want"`
	Conc  *mergeConc       `json:"conc,omitempty"` // fixed by the first run so that a replay is identical
}

// liveReq is one fully concrete request against one rendering of a limit table.
type liveReq struct {
	Table    []entry `json:"table"`
	Order    []int   `json:"order"`    // declaration order of the table entries
	Unit     string  `json:"unit"`     // suffix of every limit: "", "B", "KB", "kb", "000"
	NoSlash  bool    `json:"no_slash"` // scopes written without the leading slash
	Mode     string  `json:"mode"`     // handler | proxy | proxybuf
	Path     string  `json:"path"`
	Len      int     `json:"len"`
	Framing  string  `json:"framing"`
	Reads    string  `json:"reads"`
	LimBytes int64   `json:"limit_bytes"` // limit that must apply, -1 = none
	Deliver  int     `json:"deliver"`     // bytes a reader-to-the-end must get
	TooLarge bool    `json:"toolarge"`
	LenName  string  `json:"len_name"` // body length relative to the limit (key)
}

type replayCase struct {
	Kind  string     `json:"kind"`
	Reads *readsCase `json:"reads,omitempty"`
	Live  *liveReq   `json:"live,omitempty"`
	Merge *mergeCase `json:"merge,omitempty"`
}

func pattern(n int) []byte {
	b := make([]byte, n)
	for i := range b {
		b[i] = byte('A' + (i*7+i/26)%26)
	}
	return b
}

func sha(b []byte) string { s := sha1.Sum(b); return hex.EncodeToString(s[:]) }

// ---------------------------------------------------------------- reader replay

var errAbort = errors.New("unexpected EOF (scripted abort)")

// scriptedBody answers Read exactly as the model's underlying body did in one behaviour;
// when the code asks in a way the model did not foresee it degrades to a plain reader.
type scriptedBody struct {
	data   []byte
	pos    int
	script []call // only entries with Um >= 0
	idx    int
	drift  int
	dead   bool
	calls  int
}

func (s *scriptedBody) Read(p []byte) (int, error) {
	s.calls++
	if s.dead {
		return 0, errAbort
	}
	if len(p) == 0 {
		return 0, nil
	}
	rem := len(s.data) - s.pos
	m, e := -1, "nil"
	if s.idx < len(s.script) {
		m, e = s.script[s.idx].Um, s.script[s.idx].Ue
		s.idx++
	}
	if m < 0 || m > len(p) || m > rem || (m == 0 && e == "nil") {
		// off script: serve what is asked, EOF separately
		s.drift++
		if rem == 0 {
			return 0, io.EOF
		}
		m, e = len(p), "nil"
		if m > rem {
			m = rem
		}
	}
	copy(p, s.data[s.pos:s.pos+m])
	s.pos += m
	switch e {
	case "EOF":
		if s.pos == len(s.data) {
			return m, io.EOF
		}
		s.drift++
		return m, nil
	case "ABORT":
		s.dead = true
		return m, errAbort
	}
	return m, nil
}

func (s *scriptedBody) Close() error { return nil }

func name(err error) string {
	if err == errAbort {
		return "ABORT"
	}
	return errName(err)
}

type readsObs struct {
	Delivered int    `json:"delivered"`
	Herr      string `json:"herr"`
	Sticky    bool   `json:"sticky"`
	Prefix    bool   `json:"prefix"`
	Beyond    bool   `json:"beyond_limit"`
	Drift     int    `json:"drift"`
	Calls     []call `json:"calls,omitempty"`
}

// runReads replays one behaviour. Returns the observation and the list of violated clauses.
func runReads(c *readsCase) (readsObs, []string) {
	data := pattern(c.Len)
	var us []call
	aborted := false
	for _, cl := range c.Calls {
		if cl.Um >= 0 {
			us = append(us, cl)
			if cl.Ue == "ABORT" {
				aborted = true
			}
		}
	}
	under := &scriptedBody{data: data, script: us}
	rd := limits.MaxBytesReader(httptest.NewRecorder(), under, int64(c.Lim))
	var got []byte
	o := readsObs{Sticky: true, Herr: "nil"}
	var first error
	doRead := func(k int, want *call) {
		buf := make([]byte, k)
		before := under.calls
		n, err := rd.Read(buf)
		if n < 0 || n > k {
			o.Beyond = true
			n = 0
		}
		got = append(got, buf[:n]...)
		o.Calls = append(o.Calls, call{K: k, N: n, Err: name(err)})
		if first != nil {
			// Sticky: same error, no bytes, underlying body left alone
			if n != 0 || err != first || under.calls != before {
				o.Sticky = false
			}
		} else if err != nil {
			first = err
		}
		if want != nil && (want.N != n || want.Err != name(err)) {
			o.Drift++
		}
	}
	for i := range c.Calls {
		doRead(c.Calls[i].K, &c.Calls[i])
	}
	for extra := 0; first == nil && extra < c.Len+4; extra++ { // off script: read on to the end
		doRead(1, nil)
		o.Drift++
	}
	o.Delivered = len(got)
	o.Herr = name(first)
	o.Prefix = len(got) <= len(data) && bytes.Equal(got, data[:len(got)])
	o.Drift += under.drift
	var bad []string
	if len(got) > c.Lim {
		bad = append(bad, "NeverBeyondLimit")
	}
	if !o.Prefix {
		bad = append(bad, "DeliveredPrefix(content)")
	}
	if !o.Sticky {
		bad = append(bad, "Sticky")
	}
	if !aborted { // the body did not fail: exact prefix, error iff too large
		if o.Delivered != c.Delivered {
			bad = append(bad, "DeliveredPrefix")
		}
		if o.Herr != c.Herr {
			bad = append(bad, "ErrIff")
		}
	}
	if aborted {
		if o.Delivered > c.Len || o.Delivered > c.Lim || !(o.Herr == "ABORT" || o.Herr == "MAX") {
			bad = append(bad, "AbortSafe")
		}
	}
	return o, bad
}

func readsKey(c *readsCase, clause string) string {
	var ks, us []string
	for _, cl := range c.Calls {
		ks = append(ks, strconv.Itoa(cl.K))
		if cl.Um >= 0 {
			u := strconv.Itoa(cl.Um)
			if cl.Ue != "nil" {
				u += strings.ToLower(cl.Ue)
			}
			us = append(us, u)
		}
	}
	return fmt.Sprintf("C17/reader/%s/lim=%d/len=%d/reads=%s/body=%s", clause, c.Lim, c.Len, strings.Join(ks, ","), strings.Join(us, ","))
}

func partReads(t *testing.T, res *hx.Result) (selfHit bool) {
	cases := hx.LoadCases[readsCase](t, "LimitsReads")
	drift := 0
	for i := range cases {
		c := &cases[i]
		if hx.SelfTest() && i%50 == 0 {
			cc := *c
			cc.Delivered++ // corrupt the expectation
			c = &cc
		}
		o, bad := runReads(c)
		drift += o.Drift
		nt := ""
		if c.Len >= c.Lim {
			nt = fmt.Sprintf("r/%d/%d/%d", c.Lim, c.Len, len(c.Calls))
		}
		res.Count(nt)
		if i%4001 == 0 {
			res.Sample(map[string]interface{}{"kind": "reader", "case": c, "observed": o})
		}
		if len(bad) == 0 {
			continue
		}
		if hx.SelfTest() {
			selfHit = true
			continue
		}
		o2, bad2 := runReads(c) // second time, fresh reader
		if len(bad2) == 0 {
			continue
		}
		res.Add(hx.Mismatch{Key: readsKey(c, bad2[0]), What: fmt.Sprintf("limits.MaxBytesReader(limit %d) over a %d-byte body violates %v: delivered %d bytes, error %s (model: %d, %s)", c.Lim, c.Len, bad2, o2.Delivered, o2.Herr, c.Delivered, c.Herr),
			Case: replayCase{Kind: "reads", Reads: c}, Expected: map[string]interface{}{"delivered": c.Delivered, "herr": c.Herr}, Observed: o2})
	}
	res.AddExtra("reader_behaviours", len(cases))
	res.AddExtra("reader_model_drift_calls", drift)
	return
}

// ---------------------------------------------------------------- live sites

type backendRec struct {
	body []byte
	err  string
	done bool
}

type backend struct {
	mu   sync.Mutex
	recs map[string]*backendRec
	lns  []net.Listener
	srv  *http.Server
}

func newBackend() (*backend, error) {
	b := &backend{recs: map[string]*backendRec{}}
	b.srv = &http.Server{Handler: http.HandlerFunc(func(w http.ResponseWriter, r *http.Request) {
		id := r.Header.Get("X-C17-Id")
		rec := &backendRec{}
		b.mu.Lock()
		b.recs[id] = rec
		b.mu.Unlock()
		buf := make([]byte, 4096)
		var body []byte
		var err error
		for err == nil {
			var n int
			n, err = r.Body.Read(buf)
			body = append(body, buf[:n]...)
			b.mu.Lock()
			rec.body = body
			b.mu.Unlock()
		}
		b.mu.Lock()
		rec.err = errName(err)
		rec.done = true
		b.mu.Unlock()
		w.Header().Set("X-C17-Backend", "1")
		w.WriteHeader(200)
		io.WriteString(w, "backend-ok")
	})}
	for i := 0; i < 2; i++ {
		ln, err := net.Listen("tcp", "127.0.0.1:0")
		if err != nil {
			return nil, err
		}
		b.lns = append(b.lns, ln)
		go b.srv.Serve(ln)
	}
	return b, nil
}

func (b *backend) addr(i int) string { return b.lns[i].Addr().String() }

// take waits (briefly) for the record of a request and removes it.
func (b *backend) take(id string, wait time.Duration) (body []byte, err string, found bool) {
	deadline := time.Now().Add(wait)
	for {
		b.mu.Lock()
		rec := b.recs[id]
		if rec != nil && (rec.done || time.Now().After(deadline)) {
			delete(b.recs, id)
			body, err = append([]byte(nil), rec.body...), rec.err
			b.mu.Unlock()
			return body, err, true
		}
		b.mu.Unlock()
		if time.Now().After(deadline) {
			return nil, "", false
		}
		time.Sleep(2 * time.Millisecond)
	}
}

func unitBytes(u string) int64 {
	switch strings.ToUpper(u) {
	case "KB":
		return 1024
	case "000":
		return 1000
	}
	return 1
}

func scopeText(e entry, noSlash bool) string {
	s := strings.Join(e.S, "")
	if noSlash && len(s) > 1 {
		return s[1:]
	}
	return s
}

func limitsBlock(lr *liveReq) string {
	if len(lr.Table) == 0 {
		return ""
	}
	if len(lr.Table) == 1 && strings.Join(lr.Table[0].S, "") == "/" && lr.NoSlash {
		if lr.Unit == "kb" {
			// one-argument form: the same size also becomes the header limit (net/http adds 4 KiB of slack)
			return fmt.Sprintf("\tlimits %d%s\n", lr.Table[0].Lim, lr.Unit)
		}
		return fmt.Sprintf("\tlimits {\n\t\tbody %d%s\n\t}\n", lr.Table[0].Lim, lr.Unit)
	}
	var b strings.Builder
	b.WriteString("\tlimits {\n")
	for _, i := range lr.Order {
		e := lr.Table[i]
		fmt.Fprintf(&b, "\t\tbody %s %d%s\n", scopeText(e, lr.NoSlash), e.Lim, lr.Unit)
	}
	b.WriteString("\t}\n")
	return b.String()
}

func liveCasketfile(lr *liveReq, p1, p2, p3 int, be *backend) string {
	lb := limitsBlock(lr)
	var b strings.Builder
	fmt.Fprintf(&b, "c17.test:%d {\n\tbind 127.0.0.1\n\ttls off\n%s\tverifc17reads\n}\n", p1, lb)
	fmt.Fprintf(&b, "c17.test:%d {\n\tbind 127.0.0.1\n\ttls off\n%s\tproxy / %s\n}\n", p2, lb, be.addr(0))
	fmt.Fprintf(&b, "c17.test:%d {\n\tbind 127.0.0.1\n\ttls off\n%s\tproxy / %s %s {\n\t\ttry_duration 2s\n\t}\n}\n", p3, lb, be.addr(0), be.addr(1))
	return b.String()
}

type liveSite struct {
	site       *hx.Site
	p1, p2, p3 int
}

func startLive(lr *liveReq, be *backend) (*liveSite, error) {
	var err error
	for try := 0; try < 4; try++ {
		ls := &liveSite{p1: hx.StablePort(), p2: hx.StablePort(), p3: hx.StablePort()}
		ls.site, err = hx.StartHTTP(liveCasketfile(lr, ls.p1, ls.p2, ls.p3, be), "")
		if err == nil {
			return ls, nil
		}
		if !strings.Contains(err.Error(), "address already in use") {
			break
		}
	}
	return nil, fmt.Errorf("start failed: %v\n%s", err, liveCasketfile(lr, 1, 2, 3, be))
}

var idCounter struct {
	sync.Mutex
	n int
}

func nextID() string {
	idCounter.Lock()
	defer idCounter.Unlock()
	idCounter.n++
	return "r" + strconv.Itoa(idCounter.n)
}

// rawRequest renders the request bytes as a list of separate TCP writes.
func rawRequest(lr *liveReq, id string, body []byte) [][]byte {
	var h bytes.Buffer
	fmt.Fprintf(&h, "POST %s HTTP/1.1\r\nHost: c17.test\r\nX-C17-Id: %s\r\nX-C17-Reads: %s\r\nConnection: close\r\n", lr.Path, id, lr.Reads)
	chunk := func(b []byte) []byte {
		return []byte(fmt.Sprintf("%x\r\n%s\r\n", len(b), b))
	}
	switch lr.Framing {
	case "cl":
		fmt.Fprintf(&h, "Content-Length: %d\r\n\r\n", len(body))
		return [][]byte{append(h.Bytes(), body...)}
	case "cl-split": // header, then the body in two writes split at the limit
		fmt.Fprintf(&h, "Content-Length: %d\r\n\r\n", len(body))
		cut := len(body) / 2
		if lr.LimBytes >= 0 && int(lr.LimBytes) < len(body) {
			cut = int(lr.LimBytes)
		}
		return [][]byte{h.Bytes(), body[:cut], body[cut:]}
	case "chunk-all":
		h.WriteString("Transfer-Encoding: chunked\r\n\r\n")
		out := h.Bytes()
		if len(body) > 0 {
			out = append(out, chunk(body)...)
		}
		return [][]byte{append(out, "0\r\n\r\n"...)}
	case "chunk-1", "chunk-7":
		sz := 1
		if lr.Framing == "chunk-7" {
			sz = 7
		}
		h.WriteString("Transfer-Encoding: chunked\r\n\r\n")
		out := h.Bytes()
		for i := 0; i < len(body); i += sz {
			j := i + sz
			if j > len(body) {
				j = len(body)
			}
			out = append(out, chunk(body[i:j])...)
		}
		return [][]byte{append(out, "0\r\n\r\n"...)}
	case "chunk-at-limit": // one chunk up to the limit, one for the rest, separate writes
		h.WriteString("Transfer-Encoding: chunked\r\n\r\n")
		cut := len(body) / 2
		if lr.LimBytes >= 0 && int(lr.LimBytes) < len(body) {
			cut = int(lr.LimBytes)
		}
		ws := [][]byte{h.Bytes()}
		if cut > 0 {
			ws = append(ws, chunk(body[:cut]))
		}
		if cut < len(body) {
			ws = append(ws, chunk(body[cut:]))
		}
		return append(ws, []byte("0\r\n\r\n"))
	}
	panic("framing " + lr.Framing)
}

type liveObs struct {
	Status  int          `json:"status"`
	Report  *readsReport `json:"report,omitempty"`
	Backend *struct {
		Got    int    `json:"got"`
		Err    string `json:"err"`
		Prefix bool   `json:"prefix"`
	} `json:"backend,omitempty"`
	Body string `json:"body,omitempty"`
	Err  string `json:"err,omitempty"`
}

// doLive sends one request and judges it. Returns violated clauses (nil = fine); err = infrastructure.
func doLive(ls *liveSite, be *backend, lr *liveReq) (liveObs, []string, error) {
	port := ls.p1
	switch lr.Mode {
	case "proxy":
		port = ls.p2
	case "proxybuf":
		port = ls.p3
	}
	id := nextID()
	body := pattern(lr.Len)
	conn, err := net.DialTimeout("tcp", "127.0.0.1:"+strconv.Itoa(port), 5*time.Second)
	if err != nil {
		return liveObs{}, nil, err
	}
	defer conn.Close()
	conn.SetDeadline(time.Now().Add(20 * time.Second))
	if tc, ok := conn.(*net.TCPConn); ok {
		tc.SetNoDelay(true)
	}
	done := make(chan struct{})
	go func() { // the server may answer and close before it has taken the whole body
		defer close(done)
		for _, w := range rawRequest(lr, id, body) {
			if _, err := conn.Write(w); err != nil {
				return
			}
		}
	}()
	rc := bufio.NewReader(conn)
	resp, err := http.ReadResponse(rc, &http.Request{Method: "POST"})
	var o liveObs
	if err != nil {
		<-done
		return o, nil, fmt.Errorf("no response for %+v: %v", lr, err)
	}
	rb, _ := io.ReadAll(resp.Body)
	resp.Body.Close()
	<-done
	o.Status = resp.StatusCode
	var bad []string
	if lr.Mode == "handler" {
		var rep readsReport
		if resp.StatusCode != 200 || json.Unmarshal(rb, &rep) != nil {
			o.Body = string(rb)
			return o, []string{"handler-response"}, nil
		}
		o.Report = &rep
		if lr.LimBytes >= 0 && rep.Total > lr.LimBytes {
			bad = append(bad, "NeverBeyondLimit")
		}
		if rep.Total != int64(lr.Deliver) || rep.Sum != sha(body[:lr.Deliver]) {
			bad = append(bad, "DeliveredPrefix")
		}
		wantErr := "EOF"
		if lr.TooLarge {
			wantErr = "MAX"
		}
		if rep.Err != wantErr {
			bad = append(bad, "ErrIff")
		}
		for _, pc := range rep.Post {
			if pc.N != 0 || pc.Err != rep.Err {
				bad = append(bad, "Sticky")
				break
			}
		}
		return o, bad, nil
	}
	// proxied
	wait := 1500 * time.Millisecond
	if lr.TooLarge {
		wait = 300 * time.Millisecond
	}
	got, berr, found := be.take(id, wait)
	if found {
		o.Backend = &struct {
			Got    int    `json:"got"`
			Err    string `json:"err"`
			Prefix bool   `json:"prefix"`
		}{len(got), berr, len(got) <= len(body) && bytes.Equal(got, body[:len(got)])}
		if !o.Backend.Prefix {
			bad = append(bad, "DeliveredPrefix(content)")
		}
		if lr.LimBytes >= 0 && int64(len(got)) > lr.LimBytes {
			bad = append(bad, "NeverBeyondLimit")
		}
	}
	if lr.TooLarge {
		if resp.StatusCode != 413 {
			o.Body = string(rb)
			bad = append(bad, "Proxy413")
		}
	} else {
		if resp.StatusCode != 200 || !found || len(got) != lr.Len || berr != "EOF" {
			o.Body = string(rb)
			bad = append(bad, "DeliveredPrefix")
		}
	}
	return o, bad, nil
}

func tableText(tb []entry, unit string) string {
	var xs []string
	for _, e := range tb {
		xs = append(xs, fmt.Sprintf("%s:%d%s", strings.Join(e.S, ""), e.Lim, unit))
	}
	sort.Strings(xs)
	return "{" + strings.Join(xs, ",") + "}"
}

func liveKey(lr *liveReq, clause string) string {
	reads := lr.Reads
	return fmt.Sprintf("C17/%s/%s/table=%s/path=%s/len=%s/framing=%s/reads=%s", lr.Mode, clause, tableText(lr.Table, lr.Unit), lr.Path, lr.LenName, lr.Framing, reads)
}

var framings = []string{"cl", "cl-split", "chunk-all", "chunk-1", "chunk-7", "chunk-at-limit"}

// requestsFor builds the request battery of one rendering of a table.
func requestsFor(tc *tableCase, base liveReq, rnd *rand.Rand, full bool) []liveReq {
	u := unitBytes(base.Unit)
	maxLim := int64(0)
	for _, e := range tc.Table {
		if int64(e.Lim)*u > maxLim {
			maxLim = int64(e.Lim) * u
		}
	}
	var out []liveReq
	for j, p := range tc.Paths {
		path := strings.Join(p, "")
		w := tc.Want[j]
		type ln struct {
			n        int
			name     string
			deliver  int
			toolarge bool
		}
		var lens []ln
		limB := int64(-1)
		if w == 0 {
			for _, n := range []int{0, 1, int(maxLim) + 1, 70000} {
				lens = append(lens, ln{n, strconv.Itoa(n), n, false})
			}
		} else {
			lim := tc.Table[w-1].Lim
			limB = int64(lim) * u
			if u == 1 {
				for d, oc := range tc.Outcome[w-1] { // the model's own table: lengths 0..2*lim+1
					lens = append(lens, ln{d, relName(d, lim), oc.Deliver, oc.TooLarge})
				}
			} else {
				L := int(limB)
				for _, n := range []int{0, L - 1, L, L + 1, L + int(u), 2*L + 1} {
					d := n
					if d > L {
						d = L
					}
					lens = append(lens, ln{n, relName2(n, L, int(u)), d, n > L})
				}
			}
		}
		for _, l := range lens {
			modes := []string{"handler"}
			if full || rnd.Intn(3) == 0 {
				modes = append(modes, "proxy")
			}
			if full || rnd.Intn(6) == 0 {
				modes = append(modes, "proxybuf")
			}
			for _, m := range modes {
				r := base
				r.Mode, r.Path, r.Len, r.LenName = m, path, l.n, l.name
				r.LimBytes, r.Deliver, r.TooLarge = limB, l.deliver, l.toolarge
				r.Framing = framings[rnd.Intn(len(framings))]
				if l.n > 20000 && (r.Framing == "chunk-1" || r.Framing == "chunk-7") {
					r.Framing = "chunk-all"
				}
				r.Reads = readScript(rnd, limB)
				out = append(out, r)
			}
		}
	}
	return out
}

func relName(n, lim int) string {
	switch {
	case n == lim:
		return "lim"
	case n < lim:
		return fmt.Sprintf("lim-%d", lim-n)
	}
	return fmt.Sprintf("lim+%d", n-lim)
}

func relName2(n, lim, u int) string {
	switch {
	case n == 0:
		return "0"
	case n == lim+u:
		return "lim+unit"
	case n == 2*lim+1:
		return "2lim+1"
	}
	return relName(n, lim)
}

func readScript(rnd *rand.Rand, limB int64) string {
	l := int(limB)
	if l < 1 {
		l = 3
	}
	opts := [][]int{{1}, {l}, {l + 1}, {32768}, {1, l + 1, 32768}, {l, 1}, {2, 32768, 1}, {512}}
	if l > 4096 { // keep 1-byte reads of large bodies rare
		opts = append(opts[1:], []int{7, l}, []int{4096})
	}
	o := opts[rnd.Intn(len(opts))]
	var xs []string
	for _, k := range o {
		xs = append(xs, strconv.Itoa(k))
	}
	return strings.Join(xs, ",") + ";post=2"
}

func hasInteresting(tc *tableCase) bool { return len(tc.Table) >= 2 }

func partLive(t *testing.T, res *hx.Result, be *backend) (selfHit bool, infra error) {
	cases := hx.LoadCases[tableCase](t, "Limits")
	rnd := hx.Rand()
	max := 80
	if hx.Thorough() {
		max = 300
	}
	todo := hx.SampleIdx(rnd, len(cases), max)
	res.AddExtra("tables_from_tlc", len(cases))
	res.AddExtra("tables_replayed", len(todo))
	units := []string{"B", "KB", "kb", "000"}
	var mu sync.Mutex
	nreq := 0
	jobs := make(chan int)
	var wg sync.WaitGroup
	for w := 0; w < 10; w++ {
		wg.Add(1)
		wrnd := rand.New(rand.NewSource(hx.Seed()*7919 + int64(w)))
		go func() {
			defer wg.Done()
			for idx := range jobs {
				tc := &cases[idx]
				if hx.SelfTest() && len(tc.Table) > 0 {
					cc := *tc
					cc.Want = append([]int(nil), tc.Want...)
					cc.Want[1] = (cc.Want[1] + 1) % (len(tc.Table) + 1) // corrupt: another scope for path /p
					tc = &cc
				}
				renderings := []liveReq{{Table: tc.Table, Order: wrnd.Perm(len(tc.Table)), Unit: "", NoSlash: wrnd.Intn(2) == 0}}
				renderings = append(renderings, liveReq{Table: tc.Table, Order: wrnd.Perm(len(tc.Table)), Unit: units[wrnd.Intn(len(units))], NoSlash: wrnd.Intn(2) == 0})
				for ri, base := range renderings {
					ls, err := startLive(&base, be)
					if err != nil {
						mu.Lock()
						if infra == nil {
							infra = err
						}
						mu.Unlock()
						continue
					}
					reqs := requestsFor(tc, base, wrnd, hx.Thorough() && ri == 0)
					for k := range reqs {
						lr := &reqs[k]
						_, bad, err := doLive(ls, be, lr)
						mu.Lock()
						nreq++
						if err != nil && infra == nil {
							infra = err
						}
						mu.Unlock()
						if err != nil || len(bad) == 0 {
							continue
						}
						if hx.SelfTest() {
							mu.Lock()
							selfHit = true
							mu.Unlock()
							continue
						}
						confirmLive(res, be, lr)
					}
					ls.site.Stop()
				}
				nt := ""
				if hasInteresting(tc) {
					nt = "t/" + tableText(tc.Table, "")
				}
				res.Count(nt)
				if idx%23 == 0 {
					res.Sample(map[string]interface{}{"kind": "live", "table": tableText(tc.Table, ""), "paths": tc.Paths, "want_scope_index_per_path": tc.Want,
						"casketfile": liveCasketfile(&renderings[0], 1001, 1002, 1003, be)})
				}
			}
		}()
	}
	for _, i := range todo {
		jobs <- i
	}
	close(jobs)
	wg.Wait()
	res.AddExtra("live_requests", nreq)
	return
}

// confirmLive repeats one request on a fresh instance; only a reproduced violation is reported.
func confirmLive(res *hx.Result, be *backend, lr *liveReq) {
	ls, err := startLive(lr, be)
	if err != nil {
		return
	}
	defer ls.site.Stop()
	o, bad, err := doLive(ls, be, lr)
	if err != nil || len(bad) == 0 {
		return
	}
	res.Add(hx.Mismatch{Key: liveKey(lr, bad[0]), What: describeLive(lr, o, bad),
		Case: replayCase{Kind: "live", Live: lr}, Expected: map[string]interface{}{"limit_bytes": lr.LimBytes, "deliver": lr.Deliver, "toolarge": lr.TooLarge}, Observed: o})
}

func describeLive(lr *liveReq, o liveObs, bad []string) string {
	s := fmt.Sprintf("%s: limits %s, POST %s with a %d-byte body (%s, reads %s): the limit that applies is %d bytes, so %d bytes must arrive and too-large=%v; violated %v; observed status %d", lr.Mode, tableText(lr.Table, lr.Unit), lr.Path, lr.Len, lr.Framing, lr.Reads, lr.LimBytes, lr.Deliver, lr.TooLarge, bad, o.Status)
	if o.Report != nil {
		s += fmt.Sprintf(", handler got %d bytes, error %s, later reads %v", o.Report.Total, o.Report.Err, o.Report.Post)
	}
	if o.Backend != nil {
		s += fmt.Sprintf(", backend got %d bytes (%s)", o.Backend.Got, o.Backend.Err)
	}
	return s
}

// ---------------------------------------------------------------- listener merge

type mergeConc struct {
	DurS    string `json:"dur_small"`
	DurL    string `json:"dur_large"`
	None    string `json:"none"`
	HdrS    string `json:"hdr_small"`
	HdrL    string `json:"hdr_large"`
	Short   []bool `json:"short_form"` // per site: use `timeouts V` when all four knobs are equal
	OneArgL []bool `json:"one_arg_limits"`
}

var durPairs = [][2]string{{"1s", "30s"}, {"500ms", "2m"}, {"10s", "1h"}, {"1m30s", "90m"}, {"30s", "5m1s"}}
var hdrPairs = [][2]string{{"1KB", "8KB"}, {"512", "4096"}, {"100B", "2kb"}, {"2048", "1MB"}}
var tknobs = []string{"read", "header", "write", "idle"}
var allKnobs = []string{"read", "header", "write", "idle", "maxhdr"}

func parseHdr(s string) int64 {
	u := strings.ToUpper(s)
	mult := int64(1)
	switch {
	case strings.HasSuffix(u, "KB"):
		mult, u = 1024, u[:len(u)-2]
	case strings.HasSuffix(u, "MB"):
		mult, u = 1<<20, u[:len(u)-2]
	case strings.HasSuffix(u, "B"):
		u = u[:len(u)-1]
	}
	n, _ := strconv.ParseInt(u, 10, 64)
	return n * mult
}

func newConc(rnd *rand.Rand, n int) *mergeConc {
	d := durPairs[rnd.Intn(len(durPairs))]
	h := hdrPairs[rnd.Intn(len(hdrPairs))]
	c := &mergeConc{DurS: d[0], DurL: d[1], HdrS: h[0], HdrL: h[1], None: []string{"none", "0", "0s"}[rnd.Intn(3)]}
	for i := 0; i < n; i++ {
		c.Short = append(c.Short, rnd.Intn(2) == 0)
		c.OneArgL = append(c.OneArgL, rnd.Intn(4) == 0)
	}
	return c
}

func (c *mergeConc) dur(v int) string {
	switch v {
	case 0:
		return c.None
	case 1:
		return c.DurS
	}
	return c.DurL
}

func mergeCasketfile(mc *mergeCase, port int) string {
	c := mc.Conc
	var b strings.Builder
	for i, s := range mc.Sites {
		fmt.Fprintf(&b, "m%d.test:%d {\n\tbind 127.0.0.1\n\ttls off\n", i+1, port)
		same := s["read"] >= 0 && s["read"] == s["header"] && s["read"] == s["write"] && s["read"] == s["idle"]
		switch {
		case same && c.Short[i]:
			fmt.Fprintf(&b, "\ttimeouts %s\n", c.dur(s["read"]))
		default:
			var lines []string
			for _, k := range tknobs {
				if s[k] >= 0 {
					lines = append(lines, fmt.Sprintf("\t\t%s %s\n", k, c.dur(s[k])))
				}
			}
			if len(lines) > 0 {
				b.WriteString("\ttimeouts {\n" + strings.Join(lines, "") + "\t}\n")
			}
		}
		if h := s["maxhdr"]; h > 0 {
			v := c.HdrS
			if h == 2 {
				v = c.HdrL
			}
			if c.OneArgL[i] {
				fmt.Fprintf(&b, "\tlimits %s\n", v) // one-argument form: header and body limit
			} else {
				fmt.Fprintf(&b, "\tlimits {\n\t\theader %s\n\t}\n", v)
			}
		}
		b.WriteString("\tstatus 204 /\n}\n")
	}
	return b.String()
}

type serverFields struct {
	Read, Header, Write, Idle string
	MaxHeaderBytes            int
}

func (c *mergeConc) wantFields(want map[string]int) serverFields {
	d := func(k string) string {
		switch want[k] {
		case -2:
			if k == "idle" {
				return (5 * time.Minute).String()
			}
			return "0s"
		case 0:
			return "0s"
		case 1:
			x, _ := time.ParseDuration(c.DurS)
			return x.String()
		}
		x, _ := time.ParseDuration(c.DurL)
		return x.String()
	}
	f := serverFields{Read: d("read"), Header: d("header"), Write: d("write"), Idle: d("idle")}
	switch want["maxhdr"] {
	case 1:
		f.MaxHeaderBytes = int(parseHdr(c.HdrS))
	case 2:
		f.MaxHeaderBytes = int(parseHdr(c.HdrL))
	}
	return f
}

func (f serverFields) get(k string) string {
	switch k {
	case "read":
		return f.Read
	case "header":
		return f.Header
	case "write":
		return f.Write
	case "idle":
		return f.Idle
	}
	return strconv.Itoa(f.MaxHeaderBytes)
}

var valName = map[int]string{-2: "default", -1: "unset", 0: "none", 1: "small", 2: "large"}

func mergeKey(mc *mergeCase, knob string) string {
	var vs []string
	for _, s := range mc.Sites {
		vs = append(vs, valName[s[knob]])
	}
	return fmt.Sprintf("C17/merge/knob=%s/sites=[%s]", knob, strings.Join(vs, ","))
}

// runMerge starts the group for real and returns the knobs whose effective value is wrong.
func runMerge(mc *mergeCase) (got serverFields, wrong []string, err error) {
	var site *hx.Site
	for try := 0; try < 4; try++ {
		port := hx.StablePort()
		site, err = hx.StartHTTP(mergeCasketfile(mc, port), "")
		if err == nil || !strings.Contains(err.Error(), "address already in use") {
			break
		}
	}
	if err != nil {
		return got, nil, fmt.Errorf("start failed: %v\n%s", err, mergeCasketfile(mc, 1))
	}
	defer site.Stop()
	srvs := httpserver.VerifHTTPServersOf(site.Inst)
	if len(srvs) != 1 {
		return got, nil, fmt.Errorf("expected one shared listener, got %d for\n%s", len(srvs), mergeCasketfile(mc, 1))
	}
	s := srvs[0]
	got = serverFields{s.ReadTimeout.String(), s.ReadHeaderTimeout.String(), s.WriteTimeout.String(), s.IdleTimeout.String(), s.MaxHeaderBytes}
	want := mc.Conc.wantFields(mc.Want)
	for _, k := range allKnobs {
		if got.get(k) != want.get(k) {
			wrong = append(wrong, k)
		}
	}
	return got, wrong, nil
}

func partMerge(t *testing.T, res *hx.Result) (selfHit bool, infra error) {
	cases := hx.LoadCases[mergeCase](t, "ListenerMerge")
	rnd := hx.Rand()
	limit := 1200
	if hx.Thorough() {
		limit = 12000
	}
	// always: every group in which at most one knob is set by anybody (the per-knob exhaustive part)
	var todo, rest []int
	for i := range cases {
		if activeKnobs(&cases[i]) <= 1 {
			todo = append(todo, i)
		} else {
			rest = append(rest, i)
		}
	}
	if len(todo) > limit {
		keep := hx.SampleIdx(rnd, len(todo), limit)
		t2 := make([]int, 0, limit)
		for _, k := range keep {
			t2 = append(t2, todo[k])
		}
		todo = t2
	} else {
		for _, k := range hx.SampleIdx(rnd, len(rest), limit-len(todo)) {
			todo = append(todo, rest[k])
		}
	}
	res.AddExtra("merge_groups_from_tlc", len(cases))
	res.AddExtra("merge_groups_replayed", len(todo))
	var mu sync.Mutex
	jobs := make(chan int)
	var wg sync.WaitGroup
	for w := 0; w < 10; w++ {
		wg.Add(1)
		wrnd := rand.New(rand.NewSource(hx.Seed()*104729 + int64(w)))
		go func() {
			defer wg.Done()
			for idx := range jobs {
				mc := cases[idx]
				mc.Conc = newConc(wrnd, len(mc.Sites))
				if hx.SelfTest() {
					w2 := map[string]int{}
					for k, v := range mc.Want {
						w2[k] = v
					}
					if w2["idle"] == 1 {
						w2["idle"] = 2
					} else {
						w2["idle"] = 1
					}
					mc.Want = w2
				}
				got, wrong, err := runMerge(&mc)
				if err != nil {
					mu.Lock()
					if infra == nil {
						infra = err
					}
					mu.Unlock()
					continue
				}
				nt := ""
				if len(mc.Sites) >= 2 && activeKnobs(&mc) >= 1 {
					b, _ := json.Marshal(mc.Sites)
					nt = "m/" + string(b)
				}
				res.Count(nt)
				if idx%997 == 0 {
					res.Sample(map[string]interface{}{"kind": "merge", "casketfile": mergeCasketfile(&mc, 1004), "want": mc.Conc.wantFields(mc.Want), "observed": got})
				}
				if len(wrong) == 0 {
					continue
				}
				if hx.SelfTest() {
					mu.Lock()
					selfHit = true
					mu.Unlock()
					continue
				}
				got2, wrong2, err := runMerge(&mc) // fresh instance
				if err != nil {
					continue
				}
				for _, k := range wrong2 {
					mcc := mc
					res.Add(hx.Mismatch{Key: mergeKey(&mc, k), What: describeMerge(&mc, k, got2),
						Case: replayCase{Kind: "merge", Merge: &mcc}, Expected: mc.Conc.wantFields(mc.Want), Observed: got2})
				}
			}
		}()
	}
	for _, i := range todo {
		jobs <- i
	}
	close(jobs)
	wg.Wait()
	return
}

func describeMerge(mc *mergeCase, k string, got serverFields) string {
	var vs []string
	for _, s := range mc.Sites {
		vs = append(vs, valName[s[k]])
	}
	return fmt.Sprintf("co-hosted sites configure %s = [%s] (small=%s large=%s / %s %s): the shared listener must use the strictest set value %s (%s), the real http.Server has %s", k, strings.Join(vs, ", "), mc.Conc.DurS, mc.Conc.DurL, mc.Conc.HdrS, mc.Conc.HdrL, valName[mc.Want[k]], mc.Conc.wantFields(mc.Want).get(k), got.get(k))
}

func activeKnobs(mc *mergeCase) int {
	n := 0
	for _, k := range allKnobs {
		for _, s := range mc.Sites {
			if s[k] >= 0 {
				n++
				break
			}
		}
	}
	return n
}

// ---------------------------------------------------------------- driver

func TestC17(t *testing.T) {
	hx.Quiet()
	res := hx.NewResult("TestC17", "reader: one case = one terminal behaviour of the maxBytesReader model (limit, body length, sequence of Read sizes, answers of the underlying body incl. EOF-with-data and failures), replayed call by call against limits.MaxBytesReader (non-trivial: body >= limit); live: one case = one limit table (<=K nested scopes x limits) rendered in 2 unit/spelling variants on a real casket site, probed with 9 paths x all body lengths 0..2*limit+1 x 6 framings x scripted read sizes, directly and through proxy (non-trivial: >=2 scopes); merge: one case = one group of <=3 co-hosted sites setting each listener-wide knob to unset/none/small/large, effective http.Server fields read from the running instance (non-trivial: >=2 sites, >=1 knob set)")
	defer res.Write(t)

	be, err := newBackend()
	if err != nil {
		res.Infra = "backend: " + err.Error()
		return
	}
	defer be.srv.Close()

	if rc, ok := hx.LoadReplay[replayCase](t); ok {
		replayOne(res, be, &rc)
		return
	}

	hitR := partReads(t, res)
	hitM, infraM := partMerge(t, res)
	hitL, infraL := partLive(t, res, be)
	if infraM != nil {
		res.Infra = infraM.Error()
	}
	if infraL != nil {
		res.Infra = infraL.Error()
	}
	if hx.SelfTest() && !(hitR && hitM && hitL) {
		res.Infra = fmt.Sprintf("selftest: corrupted expectations were not all noticed (reader=%v merge=%v live=%v)", hitR, hitM, hitL)
	}
	res.Replayed = res.Evaluations
}

func replayOne(res *hx.Result, be *backend, rc *replayCase) {
	res.Count("replay")
	switch rc.Kind {
	case "reads":
		o, bad := runReads(rc.Reads)
		if len(bad) > 0 {
			res.Add(hx.Mismatch{Key: readsKey(rc.Reads, bad[0]), What: fmt.Sprintf("replayed: violated %v", bad), Case: rc, Observed: o})
		}
	case "live":
		confirmLive(res, be, rc.Live)
	case "merge":
		got, wrong, err := runMerge(rc.Merge)
		if err != nil {
			res.Infra = err.Error()
			return
		}
		for _, k := range wrong {
			res.Add(hx.Mismatch{Key: mergeKey(rc.Merge, k), What: "replayed: " + describeMerge(rc.Merge, k, got), Case: rc, Observed: got})
		}
	default:
		res.Infra = "replay file of unknown kind " + rc.Kind
	}
}
