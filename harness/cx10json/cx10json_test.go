// Extension of C10: the JSON form of a Casketfile (casketfile.ToJSON / FromJSON) and the
// Dispenser calls every setup function walks its tokens with (specs/CasketJson.tla).
//
// TLC emits two kinds of cases:
//
//	cfg   a small configuration (AST: optional snippet + server blocks of lines of token texts over
//	      an alphabet of adversarial arguments) with what the model's Parse, ToJSON and FromJSON make
//	      of it.  The driver writes it as Casketfile text in several seeded layouts (quoting where
//	      there is a choice, braces written "{" or `"{"`, comments, blank lines, CRLF, no final line
//	      break, single block without braces), runs casketfile.Parse, ToJSON, FromJSON, Parse again and
//	      ToJSON again, and judges
//	        parse            Parse(T) = the model's server blocks (keys, names, token texts, line starts)
//	        tojson           ToJSON(T) = the model's JSON (up to the order of the lines of a body)
//	        roundtrip-blocks Parse(FromJSON(ToJSON(T))) has the server blocks of Parse(T)   (declarative)
//	        roundtrip-json   ToJSON(FromJSON(J)) = J                                        (declarative)
//	        rejects          ToJSON rejects exactly what Parse rejects
//	        total            no panic, every call returns
//	      The text FromJSON writes is compared with the model's only as drift (free choice).
//	walk  a token list (arbitrary short ones and directive-shaped ones) with a sequence of Dispenser
//	      calls and, per call, the result, the cursor, Nesting(), Val() and the returned strings; run
//	      against casketfile.NewDispenserTokens over the same tokens.
package cx10json

import (
	"bytes"
	"encoding/json"
	"fmt"
	"math/rand"
	"os"
	"reflect"
	"runtime/debug"
	"sort"
	"strings"
	"sync"
	"testing"
	"time"

	"github.com/tmpim/casket/casketfile"

	"verifharness/hx"
)

const module = "CasketJson"

// ---------------------------------------------------------------- cases from TLC

type meta struct {
	Sh string `json:"sh"`
	Kf string `json:"kf"`
	A  string `json:"a"`
	B  string `json:"b"`
}

type astBlock struct {
	Keys []string   `json:"keys"`
	Body [][]string `json:"body"`
}

type ast struct {
	Snip   [][]string `json:"snip"`
	Blocks []astBlock `json:"blocks"`
}

type xTok struct {
	T  string
	NL bool
}

func (x *xTok) UnmarshalJSON(b []byte) error {
	var raw []json.RawMessage
	if err := json.Unmarshal(b, &raw); err != nil || len(raw) != 2 {
		return fmt.Errorf("expected token %s: %v", b, err)
	}
	if err := json.Unmarshal(raw[0], &x.T); err != nil {
		return err
	}
	return json.Unmarshal(raw[1], &x.NL)
}
func (x xTok) MarshalJSON() ([]byte, error) { return json.Marshal([]interface{}{x.T, x.NL}) }

type xDir struct {
	Name string `json:"name"`
	Toks []xTok `json:"toks"`
}

type xBlock struct {
	Keys []string `json:"keys"`
	Dirs []xDir   `json:"dirs"`
}

type wTok struct {
	T string
	L int
	X int
}

func (w *wTok) UnmarshalJSON(b []byte) error {
	var raw []json.RawMessage
	if err := json.Unmarshal(b, &raw); err != nil || len(raw) != 3 {
		return fmt.Errorf("walk token %s: %v", b, err)
	}
	for i, dst := range []interface{}{&w.T, &w.L, &w.X} {
		if err := json.Unmarshal(raw[i], dst); err != nil {
			return err
		}
	}
	return nil
}
func (w wTok) MarshalJSON() ([]byte, error) { return json.Marshal([]interface{}{w.T, w.L, w.X}) }

type wCall struct {
	Op   string
	OK   bool
	C    int // Go's cursor: -1 = nothing loaded
	N    int
	V    string
	A    []string
	Init int
}

func (c *wCall) UnmarshalJSON(b []byte) error {
	var raw []json.RawMessage
	if err := json.Unmarshal(b, &raw); err != nil || len(raw) != 7 {
		return fmt.Errorf("call %s: %v", b, err)
	}
	for i, dst := range []interface{}{&c.Op, &c.OK, &c.C, &c.N, &c.V, &c.A, &c.Init} {
		if err := json.Unmarshal(raw[i], dst); err != nil {
			return err
		}
	}
	return nil
}
func (c wCall) MarshalJSON() ([]byte, error) {
	a := c.A
	if a == nil {
		a = []string{}
	}
	return json.Marshal([]interface{}{c.Op, c.OK, c.C, c.N, c.V, a, c.Init})
}

type tlcCase struct {
	Kind string `json:"kind"`
	// cfg
	Meta   meta     `json:"meta"`
	Cfg    ast      `json:"cfg"`
	Reject bool     `json:"reject"`
	Exp    []xBlock `json:"exp"`
	JSON   []string `json:"json"`
	Text   string   `json:"text"`
	// walk
	Src   string  `json:"src"`
	Toks  []wTok  `json:"toks"`
	Calls []wCall `json:"calls"`
}

// replayCase is what a mismatch carries. Part is a part name the C10 driver knows (it then finds
// its own payload missing and does nothing): a replay file goes to every driver of the property.
type replayCase struct {
	Part   string   `json:"part"`
	Ext    string   `json:"ext"` // "casketjson"
	Case   *tlcCase `json:"tlc"`
	Layout int64    `json:"layout"` // seed of the layout (cfg)
}

// ---------------------------------------------------------------- concrete characters

const envSet, envUnset = "VERIF_CJ_E", "VERIF_CJ_V"

var uBlanks = []string{"\u00a0", "\v", "\f", "\u0085", "\u2003", "\u3000"}

// conc turns a text over the model's alphabet into characters; u is this case's Unicode blank.
func conc(s, u string) string {
	var b strings.Builder
	for _, r := range s {
		switch r {
		case 'S':
			b.WriteByte(' ')
		case 'T':
			b.WriteByte('\t')
		case 'U':
			b.WriteString(u)
		case 'N':
			b.WriteByte('\n')
		case 'R':
			b.WriteByte('\r')
		case 'Q':
			b.WriteByte('"')
		case 'B':
			b.WriteByte('\\')
		case 'H':
			b.WriteByte('#')
		case 'O':
			b.WriteByte('{')
		case 'C':
			b.WriteByte('}')
		case 'D':
			b.WriteByte('$')
		case 'P':
			b.WriteByte('%')
		case 'M':
			b.WriteByte(',')
		case 'E':
			b.WriteString(envSet)
		case 'V':
			b.WriteString(envUnset)
		default:
			b.WriteRune(r)
		}
	}
	return b.String()
}

// ---------------------------------------------------------------- writing a configuration as text

func mustQuote(s string) bool {
	if s == "" || s[0] == '"' || strings.ContainsRune(s, '#') {
		return true
	}
	for _, r := range s {
		switch r {
		case ' ', '\t', '\n', '\r', '\v', '\f', 0x85, 0xa0, 0x2003, 0x3000:
			return true
		}
	}
	return false
}

// cannotQuote: inside quotes \" is a quote and a final \ would take the closing quote
func cannotQuote(s string) bool { return strings.Contains(s, `\"`) || strings.HasSuffix(s, `\`) }

func quoted(s string) string { return `"` + strings.ReplaceAll(s, `"`, `\"`) + `"` }

type writer struct {
	rnd *rand.Rand
	u   string
	eol string
}

func (w *writer) tok(abs string) string {
	s := conc(abs, w.u)
	switch {
	case abs == "O" || abs == "C": // a brace: after lexing "{" and `"{"` are the same token
		if w.rnd.Intn(5) == 0 {
			return quoted(s)
		}
		return s
	case mustQuote(s):
		return quoted(s)
	case cannotQuote(s):
		return s
	case w.rnd.Intn(3) == 0:
		return quoted(s)
	}
	return s
}

func (w *writer) line(b *strings.Builder, depth int, toks []string) {
	ind := strings.Repeat("\t", depth)
	sep, tail := " ", ""
	switch w.rnd.Intn(7) {
	case 1:
		tail = " # note { } \"quoted\" import x"
	case 2:
		b.WriteString(w.eol)
	case 3:
		b.WriteString(ind + "# comment line: import nothing }" + w.eol)
	case 4:
		sep, tail, ind = " \t  ", "  \t", ind+"  "
	case 5:
		ind = ""
	}
	b.WriteString(ind + strings.Join(toks, sep) + tail + w.eol)
}

func (w *writer) lines(b *strings.Builder, depth int, lines [][]string) {
	for _, ln := range lines {
		if len(ln) == 1 && ln[0] == "C" {
			depth--
		}
		var toks []string
		for _, t := range ln {
			if ln[0] == "import" {
				toks = append(toks, conc(t, w.u)) // import lines are written plainly
				continue
			}
			toks = append(toks, w.tok(t))
		}
		w.line(b, depth, toks)
		if ln[len(ln)-1] == "O" {
			depth++
		}
	}
}

// render writes the configuration; layout seeds every free choice.
func render(c *tlcCase, layout int64) string {
	rnd := rand.New(rand.NewSource(layout))
	w := &writer{rnd: rnd, u: uBlanks[rnd.Intn(len(uBlanks))], eol: "\n"}
	if rnd.Intn(4) == 0 {
		w.eol = "\r\n"
	}
	var b strings.Builder
	if len(c.Cfg.Snip) > 0 {
		w.line(&b, 0, []string{"(sn)", "{"})
		w.lines(&b, 1, c.Cfg.Snip)
		w.line(&b, 0, []string{"}"})
	}
	nobrace := len(c.Cfg.Blocks) == 1 && rnd.Intn(4) == 0
	for _, blk := range c.Cfg.Blocks {
		var keys []string
		style := rnd.Intn(3)
		for i, k := range blk.Keys {
			s := conc(k, w.u)
			if i < len(blk.Keys)-1 {
				switch style {
				case 1:
					s += ","
				case 2:
					s += "," + w.eol
				}
			}
			keys = append(keys, s)
		}
		if !nobrace {
			keys = append(keys, "{")
		}
		line := ""
		for i, k := range keys {
			if i > 0 && !strings.HasSuffix(keys[i-1], w.eol) {
				line += " "
			}
			line += k
		}
		b.WriteString(line + w.eol)
		d := 1
		if nobrace {
			d = 0
		}
		w.lines(&b, d, blk.Body)
		if !nobrace {
			w.line(&b, 0, []string{"}"})
		}
	}
	s := b.String()
	if rnd.Intn(3) == 0 {
		s = strings.TrimRight(s, "\r\n")
	}
	return s
}

func unicodeBlankOf(layout int64) string {
	rnd := rand.New(rand.NewSource(layout))
	return uBlanks[rnd.Intn(len(uBlanks))]
}

// ---------------------------------------------------------------- observing the real code

type oTok struct {
	T  string `json:"t"`
	NL bool   `json:"nl"`
}

type oBlock struct {
	Keys []string          `json:"keys"`
	Dirs map[string][]oTok `json:"dirs"`
}

type observation struct {
	Text     string   `json:"text"`
	ParseErr string   `json:"parse_err,omitempty"`
	Blocks   []oBlock `json:"blocks,omitempty"`
	JSONErr  string   `json:"tojson_err,omitempty"`
	JSON     string   `json:"json,omitempty"`
	FromErr  string   `json:"fromjson_err,omitempty"`
	Text2    string   `json:"text2,omitempty"`
	Parse2   string   `json:"parse2_err,omitempty"`
	Blocks2  []oBlock `json:"blocks2,omitempty"`
	JSON2Err string   `json:"tojson2_err,omitempty"`
	JSON2    string   `json:"json2,omitempty"`
	Panic    string   `json:"panic,omitempty"`
	Hang     bool     `json:"hang,omitempty"`
}

// shape reads the tokens of every directive the way a setup function does: which token starts a line
// is asked of a real Dispenser (NextArg), the tokens keep their import chains.
func shape(bs []casketfile.ServerBlock) []oBlock {
	out := make([]oBlock, 0, len(bs))
	for _, sb := range bs {
		ob := oBlock{Keys: append([]string{}, sb.Keys...), Dirs: map[string][]oTok{}}
		for name, toks := range sb.Tokens {
			d := casketfile.NewDispenserTokens("Casketfile", toks)
			var ot []oTok
			for i := 0; i < len(toks); i++ {
				nl := true
				if i > 0 && d.NextArg() {
					nl = false
				} else {
					d.Next()
				}
				ot = append(ot, oTok{T: d.Val(), NL: nl})
			}
			ob.Dirs[name] = ot
		}
		out = append(out, ob)
	}
	return out
}

func pipeline(text string) (o observation) {
	o.Text = text
	defer func() {
		if r := recover(); r != nil {
			o.Panic = fmt.Sprintf("%v\n%s", r, firstLines(string(debug.Stack()), 12))
		}
	}()
	b1, err := casketfile.Parse("Casketfile", strings.NewReader(text), nil)
	if err != nil {
		o.ParseErr = err.Error()
	} else {
		o.Blocks = shape(b1)
	}
	j, err := casketfile.ToJSON([]byte(text))
	if err != nil {
		o.JSONErr = err.Error()
		return
	}
	o.JSON = string(j)
	t2, err := casketfile.FromJSON(j)
	if err != nil {
		o.FromErr = err.Error()
		return
	}
	o.Text2 = string(t2)
	b2, err := casketfile.Parse("Casketfile", bytes.NewReader(t2), nil)
	if err != nil {
		o.Parse2 = err.Error()
	} else {
		o.Blocks2 = shape(b2)
	}
	j2, err := casketfile.ToJSON(t2)
	if err != nil {
		o.JSON2Err = err.Error()
		return
	}
	o.JSON2 = string(j2)
	return
}

// guarded runs the pipeline under a deadline: a call that does not return is an observation.
func guarded(text string) observation {
	ch := make(chan observation, 1)
	go func() { ch <- pipeline(text) }()
	select {
	case o := <-ch:
		return o
	case <-time.After(10 * time.Second):
		return observation{Text: text, Hang: true}
	}
}

func firstLines(s string, n int) string {
	ls := strings.Split(s, "\n")
	if len(ls) > n {
		ls = ls[:n]
	}
	return strings.Join(ls, "\n")
}

// ---------------------------------------------------------------- judging a configuration

// flatten serialises decoded JSON the way JsonOut of the specification does.
func flatten(raw string) ([]string, error) {
	var enc []struct {
		Keys []string        `json:"keys"`
		Body [][]interface{} `json:"body"`
	}
	if err := json.Unmarshal([]byte(raw), &enc); err != nil {
		return nil, err
	}
	var out []string
	var line func(l []interface{}) error
	line = func(l []interface{}) error {
		out = append(out, "L")
		for _, e := range l {
			switch v := e.(type) {
			case string:
				out = append(out, "="+v)
			case []interface{}:
				out = append(out, "B")
				for _, il := range v {
					ll, ok := il.([]interface{})
					if !ok {
						return fmt.Errorf("block holds %T", il)
					}
					if err := line(ll); err != nil {
						return err
					}
				}
				out = append(out, "b")
			default:
				return fmt.Errorf("line holds %T", e)
			}
		}
		out = append(out, "l")
		return nil
	}
	for _, sb := range enc {
		out = append(out, "S")
		for _, k := range sb.Keys {
			out = append(out, "K"+k)
		}
		out = append(out, "{")
		for _, l := range sb.Body {
			if err := line(l); err != nil {
				return nil, err
			}
		}
		out = append(out, "}")
	}
	return out, nil
}

// bodyLines splits a flattened JSON into per-block sorted top-level lines (order-insensitive form).
func bodyLines(items []string) []string {
	var out []string
	var cur []string
	var lines []string
	depth := 0
	for _, it := range items {
		switch it[0] {
		case 'S':
			out = append(out, it)
		case 'K', '{':
			out = append(out, it)
		case '}':
			// lines of one directive keep their order; across directives the order is free
			sort.SliceStable(lines, func(a, b int) bool { return firstStr(lines[a]) < firstStr(lines[b]) })
			out = append(out, lines...)
			out = append(out, it)
			lines = nil
		default:
			cur = append(cur, it)
			if it[0] == 'L' {
				depth++
			}
			if it[0] == 'l' {
				depth--
				if depth == 0 {
					lines = append(lines, strings.Join(cur, "\x00"))
					cur = nil
				}
			}
		}
	}
	return out
}

func firstStr(line string) string {
	p := strings.SplitN(line, "\x00", 3)
	if len(p) > 1 {
		return p[1]
	}
	return ""
}

func expBlocks(c *tlcCase, u string) []oBlock {
	out := make([]oBlock, 0, len(c.Exp))
	for _, xb := range c.Exp {
		ob := oBlock{Keys: []string{}, Dirs: map[string][]oTok{}}
		for _, k := range xb.Keys {
			ob.Keys = append(ob.Keys, conc(k, u))
		}
		for _, d := range xb.Dirs {
			var ot []oTok
			for _, t := range d.Toks {
				ot = append(ot, oTok{T: conc(t.T, u), NL: t.NL})
			}
			ob.Dirs[conc(d.Name, u)] = ot
		}
		out = append(out, ob)
	}
	return out
}

func sameBlocks(a, b []oBlock) (bool, string) {
	if len(a) != len(b) {
		return false, fmt.Sprintf("%d server blocks vs %d", len(a), len(b))
	}
	for i := range a {
		if !reflect.DeepEqual(a[i].Keys, b[i].Keys) {
			return false, fmt.Sprintf("block %d: keys %q vs %q", i+1, a[i].Keys, b[i].Keys)
		}
		if len(a[i].Dirs) != len(b[i].Dirs) {
			return false, fmt.Sprintf("block %d: directives %q vs %q", i+1, hx.SortedKeys(a[i].Dirs), hx.SortedKeys(b[i].Dirs))
		}
		for name, ta := range a[i].Dirs {
			tb, ok := b[i].Dirs[name]
			if !ok {
				return false, fmt.Sprintf("block %d: directive %q vs none (%q)", i+1, name, hx.SortedKeys(b[i].Dirs))
			}
			if !reflect.DeepEqual(ta, tb) {
				return false, fmt.Sprintf("block %d directive %q: tokens %s vs %s", i+1, name, showToks(ta), showToks(tb))
			}
		}
	}
	return true, ""
}

func showToks(ts []oTok) string {
	var b strings.Builder
	for i, t := range ts {
		if t.NL && i > 0 {
			b.WriteString(" /")
		}
		fmt.Fprintf(&b, " %q", t.T)
	}
	return "[" + strings.TrimSpace(b.String()) + "]"
}

type verdict struct {
	clause, what string
	drift        string
}

// judge compares one observation with the model and with itself.
func judge(c *tlcCase, layout int64, o *observation) (v verdict) {
	u := unicodeBlankOf(layout)
	switch {
	case o.Hang:
		return verdict{clause: "total/hang", what: "Parse / ToJSON / FromJSON did not return within 10 s"}
	case o.Panic != "":
		return verdict{clause: "total/panic", what: "panic: " + firstLines(o.Panic, 3)}
	case (o.ParseErr == "") != (o.JSONErr == ""):
		return verdict{clause: "rejects", what: fmt.Sprintf("Parse error %q but ToJSON error %q", o.ParseErr, o.JSONErr)}
	}
	if c.Reject {
		if o.ParseErr == "" {
			return verdict{clause: "parse/accepted", what: "Parse accepts a configuration that is not well-formed"}
		}
		return
	}
	if o.ParseErr != "" {
		return verdict{clause: "parse/rejected", what: "a well-formed configuration was rejected: " + o.ParseErr}
	}
	exp := expBlocks(c, u)
	if ok, why := sameBlocks(exp, o.Blocks); !ok {
		return verdict{clause: "parse", what: "written vs Parse(T): " + why}
	}
	// ToJSON(T) against the model's JSON
	got, err := flatten(o.JSON)
	if err != nil {
		return verdict{clause: "tojson", what: "ToJSON output is not an EncodedCasketfile: " + err.Error()}
	}
	want := make([]string, len(c.JSON))
	for i, it := range c.JSON {
		want[i] = it[:1] + conc(it[1:], u)
	}
	if !reflect.DeepEqual(got, want) {
		if !reflect.DeepEqual(bodyLines(got), bodyLines(want)) {
			return verdict{clause: "tojson", what: fmt.Sprintf("ToJSON(T) = %s, the model has %q", o.JSON, want)}
		}
		v.drift = "tojson-order"
	}
	// the round trip, judged on the real artefacts
	if o.FromErr != "" {
		return verdict{clause: "roundtrip-blocks", what: "FromJSON rejects the output of ToJSON: " + o.FromErr}
	}
	if o.Parse2 != "" {
		return verdict{clause: "roundtrip-blocks", what: fmt.Sprintf("Parse rejects FromJSON(ToJSON(T)) = %q: %s", o.Text2, o.Parse2)}
	}
	if ok, why := sameBlocks(o.Blocks, o.Blocks2); !ok {
		return verdict{clause: "roundtrip-blocks", what: fmt.Sprintf("Parse(T) vs Parse(FromJSON(ToJSON(T))): %s; text written by FromJSON: %q", why, o.Text2)}
	}
	if o.JSON2Err != "" || o.JSON2 != o.JSON {
		return verdict{clause: "roundtrip-json", what: fmt.Sprintf("J = %s but ToJSON(FromJSON(J)) = %s %s", o.JSON, o.JSON2, o.JSON2Err)}
	}
	if v.drift == "" && o.Text2 != conc(c.Text, u) {
		v.drift = "fromjson-text"
	}
	return
}

func cfgKey(c *tlcCase, clause string) string {
	return fmt.Sprintf("C10/casketjson/%s/sh=%s,kf=%s,a=%s,b=%s", clause, c.Meta.Sh, c.Meta.Kf, c.Meta.A, c.Meta.B)
}

// ---------------------------------------------------------------- running a walk

type callObs struct {
	OK bool     `json:"ok"`
	C  int      `json:"c"`
	N  int      `json:"n"`
	V  string   `json:"v"`
	A  []string `json:"a"`
}

func runWalk(c *tlcCase) (obs []callObs, panicked string) {
	defer func() {
		if r := recover(); r != nil {
			panicked = fmt.Sprintf("%v\n%s", r, firstLines(string(debug.Stack()), 12))
		}
	}()
	toks := make([]casketfile.Token, len(c.Toks))
	for i, t := range c.Toks {
		toks[i] = casketfile.Token{Text: conc(t.T, " "), Line: t.L}
		if t.X != 0 {
			// another import expansion: from outside the package that is another file
			toks[i].File = fmt.Sprintf("/expansion/%d", t.X)
		}
	}
	d := casketfile.NewDispenserTokens("Testfile", toks)
	saved := 0
	for _, call := range c.Calls {
		var o callObs
		o.A = []string{}
		switch call.Op {
		case "Next":
			o.OK = d.Next()
		case "NextArg":
			o.OK = d.NextArg()
		case "NextLine":
			o.OK = d.NextLine()
		case "NextBlock":
			o.OK = d.NextBlock()
		case "NextBlockNesting":
			o.OK = d.NextBlockNesting(saved)
		case "Nesting":
			saved = d.Nesting()
			o.OK = true
		case "RemainingArgs":
			o.A = append(o.A, d.RemainingArgs()...)
			o.OK = true
		case "Args2":
			a, b := "\x00unset", "\x00unset"
			o.OK = d.Args(&a, &b)
			for _, s := range []string{a, b} {
				if s != "\x00unset" {
					o.A = append(o.A, s)
				}
			}
		default:
			panic("unknown call " + call.Op)
		}
		// the cursor is not exported: a copy of the dispenser counts what is left
		cp := d
		left := 0
		for cp.Next() {
			left++
		}
		o.C = len(toks) - 1 - left
		o.N = d.Nesting()
		o.V = d.Val()
		obs = append(obs, o)
	}
	return
}

func judgeWalk(c *tlcCase, obs []callObs, panicked string) (clause, what string) {
	if panicked != "" {
		return "total/panic", "panic: " + firstLines(panicked, 3)
	}
	for i, call := range c.Calls {
		o := obs[i]
		wantA := make([]string, 0, len(call.A))
		for _, a := range call.A {
			wantA = append(wantA, conc(a, " "))
		}
		if o.OK != call.OK || o.C != call.C || o.N != call.N || o.V != conc(call.V, " ") || !reflect.DeepEqual(o.A, wantA) {
			return "call/" + call.Op, fmt.Sprintf("call %d %s: the dispenser returns ok=%v cursor=%d nesting=%d val=%q strings=%q, the model ok=%v cursor=%d nesting=%d val=%q strings=%q",
				i+1, call.Op, o.OK, o.C, o.N, o.V, o.A, call.OK, call.C, call.N, conc(call.V, " "), wantA)
		}
	}
	return "", ""
}

func walkKey(c *tlcCase, clause string) string {
	var tb, cb strings.Builder
	for i, t := range c.Toks {
		if i > 0 {
			tb.WriteByte(' ')
		}
		fmt.Fprintf(&tb, "%s@%d", t.T, t.L)
		if t.X != 0 {
			fmt.Fprintf(&tb, "x%d", t.X)
		}
	}
	for i, call := range c.Calls {
		if i > 0 {
			cb.WriteByte(',')
		}
		cb.WriteString(call.Op)
	}
	return fmt.Sprintf("C10/casketjson/dispenser/%s/toks=%s/calls=%s", clause, tb.String(), cb.String())
}

// ---------------------------------------------------------------- the test

type checker struct {
	res      *hx.Result
	mu       sync.Mutex
	drift    map[string]int
	stats    map[string]int
	stCaught map[string]bool
	hangs    int
}

func (k *checker) stat(name string) { k.mu.Lock(); k.stats[name]++; k.mu.Unlock() }

// checkCfg writes one configuration in the given layout and judges it; a disagreement is
// reproduced by a second, separate run before it counts.
func (k *checker) checkCfg(c *tlcCase, layout int64, planted bool) {
	text := render(c, layout)
	o := guarded(text)
	v := judge(c, layout, &o)
	nt := ""
	if c.Meta.A != "w" || c.Meta.B != "w" || c.Meta.Sh != "args" {
		nt = fmt.Sprintf("%s/%s/%s/%s", c.Meta.Sh, c.Meta.Kf, c.Meta.A, c.Meta.B)
	}
	k.res.Count(nt)
	k.stat("cfg:" + c.Meta.Sh)
	if v.drift != "" {
		k.mu.Lock()
		k.drift[v.drift]++
		k.mu.Unlock()
	}
	if v.clause == "" {
		return
	}
	if o.Hang {
		k.mu.Lock()
		k.hangs++
		k.mu.Unlock()
	}
	o2 := guarded(text)
	v2 := judge(c, layout, &o2)
	if v2.clause == "" {
		return
	}
	if planted {
		k.mu.Lock()
		k.stCaught["cfg"] = true
		k.mu.Unlock()
		return
	}
	k.res.Add(hx.Mismatch{Key: cfgKey(c, v2.clause), What: v2.what,
		Case:     replayCase{Part: "grammar", Ext: "casketjson", Case: c, Layout: layout},
		Expected: map[string]interface{}{"blocks": c.Exp, "json": c.JSON, "reject": c.Reject}, Observed: o2})
}

func (k *checker) checkWalk(c *tlcCase, planted bool) {
	obs, p := runWalk(c)
	nt := ""
	for _, call := range c.Calls {
		if call.Op == "NextBlock" || call.Op == "NextBlockNesting" || call.Op == "RemainingArgs" {
			nt = walkKey(c, "")
			break
		}
	}
	k.res.Count(nt)
	k.stat("walk:" + c.Src)
	cl, _ := judgeWalk(c, obs, p)
	if cl == "" {
		return
	}
	obs, p = runWalk(c)
	cl, what := judgeWalk(c, obs, p)
	if cl == "" {
		return
	}
	if planted {
		k.mu.Lock()
		k.stCaught["walk"] = true
		k.mu.Unlock()
		return
	}
	k.res.Add(hx.Mismatch{Key: walkKey(c, cl), What: what,
		Case: replayCase{Part: "grammar", Ext: "casketjson", Case: c}, Expected: c.Calls, Observed: obs})
}

func parallel(n, workers int, fn func(i int)) {
	var wg sync.WaitGroup
	ch := make(chan int, 256)
	for w := 0; w < workers; w++ {
		wg.Add(1)
		go func() {
			defer wg.Done()
			for i := range ch {
				fn(i)
			}
		}()
	}
	for i := 0; i < n; i++ {
		ch <- i
	}
	close(ch)
	wg.Wait()
}

func TestCx10Json(t *testing.T) {
	hx.Quiet()
	res := hx.NewResult("TestCx10Json", "cases from CasketJson.tla: (a) every configuration shape (args, block, args+block, nested, depth 3, empty block, two directives with one repeated, two server blocks, snippet imported at top level and twice inside a block, two rejected shapes) x key form x adversarial arguments in two slots, each written as Casketfile text in several seeded layouts and sent through casketfile.Parse, ToJSON, FromJSON, Parse, ToJSON; (b) every sequence of Dispenser calls of the bounded length over every short token list and over directive-shaped token lists, run on casketfile.NewDispenserTokens; non-trivial = configuration with a non-plain argument or structure, walk with a NextBlock or RemainingArgs call")
	defer res.Write(t)

	// a replay file of another driver of this property is not ours
	if p := hx.Replay(); p != "" {
		b, _ := os.ReadFile(p)
		var w struct {
			Case struct {
				Ext string `json:"ext"`
			} `json:"case"`
		}
		if json.Unmarshal(b, &w) != nil || w.Case.Ext != "casketjson" {
			res.AddExtra("replay", "not a casketjson case: skipped")
			return
		}
	}
	os.Setenv(envSet, "e v")
	os.Unsetenv(envUnset)
	k := &checker{res: res, drift: map[string]int{}, stats: map[string]int{}, stCaught: map[string]bool{}}

	if rp, ok := hx.LoadReplay[replayCase](t); ok {
		if rp.Case == nil {
			res.Infra = "replay file carries no case"
			return
		}
		if rp.Case.Kind == "cfg" {
			k.checkCfg(rp.Case, rp.Layout, false)
		} else {
			k.checkWalk(rp.Case, false)
		}
		res.Replayed = res.Evaluations
		return
	}

	cases := hx.LoadCases[tlcCase](t, module)
	var cfgs, walks []*tlcCase
	for i := range cases {
		if cases[i].Kind == "cfg" {
			cfgs = append(cfgs, &cases[i])
		} else {
			walks = append(walks, &cases[i])
		}
	}
	res.AddExtra("configurations_from_tlc", len(cfgs))
	res.AddExtra("walks_from_tlc", len(walks))
	if len(cfgs) == 0 || len(walks) == 0 {
		res.Infra = "TLC emitted no configurations or no walks"
		return
	}
	// TLC's workers print in any order
	sort.SliceStable(cfgs, func(a, b int) bool { return cfgKey(cfgs[a], "") < cfgKey(cfgs[b], "") })
	sort.SliceStable(walks, func(a, b int) bool { return walkKey(walks[a], "") < walkKey(walks[b], "") })

	seed := hx.Seed()
	layouts := 3
	if hx.Thorough() {
		layouts = 4
	}
	selftest := hx.SelfTest()
	plantedCfg, plantedWalk := -1, -1
	if selftest {
		// one wrong expectation of each kind: a token text of a configuration, the result of a call
		for i, c := range cfgs {
			if !c.Reject && len(c.Exp) > 0 && len(c.Exp[0].Dirs) > 0 && len(c.Exp[0].Dirs[0].Toks) > 1 {
				cc := *c
				raw, _ := json.Marshal(c.Exp)
				json.Unmarshal(raw, &cc.Exp)
				cc.Exp[0].Dirs[0].Toks[1].T += "z"
				cfgs[i] = &cc
				plantedCfg = i
				break
			}
		}
		for i, c := range walks {
			if len(c.Calls) > 1 && c.Calls[1].Op == "NextArg" {
				cc := *c
				cc.Calls = append([]wCall{}, c.Calls...)
				cc.Calls[1].OK = !cc.Calls[1].OK
				walks[i] = &cc
				plantedWalk = i
				break
			}
		}
	}

	t0 := time.Now()
	parallel(len(cfgs), 8, func(i int) {
		c := cfgs[i]
		for l := 0; l < layouts; l++ {
			layout := seed*1000003 + int64(i)*31 + int64(l)
			if k.hangs > 3 {
				return
			}
			k.checkCfg(c, layout, i == plantedCfg)
			if i%211 == 7 && l == 0 {
				res.Sample(map[string]interface{}{"kind": "cfg", "meta": c.Meta, "text": render(c, layout), "expected_blocks": c.Exp})
			}
		}
	})
	res.AddExtra("configurations_s", time.Since(t0).Seconds())
	t0 = time.Now()
	parallel(len(walks), 8, func(i int) {
		k.checkWalk(walks[i], i == plantedWalk)
		if i%50021 == 11 {
			res.Sample(map[string]interface{}{"kind": "walk", "toks": walks[i].Toks, "calls": walks[i].Calls})
		}
	})
	res.AddExtra("walks_s", time.Since(t0).Seconds())

	k.observations()
	res.AddExtra("model_drift", k.drift)
	res.AddExtra("cases_by_kind", k.stats)
	res.Replayed = res.Evaluations
	if selftest {
		if !k.stCaught["cfg"] || !k.stCaught["walk"] {
			res.Infra = fmt.Sprintf("selftest: planted wrong expectations not noticed (cfg %v, walk %v)", k.stCaught["cfg"], k.stCaught["walk"])
		}
		return
	}
	// vacuity: every shape and both walk sources must have been run
	for _, need := range []string{"cfg:args", "cfg:block", "cfg:argsblock", "cfg:nested", "cfg:deep", "cfg:empty", "cfg:twodirs", "cfg:twoblocks", "cfg:snippet", "cfg:strayclose", "cfg:badimport", "walk:arbitrary", "walk:shaped"} {
		if k.stats[need] == 0 {
			res.Infra = "vacuous replay: no case of " + need
		}
	}
}

// observations records (does not judge) the behaviours notes/CasketJson.md lists as observations.
func (k *checker) observations() {
	obs := map[string]interface{}{}
	rt := func(text string) string {
		o := guarded(text)
		if o.JSONErr != "" {
			return "ToJSON: " + o.JSONErr
		}
		return o.Text2
	}
	obs["key_with_blank"] = rt("\"a b\" {\n\td1 x\n}")
	obs["close_brace_shares_line"] = rt("h1 {\n\td1 {\n\t\ts1 x }\n}")
	obs["empty_directive_name"] = rt("h1 {\n\t\"\" x\n\td2\n}")
	obs["directive_order"] = rt("h1 {\n\td2 x\n\td1 y\n}")
	obs["missing_final_brace_accepted"] = rt("h1 {\n\td1 x {\n\t\ts1\n}")
	d := casketfile.NewDispenserTokens("Testfile", nil)
	obs["NextArg_on_empty_dispenser"] = d.NextArg()
	k.res.AddExtra("observations", obs)
}
