#!/bin/bash
# eval_seed.sh <src dir with patch.diff + demo> <property> <demo target dir> [test pattern]: confirm a delivered change and run the quick check against it
src=$1; prop=$2; target=$3; pat=${4:-.}
cd /verif
echo "--- verify"; ./verify_seed.sh "$src" "$target" "$pat" 2>&1 | tail -3
echo "--- check $prop"; TIER=${TIER:-quick} ./seedtest.sh "$src/patch.diff" $prop 2>&1 | tail -4
