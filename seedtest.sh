#!/bin/bash
# seedtest.sh <patch.diff> <property> [more properties...]
# Tries a seeded change without touching /repo: a scratch worktree of /repo's HEAD gets the patch,
# the checks run against it through VERIF_REPO, the worktree is removed again.
# (The registered protocol - git -C /repo apply; ./check; git -C /repo checkout - gives the same result.)
set -u
patch=$(readlink -f "$1"); shift
wt=$(mktemp -d /tmp/seedwt.XXXXXX)
git -C /repo worktree add -q --detach "$wt" HEAD || exit 2
trap 'git -C /repo worktree remove --force "$wt" >/dev/null 2>&1; rm -rf "$wt"' EXIT
if ! git -C "$wt" apply "$patch"; then echo "PATCH DOES NOT APPLY"; exit 2; fi
export GOFLAGS=-mod=mod GOPROXY=off GOSUMDB=off GOTOOLCHAIN=local
(cd "$wt" && go build ./... ) || { echo "PATCH DOES NOT BUILD"; exit 2; }
rc=0
for p in "$@"; do
  out=$(cd /verif && VERIF_REPO="$wt" ./check "$p" --tier "${TIER:-quick}" 2>&1)
  e=$?
  echo "== $p exit=$e"
  echo "$out" | grep -A2 "^VIOLATION\|INFRA" | cut -c1-400 | head -8
  [ $e -ne 0 ] && rc=$e
done
exit $rc
