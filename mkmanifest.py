#!/usr/bin/env python3
"""Regenerates MANIFEST.json from props.py (the registry ./check runs from)."""
import json, os, subprocess
import props

ROOT = os.path.dirname(os.path.abspath(__file__))
ALL = [json.loads(l)["id"] for l in open(os.path.join(ROOT, "properties.jsonl"))]

def hooks_commits():
    try:
        out = subprocess.check_output(["git", "-C", "/repo", "log", "--format=%H %s"], text=True)
        return [l.split()[0] for l in out.splitlines() if l.split(" ", 1)[1].startswith("verif hook:")]
    except Exception:
        return []

# properties whose check has been reviewed and run on the unchanged tree (one id per line)
READY = set(open(os.path.join(ROOT, "ready.txt")).read().split())

checks = []
for pid in ALL:
    P = props.PROPS.get(pid)
    if not P or P.get("disabled") or pid not in READY:
        continue
    checks.append(dict(
        property_id=pid,
        quick_cmd="./check %s --tier quick" % pid,
        thorough_cmd="./check %s --tier thorough" % pid,
        evidence_file="/verif/evidence/%s.json" % pid,
        replay_cmd_template="./check %s --replay {path}" % pid,
        engine="tlc+go-replay",
        level_claimed=dict(category="model_checking", text=P["level_text"], design_ref=P.get("design_ref", "DESIGN.md section 3 " + pid)),
        level_note=P["level_note"],
        technique=P["technique"],
    ))
na = [dict(property_id=pid, reason=props.NOT_APPLICABLE.get(pid, "check not built yet in this round; planned in DESIGN.md section 3"))
      for pid in ALL if pid not in [c["property_id"] for c in checks]]
m = dict(
    version=1,
    setup_cmd="./setup.sh",
    hooks=dict(guard="verif", enable="go build/test -tags verif (the harness module replaces github.com/tmpim/casket with /repo)",
               baseline_off_cmd="cd /repo && GOFLAGS=-mod=mod go test -vet=off -count=1 -timeout 25m ./...",
               source_commits=hooks_commits(), add_only=True),
    engines=[dict(name="tlc+go-replay", path="/verif/check", serves_properties=[c["property_id"] for c in checks],
                  kind_free_text="explicit TLA+ specifications (specs/) explored by TLC; cases/behaviours replayed into the real code by Go drivers (harness/), traces recorded from the real code validated by TLC against *Trace.tla")],
    checks=checks,
    not_applicable=na,
    notes="See DESIGN.md. Exit 0 pass / 1 VIOLATION reproduced against the real code / 2 infrastructure trouble.",
)
json.dump(m, open(os.path.join(ROOT, "MANIFEST.json"), "w"), indent=1)
print("checks:", [c["property_id"] for c in checks], "not_applicable:", len(na))
