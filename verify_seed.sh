#!/bin/bash
# verify_seed.sh <seed dir with patch.diff and zz_*_test.go> <repo-relative dir for the demo test> <go test -run pattern>
# Confirms in a scratch worktree of /repo HEAD: demo passes without the change; with the change the
# project builds, the full existing suite passes and the demo fails.
set -u
d=$(readlink -f "$1"); target="$2"; pat="${3:-.}"
export GOFLAGS=-mod=mod GOPROXY=off GOSUMDB=off GOTOOLCHAIN=local
wt=$(mktemp -d /tmp/vseed.XXXXXX)
git -C /repo worktree add -q --detach "$wt" HEAD || exit 2
trap 'git -C /repo worktree remove --force "$wt" >/dev/null 2>&1; rm -rf "$wt"' EXIT
mkdir -p "$wt/$target"; cp "$d"/zz_*_test.go "$wt/$target/" || exit 2
(cd "$wt/$target" && go test -vet=off -count=1 -run "$pat" . > "$wt/demo_clean.log" 2>&1); c=$?
echo "demo without change: exit $c"
git -C "$wt" apply "$d/patch.diff" || { echo "PATCH DOES NOT APPLY to HEAD"; exit 2; }
(cd "$wt/$target" && go test -vet=off -count=1 -run "$pat" . > "$wt/demo_mut.log" 2>&1); m=$?
echo "demo with change: exit $m"; [ $m -ne 0 ] && grep -m3 -- "--- FAIL\|panic\|FAIL" "$wt/demo_mut.log" | cut -c1-200
rm -f "$wt/$target"/zz_*_test.go
(cd "$wt" && go build ./... && go test -vet=off -count=1 ./... > "$wt/suite.log" 2>&1); s=$?
echo "suite with change: exit $s ($(grep -c '^ok' "$wt/suite.log") packages ok, $(grep -c '^FAIL\|^--- FAIL' "$wt/suite.log") failing)"
[ $c -eq 0 ] && [ $m -ne 0 ] && [ $s -eq 0 ] && echo "CONFIRMED" || echo "NOT CONFIRMED"
