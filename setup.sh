#!/bin/sh
# Offline setup: copy go.sum from the repository and pre-build the harness with the verif tag
# (warms the build cache). A build problem is reported here but does not fail the setup:
# every ./check builds the one package it needs from /repo's working tree anyway.
cd "$(dirname "$0")"
export GOFLAGS=-mod=mod GOPROXY=off GOSUMDB=off GOTOOLCHAIN=local
cp /repo/go.sum harness/go.sum || exit 1
cd harness
if go build -tags verif ./... && go test -tags verif -vet=off -count=1 -run '^$' ./... >/dev/null 2>&1; then
  echo "setup ok"
else
  echo "setup: harness pre-build reported problems (see above); checks build on demand"
fi
exit 0
