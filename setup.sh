#!/bin/sh
# Offline setup: copy go.sum from the repository and pre-build the harness (warms the build cache).
set -e
cd "$(dirname "$0")"
export GOFLAGS=-mod=mod GOPROXY=off GOSUMDB=off GOTOOLCHAIN=local
cp /repo/go.sum harness/go.sum
cd harness
go build ./... 
go test -tags verif -vet=off -count=1 -run '^$' ./... >/dev/null 2>&1 || true
echo setup ok
