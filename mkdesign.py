#!/usr/bin/env python3
"""Regenerates the machine-made tables of DESIGN.md section 7 (between the AUTOGEN markers) from
props/, evidence/, findings/, seeded/ and /repo's git log."""
import glob, json, os, re, subprocess
import props
ROOT = os.path.dirname(os.path.abspath(__file__))
P = json.loads("[" + ",".join(open(os.path.join(ROOT, "properties.jsonl")).read().strip().splitlines()) + "]")
title = {p["id"]: p["title"] for p in P}
out = []
out.append("| id | specification modules (cfgs) | binding | last run recorded in evidence/ (tier: TLC states / distinct; cases or traces against the code; wall) | notes |")
out.append("|---|---|---|---|---|")
for pid in sorted(props.PROPS):
    pr = props.PROPS[pid]
    mods = []
    for m in pr.get("models", []):
        cfg = m["cfg"]
        c = "/".join(sorted(set(cfg.values()))) if isinstance(cfg, dict) else cfg
        mods.append("%s (%s%s)" % (m["module"], c, ", simulate" if m.get("simulate") else ""))
    tr = ["%s" % t["module"] for t in pr.get("traces", [])]
    binding = "replay" + (" + trace validation (%s)" % ", ".join(tr) if tr else "")
    ev = ""
    try:
        e = json.load(open(os.path.join(ROOT, "evidence", pid + ".json")))
        c = e["coverage"]
        ev = "%s: %s / %s; %s; %.0f s" % (e["tier"], f'{c.get("transitions",0):,}', f'{c.get("states",0):,}',
                                         f'{c.get("spec_cases_replayed_against_impl",0):,} cases' + (f', {c.get("recorded_traces_validated_by_tlc",0):,} traces' if tr else ""), e["wall_s"])
    except Exception:
        pass
    out.append("| %s | %s | %s | %s | notes/%s.md |" % (pid, "; ".join(mods), binding, ev, pid))
table1 = "\n".join(out)

# findings
rows = ["| property | state | commit | what |", "|---|---|---|---|"]
fl = []
for f in [os.path.join(ROOT, "known_findings.json")] + sorted(glob.glob(os.path.join(ROOT, "findings", "*.json"))):
    fl += json.load(open(f)).get("findings", [])
for f in sorted(fl, key=lambda x: (x["property"], x["state"])):
    w = re.sub(r"^fixed: property=\S+ \S+ ", "", f["what"])
    rows.append("| %s | %s | %s | %s |" % (f["property"], f["state"], f.get("commit", ""), w.replace("|", "\\|")[:300]))
table2 = "\n".join(rows)

# seeded
rows = ["| seeded change | property | what it needs to manifest | detected by ./check |", "|---|---|---|---|"]
for d in sorted(glob.glob(os.path.join(ROOT, "seeded", "*", "meta.json"))):
    m = json.load(open(d))
    rows.append("| seeded/%s | %s | %s | %s |" % (m["id"], m["property"], m["needs_to_manifest"].replace("|", "\\|")[:260], m["check"]["detected"]))
table3 = "\n".join(rows)

p = os.path.join(ROOT, "DESIGN.md")
s = open(p).read()
for name, t in (("PROPS", table1), ("FINDINGS", table2), ("SEEDED", table3)):
    a, b = "<!-- AUTOGEN %s BEGIN -->" % name, "<!-- AUTOGEN %s END -->" % name
    if a in s:
        s = s[:s.index(a) + len(a)] + "\n" + t + "\n" + s[s.index(b):]
open(p, "w").write(s)
print("DESIGN.md tables regenerated")
