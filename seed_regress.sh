#!/bin/bash
# seed_regress.sh [ids...]: runs every stored seeded change (seeded/<id>/patch.diff) against the quick check of
# its property (or of the property named in meta.json check.detected_by) and prints one line per change.
cd /verif
ids=("$@"); [ ${#ids[@]} -eq 0 ] && ids=($(ls seeded))
for id in "${ids[@]}"; do
  d=seeded/$id; [ -f $d/patch.diff ] || continue
  prop=$(python3 -c "import json;m=json.load(open('$d/meta.json'));print(m['check'].get('by', m['property']))")
  out=$(TIER=quick ./seedtest.sh $d/patch.diff $prop 2>&1); rc=$?
  case $rc in 1) r=DETECTED;; 0) r=MISSED;; *) r="INCONCLUSIVE($(echo "$out" | grep -m1 "DOES NOT\|INFRA" | cut -c1-80))";; esac
  echo "$id $prop $r"
done
