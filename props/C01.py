"""C01 pipeline (see DESIGN.md section 3, C01)."""

PROP = dict(
        models=[
            dict(module="VHost", cfg=dict(quick="VHost_quick.cfg", thorough="VHost_thorough.cfg"), workers=8,
                 timeout=dict(quick=300, thorough=1800)),
            dict(module="VHost", cfg=dict(quick="VHostEmit_quick.cfg", thorough="VHostEmit_thorough.cfg"), emit=True,
                 workers=16, timeout=dict(quick=300, thorough=3600)),
            # extension: how site addresses become listeners (specs/ListenerGroups.tla, notes/ListenerGroups.md):
            # invariants + one CASE per configuration; the two wrappers are the same module under other names
            # (three-site configurations; configurations loaded with -host / another -port)
            dict(module="ListenerGroups", cfg=dict(quick="ListenerGroups_quick.cfg", thorough="ListenerGroups_thorough.cfg"),
                 emit=True, workers=12, timeout=dict(quick=300, thorough=1500)),
            dict(module="ListenerGroups3", cfg=dict(thorough="ListenerGroups3_thorough.cfg"), emit=True, workers=8,
                 coverage=True, timeout=dict(thorough=900)),
            dict(module="ListenerGroupsHost", cfg=dict(thorough="ListenerGroupsHost_thorough.cfg"), emit=True, workers=8,
                 timeout=dict(thorough=900)),
        ],
        go=[dict(pkg="c01", test="TestC01", timeout=dict(quick=600, thorough=3600)),
            dict(pkg="cx01listeners", test="TestCx01Listeners", timeout=dict(quick=300, thorough=1500))],
        exhaustive=dict(quick=False, thorough=False),
        technique="TLA+ spec VHost.tla model-checked by TLC; routing tables replayed against real casket instances",
        level_text="TLC checks exhaustively (K sites over 13 host patterns x 5 path prefixes, 14x8 requests) that the stepwise model of vhostTrie.Match equals the declarative most-specific-site rule; the routing table of every site set is then replayed against real casket instances (casket.Start, raw HTTP/1.1 requests, several declaration orders, address forms and Host spellings). Bounded model checking plus conformance replay: right for a pure routing function whose input space is combinatorial.",
        level_note="Trusted: TLC, the bounded alphabets of VHost.tla (hosts of <=4 labels, 5 path prefixes), Go's net/http server for HTTP/1.1 framing. HTTP/2 (421) is not exercised.",
        assumptions=["HTTP/1.1 over loopback; the abstract host/path alphabets of VHost.tla",
                     "TLC shows the stepwise model of vhostTrie.Match equal to the declarative BestSite on the bounded alphabets; the replay compares the real server with BestSite"],
    )
