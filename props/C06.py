"""C06 pipeline (see DESIGN.md section 3, C06 and notes/C06.md)."""

ALL = '{"default", "old", "new", "cipher", "require", "verify", "off"}'

PROP = dict(
    models=[
        dict(module="TLSGroup", cfg=dict(quick="TLSGroup_quick.cfg", thorough="TLSGroup_thorough.cfg"), workers=8, coverage=True,
             timeout=dict(quick=300, thorough=2400)),
        dict(module="TLSGroup", cfg=dict(quick="TLSGroupEmit_quick.cfg", thorough="TLSGroupEmit_thorough.cfg"), emit=True, workers=8,
             timeout=dict(quick=300, thorough=1800)),
        # extension: from the tokens of the `tls` directive to the effective crypto/tls configuration
        # (specs/TLSDirective.tla, notes/TLSDirective.md): invariants + one CASE per file, one job
        dict(module="TLSDirective", cfg=dict(quick="TLSDirective_quick.cfg", thorough="TLSDirective_thorough.cfg"), emit=True, workers=8,
             coverage=True, timeout=dict(quick=300, thorough=1200)),
        # extension: which certificate a client is shown - `tls cert key` / `load dir` / self_signed, certmagic's cache and
        # name index, selection by SNI and client offer, reload (specs/CertSelect.tla, notes/CertSelect.md): invariants + cases, one job
        dict(module="CertSelect", cfg=dict(quick="CertSelect_quick.cfg", thorough="CertSelect_thorough.cfg"), emit=True, workers=8,
             coverage=True, timeout=dict(quick=300, thorough=1200)),
    ],
    go=[dict(pkg="c06", test="TestC06", timeout=dict(quick=600, thorough=3600)),
        dict(pkg="cx06tlsdir", test="TestCx06TLSDir", timeout=dict(quick=300, thorough=1200)),
        dict(pkg="cx06certsel", test="TestCx06CertSel", timeout=dict(quick=300, thorough=1200))],
    exhaustive=dict(quick=False, thorough=False),
    technique="TLA+ spec TLSGroup.tla (MakeTLSConfig, getConfig, negotiation, certificate selection, client authentication, vhost routing, strict SNI as actions; "
              "the statement's clauses as invariants) model-checked by TLC; the per-site-set tables replayed with real TLS handshakes and requests against casket.Start instances",
    level_text="TLC checks exhaustively for all sets of <=2 sites (6 host patterns x 7 TLS profiles, two sites of one name via a path), 7 SNI values, 5 version/cipher offers, "
               "3 client-certificate choices, 6 Host headers x 2 paths that the stepwise model of MakeTLSConfig/getConfig/handshake/serveHTTP satisfies GovernedBySNISite, "
               "HandshakeFollowsProfile, CertOfGoverningSite, MinTLS12Default, ClientAuthNotBypassed, MixRejected, SameNameSameSettings (and termination). The table of every site set "
               "(thorough: also 3 sites) is replayed against real casket instances on a loopback TLS listener with a crypto/tls client. Bounded model checking plus conformance replay.",
    level_note="Trusted: TLC, crypto/tls as the handshake implementation on both sides (the spec models which Config governs and what its settings admit, not the TLS protocol), "
               "the bounded alphabets of TLSGroup.tla. HTTP/2 and QUIC are not exercised (ALPN http/1.1).",
    assumptions=["one listener on 127.0.0.1; certmagic.Default.DefaultServerName is empty",
                 "named sites use `tls self_signed` (certificate SAN = site host), the catch-all site a harness-generated certificate for the names no pattern matches",
                 "client side is Go's crypto/tls (TLS 1.0-1.3, ECDSA suites)"],
)
