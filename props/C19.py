"""C19 pipeline (see DESIGN.md section 3, C19 and notes/C19.md)."""

PROP = dict(
    models=[
        dict(module="HelloConn", cfg=dict(quick="HelloConn_quick.cfg", thorough="HelloConn_thorough.cfg"), emit=True, workers=4,
             coverage=True, timeout=dict(quick=300, thorough=900)),
        dict(module="PeerGrammar", cfg=dict(quick="PeerGrammar_quick.cfg", thorough="PeerGrammar_thorough.cfg"), emit=True, workers=8,
             timeout=dict(quick=300, thorough=1800)),
        # random walks far beyond the enumerated lengths (tlc -simulate, seed = VERIF_SEED)
        dict(module="PeerGrammarLong", cfg="PeerGrammarLong.cfg", emit=True, workers=2,
             simulate=dict(quick=dict(num=200, depth=30), thorough=dict(num=1000, depth=30)), timeout=dict(quick=300, thorough=900)),
        # extension: HTTP/2 server push - which resources the push directive hands to http.Pusher for which request
        # (specs/PushRules.tla, notes/PushRules.md): invariants + one CASE per site and per served request
        dict(module="PushRules", cfg=dict(quick="PushRules_quick.cfg", thorough="PushRules_thorough.cfg"), emit=True, workers=8,
             timeout=dict(quick=300, thorough=900)),
    ],
    go=[dict(pkg="c19", test="TestC19", timeout=dict(quick=600, thorough=3000)),
        dict(pkg="cx19push", test="TestCx19Push", timeout=dict(quick=300, thorough=900))],
    traces=[dict(name="helloconn", module="HelloConnTrace", cfg="HelloConnTrace.cfg", timeout=900)],
    exhaustive=dict(quick=True, thorough=True),
    technique="TLA+ specs HelloConn.tla (every segmentation of a ClientHello into reads) and PeerGrammar.tla (token grammars of every peer-facing parser) enumerated by TLC; read-by-read traces of the real clientHelloConn validated by TLC against HelloConnTrace.tla; every enumerated input replayed into the real parsers under recover",
    level_text="TLC checks on the model of clientHelloConn.Read that for every sequence of chunk sizes exactly the hello is recorded once the record has arrived (and refutes it for the unrepaired algorithm); every such segmentation is replayed through the real clientHelloConn for two real hellos and the recorded read-by-read trace is validated by TLC against the declarative property; a sample runs complete TLS handshakes over a chunked connection. 'No panic' has no functional oracle: PeerGrammar.tla is the explicit model of the input space (token grammars for Link, User-Agent, placeholder templates, Host, Cookie, path/query, Authorization, FastCGI record sequences, ClientHello length perturbations, parsed-hello shapes); TLC enumerates every string up to the bound and the harness feeds each to the real parser under recover and a watchdog, a sample through running casket instances.",
    level_note="Trusted: TLC; the token alphabets and bounds of PeerGrammar.tla; Go's crypto/tls as the reader on top of clientHelloConn. Strings longer than the bound and bytes outside the alphabets are not explored.",
    assumptions=["a ClientHello arrives in one TLS record (hellos fragmented over several records are not modelled)",
                 "bounded token strings over the alphabets of PeerGrammar.tla; parsers are entered through //go:build verif export shims and the packages' exported handlers",
                 "panics inside a running instance are observed through the process log ([PANIC] of Server.ServeHTTP, net/http's 'panic serving')"],
)
