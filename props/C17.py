"""C17 pipeline (see DESIGN.md section 3, C17, and notes/C17.md)."""

PROP = dict(
        models=[
            # property checking: scope selection + reader + consumers, all tables/paths/lengths/read sequences
            dict(module="Limits", cfg=dict(quick="Limits_quick.cfg", thorough="Limits_thorough.cfg"), workers=8,
                 coverage=True, timeout=dict(quick=300, thorough=1800)),
            # emission: one CASE per limit table (expected scope per path, expected outcome per body length)
            dict(module="Limits", cfg=dict(quick="LimitsEmit_quick.cfg", thorough="LimitsEmit_thorough.cfg"), emit=True,
                 workers=4, timeout=dict(quick=300, thorough=900)),
            # emission: every terminal behaviour of the reader with its history of Read calls
            dict(module="LimitsReads", cfg=dict(quick="LimitsReads_quick.cfg", thorough="LimitsReads_thorough.cfg"), emit=True,
                 workers=8, timeout=dict(quick=300, thorough=1800)),
            # listener merge: property checking and emission in one run
            dict(module="ListenerMerge", cfg=dict(quick="ListenerMerge_quick.cfg", thorough="ListenerMerge_thorough.cfg"), emit=True,
                 workers=8, coverage=True, timeout=dict(quick=300, thorough=1800)),
        ],
        go=[dict(pkg="c17", test="TestC17", timeout=dict(quick=600, thorough=3000))],
        exhaustive=dict(quick=False, thorough=False),
        technique="TLA+ specs Limits.tla (scope selection, maxBytesReader.Read as an action, consumers) and ListenerMerge.tla (group merge loops) model-checked by TLC; reader behaviours, limit tables and site groups replayed against limits.MaxBytesReader, real casket sites (direct and proxied) and the effective http.Server of real instances",
        level_text="TLC checks exhaustively on bounded constants that the code-shaped models satisfy the declarative properties (ChosenIsLongestScope, NeverBeyondLimit, DeliveredPrefix, ErrIff, Sticky, Proxy413; Strictest, DefaultIffNobodySet). Every terminal behaviour of the reader model is replayed call by call against limits.MaxBytesReader; every limit table is loaded into real casket sites and probed over loopback HTTP/1.1 with all body lengths 0..2*limit+1, six framings and scripted read sizes, directly and through proxy; every emitted site group is started and the listener's http.Server fields are compared with the strictest-set-value rule. Bounded model checking plus conformance replay: right for a finite-state reader and a pure merge function.",
        level_note="Trusted: TLC, the bounded alphabets (6 scopes, 9 request paths, limits <= 5 model bytes, <= 3 table entries, <= 3 sites, <= 2 simultaneously set knobs), Go's net/http body framing. Scaled limits (KB etc.) are judged by the same declarative formula evaluated in Go. HTTP/2 bodies and Expect: 100-continue are not exercised.",
        assumptions=["HTTP/1.1 over loopback; path alphabet without dot segments",
                     "a time-out of 0/none is the least strict value; a header limit of 0 cannot be configured (setup rejects it)",
                     "the handler/backend reads the body to the end (first error)"],
    )
