"""C13 pipeline (see DESIGN.md section 3, C13 and notes/C13.md)."""

PROP = dict(
    models=[
        dict(module="FastCGI", cfg=dict(quick="FastCGI_quick.cfg", thorough="FastCGI_thorough.cfg"), workers=8, coverage=True,
             timeout=dict(quick=300, thorough=1800)),
        dict(module="FastCGI", cfg=dict(quick="FastCGIEmit_quick.cfg", thorough="FastCGIEmit_thorough.cfg"), emit=True,
             workers=4, timeout=dict(quick=300, thorough=1800)),
        dict(module="FcgiRoute", cfg="FcgiRoute.cfg", emit=True, workers=8, coverage=True, timeout=dict(quick=300, thorough=600)),
        # extension: upstream rotation, connection life cycle, time-outs (FcgiUpstreams.tla, notes/FcgiUpstreams.md); the emitting job of a module comes last
        dict(module="FcgiUpstreams", cfg=dict(thorough="FcgiUpstreamsLive.cfg"), workers=4, timeout=dict(thorough=600)),
        dict(module="FcgiUpstreams", cfg=dict(quick="FcgiUpstreams_quick.cfg", thorough="FcgiUpstreams_thorough.cfg"), emit=True, workers=8, coverage=True,
             timeout=dict(quick=300, thorough=900)),
        # extension: the `websocket` directive - upgrade, spawned command, the two pumps, termination (WsBridge.tla, notes/WsBridge.md)
        dict(module="WsBridge", cfg=dict(thorough="WsBridgeFine_thorough.cfg"), workers=8, coverage=True, timeout=dict(thorough=600),
             coverage_ignore=["SrvWaitDone", "SrvReap", "ChildLeave"]),   # the design as found (FixKill = FALSE, see WsBridge_asfound.cfg); ChildLeave: second half of the sync-grain step pwriteexit
        dict(module="WsBridge", cfg=dict(thorough="WsBridgeLive.cfg"), workers=8, timeout=dict(thorough=600)),
        dict(module="WsBridge", cfg=dict(quick="WsBridge_quick.cfg", thorough="WsBridge_thorough.cfg"), emit=True, workers=8,
             timeout=dict(quick=300, thorough=900)),
        dict(module="WsBridgeSetup", cfg=dict(quick="WsBridgeSetup_quick.cfg", thorough="WsBridgeSetup_thorough.cfg"), emit=True, workers=4, coverage=True,
             timeout=dict(quick=300, thorough=600)),
    ],
    go=[dict(pkg="c13", test="TestC13", timeout=dict(quick=600, thorough=3000)),
        dict(pkg="cx13upstreams", test="TestCx13Upstreams", timeout=dict(quick=600, thorough=1800)),
        dict(pkg="cx13wsbridge", test="TestCx13WsBridge", timeout=dict(quick=600, thorough=1800))],
    traces=[dict(name="fcgiwire", module="FastCGITrace", cfg="FastCGITrace.cfg", timeout=900),
            dict(name="fcgiups", module="FcgiUpstreamsTrace", cfg="FcgiUpstreamsTrace.cfg", timeout=900),
            dict(name="wsbridge", module="WsBridgeTrace", cfg="WsBridgeTrace.cfg", timeout=900)],
    exhaustive=dict(quick=True, thorough=True),
    technique="TLA+ specs FastCGI.tla / FcgiRoute.tla model-checked by TLC; record traces of the real FastCGI client validated by TLC against FastCGITrace.tla; response framings and routing table replayed against the real client and running casket instances",
    level_text="TLC explores the code-shaped model of FCGIClient.Do (writePairs thresholds, bufio/streamWriter record splitting) for every sequence of boundary-sized name/value pairs and body lengths and checks the wire-level invariants a conforming responder needs; the same invariants are then checked by TLC on the record headers a byte-level responder captured from the real client for every one of those cases (trace validation), while the decoded pairs and stdin bytes are compared with what was sent. Every responder framing TLC enumerates (record splits, stderr interleavings, terminators, padding, Status present/absent) is played to the real client and the client view compared with the model; the routing/split decision table of FcgiRoute.tla is replayed against casket instances; an env battery runs through casket against the scripted responder and Go's net/http/fcgi child.",
    level_note="Trusted: TLC; the boundary sets of FastCGI.tla (19 pair shapes, 12 body lengths, <=3 pairs; 6 output units in <=4 records, <=2 stderr units, each concretised as a burst of 1..350 stderr records); ext as .php/.PHP/php/absent; Go's net/http for HTTP/1.1 framing and net/http/fcgi as reference responder. Rules: one rule, or two with an `except` on the first. Not covered: split strings that do not occur in the extension, unix sockets, srv:// upstreams, TLS variables.",
    assumptions=["loopback TCP; one request per FastCGI connection (the client never keeps connections alive)",
                 "bounded boundary-value sets of FastCGI.tla; file tree and request alphabet of FcgiRoute.tla on a case-sensitive file system",
                 "pairs that do not fit a 65 500-byte record may be cut (the statement leaves them open): only a prefix of the value is required"],
)
