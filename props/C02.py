"""C02 pipeline (DESIGN.md section 3, C02; notes/C02.md)."""

PROP = dict(
        models=[
            # the action system: every request up to L segments, all invariants in every state
            dict(module="FileServe", cfg=dict(quick="FileServe_quick.cfg", thorough="FileServe_thorough.cfg"), workers=8,
                 coverage=True, timeout=dict(quick=300, thorough=1800)),
            # deeper paths over the reduced dimensions (thorough only)
            dict(module="FileServe", cfg=dict(thorough="FileServeDeep_thorough.cfg"), workers=8,
                 timeout=dict(thorough=1800)),
            # termination of the pipeline (liveness, small instance)
            dict(module="FileServe", cfg=dict(thorough="FileServeLive_thorough.cfg"), workers=4, timeout=dict(thorough=600)),
            # outcome tables for the replay: one CASE per request path
            dict(module="FileServe", cfg=dict(quick="FileServeEmit_quick.cfg", thorough="FileServeEmit_thorough.cfg"), emit=True,
                 workers=16, timeout=dict(quick=300, thorough=1800)),
            # extension (notes/TemplateJail.md): what template actions can read - .Include/.Files/.Markdown through the jailed
            # Context.Root, nested and cyclic includes, markdown front matter, the input space of the other context functions;
            # termination of every render first (liveness, small instance), then the invariants with one CASE per terminal state
            dict(module="TemplateJail", cfg=dict(thorough="TemplateJailLive.cfg"), workers=4, timeout=dict(thorough=600)),
            dict(module="TemplateJail", cfg=dict(quick="TemplateJail_quick.cfg", thorough="TemplateJail_thorough.cfg"), emit=True,
                 workers=8, coverage=True, coverage_ignore=["Terminated"], timeout=dict(quick=300, thorough=900)),
            # extension (notes/BrowseListing.md): the directory listings of browse - which entries, which order (sort / order /
            # limit, cookies), counters, parent link, the JSON / HTML / custom-template renderings, the item links;
            # termination of the handler first (liveness, small instance), then the invariants with one CASE per sampled directory
            dict(module="BrowseListing", cfg=dict(thorough="BrowseListingLive.cfg"), workers=4, timeout=dict(thorough=600)),
            dict(module="BrowseListing", cfg=dict(quick="BrowseListing_quick.cfg", thorough="BrowseListing_thorough.cfg"), emit=True,
                 workers=8, coverage=True, timeout=dict(quick=300, thorough=900)),
        ],
        go=[dict(pkg="c02", test="TestC02", timeout=dict(quick=600, thorough=3000)),
            dict(pkg="cx02tpl", test="TestCx02Tpl", timeout=dict(quick=300, thorough=1200)),
            dict(pkg="cx02browse", test="TestCx02Browse", timeout=dict(quick=300, thorough=1200))],
        exhaustive=dict(quick=False, thorough=False),
        technique="TLA+ spec FileServe.tla (CleanPath.tla) model-checked by TLC; outcome tables replayed against a real casket instance serving a token-marked tree",
        level_text="TLC checks exhaustively (request paths of <=L segments over 13 segment spellings incl. '.', '..', empty, backslash, x trailing slash x 8 Accept-Encoding sets x listing/archive queries x browse off/list/archive x plain/path-prefixed site) that the stepwise model of Server.serveHTTP -> browse -> staticfiles.serveFile serves only files the request names (InsideRoot, NoHidden, ServedIsNamed, SameOriginRedirect). The outcome table of every path is then replayed against a real instance (casket.Start from a Casketfile inside the root, raw HTTP/1.1 with percent-encoded spellings); bodies are gunzipped/unzipped/untarred and searched for the per-file tokens. Bounded model checking plus conformance replay: the input space is combinatorial and the oracle (which files) is decidable through the tokens.",
        level_note="Trusted: TLC, the fixed abstract tree of FileServe.tla (no symlinks), Go's net/http request parsing, the stdlib gzip/zip/tar decoders. Range / conditional requests and HTTP/2 are not exercised.",
        assumptions=["HTTP/1.1 origin-form targets over loopback; Linux (case-sensitive, backslash is an ordinary character)",
                     "the fixture tree has no symlinks leaving the root (http.Dir follows them by design)",
                     "the verdict is the declarative predicate (Allowed/AllowedListed/SameOrigin) on the observation; differences from the operational model that satisfy it are reported as model_drift"],
    )
