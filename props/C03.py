"""C03 pipeline (DESIGN.md section 3, C03; notes/C03.md)."""

PROP = dict(
        models=[
            # the action system of the (idealised / repaired) design: NoDisclosure, AuthTransparent in every state
            dict(module="Protect", cfg=dict(quick="Protect_quick.cfg", thorough="Protect_thorough.cfg"), workers=8,
                 coverage=True, timeout=dict(quick=300, thorough=2400)),
            # outcome tables of the code as it is, one CASE per (request path, protection variant)
            dict(module="Protect", cfg=dict(quick="ProtectEmit_quick.cfg", thorough="ProtectEmit_thorough.cfg"), emit=True,
                 workers=16, timeout=dict(quick=300, thorough=2400)),
            # extension (notes/InternalRedirect.md): internal's X-Accel-Redirect loop and basicauth rule lists, step by step;
            # the invariants are checked and one CASE per terminal state is emitted in the same run
            dict(module="InternalRedirect", cfg=dict(quick="InternalRedirect_quick.cfg", thorough="InternalRedirect_thorough.cfg"), emit=True,
                 workers=8, coverage=True, timeout=dict(quick=300, thorough=900)),
            dict(module="AuthRules", cfg=dict(quick="AuthRules_quick.cfg", thorough="AuthRules_thorough.cfg"), emit=True,
                 workers=8, coverage=True, timeout=dict(quick=300, thorough=900)),
        ],
        go=[dict(pkg="c03", test="TestC03", timeout=dict(quick=600, thorough=3000)),
            dict(pkg="cx03internal", test="TestCx03Internal", timeout=dict(quick=300, thorough=1200))],
        exhaustive=dict(quick=False, thorough=False),
        technique="TLA+ spec Protect.tla (EXTENDS FileServe, PathMatch, CleanPath) model-checked by TLC; outcome tables replayed against 168 real casket sites serving a token-marked tree",
        level_text="TLC checks exhaustively (7 protection variants x 24 directive shapes x request paths of <=L segments over 11 spellings x slash x archive query x Accept-Encoding x credentials) that the stepwise model of tryfiles -> rewrite -> ext -> basicauth/internal -> browse -> file server never serves a file of the declarative Protected set without valid credentials and serves authorised requests like the unprotected twin site. The outcome tables are replayed against real sites (casket.Start, raw HTTP/1.1, percent-encoded spellings, four kinds of bad credentials, GET/HEAD/POST); bodies are gunzipped/unzipped and searched for the per-file tokens; authorised responses are compared with the twin site's. Bounded model checking plus conformance replay.",
        level_note="Trusted: TLC, the fixed tree and directive subset of Protect.tla (templates, markdown, proxy, fastcgi are not in the model), Go's net/http, the stdlib decoders. OPTIONS is exempt by the statement and not sent.",
        assumptions=["HTTP/1.1 over loopback; Linux file system (case-sensitive)",
                     "protected = files whose canonical URL path matches the protected path by Path.Matches (casket's documented prefix semantics) and no excluded path",
                     "the verdict is the declarative predicate on the observation (tokens of Protected files in an unauthenticated response; equality with the unprotected twin for authorised ones); the operational tables only supply inputs, the classification of the two recorded channels and the model_drift count"],
    )
