"""C16 pipeline: Lifecycle.tla (TLC, all interleavings) -> histories -> real package casket -> LifecycleTrace.tla."""

PROP = dict(
    models=[
        dict(module="Lifecycle", cfg=dict(quick="Lifecycle_quick.cfg", thorough="Lifecycle_thorough.cfg"), workers=8,
             timeout=dict(quick=300, thorough=1800)),
        dict(module="Lifecycle", cfg=dict(quick="LifecycleEmit_quick.cfg", thorough="LifecycleEmit_thorough.cfg"), emit=True,
             workers=4, timeout=dict(quick=300, thorough=900)),
    ] + [
        dict(module="Shutdown", cfg=dict(quick="Shutdown_quick.cfg", thorough="Shutdown_thorough.cfg"), workers=4, timeout=300),
        dict(module="Shutdown", cfg=dict(quick="ShutdownEmit_quick.cfg", thorough="ShutdownEmit_thorough.cfg"), emit=True, workers=2, timeout=300),
    ] + [
        # extension: TLS session-ticket key rotation and its goroutine lifecycle (notes/TicketRotation.md)
        dict(module="TicketRotation", cfg=dict(quick="TicketRotation_quick.cfg", thorough="TicketRotation_thorough.cfg"), workers=4, timeout=300),
        dict(module="TicketRotation", cfg=dict(quick="TicketRotationSrv_quick.cfg", thorough="TicketRotationSrv_thorough.cfg"), workers=4, timeout=600),
        dict(module="TicketRotation", cfg=dict(thorough="TicketRotationSrvLive_thorough.cfg"), workers=4, timeout=600),
        dict(module="TicketRotationHist", cfg=dict(thorough="TicketRotationHist_thorough.cfg"), emit=True, workers=2, timeout=300),
        dict(module="TicketRotation", cfg=dict(quick="TicketRotationEmit_quick.cfg", thorough="TicketRotationEmit_thorough.cfg"), emit=True, workers=2, timeout=300),
    ] + [
        # extension: event emission and the `on` directive across the lifecycle (notes/EventHooks.md)
        dict(module="EventHooks", cfg=dict(quick="EventHooks_quick.cfg", thorough="EventHooks_thorough.cfg"), workers=8, timeout=dict(quick=300, thorough=900)),
        dict(module="EventHooks", cfg=dict(thorough="EventHooksLive_thorough.cfg"), workers=4, timeout=600),
        dict(module="EventHooks", cfg=dict(thorough="EventHooksEarly_thorough.cfg"), workers=4, timeout=300, coverage=True,
             coverage_ignore=["UPurge2"]),  # taken 72 times, but every state it reaches is also reached through UPurge/UEmit (0 distinct)
        dict(module="EventHooksHist", cfg="EventHooksHist.cfg", emit=True, workers=1,
             simulate=dict(quick=dict(num=150, depth=20), thorough=dict(num=3000, depth=20)), timeout=300),
    ],
    go=[dict(pkg="c16", test="TestC16", timeout=dict(quick=600, thorough=3600)),
        dict(pkg="cx16tickets", test="TestCx16Tickets", timeout=dict(quick=300, thorough=900)),
        dict(pkg="cx16events", test="TestCx16Events", timeout=dict(quick=300, thorough=900))],
    traces=[dict(name="lifecycle", module="LifecycleTrace", cfg="LifecycleTrace.cfg", timeout=600),
            dict(name="shutdown", module="ShutdownTrace", cfg="ShutdownTrace.cfg", timeout=600),
            dict(name="ticketrotation", module="TicketRotationTrace", cfg="TicketRotationTrace.cfg", timeout=600),
            dict(name="eventhooks", module="EventHooksTrace", cfg="EventHooksTrace.cfg", timeout=600)],
    exhaustive=dict(quick=False, thorough=False),
    technique="TLA+ spec Lifecycle.tla model-checked by TLC; TLC-generated histories executed on the real casket package, recorded traces validated by TLC (LifecycleTrace.tla)",
    level_text="TLC explores every interleaving of the controller steps of Start/Restart/Stop/casket.Stop with the server goroutines and Wait()ers for all histories up to the bound and checks the callback-count/order invariants and the WaitGroup accounting; every history is then executed against the real package (scriptable server type registered through the public plugin API, real loopback sockets for the fd hand-over) and the recorded event trace must be a behaviour of the specification with all invariants holding at every step.",
    level_note="The model is checked exhaustively in both tiers; the histories executed against the real package are a seeded sample of what TLC emits (quick: 1 200 of the three-operation histories, thorough: 24 000; the evidence file gives the number TLC emitted - operations carry the listener-hand-over flag and the failure stage panic). Trusted: TLC; the scriptable server type (harness/faketype) reports its own steps truthfully; callbacks that return errors are exercised only for OnStartup and OnRestart; process-level shutdown (signals, OnFinalShutdown) is covered by the child-process part.",
    assumptions=["one callback per list per instance", "shutdown callbacks that return errors are out of scope (see DESIGN.md)"],
    selftest_expects_mismatch=True,
)
