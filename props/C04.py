"""C04 pipeline: the reverse proxy relays requests and responses faithfully (DESIGN.md section 3, C04)."""

PROP = dict(
    models=[
        dict(module="ProxyRelay", cfg=dict(quick="ProxyRelay_quick.cfg", thorough="ProxyRelay_thorough.cfg"), emit=True, workers=8,
             timeout=dict(quick=300, thorough=900)),
        # extension: the connection-upgrade (websocket) tunnel and response streaming (ProxyTunnel.tla, notes/ProxyTunnel.md);
        # the emitting job of a module comes last
        dict(module="ProxyTunnel", cfg=dict(quick="ProxyTunnel_quick.cfg", thorough="ProxyTunnel_thorough.cfg"), workers=8, timeout=dict(quick=300, thorough=900)),
        dict(module="ProxyTunnel", cfg=dict(thorough="ProxyTunnelLive.cfg"), workers=4, timeout=dict(thorough=600)),
        dict(module="ProxyTunnel", cfg=dict(quick="ProxyTunnelSync_quick.cfg", thorough="ProxyTunnelSync_thorough.cfg"), emit=True, workers=8,
             timeout=dict(quick=300, thorough=900)),
        # extension: which proxy rule takes a request and what target it is sent to (ProxyRoute.tla, notes/ProxyRoute.md)
        dict(module="ProxyRoute", cfg=dict(quick="ProxyRoute_quick.cfg", thorough="ProxyRoute_thorough.cfg"), emit=True, workers=8,
             timeout=dict(quick=300, thorough=900)),
        # extension: the connection to the backends - transports, TLS verification, keep-alive, time-outs (BackendTLS.tla, notes/BackendTLS.md)
        dict(module="BackendTLS", cfg=dict(thorough="BackendTLSLive.cfg"), workers=4, timeout=dict(thorough=600)),
        dict(module="BackendTLS", cfg=dict(quick="BackendTLS_quick.cfg", thorough="BackendTLS_thorough.cfg"), emit=True, workers=8, coverage=True,
             timeout=dict(quick=300, thorough=900)),
    ],
    go=[dict(pkg="c04", test="TestC04", timeout=dict(quick=600, thorough=2400)),
        dict(pkg="cx04tunnel", test="TestCx04Tunnel", timeout=dict(quick=600, thorough=1800)),
        dict(pkg="cx04route", test="TestCx04Route", timeout=dict(quick=600, thorough=1800)),
        dict(pkg="cx04tls", test="TestCx04TLS", timeout=dict(quick=600, thorough=1800))],
    traces=[dict(name="proxytunnel", module="ProxyTunnelTrace", cfg="ProxyTunnelTrace.cfg", timeout=900)],
    exhaustive=dict(quick=True, thorough=True),
    technique="TLA+ spec ProxyRelay.tla model-checked by TLC; every emitted case replayed through a real casket proxy site "
              "between a raw HTTP/1.1 client and a raw TCP backend",
    level_text="TLC checks exhaustively, over five factored case spaces (request headers x Connection shapes x prior X-Forwarded-For; "
               "header_upstream rules x transparent x retry; paths <= 5 tokens incl. an escaped reserved character x base path x without x "
               "queries x retry; response status x headers x Connection shapes x trailers; header_downstream rules), that the step-wise model "
               "of createUpstreamRequest, the per-attempt rules and director, and the response side of ReverseProxy.ServeHTTP equals the "
               "declarative equalities of the statement. Every case is then run through a real casket site (casket.Start, `proxy` "
               "directive) with a raw client and a raw TCP backend that records the request it read and plays the scripted response "
               "(seeded method, body sizes around the 32 KiB copy buffer, Content-Length and chunked framing, announced and unannounced "
               "trailers); method, target, Host, the complete header multiset, body bytes, status and trailers are compared field by field.",
    level_note="Trusted: TLC, the bounded alphabets of ProxyRelay.tla, net/http's parsing of requests (backend side, http.ReadRequest) and "
               "responses (client side, http.ReadResponse). The client always sends User-Agent and Accept-Encoding; what net/http's "
               "Transport adds when they are absent is probed separately. Websocket upgrades, HTTP/2, QUIC, unix and SRV targets are not exercised.",
    assumptions=["HTTP/1.1 over loopback on both hops; header rules act on distinct header names (several rules on one name are applied in Go map order)",
                 "the client sends User-Agent and Accept-Encoding (transport defaults are probed as separate known cases)"],
)
