"""C07 pipeline: Reload.tla (TLC) + real reloads under load validated against ReloadTrace.tla."""

PROP = dict(
    models=[
        dict(module="Reload", cfg=dict(quick="Reload_quick.cfg", thorough="Reload_thorough.cfg"), workers=8,
             timeout=dict(quick=300, thorough=1800)),
    ],
    go=[dict(pkg="c07", test="TestC07", timeout=dict(quick=600, thorough=3600))],
    traces=[dict(name="reload", module="ReloadTrace", cfg="ReloadTrace.cfg", timeout=900, java_opts="-Dtlc2.tool.queue.IStateQueue=StateDeque")],
    exhaustive=dict(quick=False, thorough=False),
    technique="TLA+ spec Reload.tla model-checked by TLC; traces of real reloads under client load validated by TLC (ReloadTrace.tla)",
    level_text="TLC checks the reload protocol (call, startup callback, new serving, old closed, shutdown callback, return; failing variants) against every interleaving with client requests for small bounds: some generation always accepts on every served address, responses come from a generation that was accepting during the request, only the new one accepts after a successful return, the old one after a failed return. Real http instances are then reloaded under concurrent client load (fresh connections, all failure kinds, requests injected inside the callback gates) and TLC validates the recorded trace, inferring the unlogged serving/closing moments.",
    level_note="Trusted: TLC; the harness's event order (sequence numbers under one mutex: request start logged before dialing, end after the full response; reload return logged after the call returns). Free-running schedules are sampled (seeded), not enumerated; the SIGUSR1 path is not driven.",
    assumptions=["clients use fresh connections with Connection: close", "requests to an address are only issued while no reload that drops the address is in progress"],
    selftest_expects_mismatch=True,
)
