"""C05 pipeline: load balancing finds an available backend; retries (DESIGN.md section 3, C05)."""

PROP = dict(
    models=[
        # liveness (every selection / every request terminates) on the small constants, both tiers
        dict(module="LoadBalance", cfg=dict(quick="LoadBalanceLive.cfg", thorough="LoadBalanceLive.cfg"), workers=8,
             timeout=dict(quick=300, thorough=600)),
        dict(module="LBRetry", cfg=dict(quick="LBRetryLive.cfg", thorough="LBRetryLive.cfg"), workers=8,
             timeout=dict(quick=300, thorough=600)),
        # the step-wise policies against the declarative sentences of the statement
        dict(module="LoadBalance", cfg=dict(quick="LoadBalance_quick.cfg", thorough="LoadBalance_thorough.cfg"), workers=8,
             timeout=dict(quick=300, thorough=1800)),
        # one CASE per pool with the table of selections
        dict(module="LoadBalance", cfg=dict(quick="LoadBalanceEmit_quick.cfg", thorough="LoadBalanceEmit_thorough.cfg"),
             emit=True, workers=8, timeout=dict(quick=300, thorough=900)),
        # the retry loop: invariants + one CASE per finished behaviour
        dict(module="LBRetry", cfg=dict(quick="LBRetry_quick.cfg", thorough="LBRetry_thorough.cfg"), emit=True, workers=8,
             timeout=dict(quick=300, thorough=1800)),
    ],
    go=[dict(pkg="c05", test="TestC05", timeout=dict(quick=600, thorough=2400))],
    exhaustive=dict(quick=True, thorough=True),
    technique="TLA+ specs LoadBalance.tla / LBRetry.tla (over LBPolicy.tla) model-checked by TLC; every pool table and "
              "every retry behaviour replayed against proxy.NewStaticUpstreams + Proxy.ServeHTTP with scripted backends",
    level_text="TLC checks exhaustively that the loop-by-loop model of staticUpstream.Select and of every policy in policy.go "
               "(pools of 1..MaxN backends x 5 situations per backend incl. the max_fails-1 / cap-1 boundaries x max_conns {0,2} x "
               "every hash residue / robin position) satisfies ReturnsAvailable, FirstEarliest, LeastLoaded, Sticky and RREven, and "
               "that the retry loop of Proxy.ServeHTTP (logical clock, every fault pattern, fail_timeout expiry) satisfies "
               "HealthyAnswers, Else502AfterDuration, BodyComplete, OnlyAvailableTried, FailsAccounted. Every pool is then built "
               "from a real proxy block and every concrete policy (first, round_robin, least_conn, random, ip_hash, uri_hash, "
               "header with/without value) is asked through Upstream.Select with keys covering all hash residues; every finished "
               "retry behaviour is replayed through Proxy.ServeHTTP behind a real net/http server against raw TCP backends that "
               "fail per the pattern. The verdict is the declarative predicate evaluated on what the real code did.",
    level_note="Trusted: TLC; the bounded constants (quick n<=4 / retry n<=2, thorough n<=6 / retry n<=3, max_fails<=2, "
               "try_duration = 4 try_intervals in the model); FNV-1a residues found by search; real-time slack of the harness "
               "(try_interval 15 ms, fail_timeout far above try_duration). Not covered: uint32 wrap of the round-robin counter, "
               "health-check transitions and client cancellation during a request (C14 covers concurrent accounting).",
    assumptions=["pool sizes and per-backend situations bounded as in LoadBalance*.cfg / LBRetry*.cfg",
                 "HealthyAnswers is required when fail_timeout exceeds try_duration and try_duration leaves room for max_fails "
                 "attempts per faulty backend (Budget in LBRetry.tla)",
                 "one request at a time per proxy instance in the retry replay (concurrency is C14)"],
)
