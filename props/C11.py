"""C11 pipeline (see DESIGN.md section 3, C11, and notes/C11.md)."""

PROP = dict(
    models=[
        # the input space: per directive, every token-class sequence up to the bounds of the cfg
        dict(module="SetupGrammar", cfg=dict(quick="SetupGrammar_quick.cfg", thorough="SetupGrammar_thorough.cfg"), emit=True, workers=8,
             coverage=True, coverage_ignore=["NestedLine"],  # nested blocks are explored by SetupGrammarSim
             timeout=dict(quick=300, thorough=1500)),
        # longer shapes (several lines, nested blocks) by seeded simulation
        # two directives of one site sharing a log file (the verdict on one depends on the other)
        dict(module="SetupPairs", cfg="SetupPairs.cfg", emit=True, workers=2, timeout=dict(quick=120, thorough=120)),
        dict(module="SetupGrammarSim", cfg="SetupGrammarSim.cfg", emit=True, workers=4,
             simulate=dict(quick=dict(num=1500, depth=30), thorough=dict(num=25000, depth=30)), timeout=dict(quick=300, thorough=900)),
    ],
    go=[dict(pkg="c11", test="TestC11", timeout=dict(quick=900, thorough=3000))],
    exhaustive=dict(quick=False, thorough=False),
    technique="TLA+ spec SetupGrammar.tla (explicit model of the token sequences that can follow each registered directive) enumerated by TLC; "
              "every case replayed through -validate, the directive phase of Start and a sampled real Start/Stop in watchdogged worker processes",
    level_text="SetupGrammar.tla is the explicit model of the input space of the statement: for each of the 31 directive names the http server "
               "type lists (29 registered, 2 listed without a plugin) a state machine appends argument tokens of 14 lexical classes, opens a block, "
               "starts a line with each keyword of the directive's vocabulary (115 keywords, cross-checked against the setup sources on every run) "
               "and appends line arguments; TLC enumerates it exhaustively (quick: <=2 arguments, or <=1 argument + one block line with <=1 argument, "
               "or no argument + one block line with <=2 arguments = 94 574 cases; thorough: 3 / 1+2 / 0+3 = 1 321 142 cases) and by simulation for "
               "several lines and nested blocks (6 000 / 100 000). There is no functional oracle; the statement's relational clauses are judged on "
               "the real code's behaviour for every case: no phase panics, every phase returns within the deadline (worker process, killed "
               "otherwise), rejections carry a message, -validate accepts <=> the directive phase of Start accepts, and a configuration -validate "
               "refused does not start. A quarter of the cases additionally go through a real casket.Start/Stop on a loopback port.",
    level_note="Trusted: TLC; the 14 lexical classes and their 3-7 spellings each (seeded) as representatives of all argument values; the per-directive "
               "value dictionary of the harness. Not covered: multi-site interactions, arguments longer than 4 tokens per line outside simulation, "
               "managed TLS (sites are 127.0.0.1 so no certificate is ever requested; tls cases are started only with off / self_signed).",
    assumptions=["a setup function distinguishes argument values only through the lexical classes and keywords of SetupGrammar.tla (plus the harness' value dictionary)",
                 "'start accepts' = ValidateAndExecuteDirectives(justValidate=false) on an instance built like Start's (hook VerifC11Load); failures of later start "
                 "phases (listeners, start-up callbacks opening log files or running commands) are environment, recorded in the evidence, not disagreements",
                 "a validate+load+start of a one-site configuration that takes longer than 15 s (VERIF_C11_DEADLINE) does not return"],
)
