"""C11 pipeline (see DESIGN.md section 3, C11, and notes/C11.md)."""

PROP = dict(
    models=[
        # the input space: per directive, every token-class sequence up to the bounds of the cfg
        dict(module="SetupGrammar", cfg=dict(quick="SetupGrammar_quick.cfg", thorough="SetupGrammar_thorough.cfg"), emit=True, workers=8,
             coverage=True, coverage_ignore=["NestedLine"],  # nested blocks are explored by SetupGrammarSim
             timeout=dict(quick=300, thorough=1500)),
        # longer shapes (several lines, nested blocks) by seeded simulation
        dict(module="SetupGrammarSim", cfg="SetupGrammarSim.cfg", emit=True, workers=4,
             simulate=dict(quick=dict(num=1500, depth=30), thorough=dict(num=25000, depth=30)), timeout=dict(quick=300, thorough=900)),
    ],
    go=[dict(pkg="c11", test="TestC11", timeout=dict(quick=900, thorough=3000))],
    exhaustive=dict(quick=False, thorough=False),
    technique="TLA+ spec SetupGrammar.tla (explicit model of the token sequences that can follow each registered directive) enumerated by TLC; "
              "every case replayed through -validate, the directive phase of Start and a sampled real Start/Stop in watchdogged worker processes",
    level_text="TBD", level_note="TBD", assumptions=[],
)
