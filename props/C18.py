"""C18 pipeline (see DESIGN.md section 3, C18, and notes/C18.md)."""

PROP = dict(
        models=[
            dict(module="Gzip", cfg=dict(quick="Gzip_quick.cfg", thorough="Gzip_thorough.cfg"), emit=True, workers=8,
                 coverage=True, timeout=dict(quick=300, thorough=1800)),
            # extension: validators, conditional and range requests of the static file server with precompressed
            # siblings and the gzip middleware (specs/StaticCond.tla, notes/StaticCond.md): liveness on the quick
            # constants (thorough tier only, must run before the emitting job of the same module), then
            # invariants + one CASE per two-step behaviour
            dict(module="StaticCond", cfg=dict(thorough="StaticCondLive.cfg"), workers=8, timeout=dict(thorough=600)),
            dict(module="StaticCond", cfg=dict(quick="StaticCond_quick.cfg", thorough="StaticCond_thorough.cfg"), emit=True, workers=8,
                 coverage=True, timeout=dict(quick=300, thorough=900)),
        ],
        go=[dict(pkg="c18", test="TestC18", timeout=dict(quick=600, thorough=3000)),
            dict(pkg="cx18cond", test="TestCx18Cond", timeout=dict(quick=300, thorough=900))],
        exhaustive=dict(quick=False, thorough=False),
        technique="TLA+ spec Gzip.tla (request filters, header-time decision, writes/flushes, close; static sibling choice) model-checked by TLC; every emitted case executed on a real casket site with and without the gzip block (raw HTTP/1.1 client) and the pair of wire responses judged by the declarative property",
        level_text="TLC checks exhaustively on bounded alphabets (gzip blocks, 4 paths, up to 13 Accept-Encoding values, inner responses: 5 statuses x Content-Type x Content-Length x 6 pre-existing codings x 3 ETag kinds x explicit/implicit WriteHeader x 13 write/flush patterns; static files with all 8 sibling sets) that the code-shaped model satisfies DecodedEqualsIdentity, CENamesAppliedCodings, NoDoubleEncoding, CLAbsentOrCorrect, IdentityIfNotOffered. Each case is then run twice on a real instance (site with / without the gzip block, scripted innermost handler or the real static file server) and the two wire responses are compared after strict gzip decoding. Bounded model checking plus paired-execution conformance replay.",
        level_note="Trusted: TLC, the bounded alphabets, Go's compress/gzip as reference decoder, net/http's HTTP/1.1 framing. br/zstd payloads are opaque tokens (already-encoded responses must pass through unchanged, nothing decodes them). Range requests, HTTP/2, and handlers that write a body and then return an error status are not exercised.",
        assumptions=["HTTP/1.1 over loopback, GET and HEAD", "the inner handler is well behaved (correct Content-Length when it sets one, returns 0 after writing)",
                     "whether to compress at all is left to the implementation: only transparency is judged; deviations from the model's compress decision are reported as model_drift"],
    )
