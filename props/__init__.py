"""Registry of the per-property pipelines run by ./check: one file props/Cxx.py per property,
each defining PROP (and optionally NOT_APPLICABLE = "reason" instead)."""
import glob, importlib, os

PROPS = {}
NOT_APPLICABLE = {}
for _f in sorted(glob.glob(os.path.join(os.path.dirname(__file__), "C*.py"))):
    _id = os.path.basename(_f)[:-3]
    _m = importlib.import_module("props." + _id)
    if hasattr(_m, "PROP"):
        PROPS[_id] = _m.PROP
    if hasattr(_m, "NOT_APPLICABLE"):
        NOT_APPLICABLE[_id] = _m.NOT_APPLICABLE
