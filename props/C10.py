"""C10 pipeline (see DESIGN.md section 3, C10, and notes/C10.md)."""

PROP = dict(
    models=[
        # (1) the lexer state machine: all class strings up to length N - invariants + termination.
        #     quick: N=5, checked and emitted by one run; thorough: N=7 checked, N=6 emitted, N<=16 simulated
        dict(module="Lexer", cfg=dict(thorough="Lexer_thorough.cfg"), workers=8, timeout=dict(thorough=1500)),
        dict(module="Lexer", cfg=dict(quick="Lexer_quick.cfg", thorough="LexerEmit_thorough.cfg"), emit=True, workers=8,
             coverage=True, timeout=dict(quick=300, thorough=900)),
        dict(module="LexerSim", cfg="LexerSim.cfg", emit=True, workers=4,
             simulate=dict(quick=dict(num=2500, depth=20), thorough=dict(num=60000, depth=20)), timeout=dict(quick=300, thorough=900)),
        # (2) import graphs: every edge set over the nodes; the repaired parser terminates, cycle <=> error,
        #     acyclic => textual inclusion
        dict(module="ImportGraph", cfg=dict(quick="ImportGraph_quick.cfg", thorough="ImportGraph_thorough.cfg"), emit=True, workers=8,
             coverage=True, timeout=dict(quick=300, thorough=900)),
        dict(module="ImportGraph2", cfg=dict(quick="ImportGraph2_quick.cfg", thorough="ImportGraph2_thorough.cfg"), emit=True, workers=8, timeout=dict(quick=300, thorough=900)),
        # (3) the input space of Parse: every token-kind string up to N tokens (oracle-free totality + layout invariance)
        dict(module="ParserTotal", cfg=dict(quick="ParserTotal_quick.cfg", thorough="ParserTotal_thorough.cfg"), emit=True, workers=8,
             timeout=dict(quick=300, thorough=1200)),
        # (4) generator of well-formed configurations + the structure they must parse to: exhaustive over a small
        #     alphabet, random simulation (seeded) over the full alphabet
        dict(module="CasketGrammar", cfg=dict(quick="CasketGrammar_quick.cfg", thorough="CasketGrammar_thorough.cfg"), emit=True, workers=8,
             coverage=True, timeout=dict(quick=300, thorough=1500)),
        dict(module="CasketGrammarSim", cfg="CasketGrammarSim.cfg", emit=True, workers=4,
             simulate=dict(quick=dict(num=1500, depth=80), thorough=dict(num=20000, depth=80)), timeout=dict(quick=300, thorough=1500)),
        # (5) extension: the JSON form (json.go ToJSON / FromJSON as one dispenser walk + one pass over the JSON) and the
        #     Dispenser calls of the setup functions, see notes/CasketJson.md
        dict(module="CasketJson", cfg=dict(quick="CasketJson_quick.cfg", thorough="CasketJson_thorough.cfg"), emit=True, workers=8,
             coverage=True, coverage_ignore=["Finished", "Init"], timeout=dict(quick=300, thorough=900)),
    ],
    go=[dict(pkg="c10", test="TestC10", timeout=dict(quick=600, thorough=3000)),
        dict(pkg="cx10json", test="TestCx10Json", timeout=dict(quick=300, thorough=900))],
    exhaustive=dict(quick=False, thorough=False),
    technique="TLA+ specs Lexer / ImportGraph / ParserTotal / CasketGrammar model-checked (and simulated) by TLC; every emitted case replayed "
              "against casketfile.NewDispenser / casketfile.Parse in watchdogged worker processes",
    level_text="Four specifications. Lexer.tla is the lexer's state machine (one action per branch of lexer.next); TLC checks totality, "
               "line counting and termination on every class string up to length 7 (4.8 M states) and the real lexer is replayed on every "
               "string up to length 6 (5 in the quick tier) in 3-11 concrete spellings with and without BOM, plus simulated strings up to "
               "length 16. ImportGraph.tla models import splicing with the import-chain guard; TLC checks termination, cycle <=> error and "
               "inclusion order on every import graph over 4 nodes (2 x 65 536 graphs; 512 in the quick tier) and every graph is written to "
               "disk and parsed. ParserTotal.tla enumerates every string of <= 5 (quick 4) tokens over 10 token kinds x line-break flag "
               "(1.68 M) and the real parser must return, not panic, name file:line in errors and be insensitive to insignificant layout. "
               "CasketGrammar.tla generates well-formed configurations (blocks, directives, nested sub-blocks, token classes, layout codes) "
               "split over snippets, imported files, sub-directory files and glob imports, with the structure they must parse to (textual "
               "inclusion + grouping), exhaustively for a small alphabet and by seeded simulation for the full one; casketfile.Parse must "
               "return exactly that structure. Bounded model checking + conformance replay; a non-returning parser is observed as such "
               "because every call runs in a killable worker process.",
    level_note="Trusted: TLC; the class alphabets (8 character classes, 10 token kinds, 13 argument classes) as representatives of all "
               "characters/tokens; the harness' printer (quoting rules) and its reference expansion of {$VAR}/{%VAR%}. Not covered: inputs that are "
               "not valid UTF-8, files larger than a few lines, Windows path separators. The JSON <-> Casketfile conversion and the Dispenser calls are covered by the extension CasketJson.tla (small ASTs over 11 argument classes).",
    assumptions=["the parser distinguishes characters only by the 8 classes of Lexer.tla and tokens only by the kinds of ParserTotal.tla",
                 "a parse that does not return within 6 s (VERIF_C10_DEADLINE) for an input of a few dozen tokens does not terminate",
                 "well-formed = the documented syntax: '{' ends the line it is on, '}' stands alone, tokens equal to '{' or '}' are not arguments, "
                 "imported files are not zero bytes long"],
)
