"""C12 pipeline (see DESIGN.md section 3, C12 and notes/C12.md)."""

PROP = dict(
        models=[
            # thorough only: all eleven optional wrappers (the pass-through ones included), no emission
            dict(module="Middleware", cfg=dict(thorough="Middleware_thorough.cfg"), workers=8, coverage=True,
                 timeout=dict(thorough=1500)),
            # the wrappers that change the outcome; one CASE per terminal state
            dict(module="Middleware", cfg=dict(quick="Middleware_quick.cfg", thorough="MiddlewareEmit_thorough.cfg"), emit=True,
                 workers=8, timeout=dict(quick=300, thorough=600)),
            # extension: rule tables of header / mime / status / request_id / index / ext / expvar / pprof
            # (specs/ResponseRules.tla, notes/ResponseRules.md): invariants + one CASE per site and per (site, request)
            dict(module="ResponseRules", cfg=dict(quick="ResponseRules_quick.cfg", thorough="ResponseRules_thorough.cfg"), emit=True,
                 workers=8, timeout=dict(quick=300, thorough=1200)),
            # extension: the front door of the server - Server.ServeHTTP / serveHTTP step by step before and after the chain
            # (specs/ServerFront.tla, notes/ServerFront.md): invariants + one CASE per request head
            dict(module="ServerFront", cfg=dict(quick="ServerFront_quick.cfg", thorough="ServerFront_thorough.cfg"), emit=True,
                 workers=8, coverage=True, timeout=dict(quick=300, thorough=900)),
        ],
        go=[dict(pkg="c12", test="TestC12", timeout=dict(quick=600, thorough=3000)),
            dict(pkg="cx12rules", test="TestCx12Rules", timeout=dict(quick=300, thorough=1200)),
            dict(pkg="cx12front", test="TestCx12Front", timeout=dict(quick=300, thorough=900))],
        traces=[dict(name="middlewaretrace", module="MiddlewareTrace", cfg="MiddlewareTrace.cfg", timeout=900),
                dict(name="middlewaretrace_selftest", module="MiddlewareTrace", cfg="MiddlewareTraceNeg.cfg", timeout=300)],
        exhaustive=dict(quick=True, thorough=True),
        technique="TLA+ spec Middleware.tla (handler contract of the middleware chain) model-checked by TLC; terminal states replayed against real casket sites; observed commits/responses validated by TLC against MiddlewareTrace.tla",
        level_text="TLC explores every behaviour of Middleware.tla: each subset of the modelled wrapping directives x errors mode x request kind x behaviour of the innermost handler, one action per step a ServeHTTP takes (in / out / panic unwinding) over the stack of response-writer wrappers, and checks OneCommit, ErrorGetsBody, WrittenUnaltered, PanicIs500IfNothingWritten and ServerSurvives. Every terminal state is replayed against a real site (casket.Start, raw HTTP/1.1, test-only innermost directive verifprobe, header commits counted below Server.ServeHTTP) and the declarative predicates are evaluated on what the client and the connection saw; the recorded observations are validated by TLC against MiddlewareTrace.tla. Bounded model checking plus conformance replay and trace validation: the contract is only meaningful across compositions, which are enumerated.",
        level_note="Trusted: TLC, Go's net/http for HTTP/1.1 framing, the abstraction of bodies into parts (handler body, default error text, error page, visible error text). proxy/fastcgi/markdown/browse as inner handlers are represented by the probe's behaviours only.",
        assumptions=["HTTP/1.1 GET over loopback; wrappers modelled: log, gzip, header, errors (none/default/page/visible), status, internal, templates; limits, request_id, rewrite, basicauth (unprotected path), mime are pass-through in the model and added as seeded padding in the replay",
                     "inner behaviours: return (s, err) without writing for s in {0,200,204,301,404,500}; write 200/404 + body then return (0, err|nil); panic before writing; panic after writing (with/without Flush)"],
    )
