"""C09 pipeline (see DESIGN.md section 3, C09, and notes/C09.md)."""

PROP = dict(
    models=[
        # the operational model (write -> parse -> executeDirectives -> NewServer) against the
        # declarative properties, for every block and every admissible written order
        dict(module="DirectiveOrder", cfg=dict(quick="DirectiveOrder_quick.cfg", thorough="DirectiveOrder_thorough.cfg"),
             workers=12, timeout=dict(quick=300, thorough=2400)),
        # random behaviours of the same model with blocks of up to 6 pool lines (thorough only)
        dict(module="DirectiveOrder", cfg=dict(thorough="DirectiveOrder_sim.cfg"), workers=8,
             simulate=dict(thorough=dict(num=20000, depth=80)), timeout=dict(thorough=900)),
        # emission: one CASE per block (all its reorderings, predicted answers) + the pairwise table
        dict(module="DirectiveOrder", cfg=dict(quick="DirectiveOrderEmit_quick.cfg", thorough="DirectiveOrderEmit_thorough.cfg"),
             emit=True, workers=8, timeout=dict(quick=300, thorough=1200)),
        # the same two jobs for the second pool (index, log, tryfiles, rewrite, header, redir with 2-3 lines each)
        dict(module="DirectiveOrderTwins", cfg=dict(quick="DirectiveOrderTwins_quick.cfg", thorough="DirectiveOrderTwins_thorough.cfg"),
             workers=12, timeout=dict(quick=300, thorough=1200)),
        dict(module="DirectiveOrderTwins", cfg=dict(quick="DirectiveOrderTwinsEmit_quick.cfg", thorough="DirectiveOrderTwinsEmit_thorough.cfg"),
             emit=True, workers=8, timeout=dict(quick=300, thorough=600)),
        # extension: rule semantics of rewrite / redir (specs/RewriteRedir.tla, notes/RewriteRedir.md): invariants + one CASE per site
        dict(module="RewriteRedir", cfg=dict(quick="RewriteRedir_quick.cfg", thorough="RewriteRedir_thorough.cfg"),
             emit=True, workers=12, timeout=dict(quick=300, thorough=1200)),
    ],
    go=[dict(pkg="c09", test="TestC09", timeout=dict(quick=600, thorough=3000)),
        dict(pkg="cx09rewrite", test="TestCx09Rewrite", timeout=dict(quick=300, thorough=1200))],
    exhaustive=dict(quick=False, thorough=False),
    technique="TLA+ spec DirectiveOrder.tla model-checked by TLC; blocks, their reorderings and the predicted answers replayed against real casket instances",
    level_text="TLC checks on the operational model of parse -> executeDirectives -> NewServer (one action per parsed line, per outer-loop iteration, per compiled middleware) that for every block of a root line plus <=4 of 20 pool lines and every written order that keeps same-directive lines in order the compiled site equals the documented one (CanonicalStack), answers the 30-request battery identically (PermutationInvariant) and respects the pairwise order table (PairOrder). Every block is then loaded for real (casket.Start, loopback) as documented and in 2-3 reorderings; full responses and access-log lines must be identical across written orders and equal to the model's prediction; the registered directive list must equal the spec constant Canon. Bounded model checking plus conformance replay: right for a property that quantifies over configurations and requests.",
    level_note="Trusted: TLC; the request semantics of the 20 pool lines in DirectiveOrder.tla (validated against the unchanged tree on every block of the thorough tier); Go's net/http for HTTP/1.1 framing. Blocks are bounded to 5 lines; directives outside the pool (tryfiles, fastcgi, websocket, push, pprof, expvar, limits, timeouts, on, ...) are covered only by the Canon = registered-list comparison.",
    assumptions=["one site on one loopback listener, HTTP/1.1, GET and OPTIONS requests of the battery in DirectiveOrder.tla",
                 "blocks of a root line plus at most 4 (quick: 3) lines from the 20-line pool; written orders sampled (reverse order + seeded picks) from the set Perm(block) TLC enumerates",
                 "bind and tls lines are written at seeded positions but are not part of the model"],
)
