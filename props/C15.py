"""C15 pipeline (see DESIGN.md section 3, C15 and notes/C15.md)."""

PROP = dict(
    models=[
        dict(module="AutoHTTPS", cfg=dict(quick="AutoHTTPS_quick.cfg", thorough="AutoHTTPS_thorough.cfg"), emit=True,
             workers=8, coverage=True, timeout=dict(quick=300, thorough=1800)),
    ],
    go=[dict(pkg="c15", test="TestC15", timeout=dict(quick=600, thorough=3600))],
    exhaustive=dict(quick=True, thorough=True),
    technique="TLA+ spec AutoHTTPS.tla (stages of automatic HTTPS as actions, the statement's clauses as invariants) model-checked by TLC; "
              "every enumerated configuration replayed stage by stage against the real parser, tls setup, markQualifiedForAutoHTTPS, "
              "enableAutoHTTPS, makePlaintextRedirects, MakeServers and the synthesised servers' ServeHTTP",
    level_text="TLC enumerates every configuration of the bounded alphabet (all single sites: 3 schemes x 17 host classes x 4-6 ports x 2 paths x 9 tls variants x 3-4 bind hosts, "
               "in a standard and a moved port setting; all ordered pairs of sites sharing one of 4 hosts; pairs across related hosts) and checks the statement's clauses "
               "(ManagedIffQualifies, ManagedGetsHTTPS, PlainNeverTLS, RedirectExists, RedirectTarget, NoRedirectToHTTP, NoShadow, RedirectShape, EveryRequestRedirected) "
               "as invariants of the stage-by-stage model. Each configuration is then executed by the real code (no sockets, no ACME) and the site list after every stage, "
               "the error class and the responses of the HTTP-port servers are compared with the model. Bounded exhaustive model checking plus conformance replay.",
    level_note="Trusted: TLC; the host-class abstraction of AutoHTTPS.tla (one representative name per class); the verif-only wrappers VerifC15Execute/VerifC15AutoHTTPS "
               "compose the stages in the order of activateHTTPS but leave out certificate management (ObtainCertAsync, renewal), which needs an ACME server. "
               "Three or more sites per configuration are not enumerated.",
    assumptions=["certificate management (obtaining / loading / renewing) does not change the per-site TLS flags or the site list",
                 "one representative host name per class (a.site.org, *.site.org, x.test, ...); the classes are those the code and the statement distinguish",
                 "requests are delivered to Server.ServeHTTP as net/http would parse them (http.ReadRequest), HTTP/1.1"],
)
