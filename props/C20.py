"""C20 pipeline (see DESIGN.md section 3, C20 and notes/C20.md)."""

PROP = dict(
        models=[
            # handler contract incl. the access-log recorder: OneLinePerLog, StatusSizeMatchClient (the run over all
            # eleven optional wrappers is part of C12's thorough tier)
            dict(module="Middleware", cfg=dict(quick="Middleware_quick.cfg", thorough="MiddlewareEmit_thorough.cfg"), emit=True,
                 workers=8, timeout=dict(quick=300, thorough=600)),
            # which logs get a line: scopes, except, several log directives
            dict(module="LogScope", cfg=dict(quick="LogScope_quick.cfg", thorough="LogScope_thorough.cfg"), emit=True,
                 workers=8, coverage=True, coverage_ignore=["WriteFirstRuleOnly"], timeout=dict(quick=300, thorough=600)),
            # the placeholder scanner
            dict(module="Replacer", cfg=dict(quick="Replacer_quick.cfg", thorough="Replacer_thorough.cfg"), emit=True,
                 workers=8, coverage=True, timeout=dict(quick=300, thorough=1200)),
        ] + [
            # extension: where the entries end up - shared log files, rotation, reloads (notes/LogSink.md)
            dict(module="LogSink", cfg=dict(quick="LogSink_quick.cfg", thorough="LogSink_thorough.cfg"), workers=8, timeout=300),
            dict(module="LogSink", cfg=dict(thorough="LogSinkSite_thorough.cfg"), workers=8, timeout=300),
            dict(module="LogSink", cfg=dict(thorough="LogSinkRaw_thorough.cfg"), workers=8, timeout=300),
            dict(module="LogSink", cfg=dict(thorough="LogSinkGrace_thorough.cfg"), workers=8, timeout=300, coverage=True,
                 coverage_ignore=["WriteRest", "Reap", "Next"]),  # the as-found / hypothetical deviations are switched off
            dict(module="LogSink", cfg=dict(thorough="LogSinkLive_thorough.cfg"), workers=4, timeout=300),
            dict(module="LogRoller", cfg=dict(thorough="LogRoller_thorough.cfg"), emit=True, workers=8, timeout=300),
            dict(module="LogSinkHist", cfg="LogSinkHist.cfg", emit=True, workers=1,
                 simulate=dict(quick=dict(num=8, depth=120), thorough=dict(num=60, depth=120)), timeout=300),
        ] + [
            # extension: what every placeholder of getSubstitution evaluates to, as a function of the exchange
            # (specs/ReplacerVocab.tla, notes/ReplacerVocab.md); the liveness cfg first: the emitting job of a module runs last
            dict(module="ReplacerVocab", cfg=dict(thorough="ReplacerVocabLive.cfg"), workers=4, coverage=True, timeout=300),
            dict(module="ReplacerVocab", cfg=dict(quick="ReplacerVocab_quick.cfg", thorough="ReplacerVocab_thorough.cfg"), emit=True,
                 workers=8, timeout=dict(quick=300, thorough=900)),
        ],
        go=[dict(pkg="c20", test="TestC20", timeout=dict(quick=600, thorough=3000)),
            dict(pkg="cx20logsink", test="TestCx20LogSink", timeout=dict(quick=300, thorough=900)),
            dict(pkg="cx20vocab", test="TestCx20Vocab", timeout=dict(quick=300, thorough=900))],
        traces=[dict(name="logsink", module="LogSinkTrace", cfg="LogSinkTrace.cfg", timeout=600)],
        exhaustive=dict(quick=False, thorough=True),
        technique="TLA+ specs Middleware.tla (recorder/log lines in the handler contract), LogScope.tla (scopes, except, several logs) and Replacer.tla (placeholder scanner) model-checked by TLC; terminal states replayed against real casket sites writing real log files",
        level_text="TLC checks OneLinePerLog and StatusSizeMatchClient on every behaviour of Middleware.tla, OneLinePerLog on every set of <=3 log directives (4 scopes x except) x 8 request paths of LogScope.tla, and SinglePass (lock-step expansion with opaque marks), MatchesGrammar (UnknownIsEmptyMarker, EscapedStayLiteral) and Total on every format of <=5 symbols x 8 adversarial request values of Replacer.tla. The terminal states are replayed against real sites: access-log files are parsed and compared with the status and body bytes the client received (also from 16 concurrent clients), every format of the model is used as a `header` value and (a seeded subset) as a `log` format with requests carrying placeholder syntax in header, query and cookie.",
        level_note="Trusted: TLC, Go's net/http framing, the symbol alphabet of Replacer.tla (method, one header, one query argument, one cookie, one unknown name, braces, backslash, one literal). Not covered: {request_body}, TLS and time placeholders, response-header placeholders, HEAD requests, syslog outputs, log rotation.",
        assumptions=["HTTP/1.1 GET over loopback; log output to files without rotation pressure",
                     "a request whose handler panicked after it started writing (excepted by C12) only has to be logged once; its recorded status is that of the late error answer",
                     "an absent query argument ({?name}) expands to the empty string, not to the empty-value marker: the statement only speaks of unknown placeholders"],
    )
