"""C08 pipeline: Residue.tla (TLC) -> histories of failing attempts -> real process, observed from outside -> ResidueTrace.tla."""

PROP = dict(
    models=[
        dict(module="Residue", cfg=dict(quick="Residue_quick.cfg", thorough="Residue_thorough.cfg"), workers=4, timeout=dict(quick=300, thorough=900)),
        dict(module="Residue", cfg=dict(quick="ResidueEmit_quick.cfg", thorough="ResidueEmit_thorough.cfg"), emit=True, workers=4, timeout=dict(quick=300, thorough=900)),
    ],
    go=[dict(pkg="c08", test="TestC08", timeout=dict(quick=600, thorough=3600))],
    traces=[dict(name="residue", module="ResidueTrace", cfg="ResidueTrace.cfg", timeout=900)],
    exhaustive=dict(quick=False, thorough=False),
    technique="TLA+ spec Residue.tla model-checked by TLC; TLC-generated histories of failing loads executed on the real process, observed global state validated by TLC (ResidueTrace.tla)",
    level_text="TLC checks the staged load (parse, directive setup in directive order, startup callback, listeners) with its failure path for all histories up to the bound: after a failed attempt the process-global state equals the state at the call, validation never changes anything, the htpasswd lock is free between attempts, and every attempt returns. Each history is executed for real (validate, Start, Restart around a running base site; 14 configuration kinds) and after every attempt the listening sockets of the process (/proc/self/net/tcp), the event-hook registry, the instance list and the base site's answer are observed and compared by TLC with the specification's state; a final valid start must succeed, answer like in a fresh process and every attempt must return within a watchdog.",
    level_note="Trusted: TLC; /proc as the view of the process's sockets; casket.ListPlugins() for the hook registry. UDP/QUIC sockets, log-roller and certificate caches are not observed. Histories are run in one process (a detected residue taints later histories, which is reported once).",
    assumptions=["one process for all histories; each history starts from the base-only state", "SIGUSR1 surface not driven (API-level Restart is)"],
    selftest_expects_mismatch=True,
)
