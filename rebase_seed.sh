#!/bin/bash
# rebase_seed.sh <id>...: re-bases stored seed patches whose context moved under later fix: commits
# (patch --fuzz in a scratch worktree of /repo HEAD, rebuilt, diff taken again), then confirms and re-tests them.
export GOFLAGS=-mod=mod GOPROXY=off GOSUMDB=off GOTOOLCHAIN=local
cd /verif
for id in "$@"; do
  wt=$(mktemp -d /tmp/rebase.XXXXXX); git -C /repo worktree add -q --detach $wt HEAD || exit 2
  if (cd $wt && patch -p1 --fuzz=3 -s < /verif/seeded/$id/patch.diff && go build ./... ); then
    (cd $wt && find . -name "*.orig" -delete && git diff) > /tmp/$id.rebased.diff
    cp /tmp/$id.rebased.diff seeded/$id/patch.diff; echo "$id re-based"
  else
    echo "$id: patch --fuzz FAILED (by hand)"; (cd $wt && find . -name "*.rej" | head -3)
  fi
  git -C /repo worktree remove --force $wt; rm -rf $wt
done
