CONSTANTS MaxSrv = 8
 Caps = {4}
 MaxTicks = 12
 MaxOps = 1000000
 Repaired = TRUE
 Sync = FALSE
SPECIFICATION TSpec
CONSTRAINT Constr
INVARIANTS TypeOK NonEmpty CapBound FirstIsNewest Lifetime NewerKeysExist NoReuse NoSetAfterClose TickerStopped PlainServerNoRotation OnePerServer RotationWhileServing NoRotationAfterServe LiveCount
POSTCONDITION Accepted
CHECK_DEADLOCK FALSE
