CONSTANTS NReq = 3
 NHost = 2
 MaxTries = 2
 ConnsOpts = {0, 1, 2}
 FailsOpts = {1, 2}
 RetryOpts = {TRUE, FALSE}
SPECIFICATION Spec
VIEW view
INVARIANTS ConnsExact ForwardedAreCounted Cap FailsExact DownIff Quiescent
CHECK_DEADLOCK FALSE
