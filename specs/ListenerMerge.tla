---------------------------- MODULE ListenerMerge ----------------------------
(***************************************************************************)
(* C17, second half - listener-wide settings shared by co-hosted sites.    *)
(*                                                                         *)
(* Sites that share a listener (same bind address and port) share ONE      *)
(* http.Server.  httpserver.NewServer builds it from the group:            *)
(*   makeHTTPServerWithTimeouts  : one loop over the group, four knobs     *)
(*                                 (read, header, write, idle), then the   *)
(*                                 defaults for the knobs nobody set;      *)
(*   makeHTTPServerWithHeaderLimit: a second loop for MaxHeaderBytes.      *)
(* Operational part: one action per loop iteration (MergeTimeouts,         *)
(* ApplyDefaults, MergeHeaderLimit, SetMaxHeader).                         *)
(* Declarative part: Strictest - the result is the most restrictive value  *)
(* any site SET; for a time-out "none" (0) is the LEAST restrictive value; *)
(* the default applies iff no site set the knob.                           *)
(*                                                                         *)
(* Abstract values: Unset (-1), 0 = "none" (time-outs only: `limits`       *)
(* rejects a header size of 0), 1 = small, 2 = large; Default (-2) in the  *)
(* result stands for "the built-in default" (0 for read/header/write,      *)
(* 5 min for idle, net/http's DefaultMaxHeaderBytes for the header size).  *)
(***************************************************************************)
EXTENDS Integers, Sequences, FiniteSets, TLC, Json

CONSTANTS MaxSites,       \* sites on the listener: 1..MaxSites
          MaxActive,      \* at most this many knobs are set by anybody in one group ...
          ZeroIsSmallest  \* TRUE = the code before the repair (plain "<" on durations); only for
                          \* the negative control ListenerMerge_oldcode.cfg

Unset   == -1
Default == -2
TKnobs  == {"read", "header", "write", "idle"}
Knobs   == TKnobs \cup {"maxhdr"}
ValsOf(k) == IF k = "maxhdr" THEN {Unset, 1, 2} ELSE {Unset, 0, 1, 2}

\* per-site configurations in which only the knobs in A may be set
AllCfgs == {c \in [Knobs -> -1..2] : c["maxhdr"] # 0}
CfgsFor(A) == {c \in AllCfgs : \A k \in Knobs \ A : c[k] = Unset}
\* ... or every site uses the one-argument form `timeouts V` (all four knobs the same value)
All4Cfgs == {c \in AllCfgs : \A k \in TKnobs : c[k] = c["read"]}
Actives == {A \in SUBSET Knobs : A # {} /\ Cardinality(A) <= MaxActive}

VARIABLES sites,   \* 1..n -> [Knobs -> value]
          pc, idx,
          min,     \* the `min Timeouts` struct of makeHTTPServerWithTimeouts: knob -> [set, v]
          hmin,    \* the `min int64` of makeHTTPServerWithHeaderLimit (0 = not set yet)
          result   \* knob -> effective value of the http.Server (Default = left to the default)
vars == <<sites, pc, idx, min, hmin, result>>

N == Len(sites)

Init ==
    /\ \E n \in 1..MaxSites :
          \/ \E A \in Actives : sites \in [1..n -> CfgsFor(A)]
          \/ sites \in [1..n -> All4Cfgs]
    /\ pc = "timeouts" /\ idx = 1
    /\ min = [k \in TKnobs |-> [set |-> FALSE, v |-> 0]]
    /\ hmin = 0
    /\ result = [k \in Knobs |-> Unset]

\* is duration a stricter than b?  0 means "no time-out".
Stricter(a, b) == IF ZeroIsSmallest THEN a < b ELSE a # 0 /\ (b = 0 \/ a < b)

\* one iteration of `for _, cfg := range group` in makeHTTPServerWithTimeouts
MergeTimeouts ==
    /\ pc = "timeouts" /\ idx <= N
    /\ min' = [k \in TKnobs |->
                 IF sites[idx][k] # Unset /\ (~min[k].set \/ Stricter(sites[idx][k], min[k].v))
                   THEN [set |-> TRUE, v |-> sites[idx][k]] ELSE min[k]]
    /\ idx' = idx + 1
    /\ UNCHANGED <<sites, pc, hmin, result>>

\* "for the values that were not set, use defaults" + building the http.Server
ApplyDefaults ==
    /\ pc = "timeouts" /\ idx > N
    /\ result' = [k \in Knobs |-> IF k \in TKnobs THEN (IF min[k].set THEN min[k].v ELSE Default) ELSE result[k]]
    /\ pc' = "hdr" /\ idx' = 1
    /\ UNCHANGED <<sites, min, hmin>>

\* one iteration of the loop of makeHTTPServerWithHeaderLimit
MergeHeaderLimit ==
    /\ pc = "hdr" /\ idx <= N
    /\ LET limit == sites[idx]["maxhdr"] IN
         hmin' = IF limit = Unset THEN hmin               \* `if limit == 0 { continue }`
                 ELSE IF hmin = 0 THEN limit              \* not set yet
                 ELSE IF limit < hmin THEN limit ELSE hmin
    /\ idx' = idx + 1
    /\ UNCHANGED <<sites, pc, min, result>>

\* `if min > 0 { s.MaxHeaderBytes = int(min) }`
SetMaxHeader ==
    /\ pc = "hdr" /\ idx > N
    /\ result' = [result EXCEPT !["maxhdr"] = IF hmin > 0 THEN hmin ELSE Default]
    /\ pc' = "done"
    /\ UNCHANGED <<sites, idx, min, hmin>>

Next == MergeTimeouts \/ ApplyDefaults \/ MergeHeaderLimit \/ SetMaxHeader
Spec == Init /\ [][Next]_vars /\ WF_vars(Next)

\* ---- declarative property --------------------------------------------------
SetValues(k) == {sites[i][k] : i \in 1..N} \ {Unset}
MinOf(V) == CHOOSE m \in V : \A x \in V : m <= x
StrictestOf(k) ==
    LET V == SetValues(k) IN
    IF V = {} THEN Default                                  \* defaults only where nobody sets a value
    ELSE IF k = "maxhdr" THEN MinOf(V)                      \* smallest header size
    ELSE IF V = {0} THEN 0                                  \* everybody who spoke said "none"
    ELSE MinOf(V \ {0})                                     \* shortest real time-out; "none" never wins

Strictest == pc = "done" => \A k \in Knobs : result[k] = StrictestOf(k)
\* a site's explicit value is never weakened by a co-hosted site
NeverLaxerThanAnySite ==
    pc = "done" => \A k \in Knobs : \A i \in 1..N :
        sites[i][k] > 0 => (result[k] > 0 /\ result[k] <= sites[i][k])
DefaultIffNobodySet == pc = "done" => \A k \in Knobs : (result[k] = Default) <=> (SetValues(k) = {})
Terminates == <>(pc = "done")

\* ---- case emission: one CASE per site group, with the expected http.Server fields ----
Emit == pc = "done" =>
          PrintT(<<"CASE", ToJson([sites |-> sites, want |-> [k \in Knobs |-> StrictestOf(k)]])>>)
=============================================================================
