CONSTANTS MaxB = 1000000
 MaxOps = 0
 ReqKinds = {"ws", "wska", "plain", "ka", "close"}
 Presets = {TRUE, FALSE}
 Transps = {TRUE, FALSE}
 MCs = {0, 1}
 Statuses = {101, 200, 403}
 Splits = "all"
 FwdBuffered = TRUE
 FlushOn = TRUE
 CloseDeclined = TRUE
SPECIFICATION TSpec
CONSTRAINT Constr
INVARIANTS TypeOK TunnelTransparent NoUpgradeHeadersOnPlainRequests CountedWhileOpen ReturnedMeansClosed DeclinedIsOrdinary DeclinedConnClosed
POSTCONDITION Accepted
CHECK_DEADLOCK FALSE
