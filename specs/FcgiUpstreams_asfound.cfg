\* The design as found (fastcgi.go returned 502 when the body copy failed after writeHeader):
\* TLC refutes HandlerContract / OutcomeByUpstream.  Not part of the pipeline; see notes/FcgiUpstreams.md.
CONSTANTS
 NOpts = {1}
 ConcNOpts = {}
 MaxReq = 2
 ReqOpts = {2}
 ConcReq = 2
 PortModes = {"up"}
 AnsModes = {"ok", "closemid", "stallbody"}
 MaxVisits = 2
 MaxFaults = 1
 ConcFaults = 1
 Kinds = {"php"}
 ConcKinds = {"php"}
 StaticAt = {}
 CTOpts = {2}
 RTOpts = {3}
 STOpts = {5}
 SD = 1
 MaxStart = 1
 Skew = 0
 Slack = 0
 CopyErrStatus = 502
 OrderedStart = TRUE
 PoolCap = 0
 EmitCases = FALSE
SPECIFICATION Spec
INVARIANTS TypeOK HandlerContract OutcomeByUpstream
CHECK_DEADLOCK FALSE
