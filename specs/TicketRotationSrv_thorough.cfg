CONSTANTS MaxSrv = 3
 Caps = {2}
 MaxTicks = 0
 MaxOps = 3
 Repaired = TRUE
 Sync = FALSE
SPECIFICATION SpecSrv
INVARIANTS TypeOK NonEmpty CapBound FirstIsNewest Lifetime NewerKeysExist NoReuse NoSetAfterClose TickerStopped Growth PlainServerNoRotation OnePerServer RotationWhileServing NoRotationAfterServe LiveCount
CHECK_DEADLOCK FALSE
