CONSTANT N = 7
SPECIFICATION Spec
INVARIANT Total
INVARIANT LineIsOnePlusLineFeeds
INVARIANT TokenLine
INVARIANT TokenBound
INVARIANT LinesMonotone
INVARIANT FlagsConsistent
INVARIANT PlainSplit
PROPERTY Terminates
CHECK_DEADLOCK FALSE
