CONSTANT MaxRedirects = 10
CONSTANT Backends = {"ba", "bc", "bp"}
CONSTANT RedirKinds = {"redir", "both", "flush"}
CONSTANT Methods = {"GET", "POST"}
CONSTANT FlushGuard = TRUE
INIT Init
NEXT Next
INVARIANT TypeOK
INVARIANT ClientNeverSeesAccelHeader
INVARIANT DirectRequestRefused
INVARIANT InternalContentOnlyViaAccel
INVARIANT BoundedRedirects
INVARIANT DiscardedResponseLeavesNoTrace
INVARIANT RedirectDropsResponse
INVARIANT ReissuedRequestShape
INVARIANT FinalIsLastHandlers
INVARIANT Emit
CHECK_DEADLOCK FALSE
