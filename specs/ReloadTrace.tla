---------------------------- MODULE ReloadTrace ----------------------------
(* Validates traces of real reloads under client load against Reload.tla.                     *)
(* Logged (sequence numbers under one harness mutex): reload call / return, the new           *)
(* instance's startup callback and the old instance's shutdown callback (callback gates),     *)
(* request start (before dialing) and request end (after the complete response was read,      *)
(* with the generation marker found in it).  Not logged, inferred by TLC: the moment the new  *)
(* instance starts accepting (NewServing) and the moment the old listeners close (OldClosed). *)
EXTENDS Reload, Json

VARIABLE l
Trace == ndJsonDeserialize("trace.ndjson")
tvars == <<vars, l>>
E == Trace[l]
IsEvent(e) == l <= Len(Trace) /\ Trace[l].ev = e /\ l' = l + 1

TInit == Init /\ l = 1

SetOf(sq) == {sq[i] : i \in 1..Len(sq)}

TCall == IsEvent("call") /\ Call(E.kind, SetOf(E.ports)) /\ new' = E.g
TStartupCb == IsEvent("startupcb") /\ new = E.g /\ StartupCb
TShutdownCb == IsEvent("shutdowncb") /\ cur = E.g /\ ShutdownCb
TRet == IsEvent("ret") /\ ((E.res = "ok" /\ ReturnOk) \/ (E.res = "err" /\ ReturnErr))
TReqStart == IsEvent("reqStart") /\ ReqStart(E.id, E.a)
\* a finished request is forgotten (keeps the state small on long traces); its precondition is
\* the property: complete response, from a generation that was accepting during the request
TReqEnd == /\ IsEvent("reqEnd")
           /\ E.outcome = "ok"
           /\ E.id \in Open /\ E.m \in reqs[E.id].cands
           /\ reqs' = [i \in (DOMAIN reqs) \ {E.id} |-> reqs[i]]
           /\ UNCHANGED <<cur, ports, acc, phase, new, kind, nre, lastRet>>
TReset == /\ IsEvent("reset")
          /\ cur' = 1 /\ ports' = (1 :> Addrs) /\ acc' = [a \in Addrs |-> {1}]
          /\ phase' = "idle" /\ new' = NoGen /\ kind' = "ok" /\ nre' = 0 /\ reqs' = <<>> /\ lastRet' = "none"
Silent == UNCHANGED l /\ (NewServing \/ OldClosed)

TNext == TCall \/ TStartupCb \/ TShutdownCb \/ TRet \/ TReqStart \/ TReqEnd \/ TReset \/ Silent
TSpec == TInit /\ [][TNext]_tvars

Constr == TLCSet(1, IF l > TLCGet(1) THEN l ELSE TLCGet(1))
Accepted == IF TLCGet(1) = Len(Trace) + 1 THEN TRUE
            ELSE Print(<<"REJECTED at event", TLCGet(1), Trace[TLCGet(1)]>>, FALSE)
ASSUME TLCSet(1, 0)
=============================================================================
