SPECIFICATION Spec
CONSTANTS
  Spaces = {"verify", "opts", "conn", "silent", "relay"}
  OptLen = 3
  Wide = TRUE
  HandshakeBound = "all"
  UnixKeepalive = "honoured"
  HealthTrust = "rule"
  UpgradeSNI = "always"
INVARIANTS
  TypeOK
  VerifiedUnlessOptedOut
  OptOutIsLocal
  SNIIsUpstreamName
  RedirectsRelayedNotFollowed
  IdleBounded
  SilentBackendBounded
  HeldIsReleased
  RequestIntactOverTLS
  H2WhenOffered
  OutcomeIsOwn
  TransportFollowsOptions
  HealthAgreesWithRule
  RefusedOnlyForCause
  AcceptedUnlessCause
  Emit
CHECK_DEADLOCK FALSE
