---------------------------- MODULE ServerFront ----------------------------
(***************************************************************************)
(* The front door of casket's HTTP server (extension of C12): everything   *)
(* caskethttp/httpserver/server.go does to a request BEFORE the site's     *)
(* middleware chain runs and AFTER it returned.  Middleware.tla's first    *)
(* layer "server" is a stub (recover + fallback text); this module is that *)
(* layer, step by step.                                                    *)
(*                                                                         *)
(* One behaviour = one request head read from one connection of one of     *)
(* three listeners with a fixed set of sites:                              *)
(*                                                                         *)
(*   P plaintext  s1 a.test   s2 *.w.test   s3 a.test/base   s4 catch-all   *)
(*   Q plaintext  q1 a.test   q2 *.w.test   q3 a.test/base   (no catch-all)*)
(*   T TLS        t1 t1.test  t2 t2.test (client auth)                      *)
(*                t3 t3.test (client auth, insecure_disable_sni_matching)  *)
(*                                                                         *)
(* Actions, one per step the code takes (net/http's part is the trusted    *)
(* substrate, modelled in NetRead / NetFinish only as far as it decides    *)
(* what casket is handed and what the client gets):                        *)
(*                                                                         *)
(*   NetRead        net/http reads the head: 400 (duplicate / missing /    *)
(*                  malformed Host), its own answer to OPTIONS *, or the    *)
(*                  request is delivered with r.Host and r.URL decided     *)
(*                  (absolute-form and authority-form targets beat the     *)
(*                  Host header, which is dropped)                         *)
(*   Mitm           tlsHandler.ServeHTTP (TLS listener only): no verdict   *)
(*                  without a User-Agent, the request goes on              *)
(*   Enter          Server.ServeHTTP: the deferred recover, User-Agent     *)
(*   CopyURL        OriginalURLCtxKey <- copy of r.URL                     *)
(*   MakeReplacer   ReplacerCtxKey <- NewReplacer                          *)
(*   SetServerHdr   w.Header().Set("Server", AppName)                      *)
(*   SplitHost      serveHTTP: net.SplitHostPort(r.Host), r.Host on error  *)
(*   VHostMatch     vhosts.Match(hostname + path) - the trie itself is     *)
(*                  VHost.tla, used here as an oracle (BestSite) - and the *)
(*                  "path_prefix" context value                            *)
(*   AcmeNoSite WriteNoSite LogNoSite   the `No such site` branch          *)
(*   AcmeSite       vhost.TLS.Issuer.HandleHTTPChallenge                   *)
(*   TrimPrefix     trimPathPrefix of the site's path scope                *)
(*   StrictSNI      SNI vs Host for sites with client authentication       *)
(*   ChainRewrite ChainProxy   the two directives of the scoped sites that *)
(*                  sit in front of the scripted handler                   *)
(*   ChainOp        one operation of the scripted innermost handler        *)
(*                  (the harness's test-only directive veriffront)         *)
(*   ChainStatic    the static file server (script op "next")              *)
(*   Fallback       back in Server.ServeHTTP: status >= 400 ->             *)
(*                  DefaultErrorFunc                                       *)
(*   Recover        the deferred recover: [PANIC] line, 500                *)
(*   NetFinish      net/http completes the response / the connection       *)
(*                                                                         *)
(* The guarantees are written declaratively in the PROPERTIES section.     *)
(*                                                                         *)
(* FIX_* = TRUE is the repaired design (what /repo does now), FALSE the    *)
(* design as found; with any of them FALSE TLC refutes an invariant        *)
(* (ServerFront_asfound.cfg, see notes/ServerFront.md).                    *)
(*                                                                         *)
(* Deliberate deviations: host names are tables (the model cannot compute  *)
(* on strings): a token has its text as written (the id), the text left by *)
(* net.SplitHostPort and the label sequence the trie ends up with; paths   *)
(* are sequences of units [c |-> decoded character(s), e |-> written as a  *)
(* percent-escape]; response bodies are token sequences.                   *)
(***************************************************************************)
EXTENDS Naturals, Sequences, FiniteSets, TLC, Json

CONSTANTS EMIT,          \* print one CASE line per finished request
          FIX_KEY,       \* serveHTTP: a path without leading slash ("*", "") does not run into the host name of the lookup key
          FIX_TRIM,      \* trimPathPrefix: the prefix is cut off the way it was matched (decoded), however it was spelled
          FIX_SNICLOSE,  \* serveHTTP: a strict-SNI mismatch really closes the connection
          Methods,       \* methods of the origin-form / absolute-form heads
          Versions,      \* of the plaintext heads
          OriginPaths, OriginHosts, AbsHosts, AbsPaths

\* the routing rule inside one listener: VHost.tla (its variables are not used here)
VH == INSTANCE VHost WITH K <- 0, sites <- {}, rh <- 1, rp <- 1, pc <- "none", cur <- <<"">>,
                          ci <- 1, fi <- 0, branch <- <<"">>, result <- <<"">>

\* ---- 1. the fixed configuration -----------------------------------------------------------
Ch(s) == s      \* paths are sequences of one-character strings
BASE == <<"/", "b", "a", "s", "e">>
Site(id, h, p, ca, nosni, log, scoped) ==
    [id |-> id, h |-> h, p |-> p, ca |-> ca, nosni |-> nosni, log |-> log, scoped |-> scoped]
SitesOf(l) ==
    CASE l = "P" -> { Site("s1", <<"a", "test">>, <<"/">>, FALSE, FALSE, FALSE, FALSE),
                      Site("s2", <<"*", "w", "test">>, <<"/">>, FALSE, FALSE, TRUE, FALSE),
                      Site("s3", <<"a", "test">>, BASE, FALSE, FALSE, FALSE, TRUE),
                      Site("s4", <<"">>, <<"/">>, FALSE, FALSE, TRUE, FALSE) }
      [] l = "Q" -> { Site("q1", <<"a", "test">>, <<"/">>, FALSE, FALSE, FALSE, FALSE),
                      Site("q2", <<"*", "w", "test">>, <<"/">>, FALSE, FALSE, FALSE, FALSE),
                      Site("q3", <<"a", "test">>, BASE, FALSE, FALSE, FALSE, TRUE) }
      [] l = "T" -> { Site("t1", <<"t1", "test">>, <<"/">>, FALSE, FALSE, TRUE, FALSE),
                      Site("t2", <<"t2", "test">>, <<"/">>, TRUE, FALSE, FALSE, FALSE),
                      Site("t3", <<"t3", "test">>, <<"/">>, TRUE, TRUE, FALSE, FALSE) }
NoSite == Site("-", <<"<none>">>, <<>>, FALSE, FALSE, FALSE, FALSE)
IsTLS(l) == l = "T"
AllSiteHosts == UNION {{s.h : s \in SitesOf(l)} : l \in {"P", "Q", "T"}}

\* the key set handed to VHost.tla and the way back
VKeys(l) == {[h |-> s.h, p |-> s.p, fb |-> FALSE] : s \in SitesOf(l)}
Lookup(l, h, p) ==
    LET b == VH!BestSite(VKeys(l), h, p)
    IN  IF b = VH!None THEN NoSite ELSE CHOOSE s \in SitesOf(l) : s.h = b.h /\ s.p = b.p

\* ---- 2. the alphabets -----------------------------------------------------------------------
\* host tokens: id = the text as written ({port} = the listener's port), np = what net.SplitHostPort
\* leaves (the text itself when it reports an error: no port), lb = the labels of the lower-cased,
\* port-less, bracket-less name, ok = httpguts.ValidHostHeader
HTok(id, hasport, np, lb, ok) == [id |-> id, hasport |-> hasport, np |-> np, lb |-> lb, ok |-> ok]
HT(id) ==
    CASE id = "a.test"           -> HTok(id, FALSE, id, <<"a", "test">>, TRUE)
      [] id = "A.TEST"           -> HTok(id, FALSE, id, <<"a", "test">>, TRUE)
      [] id = "a.test:{port}"    -> HTok(id, TRUE, "a.test", <<"a", "test">>, TRUE)
      [] id = "A.Test:99"        -> HTok(id, TRUE, "A.Test", <<"a", "test">>, TRUE)
      [] id = "a.test."          -> HTok(id, FALSE, id, <<"a", "test", "">>, TRUE)
      [] id = "b.w.test"         -> HTok(id, FALSE, id, <<"b", "w", "test">>, TRUE)
      [] id = "B.W.TEST:{port}"  -> HTok(id, TRUE, "B.W.TEST", <<"b", "w", "test">>, TRUE)
      [] id = "w.test"           -> HTok(id, FALSE, id, <<"w", "test">>, TRUE)
      [] id = "x.y.w.test"       -> HTok(id, FALSE, id, <<"x", "y", "w", "test">>, TRUE)
      [] id = "*.w.test"         -> HTok(id, FALSE, id, <<"*", "w", "test">>, TRUE)
      [] id = "other.test"       -> HTok(id, FALSE, id, <<"other", "test">>, TRUE)
      [] id = "[::1]"            -> HTok(id, FALSE, id, <<"::1">>, TRUE)
      [] id = "[::1]:{port}"     -> HTok(id, TRUE, "::1", <<"::1">>, TRUE)
      [] id = "127.0.0.1:{port}" -> HTok(id, TRUE, "127.0.0.1", <<"127", "0", "0", "1">>, TRUE)
      [] id = ""                 -> HTok(id, FALSE, id, <<"">>, TRUE)
      [] id = "a.test/base"      -> HTok(id, FALSE, id, <<"?">>, FALSE)       \* '/' and '@' are no host bytes
      [] id = "u@a.test"         -> HTok(id, FALSE, id, <<"?">>, FALSE)
      [] id = "t1.test"          -> HTok(id, FALSE, id, <<"t1", "test">>, TRUE)
      [] id = "t2.test"          -> HTok(id, FALSE, id, <<"t2", "test">>, TRUE)
      [] id = "T2.TEST:{port}"   -> HTok(id, TRUE, "T2.TEST", <<"t2", "test">>, TRUE)
      [] id = "t3.test"          -> HTok(id, FALSE, id, <<"t3", "test">>, TRUE)
      [] id = "nosuch.test"      -> HTok(id, FALSE, id, <<"nosuch", "test">>, TRUE)
AllHostIds == {"a.test", "A.TEST", "a.test:{port}", "A.Test:99", "a.test.", "b.w.test", "B.W.TEST:{port}", "w.test",
               "x.y.w.test", "*.w.test", "other.test", "[::1]", "[::1]:{port}", "127.0.0.1:{port}", "",
               "a.test/base", "u@a.test"}
PortHostIds == {"a.test:{port}", "A.Test:99", "B.W.TEST:{port}", "[::1]:{port}", "127.0.0.1:{port}"}
TLSHostIds == {"t1.test", "t2.test", "T2.TEST:{port}", "t3.test", "nosuch.test"}
SNIs == {"t1.test", "t2.test", "T2.TEST", "t3.test"}
SNILabels(s) == CASE s = "t1.test" -> <<"t1", "test">> [] s \in {"t2.test", "T2.TEST"} -> <<"t2", "test">>
                  [] s = "t3.test" -> <<"t3", "test">> [] OTHER -> <<"-">>

\* path tokens: sequences of units
U(c) == [c |-> c, e |-> FALSE]
E(c) == [c |-> c, e |-> TRUE]
Us(chars) == [i \in 1..Len(chars) |-> U(chars[i])]
PT(id) ==
    CASE id = "/"              -> Us(<<"/">>)
      [] id = "/x"             -> Us(<<"/", "x">>)
      [] id = "/base"          -> Us(BASE)
      [] id = "/base/x"        -> Us(BASE \o <<"/", "x">>)
      [] id = "/basex"         -> Us(BASE \o <<"x">>)
      [] id = "//base/x"       -> Us(<<"/">> \o BASE \o <<"/", "x">>)
      [] id = "/BASE/x"        -> Us(<<"/", "B", "A", "S", "E", "/", "x">>)
      [] id = "/b%61se/x"      -> <<U("/"), U("b"), E("a"), U("s"), U("e"), U("/"), U("x")>>
      [] id = "/base%2Fx"      -> Us(BASE) \o <<E("/"), U("x")>>
      [] id = "/base//e"       -> Us(BASE \o <<"/", "/", "e">>)
      [] id = "/.well-known/acme-challenge/t" -> Us(<<"/", ".well-known/acme-challenge/t">>)
      [] id = "/base/.well-known/acme-challenge/t" -> Us(BASE \o <<"/", ".well-known/acme-challenge/t">>)
      [] id = "/base/f.txt"    -> Us(BASE \o <<"/", "f.txt">>)
      [] id = "/b%61se/f.txt"  -> <<U("/"), U("b"), E("a"), U("s"), U("e"), U("/"), U("f.txt")>>
      [] id = "/base/r"        -> Us(BASE \o <<"/", "r">>)
      [] id = "/%62ase/r"      -> <<U("/"), E("b"), U("a"), U("s"), U("e"), U("/"), U("r")>>
      [] id = "/base/api/z"    -> Us(BASE \o <<"/", "a", "p", "i", "/", "z">>)
      [] id = "/bas%65/api/z"  -> <<U("/"), U("b"), U("a"), U("s"), E("e")>> \o Us(<<"/", "a", "p", "i", "/", "z">>)
      [] id = "/base/apix"     -> Us(BASE \o <<"/", "a", "p", "i", "x">>)
      [] id = ""               -> << >>                    \* absolute-form without a path, authority-form
      [] id = "*"              -> Us(<<"*">>)              \* asterisk-form
Dec(us) == [i \in 1..Len(us) |-> us[i].c]                 \* the decoded text (URL.Path)
ScopedPaths == {"/base/f.txt", "/b%61se/f.txt", "/base/r", "/%62ase/r", "/base/api/z", "/bas%65/api/z", "/base/apix"}
AcmePaths == {"/.well-known/acme-challenge/t", "/base/.well-known/acme-challenge/t"}

\* the scripts of the innermost handler
Op(k, n, t) == [k |-> k, n |-> n, t |-> t]
Script(id) ==
    CASE id = "default"      -> << Op("text", 0, "CHAIN") >>
      [] id = "ret404"       -> << Op("ret", 404, "") >>
      [] id = "reterr500"    -> << Op("reterr", 500, "") >>
      [] id = "reterr0"      -> << Op("reterr", 0, "") >>
      [] id = "ret301"       -> << Op("ret", 301, "") >>
      [] id = "ret200"       -> << Op("ret", 200, "") >>
      [] id = "write201"     -> << Op("status", 201, ""), Op("text", 0, "hi") >>
      [] id = "writeret500"  -> << Op("text", 0, "hi"), Op("ret", 500, "") >>      \* breaks the handler contract
      [] id = "panic"        -> << Op("panic", 0, "") >>
      [] id = "abort"        -> << Op("abort", 0, "") >>
      [] id = "writepanic"   -> << Op("text", 0, "hi"), Op("flush", 0, ""), Op("panic", 0, "") >>
      [] id = "hijack"       -> << Op("hijack", 0, "") >>
      [] id = "hijackret500" -> << Op("hijack", 0, ""), Op("ret", 500, "") >>
      [] id = "hijackpanic"  -> << Op("hijack", 0, ""), Op("panic", 0, "") >>
      [] id = "next"         -> << Op("next", 0, "") >>
Scripts == {"ret404", "reterr500", "reterr0", "ret301", "ret200", "write201", "writeret500", "panic", "abort",
            "writepanic", "hijack", "hijackret500", "hijackpanic"}
Contract(b) == b \notin {"writeret500", "writepanic"}     \* the handler keeps to "status >= 400 <=> nothing written"

\* ---- 3. the request heads ---------------------------------------------------------------------
Hd(l, sni, v, m, f, tp, th, hh) ==
    [lst |-> l, sni |-> sni, ver |-> v, m |-> m, form |-> f, tp |-> tp, th |-> th, hh |-> hh]
Doubles == {<<"a.test", "a.test">>, <<"a.test", "b.w.test">>, <<"b.w.test", "a.test">>}
HostHdrs == {<< >>} \cup {<<h>> : h \in OriginHosts} \cup Doubles
PlainHeads ==
    {Hd(l, "-", v, m, "origin", tp, "-", hh) :
        l \in {"P", "Q"}, v \in Versions, m \in Methods \cup {"CONNECT"}, tp \in OriginPaths, hh \in HostHdrs}
    \cup UNION {{Hd(l, "-", v, m, "absolute", tp, th, hh) :
        l \in {"P", "Q"}, v \in Versions, m \in Methods, tp \in AbsPaths,
        hh \in {<< >>, <<th>>, <<"other.test">>, <<"a.test">>, <<"a.test/base">>, <<"a.test", "a.test">>}} : th \in AbsHosts}
    \cup UNION {{Hd(l, "-", v, "CONNECT", "authority", "", th, hh) :
        l \in {"P", "Q"}, v \in Versions, hh \in {<< >>, <<th>>, <<"other.test">>}} : th \in PortHostIds}
    \cup {Hd(l, "-", v, m, "asterisk", "*", "-", hh) :
        l \in {"P", "Q"}, v \in Versions, m \in {"OPTIONS", "GET"},
        hh \in {<< >>, <<"a.test">>, <<"b.w.test">>, <<"other.test">>, <<"a.test", "a.test">>}}
TLSHeads ==
    {Hd("T", s, v, "GET", "origin", "/x", "-", <<h>>) : s \in SNIs, v \in {"1.1", "h2"}, h \in TLSHostIds}
    \cup {Hd("T", s, "1.1", "GET", "absolute", "/x", th, <<h>>) :
        s \in SNIs, th \in {"t1.test", "t2.test"}, h \in {"t1.test", "t2.test"}}
\* heads whose chain runs a script other than the default one (sites without an access log: there the
\* fallback and the recover of Server.ServeHTTP are what the client sees), and the scoped families
BehHeads ==
    {Hd(l, "-", v, m, "origin", "/x", "-", <<"a.test">>) : l \in {"P", "Q"}, v \in Versions, m \in {"GET", "HEAD", "POST"}}
    \cup {Hd(l, "-", "1.1", "GET", "origin", "/base/x", "-", <<"a.test">>) : l \in {"P", "Q"}}
    \cup {Hd("T", "t2.test", v, "GET", "origin", "/x", "-", <<"t2.test">>) : v \in {"1.1", "h2"}}
NextHeads ==
    {Hd(l, "-", "1.1", m, "origin", tp, "-", <<h>>) :
        l \in {"P", "Q"}, m \in {"GET", "HEAD"}, tp \in ScopedPaths, h \in {"a.test", "A.Test:99"}}
    \cup {Hd(l, "-", "1.1", "GET", "absolute", tp, "a.test", <<"other.test">>) : l \in {"P", "Q"}, tp \in ScopedPaths}

\* ---- 4. state -----------------------------------------------------------------------------------
VARIABLES
    req, beh,       \* the head on the wire and the script the chain will run (if it is reached)
    pc,
    rhost,          \* r.Host (a host token id)
    upath,          \* r.URL (path units)
    ctx,            \* context values set so far
    hostname,       \* serveHTTP's hostname (text id) and its labels
    key,            \* the lookup key handed to the trie: [h |-> host labels, p |-> path characters]
    site, prefix,   \* what vhosts.Match returned
    script,         \* operations the innermost handler still has to run
    ret,            \* (status, err) travelling back
    W,              \* the response writer: [sent, body, hij, srv, late, hdrSrv, marks]
    answers,        \* status lines put on the wire, in order (history variable)
    closeConn,      \* the connection is closed after this exchange
    plog,           \* lines of the process log
    alog,           \* line of the access log (sites with `log`)
    hist            \* history: which steps happened (chain reached, acme looked at, who answered)
vars == <<req, beh, pc, rhost, upath, ctx, hostname, key, site, prefix, script, ret, W, answers, closeConn, plog, alog, hist>>

WInit == [sent |-> 0, body |-> << >>, hij |-> FALSE, srv |-> FALSE, late |-> 0, hdrSrv |-> FALSE, marks |-> FALSE]
NoRet == [s |-> 0, e |-> FALSE]

\* net/http's response writer
Commit(w, s) == [w EXCEPT !.sent = s, !.srv = w.hdrSrv]
WH(w, s) == IF w.hij \/ w.sent # 0 THEN [w EXCEPT !.late = @ + 1]     \* "on hijacked connection" / "superfluous": logged, ignored
            ELSE Commit(w, s)
WR(w, t) == IF w.hij THEN [w EXCEPT !.late = @ + 1]                   \* ErrHijacked
            ELSE LET w1 == IF w.sent = 0 THEN Commit(w, 200) ELSE w IN [w1 EXCEPT !.body = Append(@, t)]
\* DefaultErrorFunc / WriteTextResponse
ErrText(w, s) == WR(WH(w, s), <<"E", s>>)

Init ==
    /\ \E h \in PlainHeads \cup TLSHeads \cup BehHeads \cup NextHeads :
          /\ req = h
          /\ beh \in (IF h \in NextHeads THEN {"next"} ELSE {})
                     \cup (IF h \in BehHeads THEN Scripts ELSE {})
                     \cup (IF h \in PlainHeads \cup TLSHeads \/ h \in BehHeads THEN {"default"} ELSE {})
    /\ pc = "read" /\ rhost = "" /\ upath = << >> /\ ctx = {} /\ hostname = [t |-> "", lb |-> <<"">>]
    /\ key = [h |-> <<"">>, p |-> << >>] /\ site = NoSite /\ prefix = << >> /\ script = << >> /\ ret = NoRet
    /\ W = WInit /\ answers = << >> /\ closeConn = FALSE /\ plog = << >> /\ alog = << >>
    /\ hist = [delivered |-> FALSE, chain |-> FALSE, acme |-> FALSE, by |-> "-", orig |-> << >>, seen |-> << >>, hijacked |-> FALSE,
               backend |-> << >>, file |-> "-"]

\* ---- 5. net/http before the handler -----------------------------------------------------------
HasTargetHost(h) == h.form \in {"absolute", "authority"}
\* RFC 7230 5.4 / 5.5: the authority the request names
Authority(h) == IF HasTargetHost(h) THEN h.th ELSE IF Len(h.hh) = 1 THEN h.hh[1] ELSE ""
Bad400(h) ==
    \/ Len(h.hh) > 1                                                    \* "too many Host headers"
    \/ h.ver = "1.1" /\ h.hh = << >> /\ h.m # "CONNECT"                   \* "missing required Host header"
    \/ Len(h.hh) = 1 /\ ~HT(h.hh[1]).ok                                 \* "malformed Host header"
GlobalOptions(h) == h.m = "OPTIONS" /\ h.form = "asterisk"
WantsClose(h) == h.ver = "1.0"        \* (the heads carry no Connection header)

NetRead ==
    /\ pc = "read"
    /\ IF Bad400(req)
         THEN /\ answers' = <<400>> /\ closeConn' = TRUE /\ pc' = "done"
              /\ hist' = [hist EXCEPT !.by = "net400"]
              /\ UNCHANGED <<rhost, upath>>
         ELSE IF GlobalOptions(req)
         THEN /\ answers' = <<200>> /\ closeConn' = WantsClose(req) /\ pc' = "done"
              /\ hist' = [hist EXCEPT !.by = "netoptions"]
              /\ UNCHANGED <<rhost, upath>>
         ELSE /\ rhost' = Authority(req)
              /\ upath' = PT(req.tp)
              /\ closeConn' = WantsClose(req)
              /\ hist' = [hist EXCEPT !.delivered = TRUE]
              /\ pc' = IF IsTLS(req.lst) THEN "mitm" ELSE "enter"
              /\ UNCHANGED answers
    /\ UNCHANGED <<req, beh, ctx, hostname, key, site, prefix, script, ret, W, plog, alog>>

\* ---- 6. mitm.go, server.go ------------------------------------------------------------------------
Step(from, to) == pc = from /\ pc' = to

Mitm ==         \* tlsHandler.ServeHTTP: the heads carry no User-Agent and none of the proxy marker headers: not checked
    /\ Step("mitm", "enter")
    /\ UNCHANGED <<req, beh, rhost, upath, ctx, hostname, key, site, prefix, script, ret, W, answers, closeConn, plog, alog, hist>>

Enter ==        \* defer func() { recover ... }(); ua := r.Header.Get("User-Agent")
    /\ Step("enter", "copyurl")
    /\ ctx' = ctx \cup {"recover"}
    /\ UNCHANGED <<req, beh, rhost, upath, hostname, key, site, prefix, script, ret, W, answers, closeConn, plog, alog, hist>>

CopyURL ==      \* urlCopy := *r.URL; context.WithValue(.., OriginalURLCtxKey, urlCopy)
    /\ Step("copyurl", "replacer")
    /\ ctx' = ctx \cup {"original_url"}
    /\ hist' = [hist EXCEPT !.orig = upath]
    /\ UNCHANGED <<req, beh, rhost, upath, hostname, key, site, prefix, script, ret, W, answers, closeConn, plog, alog>>

MakeReplacer == \* replacer := NewReplacer(r, nil, ""); context.WithValue(.., ReplacerCtxKey, replacer)
    /\ Step("replacer", "srvhdr")
    /\ ctx' = ctx \cup {"replacer"}
    /\ UNCHANGED <<req, beh, rhost, upath, hostname, key, site, prefix, script, ret, W, answers, closeConn, plog, alog, hist>>

SetServerHdr == \* w.Header().Set("Server", casket.AppName)
    /\ Step("srvhdr", "split")
    /\ W' = [W EXCEPT !.hdrSrv = TRUE]
    /\ UNCHANGED <<req, beh, rhost, upath, ctx, hostname, key, site, prefix, script, ret, answers, closeConn, plog, alog, hist>>

SplitHost ==    \* hostname, _, err := net.SplitHostPort(r.Host); if err != nil { hostname = r.Host }
    /\ Step("split", "match")
    /\ hostname' = [t |-> HT(rhost).np, lb |-> HT(rhost).lb]
    /\ UNCHANGED <<req, beh, rhost, upath, ctx, key, site, prefix, script, ret, W, answers, closeConn, plog, alog, hist>>

\* vhosts.Match(hostname + r.URL.Path): splitHostPath cuts the key at the first "/", lower-cases the
\* host part and strips brackets.  As found the path was appended as it is: the characters of a path
\* in front of its first "/" ("*" of the asterisk-form) became part of the host name.
FirstSlash(p) == IF \E i \in 1..Len(p) : p[i] = "/" THEN CHOOSE i \in 1..Len(p) : p[i] = "/" /\ \A j \in 1..(i - 1) : p[j] # "/"
                 ELSE Len(p) + 1
\* (the model cannot concatenate strings: the one junk text that occurs, "*", glued to the last labels that occur)
GlueStar(l) == CASE l = "test" -> "test*" [] l = "" -> "*" [] l = "1" -> "1*" [] l = "::1" -> "::1*"
Glue(lb, junk) == IF junk = << >> THEN lb ELSE [lb EXCEPT ![Len(lb)] = GlueStar(@)]
KeyOf(lb, p) ==
    IF FIX_KEY
      THEN [h |-> lb, p |-> IF p # << >> /\ p[1] = "/" THEN p ELSE <<"/">> \o p]
      ELSE LET i == FirstSlash(p) IN
           [h |-> Glue(lb, SubSeq(p, 1, i - 1)), p |-> IF i > Len(p) THEN <<"/">> ELSE SubSeq(p, i, Len(p))]

VHostMatch ==
    /\ pc = "match"
    /\ LET k == KeyOf(hostname.lb, Dec(upath))
           s == Lookup(req.lst, k.h, k.p)
       IN  /\ key' = k
           /\ site' = s
           /\ prefix' = s.p
           /\ pc' = IF s = NoSite THEN "nosite_acme" ELSE "acme"
    /\ ctx' = ctx \cup {"path_prefix"}
    /\ UNCHANGED <<req, beh, rhost, upath, hostname, script, ret, W, answers, closeConn, plog, alog, hist>>

\* certmagic.LooksLikeHTTPChallenge; no challenge is pending in this world, so the solver finds nothing
LooksLikeChallenge == req.m = "GET" /\ req.tp \in AcmePaths
AcmeNoSite ==   \* s.sites[0].TLS.Issuer.HandleHTTPChallenge(w, r)
    /\ Step("nosite_acme", "nosite_write")
    /\ hist' = [hist EXCEPT !.acme = LooksLikeChallenge]
    /\ UNCHANGED <<req, beh, rhost, upath, ctx, hostname, key, site, prefix, script, ret, W, answers, closeConn, plog, alog>>
WriteNoSite ==  \* WriteSiteNotFound: 404 (421 on HTTP/2) "Site <r.Host> is not served on this interface"
    /\ Step("nosite_write", "nosite_log")
    /\ W' = WR(WH(W, IF req.ver = "h2" THEN 421 ELSE 404), <<"NS", rhost>>)
    /\ hist' = [hist EXCEPT !.by = "nosite"]
    /\ UNCHANGED <<req, beh, rhost, upath, ctx, hostname, key, site, prefix, script, ret, answers, closeConn, plog, alog>>
LogNoSite ==    \* log.Printf("[INFO] %s - No such site at %s (Remote: %s, Referer: %s)", hostname, ...); return 0, nil
    /\ Step("nosite_log", "fallback")
    /\ plog' = Append(plog, [k |-> "nosite", host |-> hostname.t])
    /\ ret' = NoRet
    /\ UNCHANGED <<req, beh, rhost, upath, ctx, hostname, key, site, prefix, script, W, answers, closeConn, alog, hist>>

AcmeSite ==     \* vhost.TLS.Issuer.HandleHTTPChallenge(w, r)
    /\ Step("acme", "trim")
    /\ hist' = [hist EXCEPT !.acme = LooksLikeChallenge]
    /\ UNCHANGED <<req, beh, rhost, upath, ctx, hostname, key, site, prefix, script, ret, W, answers, closeConn, plog, alog>>

\* trimPathPrefix: strings.TrimPrefix(u.EscapedPath(), prefix), a leading "/" put back, the URL rebuilt
EscHasPrefix(us, pfx) == Len(us) >= Len(pfx) /\ \A i \in 1..Len(pfx) : ~us[i].e /\ us[i].c = pfx[i]
DecHasPrefix(us, pfx) == Len(us) >= Len(pfx) /\ \A i \in 1..Len(pfx) : us[i].c = pfx[i]
Rest(us, n) == SubSeq(us, n + 1, Len(us))
LeadSlash(us) == IF us # << >> /\ ~us[1].e /\ us[1].c = "/" THEN us ELSE <<U("/")>> \o us
Trim(us, pfx) ==
    IF EscHasPrefix(us, pfx) THEN LeadSlash(Rest(us, Len(pfx)))
    ELSE IF FIX_TRIM /\ DecHasPrefix(us, pfx) THEN LeadSlash(Rest(us, Len(pfx)))     \* one escape = one decoded character
    ELSE LeadSlash(us)                                                                 \* as found: nothing cut off
TrimPrefix ==
    /\ Step("trim", "sni")
    /\ upath' = IF prefix # <<"/">> THEN Trim(upath, prefix) ELSE upath
    /\ UNCHANGED <<req, beh, rhost, ctx, hostname, key, site, prefix, script, ret, W, answers, closeConn, plog, alog, hist>>

\* strict SNI / Host matching for sites with client authentication
SNIMismatch == /\ IsTLS(req.lst) /\ site.ca /\ ~site.nosni
               /\ SNILabels(req.sni) # hostname.lb                    \* strings.ToLower on both sides
StrictSNI ==
    /\ pc = "sni"
    /\ IF SNIMismatch
         THEN /\ plog' = Append(plog, [k |-> "strictsni", host |-> hostname.t])
              /\ ret' = [s |-> 403, e |-> FALSE]
              \* r.Close = true on the handler's copy of the request is not seen by net/http;
              \* repaired: the response carries Connection: close
              /\ closeConn' = (closeConn \/ FIX_SNICLOSE)
              /\ hist' = [hist EXCEPT !.by = "sni"]
              /\ pc' = "fallback"
              /\ UNCHANGED script
         ELSE /\ pc' = IF site.scoped THEN "rewrite" ELSE "chain"
              /\ script' = Script(beh)
              /\ hist' = [hist EXCEPT !.chain = TRUE, !.seen = upath]
              /\ UNCHANGED <<plog, ret, closeConn>>
    /\ UNCHANGED <<req, beh, rhost, upath, ctx, hostname, key, site, prefix, W, answers, alog>>

\* ---- 7. the site's chain ------------------------------------------------------------------------
\* (sites with `log` run only the default script; the recorder's line is written when the chain returns)
\* rewrite ^/r$ /f.txt   (a simple rule is a regular expression; this one is anchored: the path must be equal)
ChainRewrite ==
    /\ Step("rewrite", "proxy")
    /\ upath' = IF Dec(upath) = <<"/", "r">> THEN Us(<<"/", "f.txt">>) ELSE upath
    /\ UNCHANGED <<req, beh, rhost, ctx, hostname, key, site, prefix, script, ret, W, answers, closeConn, plog, alog, hist>>
\* proxy /api backend { without /api }   (httpserver.Path.Matches: prefix of the cleaned path)
API == <<"/", "a", "p", "i">>
ChainProxy ==
    /\ pc = "proxy"
    /\ IF DecHasPrefix(upath, API)
         THEN /\ W' = WR(W, <<"BACKEND">>)                 \* the backend's answer is relayed
              \* (`without`: strings.TrimPrefix, a leading slash put back)
              /\ hist' = [hist EXCEPT !.by = "proxy", !.backend = Dec(LeadSlash(Rest(upath, Len(API))))]
              /\ ret' = NoRet /\ pc' = "fallback"
         ELSE /\ pc' = "chain" /\ UNCHANGED <<W, hist, ret>>
    /\ UNCHANGED <<req, beh, rhost, upath, ctx, hostname, key, site, prefix, script, answers, closeConn, plog, alog>>

\* veriffront: the response header map gets the X-Site / X-Saw-* marks, then one operation per step
ChainOp ==
    /\ pc = "chain"
    /\ IF script = << >>
         THEN /\ ret' = NoRet /\ pc' = "chainret"
              /\ W' = [W EXCEPT !.marks = TRUE]
              /\ UNCHANGED <<script, hist>>
         ELSE LET op == script[1] w == [W EXCEPT !.marks = TRUE] IN
              /\ script' = Tail(script)
              /\ CASE op.k = "status" -> W' = WH(w, op.n) /\ UNCHANGED <<ret, pc, hist>>
                   [] op.k = "text"   -> W' = WR(w, <<op.t>>) /\ UNCHANGED <<ret, pc, hist>>
                   [] op.k = "flush"  -> W' = (IF w.sent = 0 /\ ~w.hij THEN Commit(w, 200) ELSE w) /\ UNCHANGED <<ret, pc, hist>>
                   [] op.k = "hijack" -> \* http.Hijacker.Hijack (HTTP/2 has none: 501), the handler's own 101, conn.Close()
                                         IF req.ver = "h2"
                                           THEN W' = w /\ ret' = [s |-> 501, e |-> TRUE] /\ pc' = "chainret" /\ UNCHANGED hist
                                           ELSE /\ W' = [w EXCEPT !.hij = TRUE, !.sent = 101, !.body = << <<"HIJACKED">> >>, !.srv = FALSE]
                                                /\ hist' = [hist EXCEPT !.hijacked = TRUE]
                                                /\ UNCHANGED <<ret, pc>>
                   [] op.k = "ret"    -> W' = w /\ ret' = [s |-> op.n, e |-> FALSE] /\ pc' = "chainret" /\ UNCHANGED hist
                   [] op.k = "reterr" -> W' = w /\ ret' = [s |-> op.n, e |-> TRUE] /\ pc' = "chainret" /\ UNCHANGED hist
                   [] op.k \in {"panic", "abort"} -> W' = w /\ pc' = "recover" /\ UNCHANGED <<ret, hist>>
                   [] op.k = "next"   -> W' = w /\ pc' = "static" /\ UNCHANGED <<ret, hist>>
    /\ UNCHANGED <<req, beh, rhost, upath, ctx, hostname, key, site, prefix, answers, closeConn, plog, alog>>

\* staticfiles.FileServer under the site's root (files f.txt and base/f.txt): 404 comes back unwritten
FileAt(p) == IF p = <<"/", "f.txt">> THEN "f.txt" ELSE IF p = BASE \o <<"/", "f.txt">> THEN "base/f.txt" ELSE "-"
ChainStatic ==
    /\ Step("static", "chainret")
    /\ LET f == FileAt(Dec(upath)) IN
       IF f = "-" THEN /\ ret' = [s |-> 404, e |-> FALSE] /\ UNCHANGED <<W, hist>>
       ELSE /\ W' = WR(W, <<"FILE", f>>) /\ ret' = NoRet /\ hist' = [hist EXCEPT !.file = f]
    /\ UNCHANGED <<req, beh, rhost, upath, ctx, hostname, key, site, prefix, script, answers, closeConn, plog, alog>>

\* the chain returns to serveHTTP; the log middleware (outermost of the chain) writes its line and,
\* for a status >= 400, the error text itself (log.go) - only the default script runs on such sites
ChainReturn ==
    /\ Step("chainret", "fallback")
    /\ hist' = [hist EXCEPT !.by = IF @ = "-" THEN "chain" ELSE @]
    /\ alog' = IF site.log THEN << [host |-> rhost, hostonly |-> hostname.t, path |-> Dec(hist.orig), rewritten |-> Dec(upath),
                                    status |-> IF W.sent = 0 THEN 200 ELSE W.sent] >> ELSE alog
    /\ UNCHANGED <<req, beh, rhost, upath, ctx, hostname, key, site, prefix, script, ret, W, answers, closeConn, plog>>

\* ---- 8. back in Server.ServeHTTP ---------------------------------------------------------------------
Fallback ==     \* status, _ := s.serveHTTP(w, r); if status >= 400 { DefaultErrorFunc(w, r, status) }
    /\ Step("fallback", "finish")
    /\ W' = IF ret.s >= 400 THEN ErrText(W, ret.s) ELSE W
    /\ UNCHANGED <<req, beh, rhost, upath, ctx, hostname, key, site, prefix, script, ret, answers, closeConn, plog, alog, hist>>

Recover ==      \* recover(): log.Printf("[PANIC] %v", rec); DefaultErrorFunc(w, r, 500)
    /\ Step("recover", "finish")
    /\ "recover" \in ctx
    /\ plog' = Append(plog, [k |-> "panic", host |-> hostname.t])
    /\ W' = ErrText(W, 500)
    /\ hist' = [hist EXCEPT !.by = "recover"]
    /\ UNCHANGED <<req, beh, rhost, upath, ctx, hostname, key, site, prefix, script, ret, answers, closeConn, alog>>

\* net/http: finishRequest sends an empty 200 if the handler committed nothing; a hijacked connection is the
\* handler's (it closed it)
NetFinish ==
    /\ Step("finish", "done")
    /\ LET w == IF W.sent = 0 /\ ~W.hij THEN Commit(W, 200) ELSE W IN
       /\ W' = w
       /\ answers' = Append(answers, w.sent)
    /\ closeConn' = (closeConn \/ W.hij)
    /\ UNCHANGED <<req, beh, rhost, upath, ctx, hostname, key, site, prefix, script, ret, plog, alog, hist>>

Done == pc = "done"
Next == \/ NetRead \/ Mitm \/ Enter \/ CopyURL \/ MakeReplacer \/ SetServerHdr \/ SplitHost \/ VHostMatch
        \/ AcmeNoSite \/ WriteNoSite \/ LogNoSite \/ AcmeSite \/ TrimPrefix \/ StrictSNI
        \/ ChainRewrite \/ ChainProxy \/ ChainOp \/ ChainStatic \/ ChainReturn
        \/ Fallback \/ Recover \/ NetFinish
        \/ (Done /\ UNCHANGED vars)
Spec == Init /\ [][Next]_vars /\ WF_vars(Next)

\* ---- 9. PROPERTIES ---------------------------------------------------------------------------------
TypeOK ==
    /\ pc \in {"read", "mitm", "enter", "copyurl", "replacer", "srvhdr", "split", "match", "nosite_acme", "nosite_write",
               "nosite_log", "acme", "trim", "sni", "rewrite", "proxy", "chain", "static", "chainret", "fallback", "recover",
               "finish", "done"}
    /\ ctx \subseteq {"recover", "original_url", "replacer", "path_prefix"}
    /\ site = NoSite \/ site \in SitesOf(req.lst)
    /\ Len(answers) <= 2 /\ W.late \in 0..4

\* every request read from the wire gets exactly one response (or, hijacked, what the handler wrote and a
\* closed connection), never two
ExactlyOneAnswer == /\ Len(answers) <= 1
                    /\ Done => Len(answers) = 1
                    /\ Done /\ hist.hijacked => closeConn
Completes == <>Done       \* a panic never leaves Server.ServeHTTP; no step blocks

\* RFC 7230 5.4: the site is chosen from the authority the request names - the host of an absolute-form or
\* authority-form target beats the Host header - with the path the target names ("/" in front of a target
\* that has none); r.Host, which the {host} placeholders and the access log show, is that authority
DeclPath(h) == LET p == Dec(PT(h.tp)) IN IF p # << >> /\ p[1] = "/" THEN p ELSE <<"/">> \o p
HostDecidesSite ==
    (Done /\ hist.delivered) =>
        /\ rhost = Authority(req)
        /\ site = Lookup(req.lst, HT(Authority(req)).lb, DeclPath(req))
        /\ \A i \in 1..Len(alog) : alog[i].host = Authority(req)
\* the host part of the lookup key is the sanitised host - port, letter case and brackets gone, nothing added
SanitisedHostEqualsMatchKey ==
    pc \notin {"read", "mitm", "enter", "copyurl", "replacer", "srvhdr", "split", "match"} /\ hist.delivered =>
        /\ key.h = HT(rhost).lb
        /\ hostname.lb = key.h
        /\ \A i \in 1..Len(plog) : plog[i].host = HT(rhost).np
\* DefaultErrorFunc's text is the body exactly when a handler that keeps the contract wrote nothing and
\* returned a status >= 400; a handler that wrote nothing and returned less gets net/http's empty 200
HandlerWrote == \E i \in 1..Len(W.body) : W.body[i][1] \notin {"E", "NS"}
FallbackBodyIffNothingWritten ==
    (Done /\ hist.chain /\ Contract(beh) /\ ~hist.hijacked) =>
        /\ (\E i \in 1..Len(W.body) : W.body[i][1] = "E") <=> (ret.s >= 400 \/ hist.by = "recover")
        /\ (ret.s >= 400 \/ hist.by = "recover") => (~HandlerWrote /\ W.body = << <<"E", IF hist.by = "recover" THEN 500 ELSE ret.s>> >>
                                                      /\ answers = <<IF hist.by = "recover" THEN 500 ELSE ret.s>>)
        /\ (ret.s < 400 /\ hist.by # "recover" /\ ~HandlerWrote) => (answers = <<200>> /\ W.body = << >>)
\* an unknown host: 404 (421 on HTTP/2), no site's chain ran, the text names the requested host only
NoSuchSiteIs404WithoutSiteLeak ==
    (Done /\ hist.delivered /\ site = NoSite) =>
        /\ answers = <<IF req.ver = "h2" THEN 421 ELSE 404>>
        /\ ~hist.chain /\ ~W.marks /\ hist.by = "nosite"
        /\ W.body = << <<"NS", rhost>> >>
        /\ plog = << [k |-> "nosite", host |-> hostname.t] >>
\* a site keyed host/base sees the request path with the base cut off - however the base was spelled -
\* and every directive of the chain (rewrite, proxy, the handler, the file server) works on that path;
\* the original URL stays available unchanged
DeclTrim(us, pfx) == IF pfx = <<"/">> THEN us ELSE LeadSlash(Rest(us, Len(pfx)))
ScopeTrimConsistent ==
    hist.chain =>
        /\ hist.seen = DeclTrim(PT(req.tp), site.p)
        /\ hist.orig = PT(req.tp)
        /\ {"original_url", "replacer", "path_prefix", "recover"} \subseteq ctx /\ prefix = site.p
\* after the handler hijacked the connection the client sees the handler's bytes only
HijackedMeansSilent ==
    hist.hijacked => (W.sent = 101 /\ W.body = << <<"HIJACKED">> >> /\ (Done => answers = <<101>>))
\* a site with client authentication is reached only under its own SNI (unless it opted out), and a
\* refused request ends the connection
StrictSNIHolds ==
    /\ (hist.chain /\ IsTLS(req.lst) /\ site.ca /\ ~site.nosni) => SNILabels(req.sni) = HT(Authority(req)).lb
    /\ (Done /\ hist.by = "sni") => (answers = <<403>> /\ closeConn /\ ~hist.chain)
\* every answer casket itself writes carries the Server header
ServerHeaderOnOwnAnswers == (Done /\ hist.delivered /\ ~hist.hijacked) => W.srv

\* ---- 10. case emission ------------------------------------------------------------------------------------
Expect == [by |-> hist.by, site |-> site.id, status |-> answers[1], body |-> W.body, closed |-> closeConn, srv |-> W.srv,
           marks |-> W.marks /\ ~hist.hijacked, rhost |-> rhost, hostname |-> hostname.t, seen |-> Dec(hist.seen), orig |-> Dec(hist.orig),
           hpath |-> Dec(upath), hijacked |-> hist.hijacked,
           prefix |-> prefix, chain |-> hist.chain, plog |-> plog, alog |-> alog, backend |-> hist.backend, file |-> hist.file,
           acme |-> hist.acme, late |-> W.late]
Emit == (EMIT /\ Done) => PrintT(<<"CASE", ToJson([req |-> req, script |-> beh, ops |-> Script(beh), exp |-> Expect])>>)
=============================================================================
