----------------------------- MODULE FcgiRoute -----------------------------
(***************************************************************************)
(* C13 - which requests the fastcgi middleware hands to the responder, and *)
(* how the path is split into SCRIPT_NAME / PATH_INFO.                     *)
(*                                                                         *)
(* Operational part: fastcgi.Handler.ServeHTTP for one rule, one action per*)
(* step of the loop body: Match (httpserver.Path.Matches on the rule path),*)
(* Trim (strings.TrimRight(fpath, " .")), Index (httpserver.IndexFile),    *)
(* Split (rule.canSplit / splitPos), Decide (!exists || trailing slash ||  *)
(* extension suffix in lower case), then buildEnv's split.  Paths are      *)
(* sequences of characters, so byte-prefix and letter-case effects exist.  *)
(* Declarative part: ExistingScriptNeverStatic and SplitAtSplitString as   *)
(* the statement words them.                                               *)
(* Deliberate limits: one rule; no `except`; split is empty or equal to the*)
(* extension; the file system is the fixed tree Files/Dirs (case-sensitive,*)
(* as on Linux) which the harness creates for real.                        *)
(***************************************************************************)
EXTENDS Integers, Sequences, FiniteSets, TLC, Json

\* ---- characters and strings ------------------------------------------------
Lower(c) == CASE c = "A" -> "a" [] c = "B" -> "b" [] c = "X" -> "x" [] c = "P" -> "p" [] c = "H" -> "h"
              [] c = "D" -> "d" [] c = "I" -> "i" [] OTHER -> c
LowerSeq(s) == [x \in 1..Len(s) |-> Lower(s[x])]
HasPrefix(s, p) == Len(p) <= Len(s) /\ SubSeq(s, 1, Len(p)) = p
HasSuffix(s, p) == Len(p) <= Len(s) /\ SubSeq(s, Len(s) - Len(p) + 1, Len(s)) = p
\* strings.Index + 1 (0 = not found; the empty needle is found at 1)
IndexOf(s, p) == LET hits == {x \in 1..(Len(s) - Len(p) + 1) : SubSeq(s, x, x + Len(p) - 1) = p}
                 IN  IF p = <<>> THEN 1 ELSE IF hits = {} THEN 0 ELSE CHOOSE x \in hits : \A y \in hits : x <= y
RECURSIVE TrimRightSpDot(_)
TrimRightSpDot(s) == IF s # <<>> /\ s[Len(s)] \in {" ", "."} THEN TrimRightSpDot(SubSeq(s, 1, Len(s) - 1)) ELSE s

\* ---- the site: files below the root ------------------------------------------
Php == <<".", "p", "h", "p">>
PHP == <<".", "P", "H", "P">>
Files == { <<"/","a","/","x">> \o Php, <<"/","a","/","X">> \o PHP, <<"/","a","/","x",".","t","x","t">>,
           <<"/","x">> \o Php, <<"/","a","b","/","x">> \o Php, <<"/","b","/","x">> \o Php,
           <<"/","a","/","d","/","i","n","d","e","x">> \o Php }
Dirs  == { <<"/">>, <<"/","a">>, <<"/","a","b">>, <<"/","b">>, <<"/","a","/","d">> }
\* os.Stat(root + p) succeeds
Exists(p) == p \in Files \/ p \in Dirs \/ (p # <<>> /\ p[Len(p)] = "/" /\ SubSeq(p, 1, Len(p) - 1) \in Dirs)

\* ---- configurations and requests ----------------------------------------------
RulePaths == { <<"/">>, <<"/","a">> }
\* the rule's ext as written: with the dot in either letter case, without the dot (a plain suffix),
\* or absent (the catch-all rule: every existing file under the path is a script)
Exts      == { Php, PHP, <<"p","h","p">>, <<>> }
IndexName == <<"i","n","d","e","x">> \o Php

Prefixes == { <<"/">>, <<"/","a","/">>, <<"/","A","/">>, <<"/","a","b","/">>, <<"/","b","/">> }
Names    == { <<"x">>, <<"X">>, <<"d">>, <<"n">> }
ExtForms == { Php, PHP, <<".","P","h","p">>, <<".","t","x","t">>, <<>> }
Trails   == { <<>>, <<" ">>, <<".">>, <<" ",".">>, <<"/">>, <<"/","i">>, <<"/","i">> \o Php, <<"/",".">> }
Requests == { p \o n \o e \o t : p \in Prefixes, n \in Names, e \in ExtForms, t \in Trails }

VARIABLES rpath, ext, split, hasIndex,     \* the (first) rule
          exc,                              \* its `except` path, relative to rpath (<<>> = none)
          second,                           \* TRUE: a second rule, for path /a, written after it (same ext / split, no index)
          req,                              \* r.URL.Path
          ri,                               \* the rule the loop of Handler.ServeHTTP is looking at (1 or 2)
          pc, fpath, result, script, info
vars == <<rpath, ext, split, hasIndex, exc, second, req, ri, pc, fpath, result, script, info>>
cfgvars == <<rpath, ext, split, hasIndex, exc, second, req>>

Init ==
    /\ rpath \in RulePaths /\ ext \in Exts /\ split \in {<<>>, ext} /\ hasIndex \in BOOLEAN
    /\ exc \in {<<>>, <<"/","a">>} /\ second \in BOOLEAN /\ (second => exc # <<>>)
    /\ req \in Requests /\ ri = 1
    /\ pc = "match" /\ fpath = <<>> /\ result = "none" /\ script = <<>> /\ info = <<>>

\* httpserver.Path.Matches(base): clean both sides, restore the trailing slash, compare in lower case
\* (path.Clean on the request forms generated here: a trailing "/." or "/" is dropped)
CleanReq(p) == IF Len(p) > 2 /\ HasSuffix(p, <<"/",".">>) THEN SubSeq(p, 1, Len(p) - 2)
               ELSE IF Len(p) > 1 /\ p[Len(p)] = "/" THEN SubSeq(p, 1, Len(p) - 1) ELSE p
PathMatches(p, base) ==
    IF base = <<"/">> \/ base = <<>> THEN TRUE
    ELSE LET c == CleanReq(p) \o (IF p[Len(p)] = "/" THEN <<"/">> ELSE <<>>)
         IN  HasPrefix(LowerSeq(c), LowerSeq(base))

\* the rule the loop looks at: the first one as configured; the second one (if any) is for /a, has the same
\* extension and split string, no index file and no except
RPath == IF ri = 1 THEN rpath ELSE <<"/","a">>
RExc  == IF ri = 1 THEN exc ELSE <<>>
RIdx  == ri = 1 /\ hasIndex
\* Rule.AllowedPath: the request path, cleaned, must not lie under path.Join(rule path, except)
JoinPath(a, b) == IF a = <<"/">> THEN b ELSE a \o b
Excepted == RExc # <<>> /\ HasPrefix(LowerSeq(CleanReq(req)), LowerSeq(JoinPath(RPath, RExc)))
\* `continue`: on to the next rule, or to the next handler when there is none
Continue == IF ri = 1 /\ second
              THEN ri' = 2 /\ pc' = "match" /\ fpath' = <<>> /\ UNCHANGED result
              ELSE pc' = "done" /\ result' = "next" /\ UNCHANGED <<ri, fpath>>

Match ==
    /\ pc = "match"
    /\ IF PathMatches(req, RPath) /\ ~Excepted
         THEN pc' = "trim" /\ UNCHANGED <<result, ri, fpath>>
         ELSE Continue
    /\ UNCHANGED <<cfgvars, script, info>>

Trim ==
    /\ pc = "trim"
    /\ fpath' = TrimRightSpDot(req)
    /\ pc' = "index"
    /\ UNCHANGED <<cfgvars, ri, result, script, info>>

\* httpserver.IndexFile: only for a path with a trailing slash; path.Join(fpath, index) must open
Index ==
    /\ pc = "index"
    /\ LET cand == fpath \o IndexName
           found == RIdx /\ fpath # <<>> /\ fpath[Len(fpath)] = "/" /\ cand \in Files
       IN  IF found
             THEN /\ fpath' = cand /\ UNCHANGED ri
                  /\ IF IndexOf(LowerSeq(cand), LowerSeq(split)) > 0
                       THEN pc' = "decide" /\ UNCHANGED result
                       ELSE pc' = "done" /\ result' = "err500"  \* ErrIndexMissingSplit
             ELSE IF IndexOf(LowerSeq(fpath), LowerSeq(split)) > 0
                    THEN pc' = "decide" /\ UNCHANGED <<result, ri, fpath>>
                    ELSE Continue                                  \* cannot split: continue
    /\ UNCHANGED <<cfgvars, script, info>>

Decide ==
    /\ pc = "decide"
    /\ IF ~Exists(fpath) \/ fpath[Len(fpath)] = "/" \/ HasSuffix(LowerSeq(fpath), LowerSeq(ext))
         THEN \* buildEnv: split at the first occurrence of the split string, letter case ignored
              LET sp == IndexOf(LowerSeq(fpath), LowerSeq(split)) - 1      \* splitPos
                  sn == SubSeq(fpath, 1, sp + Len(split))
              IN  /\ script' = IF sn = <<>> THEN <<"/">> ELSE sn        \* path.Join(site path prefix "/", scriptName)
                  /\ info' = SubSeq(fpath, sp + Len(split) + 1, Len(fpath))
                  /\ result' = "responder" /\ pc' = "done" /\ UNCHANGED <<ri, fpath>>
         ELSE \* the loop body ends without serving: on to the next rule
              /\ Continue /\ UNCHANGED <<script, info>>
    /\ UNCHANGED cfgvars

Next == Match \/ Trim \/ Index \/ Decide
Spec == Init /\ [][Next]_vars /\ WF_vars(Next)

\* ---- declarative property ---------------------------------------------------------
\* "under the rule's path": the rule path is a whole-segment prefix, letter case ignored
UnderRule == rpath = <<"/">> \/
             ( /\ HasPrefix(LowerSeq(req), LowerSeq(rpath))
               /\ (Len(req) = Len(rpath) \/ req[Len(rpath) + 1] = "/") )
\* "an existing file with the rule's extension (in any letter case)"
ExistingScript == req \in Files /\ HasSuffix(LowerSeq(req), LowerSeq(ext))
\* ... of some rule: under its path and not under its except
UnderPath(b) == b = <<"/">> \/ ( /\ HasPrefix(LowerSeq(req), LowerSeq(b))
                                /\ (Len(req) = Len(b) \/ req[Len(b) + 1] = "/") )
\* (the statement does not speak of `except`; an excepted path is one the operator took out of the rule, by
\* the prefix rule the documentation gives for it)
Excepted1 == exc # <<>> /\ HasPrefix(LowerSeq(CleanReq(req)), LowerSeq(JoinPath(rpath, exc)))
OwnedBy1 == UnderRule /\ ~Excepted1
OwnedBy2 == second /\ UnderPath(<<"/","a">>)
Owned == OwnedBy1 \/ OwnedBy2
ExistingScriptNeverStatic == (pc = "done" /\ Owned /\ ExistingScript) => result = "responder"
\* "script name and path info split at the configured split string"
SplitAtSplitString ==
    (pc = "done" /\ result = "responder" /\ split # <<>>) =>
        /\ script \o info = fpath
        /\ HasSuffix(LowerSeq(script), LowerSeq(split))
        /\ IndexOf(LowerSeq(script), LowerSeq(split)) = Len(script) - Len(split) + 1   \* the first occurrence
\* no split string configured: everything is path info (SCRIPT_NAME is then the site's path prefix;
\* the statement does not decide it, the harness reports a difference as model drift only)
NoSplitAllInfo == (pc = "done" /\ result = "responder" /\ split = <<>>) => info = fpath
Terminates == <>(pc = "done")

\* ---- emission: one CASE per (rule, request) at the end of its behaviour ---------------
Emit == pc = "done" =>
    PrintT(<<"CASE", ToJson([rpath |-> rpath, ext |-> ext, split |-> split, index |-> hasIndex, exc |-> exc, second |-> second, req |-> req,
                             result |-> result, fpath |-> fpath, script |-> script, info |-> info,
                             under |-> Owned, existing |-> ExistingScript])>>)
=============================================================================
