CONSTANTS MaxOps = 2
 MaxLive = 2
 CfgNames = {"none", "sn", "mix"}
 MaxSigs = 2
 EarlyRestart = FALSE
SPECIFICATION Spec
INVARIANTS TypeOK EachHookOncePerEmission FailedLoadKeepsRegistry RegistryExplained Usr1LeavesOnlyNew LoadAddsOwnHooks InstanceStartupExact RestartEventReachesNobody ShutdownAtMostOnce StartupOnce CertRenewOnlyForRenewal BlockingWaits
PROPERTIES EmissionComplete EmissionEnds EventuallyExits
CHECK_DEADLOCK FALSE
