--------------------------- MODULE HelloConnTrace ---------------------------
(***************************************************************************)
(* C19 - validation of read-by-read traces of the REAL clientHelloConn     *)
(* (created as tlsHelloListener.Accept creates it) over a chunking         *)
(* net.Conn.  One event per Read call, logged by the harness:              *)
(*   {"ev":"case","n":N,"m":M}              real byte counts of this run    *)
(*   {"ev":"read","k":K,"buf":B,"done":D,"rec":R}   after the call: bytes   *)
(*        delivered by it, c.buf.Len(), c.readHello, and what helloInfos    *)
(*        holds: "none" | "match" (= parse of exactly the hello) | "differs"*)
(*   {"ev":"end"}                                                          *)
(* The statement decides only what is recorded, so buffered / readHello are*)
(* taken from the log (the harness compares them with the step table of    *)
(* HelloConn.tla and reports differences as model drift) and the verdict is*)
(* the declarative part: NeverSkewed in every state, and at the end of a   *)
(* connection SegmentationIndependent.                                     *)
(***************************************************************************)
EXTENDS HelloConn

VARIABLES l, ended
Trace == ndJsonDeserialize("trace.ndjson")

TInit ==
    /\ n = 0 /\ m = 0 /\ hist = <<>> /\ delivered = 0 /\ buffered = 0 /\ consumed = 0
    /\ readHello = FALSE /\ recorded = <<>>
    /\ l = 1 /\ ended = FALSE

IsEvent(e) == l <= Len(Trace) /\ Trace[l].ev = e /\ l' = l + 1

RecOf(r, nn) == IF r = "match" THEN <<5, nn>> ELSE IF r = "none" THEN <<>> ELSE <<0, 0 - 1>>

TCase ==
    /\ IsEvent("case")
    /\ n' = Trace[l].n /\ m' = Trace[l].m
    /\ hist' = <<>> /\ delivered' = 0 /\ buffered' = 0 /\ consumed' = 0
    /\ readHello' = FALSE /\ recorded' = <<>> /\ ended' = FALSE

TRead ==
    /\ IsEvent("read")
    /\ ~ended
    /\ delivered' = delivered + Trace[l].k
    /\ hist' = Append(hist, Trace[l].k)
    /\ buffered' = Trace[l].buf
    /\ readHello' = Trace[l].done
    /\ recorded' = RecOf(Trace[l].rec, n)
    /\ UNCHANGED <<n, m, consumed, ended>>

TEnd ==
    /\ IsEvent("end")
    /\ ended' = TRUE
    /\ UNCHANGED vars

TNext == TCase \/ TRead \/ TEnd
TSpec == TInit /\ [][TNext]_<<vars, l, ended>>

SegmentationIndependentAtEnd == ended => SegmentationIndependent

Constr == TLCSet(1, IF l > TLCGet(1) THEN l ELSE TLCGet(1))
Accepted == IF TLCGet(1) = Len(Trace) + 1 THEN TRUE
            ELSE Print(<<"REJECTED at event", TLCGet(1), Trace[TLCGet(1)]>>, FALSE)
ASSUME TLCSet(1, 0)
=============================================================================
