CONSTANT Tier = "quick"
SPECIFICATION Spec
INVARIANT ManagedIffQualifies
INVARIANT ManagedGetsHTTPS
INVARIANT TLSOnlyWhenAsked
INVARIANT PlainNeverTLS
INVARIANT RedirectExists
INVARIANT RedirectTarget
INVARIANT NoRedirectToHTTP
INVARIANT NoShadow
INVARIANT RedirectShape
INVARIANT EveryRequestRedirected
INVARIANT Emit
CHECK_DEADLOCK FALSE
