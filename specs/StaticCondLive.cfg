\* thorough tier only: the quick constants with the liveness property (every request is answered, the
\* three-step protocol ends) - liveness checking triples TLC's run time, so it has its own small job.
CONSTANT Repaired412 = TRUE
CONSTANT RepairedRange = TRUE
CONSTANT TagPerCoding = TRUE
CONSTANT Fams = {"C", "R", "X", "T"}
CONSTANT RelSet = {"same", "newer"}
CONSTANT UseCommon = TRUE
CONSTANT SiteNames = {"plain", "gzip"}
CONSTANT AENames = {"absent", "gzip", "br, gzip", "zstd", "gzip;q=0.5"}
CONSTANT AEXNames = {"br", "zstd", "gzip;q=0.5"}
CONSTANT Changes = {"none", "orig", "sel", "delsel", "addzst"}
CONSTANT Conds = {"none", "inm", "ims", "imsold", "im", "imbogus", "ius", "iusold"}
CONSTANT Rngs = {"none", "r2_11", "r5_", "rm7", "r0_0", "r10_999", "multi", "r999_"}
SPECIFICATION Spec
INVARIANT TypeOK
INVARIANT ValidatorPerRepresentation
INVARIANT ConditionalConsistent
INVARIANT DateConsistent
INVARIANT DateRangeSafe
INVARIANT PreconditionConsistent
INVARIANT RangeOfSelectedRepresentation
INVARIANT IfRangeSafe
INVARIANT HeadEqualsGet
INVARIANT LengthCorrect
INVARIANT VaryWhenNegotiated
INVARIANT TypeAndCoding
INVARIANT NoBodyWhenNotAllowed
INVARIANT FirstIsFull
CHECK_DEADLOCK FALSE
PROPERTY Terminates
PROPERTY WireFrozen
PROPERTY FilesChangeBetweenRequests
