CONSTANTS MaxArgs = 2
 Blocks = {"none", "empty", "respawn", "text", "typeonly", "bogustype", "buf8", "bufbad", "bufneg", "junk", "bin8", "junk2"}
 Seconds = {"none", "PC", "PQb"}
 FixBlock = TRUE
SPECIFICATION Spec
INVARIANTS TypeOK NoEmptyCommand DocumentedFormsAccepted Emit
CHECK_DEADLOCK FALSE
