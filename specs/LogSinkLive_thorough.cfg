CONSTANTS CfgNames = {"share", "raw"}
 OpTypes = {"start", "reload", "stop"}
 MaxOps = 2
 MaxWrites = 2
 MaxConc = 1
 CapUnit = 1
 GRACE = FALSE
 EAGER_RAW = FALSE
 REOPEN = TRUE
 SPLIT_WRITE = FALSE
SPECIFICATION FairSpec
INVARIANTS TypeOK
PROPERTIES OpsComplete MillCatchesUp
CHECK_DEADLOCK FALSE
