------------------------------ MODULE TLSGroup ------------------------------
(***************************************************************************)
(* C06 - TLS settings follow the SNI-matched site; no TLS/plaintext mixing. *)
(*                                                                         *)
(* One listener shared by a set of sites, each with a TLS profile.         *)
(* Operational part, one action per step the code takes:                   *)
(*   AssertStep     one iteration of caskettls.MakeTLSConfig: TLS/plaintext *)
(*                  mix with the previous site, compatibility with an      *)
(*                  earlier site of the same name, keying by host name     *)
(*   TryLocalIP / TryCandidate / TryCatchAll / AnyConfig                    *)
(*                  configGroup.getConfig: (no SNI: the local IP), exact,  *)
(*                  wildcards left to right, "", then any config           *)
(*   Negotiate      crypto/tls under the chosen tls.Config: version range  *)
(*                  and cipher list                                        *)
(*   SelectCert     certmagic GetCertificate: by SNI over the instance's   *)
(*                  certificate cache (exact, wildcards)                   *)
(*   ClientAuth     the chosen config's client-certificate policy          *)
(*   Route          vhostTrie.Match on the Host header (as in VHost.tla)   *)
(*   StrictSNI      Server.serveHTTP: a site with client authentication    *)
(*                  answers 403 unless SNI and Host agree                  *)
(* Declarative part: GovernedBySNISite, MinTLS12Default,                   *)
(* ClientAuthNotBypassed, MixRejected, SameNameSameSettings.               *)
(***************************************************************************)
EXTENDS Naturals, Sequences, FiniteSets, SequencesExt, TLC, Json, HostMatch

CONSTANTS K,            \* maximum number of sites on the listener
          Profs,        \* the TLS profiles sites may have (subset of AllProfiles)
          FullProduct   \* explore handshake x request dimensions jointly (TRUE) or factored (FALSE)

\* ---- alphabets -------------------------------------------------------------
A  == <<"a","b","c">>
W1 == <<"*","b","c">>
W2 == <<"*","*","c">>
BC == <<"b","c">>
CA == <<"">>                      \* catch-all site (":port"), manual certificate
IP == <<"127","0","0","1">>       \* the listener's own address
Hosts == {A, W1, W2, BC, CA, IP}

AllProfiles == {"default", "old", "new", "cipher", "require", "verify", "off"}
Profiles == Profs
ASSUME Profs \subseteq AllProfiles
\*  default : tls self_signed                      (TLS 1.2 - 1.3, default ciphers, no client certificates)
\*  old     : protocols tls1.0 tls1.1 + a CBC suite
\*  new     : protocols tls1.3
\*  cipher  : ciphers ECDHE-ECDSA-AES256-GCM-SHA384 ECDHE-ECDSA-AES128-CBC-SHA   (no protocols line: the CBC suite
\*            would work with TLS 1.0/1.1, so this profile makes the default minimum of TLS 1.2 observable)
\*  require : clients require    (any client certificate)
\*  verify  : clients <ca.pem>   (certificate must chain to the CA)
\*  off     : tls off            (plaintext)
TLSProfile(f) == f # "off"
WantsClientCert(f) == f \in {"require", "verify"}

VMin(f) == IF f = "old" THEN 10 ELSE IF f = "new" THEN 13 ELSE 12
VMax(f) == IF f = "old" THEN 11 ELSE 13
SiteCiphers(f) == IF f = "old" THEN {"cbc"} ELSE IF f = "cipher" THEN {"gcm256", "cbc"} ELSE {"gcm128", "gcm256"}

\* a site: host pattern, path ("/p" only below host A: the way to get two sites of one name), profile
Kinds == {[h |-> h, p |-> "", prof |-> f] : h \in Hosts, f \in Profiles}
         \cup {[h |-> A, p |-> "/p", prof |-> f] : f \in Profiles}
WellFormed(S) == /\ \A s, t \in S : (s.h = t.h /\ s.p = t.p) => s = t
                 /\ \E s \in S : TLSProfile(s.prof)          \* an all-plaintext listener has no handshakes
SmallSubsets == {{a} : a \in Kinds}
                \cup (IF K >= 2 THEN {{a, b} : a \in Kinds, b \in Kinds} ELSE {})
                \cup (IF K >= 3 THEN {{a, b, c} : a \in Kinds, b \in Kinds, c \in Kinds} ELSE {})

\* the probe: ClientHello (SNI, offered versions / ciphers, client certificate) and the request after it
NoSNI == <<"">>
SNIs == << A, <<"x","b","c">>, <<"q","a","b","c">>, BC, <<"x","y","c">>, <<"z","y","x">>, NoSNI >>
Offers == << "old", "12", "12b", "13", "all" >>
\*  old: TLS 1.0-1.1   12: TLS 1.2 only   12b: TLS 1.2 offering only AES128-GCM   13: TLS 1.3 only   all: 1.0-1.3
OMin(o) == IF o \in {"old", "all"} THEN 10 ELSE IF o = "13" THEN 13 ELSE 12
OMax(o) == IF o = "old" THEN 11 ELSE IF o \in {"12", "12b"} THEN 12 ELSE 13
OfferCiphers(o) == IF o = "12b" THEN {"gcm128"} ELSE {"gcm128", "gcm256", "cbc"}
CCerts == << "none", "good", "other" >>     \* none / signed by the CA / self-signed stranger
ReqHosts == << A, <<"x","b","c">>, BC, <<"x","y","c">>, <<"z","y","x">>, IP >>
ReqPaths == << "/", "/p/x" >>

\* names in the instance's certificate cache: every self-signed site contributes its host name,
\* the catch-all's manual certificate is made out to the two strangers
StrangerNames == { <<"z","y","x">>, <<"q","a","b","c">> }

VARIABLES sites,        \* sequence of sites in declaration order
          si, oi, ci, hi, pi,   \* the probe (indices into SNIs, Offers, CCerts, ReqHosts, ReqPaths)
          pc, k,
          cmap,         \* configGroup: host name -> index of the site whose Config is stored under it
          err,          \* "" | "mix" | "incompatible"
          gov,          \* index of the site whose Config governs the handshake (0 = none yet)
          hs,           \* handshake result
          served        \* HTTP result
vars == <<sites, si, oi, ci, hi, pi, pc, k, cmap, err, gov, hs, served>>

NoHS == [ok |-> FALSE, ver |-> 0, cipher |-> "", asked |-> FALSE, cert |-> NoHost]
NoServed == [kind |-> "none", site |-> 0]
NoMap == [x \in {} |-> 0]

sni == SNIs[si]
offer == Offers[oi]
ccert == CCerts[ci]

ProbeOK(s, o, c, h, p) == FullProduct \/ (h = 1 /\ p = 1) \/ (Offers[o] = "all" /\ CCerts[c] = "good")

Init ==
    /\ \E S \in {T \in SmallSubsets : WellFormed(T)} : sites = SetToSeq(S)
    /\ si \in 1..Len(SNIs) /\ oi \in 1..Len(Offers) /\ ci \in 1..Len(CCerts)
    /\ hi \in 1..Len(ReqHosts) /\ pi \in 1..Len(ReqPaths)
    /\ ProbeOK(si, oi, ci, hi, pi)
    /\ pc = "assert" /\ k = 1 /\ cmap = NoMap /\ err = "" /\ gov = 0 /\ hs = NoHS /\ served = NoServed

\* ---- MakeTLSConfig, one site per step ----------------------------------------
Compatible(f, g) == f = g       \* every two profiles of the alphabet differ in a compared setting
AssertStep ==
    /\ pc = "assert"
    /\ IF k > Len(sites)
         THEN /\ pc' = "lookup" /\ k' = 1 /\ UNCHANGED <<cmap, err>>
         ELSE LET s == sites[k] IN
              IF k > 1 /\ TLSProfile(s.prof) # TLSProfile(sites[k-1].prof)
                THEN /\ err' = "mix" /\ pc' = "rejected" /\ UNCHANGED <<cmap, k>>
              ELSE IF s.h \in DOMAIN cmap /\ ~Compatible(s.prof, sites[cmap[s.h]].prof)
                THEN /\ err' = "incompatible" /\ pc' = "rejected" /\ UNCHANGED <<cmap, k>>
              ELSE /\ cmap' = [x \in (DOMAIN cmap) \cup {s.h} |-> IF x = s.h THEN k ELSE cmap[x]]
                   /\ k' = k + 1 /\ UNCHANGED <<pc, err>>
    /\ UNCHANGED <<sites, si, oi, ci, hi, pi, gov, hs, served>>

\* ---- getConfig ------------------------------------------------------------------
Found(i) == /\ gov' = i /\ pc' = "negotiate" /\ UNCHANGED k
\* no SNI: prefer the config named after the local address
TryLocalIP ==
    /\ pc = "lookup" /\ k = 1 /\ sni = NoSNI /\ IP \in DOMAIN cmap
    /\ Found(cmap[IP])
    /\ UNCHANGED <<sites, si, oi, ci, hi, pi, cmap, err, hs, served>>
\* exact name, then one more leading label starred per iteration
TryCandidate ==
    /\ pc = "lookup" /\ k <= Len(sni) + 1
    /\ ~(k = 1 /\ sni = NoSNI /\ IP \in DOMAIN cmap)
    /\ IF Candidates(sni)[k] \in DOMAIN cmap
         THEN Found(cmap[Candidates(sni)[k]])
         ELSE k' = k + 1 /\ UNCHANGED <<gov, pc>>
    /\ UNCHANGED <<sites, si, oi, ci, hi, pi, cmap, err, hs, served>>
TryCatchAll ==
    /\ pc = "lookup" /\ k > Len(sni) + 1 /\ CA \in DOMAIN cmap
    /\ Found(cmap[CA])
    /\ UNCHANGED <<sites, si, oi, ci, hi, pi, cmap, err, hs, served>>
\* "failover with a random config" (map iteration order)
AnyConfig ==
    /\ pc = "lookup" /\ k > Len(sni) + 1 /\ CA \notin DOMAIN cmap
    /\ \E x \in DOMAIN cmap : Found(cmap[x])
    /\ UNCHANGED <<sites, si, oi, ci, hi, pi, cmap, err, hs, served>>

\* ---- the handshake under the governing Config -----------------------------------
MaxN(a, b) == IF a >= b THEN a ELSE b
MinN(a, b) == IF a <= b THEN a ELSE b
Prefer(C) == IF "gcm128" \in C THEN "gcm128" ELSE IF "gcm256" \in C THEN "gcm256" ELSE "cbc"
NegVersion(f, o) == MinN(VMax(f), OMax(o))
VersionOK(f, o) == MaxN(VMin(f), OMin(o)) <= MinN(VMax(f), OMax(o))
Usable(f, o, v) == IF v >= 13 THEN {"tls13"}
                   ELSE (SiteCiphers(f) \cap OfferCiphers(o)) \cap (IF v < 12 THEN {"cbc"} ELSE {"gcm128", "gcm256", "cbc"})
Fail == /\ hs' = [hs EXCEPT !.ok = FALSE] /\ pc' = "done"
Negotiate ==
    /\ pc = "negotiate"
    /\ LET f == sites[gov].prof IN
       IF ~VersionOK(f, offer) \/ Usable(f, offer, NegVersion(f, offer)) = {}
         THEN Fail
         ELSE /\ hs' = [hs EXCEPT !.ver = NegVersion(f, offer),
                                  !.cipher = IF NegVersion(f, offer) >= 13 THEN "tls13" ELSE Prefer(Usable(f, offer, NegVersion(f, offer)))]
              /\ pc' = "cert"
    /\ UNCHANGED <<sites, si, oi, ci, hi, pi, k, cmap, err, gov, served>>

CertNames == {sites[i].h : i \in {j \in 1..Len(sites) : sites[j].h # CA /\ TLSProfile(sites[j].prof)}}
             \cup (IF \E i \in 1..Len(sites) : sites[i].h = CA THEN StrangerNames ELSE {})
CertFor(n) == IF n = NoSNI THEN (IF IP \in CertNames THEN IP ELSE NoHost) ELSE MostSpecific(CertNames, n)
SelectCert ==
    /\ pc = "cert"
    /\ IF CertFor(sni) = NoHost THEN Fail
       ELSE hs' = [hs EXCEPT !.cert = CertFor(sni)] /\ pc' = "clientauth"
    /\ UNCHANGED <<sites, si, oi, ci, hi, pi, k, cmap, err, gov, served>>

Accepts(f, c) == IF f = "require" THEN c # "none" ELSE IF f = "verify" THEN c = "good" ELSE TRUE
ClientAuth ==
    /\ pc = "clientauth"
    /\ LET f == sites[gov].prof IN
       IF Accepts(f, ccert)
         THEN hs' = [hs EXCEPT !.ok = TRUE, !.asked = WantsClientCert(f)] /\ pc' = "route"
         ELSE hs' = [hs EXCEPT !.ok = FALSE, !.asked = WantsClientCert(f)] /\ pc' = "done"
    /\ UNCHANGED <<sites, si, oi, ci, hi, pi, k, cmap, err, gov, served>>

\* ---- the request on the established connection -----------------------------------
SiteHosts == {sites[i].h : i \in 1..Len(sites)}
RouteHost(h) == LET m == MostSpecific(SiteHosts, h) IN
                IF m # NoHost THEN m ELSE IF CA \in SiteHosts THEN CA ELSE NoHost
PathMatches(p, rp) == p = "" \/ rp = "/p/x"
RouteSite(h, rp) ==
    LET bh == RouteHost(h)
        C == {i \in 1..Len(sites) : sites[i].h = bh /\ PathMatches(sites[i].p, rp)}
    IN  IF bh = NoHost \/ C = {} THEN 0
        ELSE IF \E i \in C : sites[i].p = "/p" THEN CHOOSE i \in C : sites[i].p = "/p" ELSE CHOOSE i \in C : TRUE
Route ==
    /\ pc = "route"
    /\ LET i == RouteSite(ReqHosts[hi], ReqPaths[pi]) IN
       IF i = 0 THEN served' = [kind |-> "nosite", site |-> 0] /\ pc' = "done"
       ELSE served' = [kind |-> "routed", site |-> i] /\ pc' = "strict"
    /\ UNCHANGED <<sites, si, oi, ci, hi, pi, k, cmap, err, gov, hs>>
StrictSNI ==
    /\ pc = "strict"
    /\ served' = IF WantsClientCert(sites[served.site].prof) /\ sni # ReqHosts[hi]
                   THEN [served EXCEPT !.kind = "forbidden"] ELSE [served EXCEPT !.kind = "site"]
    /\ pc' = "done"
    /\ UNCHANGED <<sites, si, oi, ci, hi, pi, k, cmap, err, gov, hs>>

Next == AssertStep \/ TryLocalIP \/ TryCandidate \/ TryCatchAll \/ AnyConfig \/ Negotiate \/ SelectCert \/ ClientAuth
        \/ Route \/ StrictSNI
Spec == Init /\ [][Next]_vars /\ WF_vars(Next)

\* =============================== the property =========================================
SiteSet == {sites[i] : i \in 1..Len(sites)}
TLSHosts == {s.h : s \in SiteSet}
\* the host name that most specifically matches the SNI: exact, then wildcard, then catch-all
\* (without SNI: the listener's own address if a site is named after it)
Governing(n) == IF n = NoSNI /\ IP \in TLSHosts THEN IP
                ELSE IF MostSpecific(TLSHosts, n) # NoHost THEN MostSpecific(TLSHosts, n)
                ELSE IF CA \in TLSHosts THEN CA ELSE NoHost
ProfilesOf(h) == {s.prof : s \in {t \in SiteSet : t.h = h}}

Mixed == \E s, t \in SiteSet : TLSProfile(s.prof) # TLSProfile(t.prof)
Ambiguous == \E s, t \in SiteSet : s.h = t.h /\ s.prof # t.prof

\* a listener with TLS and plaintext sites, or with two different settings under one name, does not start
MixRejected == (pc \notin {"assert"}) => ((err = "mix") => Mixed) /\ (Mixed => err # "")
SameNameSameSettings == (pc \notin {"assert"}) => ((err # "") <=> (Mixed \/ Ambiguous))
RejectedStops == (err # "") => (pc = "rejected" /\ gov = 0 /\ ~hs.ok)

Past(P) == pc \in P
\* the settings used are those of the most specifically matching site (when there is one)
GovernedBySNISite ==
    (gov # 0 /\ Governing(sni) # NoHost) => ProfilesOf(Governing(sni)) = {sites[gov].prof}
\* ... and every observable of the handshake follows from them
HandshakeFollowsProfile ==
    (pc \in {"route", "strict", "done"} /\ hs.ok) =>
        LET f == sites[gov].prof IN
        /\ hs.ver >= VMin(f) /\ hs.ver <= VMax(f) /\ hs.ver >= OMin(offer) /\ hs.ver <= OMax(offer)
        /\ (hs.ver < 13 => hs.cipher \in SiteCiphers(f) \cap OfferCiphers(offer))
        /\ hs.asked = WantsClientCert(f)
        /\ Accepts(f, ccert)
        /\ hs.cert # NoHost /\ Matches(hs.cert, IF sni = NoSNI THEN IP ELSE sni)
\* the certificate is the one of the governing site whenever that site has a name
CertOfGoverningSite ==
    (pc \in {"route", "strict", "done"} /\ hs.ok /\ Governing(sni) \notin {NoHost, CA}) => hs.cert = Governing(sni)
\* TLS 1.2 is the minimum unless the site configures otherwise
MinTLS12Default ==
    (hs.ok /\ Governing(sni) # NoHost /\ "old" \notin ProfilesOf(Governing(sni))) => hs.ver >= 12
\* a site that demands client certificates never serves a request of a handshake made under another name
ClientAuthNotBypassed ==
    (served.kind = "site" /\ WantsClientCert(sites[served.site].prof)) =>
        /\ sni = ReqHosts[hi]
        /\ sites[gov].prof = sites[served.site].prof
        /\ Accepts(sites[served.site].prof, ccert)
Terminates == <>(pc \in {"done", "rejected"})

\* =============================== case emission ===========================================
\* INIT InitEmit / NEXT Grow: one CASE per site sequence with the full tables, computed by
\* running the same step operators to completion.
GovOf(S, n) ==   \* index into S of the governing site; 0 = none (any config may be used)
    LET hosts == {S[i].h : i \in 1..Len(S)}
        g == IF n = NoSNI /\ IP \in hosts THEN IP
             ELSE IF MostSpecific(hosts, n) # NoHost THEN MostSpecific(hosts, n)
             ELSE IF CA \in hosts THEN CA ELSE NoHost
    IN  IF g = NoHost THEN 0 ELSE CHOOSE i \in 1..Len(S) : S[i].h = g /\ \A j \in 1..Len(S) : S[j].h = g => j <= i
CertNamesOf(S) == {S[i].h : i \in {j \in 1..Len(S) : S[j].h # CA}} \cup (IF \E i \in 1..Len(S) : S[i].h = CA THEN StrangerNames ELSE {})
CertOf(S, n) == IF n = NoSNI THEN (IF IP \in CertNamesOf(S) THEN IP ELSE NoHost) ELSE MostSpecific(CertNamesOf(S), n)
\* <<ok, version, cipher, client certificate requested, certificate name>> under profile f
HSUnder(S, f, n, o, c) ==
    IF ~VersionOK(f, o) \/ Usable(f, o, NegVersion(f, o)) = {} \/ CertOf(S, n) = NoHost \/ ~Accepts(f, c)
      THEN <<FALSE, 0, "", FALSE, NoHost>>
      ELSE <<TRUE, NegVersion(f, o), IF NegVersion(f, o) >= 13 THEN "tls13" ELSE Prefer(Usable(f, o, NegVersion(f, o))),
             WantsClientCert(f), CertOf(S, n)>>
\* the set of admissible handshake results: one when a site governs, one per site otherwise
HSSet(S, n, o, c) == IF GovOf(S, n) # 0 THEN {HSUnder(S, S[GovOf(S, n)].prof, n, o, c)}
                     ELSE {HSUnder(S, S[i].prof, n, o, c) : i \in 1..Len(S)}
RouteOf(S, h, rp) ==
    LET hosts == {S[i].h : i \in 1..Len(S)}
        m == MostSpecific(hosts, h)
        bh == IF m # NoHost THEN m ELSE IF CA \in hosts THEN CA ELSE NoHost
        C == {i \in 1..Len(S) : S[i].h = bh /\ PathMatches(S[i].p, rp)}
    IN  IF bh = NoHost \/ C = {} THEN 0
        ELSE IF \E i \in C : S[i].p = "/p" THEN CHOOSE i \in C : S[i].p = "/p" ELSE CHOOSE i \in C : TRUE
\* <<kind, site>> of a request with Host h after a handshake with SNI n
HTTPOf(S, n, h, rp) ==
    LET i == RouteOf(S, h, rp) IN
    IF i = 0 THEN <<"nosite", 0>>
    ELSE IF WantsClientCert(S[i].prof) /\ n # h THEN <<"forbidden", i>> ELSE <<"site", i>>
ErrOf(S) ==
    LET bad(i) == \/ (i > 1 /\ TLSProfile(S[i].prof) # TLSProfile(S[i-1].prof))
                  \/ \E j \in 1..(i-1) : S[j].h = S[i].h /\ S[j].prof # S[i].prof
        B == {i \in 1..Len(S) : bad(i)}
    IN  IF B = {} THEN ""
        ELSE LET i == CHOOSE x \in B : \A y \in B : x <= y IN
             IF i > 1 /\ TLSProfile(S[i].prof) # TLSProfile(S[i-1].prof) THEN "mix" ELSE "incompatible"

InitEmit ==
    /\ \E a \in Kinds : sites = <<a>>
    /\ si = 1 /\ oi = 1 /\ ci = 1 /\ hi = 1 /\ pi = 1 /\ pc = "emit0" /\ k = 1 /\ cmap = NoMap /\ err = ""
    /\ gov = 0 /\ hs = NoHS /\ served = NoServed
Grow ==
    /\ pc = "emit0" /\ K >= 2
    /\ \E T \in ({{a} : a \in Kinds} \cup (IF K >= 3 THEN {{a, b} : a \in Kinds, b \in Kinds} ELSE {})) :
          /\ sites[1] \notin T
          /\ \A t \in T : \A u \in T \cup {sites[1]} : (t.h = u.h /\ t.p = u.p) => t = u
          \* the first site is the smallest of the set in the order of SetToSeq: every set is printed once
          /\ SetToSeq(T \cup {sites[1]})[1] = sites[1]
          /\ sites' = SetToSeq(T \cup {sites[1]})
    /\ pc' = "emit"
    /\ UNCHANGED <<si, oi, ci, hi, pi, k, cmap, err, gov, hs, served>>
EmitOK(S) == \E i \in 1..Len(S) : TLSProfile(S[i].prof)
\* the handshake table is printed as indices into the list of its distinct entries
HSDistinct(S) == SetToSeq({HSSet(S, SNIs[i], Offers[o], CCerts[c]) : i \in 1..Len(SNIs), o \in 1..Len(Offers), c \in 1..Len(CCerts)})
IndexOf(seq, x) == CHOOSE j \in 1..Len(seq) : seq[j] = x
Emit == (pc \in {"emit0", "emit"} /\ EmitOK(sites)) =>
    LET e == ErrOf(sites)
        outs == IF e # "" THEN <<>> ELSE HSDistinct(sites)
    IN PrintT(<<"CASE", ToJson(
        [sites |-> sites, err |-> e, snis |-> SNIs, offers |-> Offers, ccerts |-> CCerts,
         hosts |-> ReqHosts, paths |-> ReqPaths,
         gov |-> [i \in 1..Len(SNIs) |-> GovOf(sites, SNIs[i])],
         outs |-> outs,
         hs  |-> IF e # "" THEN <<>> ELSE
                 [i \in 1..Len(SNIs) |-> [o \in 1..Len(Offers) |-> [c \in 1..Len(CCerts) |->
                     IndexOf(outs, HSSet(sites, SNIs[i], Offers[o], CCerts[c]))]]],
         http |-> IF e # "" THEN <<>> ELSE
                 [i \in 1..Len(SNIs) |-> [h \in 1..Len(ReqHosts) |-> [p \in 1..Len(ReqPaths) |->
                     HTTPOf(sites, SNIs[i], ReqHosts[h], ReqPaths[p])]]]])>>)
\* the tables printed are those of the stepwise model (checked on the model-checking cfg)
TablesAgree ==
    /\ (pc \notin {"assert", "emit0", "emit"}) => err = ErrOf(sites)
    /\ (pc = "done" /\ err = "") =>
          /\ <<hs.ok, IF hs.ok THEN hs.ver ELSE 0, IF hs.ok THEN hs.cipher ELSE "", IF hs.ok THEN hs.asked ELSE FALSE,
               IF hs.ok THEN hs.cert ELSE NoHost>> \in HSSet(sites, sni, offer, ccert)
          /\ hs.ok => <<served.kind, served.site>> = HTTPOf(sites, sni, ReqHosts[hi], ReqPaths[pi])
=============================================================================
