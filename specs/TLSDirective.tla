---------------------------- MODULE TLSDirective ----------------------------
(***************************************************************************)
(* From the tokens of the `tls` directive to the effective crypto/tls       *)
(* configuration of a site (extension of C06; TLSGroup.tla takes the        *)
(* per-site TLS profiles as given, this module says where they come from).  *)
(*                                                                         *)
(* Environment (the author of the Casketfile):                              *)
(*   WriteDirective, WriteLine     one more `tls` line / one more line of   *)
(*                                 its block; Load hands the file to casket *)
(* caskettls/setup.go setupTLS, one action per step:                        *)
(*   Enter          config.Enabled = true                                   *)
(*   NextDirective  for c.Next()                                            *)
(*   ReadArgs       switch len(args): off / self_signed / email / cert key  *)
(*   NextBlock      for c.NextBlock(): dispatch on the sub-directive        *)
(*   SubCA SubKeyType SubProtocols SubCiphersArg SubCurvesArg SubClients    *)
(*   SubSNI SubLoad SubMaxCerts SubAsk SubDNS SubALPN SubMustStaple         *)
(*   SubWildcard SubNoRedirect SubUnknown      the cases of the switch      *)
(*                  (ciphers / curves: one action per NextArg iteration)    *)
(*   CheckArgs      "tls requires at least one argument if no block"        *)
(*   OnDemand       max_certs / ask                                         *)
(*   LoadCerts      certificate + key files, `load` directory               *)
(*   SetDefaults    config.go SetDefaultTLSParams                           *)
(*   SelfSign       newSelfSignedCertificate, store in cfgMap               *)
(* caskethttp/httpserver (https.go, plugin.go, server.go):                  *)
(*   MarkManaged, EnableAuto   the pure stages of automatic HTTPS that touch *)
(*                  the TLS settings (defaults are applied a second time)   *)
(*   MakeServers    plaintext site or TLS site                              *)
(*   DefaultALPN    makeTLSConfig: h2 + http/1.1 unless `alpn` was given    *)
(* caskettls/config.go buildStandardTLSConfig (MakeTLSConfig, per config):  *)
(*   BuildLists     cipher suites and curves without duplicates             *)
(*   BuildACME      acme-tls/1 appended to the ALPN list                    *)
(*   BuildCopy      versions, client authentication, NextProtos             *)
(*   BuildCA        one iteration of the client-CA loop (file read, PEM)    *)
(*   BuildSCSV      TLS_FALLBACK_SCSV first                                 *)
(* crypto/tls under the built configuration (what a client can observe):    *)
(*   Negotiate      version, suite, curve, ALPN, client certificate         *)
(*                                                                         *)
(* Declarative part (whole-file readings of the tokens, written without     *)
(* reference to the steps): EffectiveEqualsWritten, RejectedIffInvalid,     *)
(* NeverWeakerThanDefaultUnlessAsked, OrderPreserved, HandshakeWithinConfig,*)
(* TLS13UnaffectedByCipherList.                                             *)
(*                                                                         *)
(* Deliberate deviations: a block line is consumed as a whole (the          *)
(* alphabets contain no line whose left-over tokens would be read as further *)
(* sub-directives); certificate management (ACME, OCSP, storage) is absent; *)
(* file contents are abstract (good / missing / not PEM).                   *)
(***************************************************************************)
EXTENDS Integers, Sequences, FiniteSets, TLC, Json

CONSTANTS Hosts,        \* site hosts: "ip" = 127.0.0.1 (never managed), "name" = sub.example.com (qualifies for managed TLS)
          Heads,        \* argument lists of a `tls` line
          Lines,        \* block lines (first token = sub-directive)
          Core,         \* the lines a longer file may consist of
          Heads2,       \* the argument forms of a longer file with two `tls` lines
          MaxDirs,      \* `tls` lines per site
          MaxLines,     \* block lines per site when there is one `tls` line (beyond two: core lines)
          MaxLines2,    \* block lines per site when there are two (beyond one: core lines, Heads2)
          NameLines,    \* block lines per site on the "name" host
          Repaired      \* self-signed Ed25519 certificates can be made (selfsigned.go as repaired)

\* ============================== the vocabulary ===================================
\* spelled token -> value (protocols lower-cased, ciphers / curves / key types upper-cased by the parser)
Proto == ("tls1.0" :> 10) @@ ("tls1.1" :> 11) @@ ("tls1.2" :> 12) @@ ("tls1.3" :> 13)
         @@ ("TLS1.1" :> 11) @@ ("TLS1.2" :> 12) @@ ("Tls1.3" :> 13)
Cipher == ("ECDHE-ECDSA-AES256-GCM-SHA384" :> "EA256G") @@ ("ECDHE-ECDSA-AES128-GCM-SHA256" :> "EA128G")
          @@ ("ecdhe-ecdsa-aes128-gcm-sha256" :> "EA128G") @@ ("ECDHE-ECDSA-AES128-CBC-SHA" :> "EA128C")
          @@ ("ECDHE-RSA-AES128-GCM-SHA256" :> "RA128G") @@ ("ECDHE-ECDSA-WITH-CHACHA20-POLY1305" :> "ECHA")
          @@ ("Ecdhe-Ecdsa-Aes256-Gcm-Sha384" :> "EA256G")
Curve == ("X25519" :> "X25519") @@ ("x25519" :> "X25519") @@ ("P256" :> "P256") @@ ("p256" :> "P256")
         @@ ("P384" :> "P384") @@ ("p384" :> "P384") @@ ("P521" :> "P521")
KeyType == ("p256" :> "P256") @@ ("P384" :> "P384") @@ ("p384" :> "P384") @@ ("ed25519" :> "ED25519") @@ ("RSA2048" :> "RSA2048")
SCSV == "SCSV"
DefaultCiphers == <<"EA256G", "RA256G", "EA128G", "RA128G", "ECHA", "RCHA">>   \* AES-NI order; the harness knows the other one
DefaultCurves == <<"X25519", "P256">>
DefaultALPNList == <<"h2", "http/1.1">>
ACME == "acme-tls/1"
ClientModes == ("request" :> "request") @@ ("require" :> "requireany") @@ ("verify_if_given" :> "verifyifgiven")
GoodCAs == {"CA1", "CA2"}                \* readable PEM files with a CA certificate; every other name is missing or not PEM
GoodPairs == {<<"CERT", "KEY">>}         \* a certificate file with its key; anything else cannot be loaded
GoodAsk == {"http://127.0.0.1:9/ask"}    \* every other `ask` argument is not an http(s) URL
DNSProviders == {"verifdns"}
Specials == {"off", "self_signed"}
Flags == {"insecure_disable_sni_matching", "must_staple", "no_redirect", "wildcard"}
Known == {"ca", "key_type", "protocols", "ciphers", "curves", "clients", "load", "max_certs", "ask", "dns", "alpn"} \cup Flags

\* ---- the alphabets the cfgs choose from ----------------------------------------------------
HeadsAll == { <<>>, <<"off">>, <<"self_signed">>, <<"EMAIL">>, <<"CERT", "KEY">>, <<"CERT", "NOFILE">>, <<"a", "b", "c">> }
HeadsQuick == HeadsAll \ { <<"a", "b", "c">> }
HeadsTwo == { <<>>, <<"self_signed">>, <<"CERT", "KEY">> }
ProtoLines == { <<"protocols", "tls1.2">>, <<"protocols", "tls1.0", "tls1.1">>, <<"protocols", "tls1.1", "tls1.3">>,
                <<"protocols", "TLS1.2", "Tls1.3">>, <<"protocols", "tls1.3", "tls1.2">>, <<"protocols", "ssl3.0">>,
                <<"protocols", "tls1.2", "tls1.4">>, <<"protocols">>, <<"protocols", "tls1.0">>, <<"protocols", "tls1.3">>,
                <<"protocols", "TLS1.1", "tls1.2", "tls1.3">> }
CipherLines == { <<"ciphers", "ECDHE-ECDSA-AES256-GCM-SHA384">>,
                 <<"ciphers", "ECDHE-ECDSA-AES128-CBC-SHA", "ECDHE-ECDSA-AES256-GCM-SHA384">>,
                 <<"ciphers", "ECDHE-ECDSA-AES256-GCM-SHA384", "ECDHE-ECDSA-AES128-CBC-SHA">>,
                 <<"ciphers", "ECDHE-ECDSA-AES128-GCM-SHA256", "Ecdhe-Ecdsa-Aes256-Gcm-Sha384", "ecdhe-ecdsa-aes128-gcm-sha256">>,
                 <<"ciphers", "ecdhe-ecdsa-aes128-gcm-sha256">>,
                 <<"ciphers", "ECDHE-ECDSA-WITH-CHACHA20-POLY1305", "ECDHE-ECDSA-AES128-GCM-SHA256">>,
                 <<"ciphers", "ECDHE-RSA-AES128-GCM-SHA256">>,
                 <<"ciphers", "BOGUS">>, <<"ciphers", "ECDHE-ECDSA-AES256-GCM-SHA384", "RC4-SHA">>,
                 <<"ciphers", "TLS_AES_128_GCM_SHA256">>, <<"ciphers">> }
CurveLines == { <<"curves", "p384">>, <<"curves", "X25519", "P256">>, <<"curves", "P256", "x25519">>,
                <<"curves", "P521", "P521", "p256">>, <<"curves", "secp256k1">>, <<"curves", "P256", "P224">>, <<"curves">> }
ClientLines == { <<"clients", "request">>, <<"clients", "require">>, <<"clients", "verify_if_given", "CA1">>,
                 <<"clients", "CA1">>, <<"clients", "CA1", "CA2">>, <<"clients", "CA2", "CA1", "CA2">>,
                 <<"clients", "require", "CA1">>, <<"clients", "request", "CA2">>, <<"clients", "verify_if_given">>,
                 <<"clients">>, <<"clients", "NOFILE">>, <<"clients", "REQUIRE">>, <<"clients", "CA1", "NOTPEM">>,
                 <<"clients", "verify_if_given", "NOFILE">> }
ALPNLines == { <<"alpn", "http/1.1">>, <<"alpn", "h2", "http/1.1">>, <<"alpn", "acme-tls/1", "http/1.1">>, <<"alpn", "foo">>,
               <<"alpn", "h2">>, <<"alpn">> }
KeyLines == { <<"key_type", "p384">>, <<"key_type", "ed25519">>, <<"key_type", "p256">>, <<"key_type", "bogus">>,
              <<"key_type">>, <<"key_type", "p256", "p384">> }
MiscLines == { <<"must_staple">>, <<"insecure_disable_sni_matching">>, <<"no_redirect">>, <<"wildcard">>,
               <<"ca", "https://ca.example.test/dir">>, <<"ca">>, <<"load", "DIR">>, <<"load">>, <<"max_certs", "5">>,
               <<"ask", "http://127.0.0.1:9/ask">>, <<"ask", "ftp://127.0.0.1/ask">>,
               <<"dns", "verifdns">>, <<"dns", "nosuchprovider">>, <<"dns">>, <<"bogus_subdirective">>, <<"protocol", "tls1.2">> }
LinesAll == ProtoLines \cup CipherLines \cup CurveLines \cup ClientLines \cup ALPNLines \cup KeyLines \cup MiscLines
LinesQuick == { <<"protocols", "tls1.2">>, <<"protocols", "tls1.0", "tls1.1">>, <<"protocols", "TLS1.2", "Tls1.3">>,
                <<"protocols", "tls1.3", "tls1.2">>, <<"protocols", "ssl3.0">>,
                <<"ciphers", "ECDHE-ECDSA-AES128-CBC-SHA", "ECDHE-ECDSA-AES256-GCM-SHA384">>,
                <<"ciphers", "ECDHE-ECDSA-AES128-GCM-SHA256", "Ecdhe-Ecdsa-Aes256-Gcm-Sha384", "ecdhe-ecdsa-aes128-gcm-sha256">>,
                <<"ciphers", "ECDHE-RSA-AES128-GCM-SHA256">>, <<"ciphers", "ECDHE-ECDSA-AES256-GCM-SHA384", "RC4-SHA">>,
                <<"curves", "p384">>, <<"curves", "P256", "x25519">>, <<"curves", "P521", "P521", "p256">>, <<"curves", "secp256k1">>,
                <<"clients", "request">>, <<"clients", "require">>, <<"clients", "verify_if_given", "CA1">>, <<"clients", "CA1">>,
                <<"clients", "CA2", "CA1", "CA2">>, <<"clients", "verify_if_given">>, <<"clients", "NOFILE">>,
                <<"alpn", "http/1.1">>, <<"alpn", "foo">>,
                <<"key_type", "p384">>, <<"key_type", "ed25519">>, <<"key_type", "bogus">>,
                <<"insecure_disable_sni_matching">>, <<"wildcard">>, <<"load", "DIR">>,
                <<"ask", "ftp://127.0.0.1/ask">>, <<"max_certs", "5">>, <<"bogus_subdirective">> }
CoreAll == { <<"protocols", "tls1.0", "tls1.1">>, <<"protocols", "tls1.3">>, <<"protocols", "tls1.3", "tls1.2">>,
             <<"ciphers", "ECDHE-ECDSA-AES128-CBC-SHA", "ECDHE-ECDSA-AES256-GCM-SHA384">>, <<"ciphers", "ecdhe-ecdsa-aes128-gcm-sha256">>,
             <<"ciphers", "BOGUS">>, <<"curves", "p384">>, <<"curves", "P256", "x25519">>,
             <<"clients", "request">>, <<"clients", "CA1", "CA2">>, <<"clients", "verify_if_given", "CA1">>, <<"clients", "NOFILE">>,
             <<"alpn", "h2">>, <<"alpn", "http/1.1">>, <<"key_type", "ed25519">>, <<"key_type", "p384">>,
             <<"insecure_disable_sni_matching">>, <<"load", "DIR">>, <<"ask", "http://127.0.0.1:9/ask">>, <<"bogus_subdirective">> }
CoreQuick == { <<"protocols", "tls1.0", "tls1.1">>, <<"ciphers", "ecdhe-ecdsa-aes128-gcm-sha256">>, <<"clients", "request">>,
               <<"clients", "CA1", "CA2">>, <<"alpn", "h2">>, <<"curves", "p384">> }

\* ---- the handshake offers of the end-to-end clause -----------------------------------------
ECSuites == {"EA256G", "EA128G", "EA128C", "ECHA"}      \* what a certificate with an EC key can serve
AllOffer == [vmin |-> 10, vmax |-> 13, suites |-> ECSuites \cup {"RA128G"}, curve |-> "any", alpn |-> <<"http/1.1">>, cc |-> "good"]
Probes == <<
    AllOffer,
    [AllOffer EXCEPT !.vmax = 10], [AllOffer EXCEPT !.vmin = 11, !.vmax = 11], [AllOffer EXCEPT !.vmin = 12, !.vmax = 12],
    [AllOffer EXCEPT !.vmin = 13],
    [AllOffer EXCEPT !.vmin = 12, !.vmax = 12, !.suites = {"EA256G"}], [AllOffer EXCEPT !.vmin = 12, !.vmax = 12, !.suites = {"EA128G"}],
    [AllOffer EXCEPT !.vmin = 12, !.vmax = 12, !.suites = {"EA128C"}], [AllOffer EXCEPT !.vmin = 12, !.vmax = 12, !.suites = {"ECHA"}],
    [AllOffer EXCEPT !.vmin = 12, !.vmax = 12, !.suites = {"RA128G"}],
    [AllOffer EXCEPT !.curve = "P384"], [AllOffer EXCEPT !.curve = "X25519"], [AllOffer EXCEPT !.curve = "P521"],
    [AllOffer EXCEPT !.curve = "P256", !.vmin = 13],
    [AllOffer EXCEPT !.vmin = 12, !.alpn = <<"h2", "http/1.1">>], [AllOffer EXCEPT !.alpn = <<"foo">>], [AllOffer EXCEPT !.alpn = <<>>],
    [AllOffer EXCEPT !.cc = "none"], [AllOffer EXCEPT !.cc = "other"], [AllOffer EXCEPT !.cc = "none", !.vmin = 13],
    [AllOffer EXCEPT !.cc = "other", !.vmax = 12] >>

\* ============================== state =============================================
VARIABLES host,     \* the site's host
          dirs,     \* the `tls` lines of the site: sequence of [args, lines]
          pc, d, l, a,      \* control point, current directive / block line / argument
          loc,      \* the locals of one iteration of `for c.Next()`
          cfg,      \* the caskettls.Config of the site
          tcfg,     \* the *tls.Config built from it
          err,      \* "" or the class of the error that ended the load
          p, hs     \* the offer tried against the listener and its outcome
vars == <<host, dirs, pc, d, l, a, loc, cfg, tcfg, err, p, hs>>

NoLoc == [cert |-> "", key |-> "", loadDir |-> "", maxCerts |-> "", ask |-> "", onDemand |-> FALSE, hadBlock |-> FALSE]
NewCfg == [enabled |-> FALSE, email |-> "", issuerEmail |-> "", selfSigned |-> FALSE, manual |-> FALSE, ca |-> "", keyType |-> "",
           pmin |-> 0, pmax |-> 0, ciphers |-> <<>>, prefer |-> FALSE, curves |-> <<>>, auth |-> "none", ccerts |-> <<>>,
           sniOff |-> FALSE, alpn |-> <<>>, mustStaple |-> FALSE, onDemand |-> FALSE, noRedirect |-> FALSE, dns |-> FALSE,
           hostname |-> "", managed |-> FALSE, certs |-> {}]
NoTLS == [made |-> FALSE, min |-> 0, max |-> 0, ciphers |-> <<>>, prefer |-> FALSE, curves |-> <<>>, auth |-> "none",
          cas |-> {}, alpn |-> <<>>]
NoHS == [ok |-> FALSE, ver |-> 0, cipher |-> "", asked |-> FALSE, alpn |-> ""]

RECURSIVE FlatLines(_)
FlatLines(ds) == IF ds = <<>> THEN <<>> ELSE ds[1].lines \o FlatLines(Tail(ds))
InSet(s, S) == \A i \in 1..Len(s) : s[i] \in S

Init == /\ host \in Hosts /\ dirs = <<>> /\ pc = "write" /\ d = 0 /\ l = 0 /\ a = 0 /\ loc = NoLoc
        /\ cfg = [NewCfg EXCEPT !.hostname = host] /\ tcfg = NoTLS /\ err = "" /\ p = 0 /\ hs = NoHS

\* ============================== the author ========================================
\* which files are written: at most two block lines from the whole alphabet (one when there are two `tls` lines,
\* NameLines on the "name" host, which has a single `tls` line); longer files consist of core lines (and, with two
\* `tls` lines, of the argument forms in Heads2)
Writable(ds) ==
    LET n == Len(FlatLines(ds)) IN
    IF host = "name" THEN Len(ds) <= 1 /\ n <= NameLines
    ELSE IF Len(ds) <= 1 THEN n <= 2 \/ (n <= MaxLines /\ InSet(FlatLines(ds), Core))
    ELSE /\ Len(ds) <= MaxDirs
         /\ n <= 1 \/ (n <= MaxLines2 /\ InSet(FlatLines(ds), Core) /\ \A i \in 1..Len(ds) : ds[i].args \in Heads2)
WriteDirective(h) ==
    /\ pc = "write"
    /\ dirs' = Append(dirs, [args |-> h, lines |-> <<>>])
    /\ Writable(dirs')
    /\ UNCHANGED <<host, pc, d, l, a, loc, cfg, tcfg, err, p, hs>>
WriteLine(ln) ==
    /\ pc = "write" /\ Len(dirs) > 0
    /\ dirs' = [dirs EXCEPT ![Len(dirs)].lines = Append(@, ln)]
    /\ Writable(dirs')
    /\ UNCHANGED <<host, pc, d, l, a, loc, cfg, tcfg, err, p, hs>>
Load == /\ pc = "write" /\ pc' = "enter"
        /\ UNCHANGED <<host, dirs, d, l, a, loc, cfg, tcfg, err, p, hs>>

\* ============================== setupTLS ==========================================
Reject(class) == /\ err' = class /\ pc' = "rejected"
Line == dirs[d].lines[l]
LArgs == Tail(Line)

\* the directive is only set up when the site has a `tls` line at all
Enter ==
    /\ pc = "enter"
    /\ IF dirs = <<>> THEN pc' = "auto" /\ UNCHANGED cfg
       ELSE pc' = "next" /\ cfg' = [cfg EXCEPT !.enabled = TRUE]
    /\ UNCHANGED <<host, dirs, d, l, a, loc, tcfg, err, p, hs>>

NextDirective ==
    /\ pc = "next"
    /\ IF d < Len(dirs) THEN d' = d + 1 /\ loc' = NoLoc /\ pc' = "args"
       ELSE pc' = "defaults" /\ UNCHANGED <<d, loc>>
    /\ UNCHANGED <<host, dirs, l, a, cfg, tcfg, err, p, hs>>

ReadArgs ==
    /\ pc = "args"
    /\ LET args == dirs[d].args IN
       CASE Len(args) = 1 /\ args[1] = "off" ->
              \* "user can force-disable managed TLS this way": return nil at once
              /\ cfg' = [cfg EXCEPT !.email = "off", !.enabled = FALSE] /\ pc' = "auto" /\ UNCHANGED loc
         [] Len(args) = 1 /\ args[1] = "self_signed" ->
              /\ cfg' = [cfg EXCEPT !.email = "self_signed", !.selfSigned = TRUE] /\ pc' = "block" /\ UNCHANGED loc
         [] Len(args) = 1 /\ args[1] \notin Specials ->
              /\ cfg' = [cfg EXCEPT !.email = args[1], !.issuerEmail = args[1]] /\ pc' = "block" /\ UNCHANGED loc
         [] Len(args) = 2 ->
              /\ loc' = [loc EXCEPT !.cert = args[1], !.key = args[2]] /\ cfg' = [cfg EXCEPT !.manual = TRUE] /\ pc' = "block"
         [] OTHER -> pc' = "block" /\ UNCHANGED <<cfg, loc>>      \* no argument - or three and more, which are ignored
    /\ l' = 0
    /\ UNCHANGED <<host, dirs, d, a, tcfg, err, p, hs>>

NextBlock ==
    /\ pc = "block"
    /\ IF l < Len(dirs[d].lines)
         THEN l' = l + 1 /\ a' = 1 /\ loc' = [loc EXCEPT !.hadBlock = TRUE] /\ pc' = "sub"
         ELSE pc' = "check" /\ UNCHANGED <<l, a, loc>>
    /\ UNCHANGED <<host, dirs, d, cfg, tcfg, err, p, hs>>

Sub(name) == pc = "sub" /\ Line[1] = name
Back == pc' = "block"
Rest == UNCHANGED <<host, dirs, d, l, tcfg, p, hs>>

SubCA ==
    /\ Sub("ca")
    /\ IF Len(LArgs) # 1 THEN Reject("args") /\ UNCHANGED cfg
       ELSE cfg' = [cfg EXCEPT !.ca = LArgs[1]] /\ Back /\ UNCHANGED err
    /\ Rest /\ UNCHANGED <<a, loc>>
SubKeyType ==
    /\ Sub("key_type")
    /\ IF Len(LArgs) # 1 THEN Reject("args") /\ UNCHANGED cfg
       ELSE IF LArgs[1] \notin DOMAIN KeyType THEN Reject("keytype") /\ UNCHANGED cfg
       ELSE cfg' = [cfg EXCEPT !.keyType = KeyType[LArgs[1]]] /\ Back /\ UNCHANGED err
    /\ Rest /\ UNCHANGED <<a, loc>>
SubProtocols ==
    /\ Sub("protocols")
    /\ LET args == LArgs IN
       IF Len(args) = 0 THEN Reject("args") /\ UNCHANGED cfg
       ELSE IF args[1] \notin DOMAIN Proto THEN Reject("protocol") /\ UNCHANGED cfg
       ELSE IF Len(args) = 1 THEN cfg' = [cfg EXCEPT !.pmin = Proto[args[1]], !.pmax = Proto[args[1]]] /\ Back /\ UNCHANGED err
       ELSE IF args[2] \notin DOMAIN Proto THEN Reject("protocol") /\ cfg' = [cfg EXCEPT !.pmin = Proto[args[1]]]
       ELSE /\ cfg' = [cfg EXCEPT !.pmin = Proto[args[1]], !.pmax = Proto[args[2]]]       \* further arguments are ignored
            /\ IF Proto[args[1]] > Proto[args[2]] THEN Reject("minmax") ELSE Back /\ UNCHANGED err
    /\ Rest /\ UNCHANGED <<a, loc>>
\* for c.NextArg(): one token per step, appended to what earlier `ciphers` lines gave
SubCiphersArg ==
    /\ Sub("ciphers")
    /\ IF a < Len(Line)
         THEN IF Line[a + 1] \notin DOMAIN Cipher THEN Reject("cipher") /\ UNCHANGED <<cfg, a>>
              ELSE cfg' = [cfg EXCEPT !.ciphers = Append(@, Cipher[Line[a + 1]])] /\ a' = a + 1 /\ UNCHANGED <<pc, err>>
         ELSE Back /\ UNCHANGED <<cfg, a, err>>
    /\ Rest /\ UNCHANGED loc
SubCurvesArg ==
    /\ Sub("curves")
    /\ IF a < Len(Line)
         THEN IF Line[a + 1] \notin DOMAIN Curve THEN Reject("curve") /\ UNCHANGED <<cfg, a>>
              ELSE cfg' = [cfg EXCEPT !.curves = Append(@, Curve[Line[a + 1]])] /\ a' = a + 1 /\ UNCHANGED <<pc, err>>
         ELSE Back /\ UNCHANGED <<cfg, a, err>>
    /\ Rest /\ UNCHANGED loc
\* a first argument that is no mode keyword is a CA file: require and verify
SubClients ==
    /\ Sub("clients")
    /\ LET args == LArgs
           isMode == Len(args) > 0 /\ args[1] \in DOMAIN ClientModes
           mode == IF isMode THEN ClientModes[args[1]] ELSE "requireandverify"
           start == IF isMode THEN 2 ELSE 1
           needCA == mode \in {"verifyifgiven", "requireandverify"}
       IN IF Len(args) = 0 THEN Reject("args") /\ UNCHANGED cfg
          ELSE IF needCA /\ Len(args) < start THEN Reject("args") /\ cfg' = [cfg EXCEPT !.auth = mode]
          ELSE cfg' = [cfg EXCEPT !.auth = mode, !.ccerts = SubSeq(args, start, Len(args))] /\ Back /\ UNCHANGED err
    /\ Rest /\ UNCHANGED <<a, loc>>
SubSNI ==
    /\ Sub("insecure_disable_sni_matching")
    /\ cfg' = [cfg EXCEPT !.sniOff = TRUE] /\ Back
    /\ Rest /\ UNCHANGED <<a, loc, err>>
\* c.Args(&x): a missing argument leaves x as it was and is not an error
SubLoad ==
    /\ Sub("load")
    /\ loc' = [loc EXCEPT !.loadDir = IF Len(LArgs) > 0 THEN LArgs[1] ELSE @] /\ cfg' = [cfg EXCEPT !.manual = TRUE] /\ Back
    /\ Rest /\ UNCHANGED <<a, err>>
SubMaxCerts ==
    /\ Sub("max_certs")
    /\ loc' = [loc EXCEPT !.maxCerts = IF Len(LArgs) > 0 THEN LArgs[1] ELSE @, !.onDemand = TRUE] /\ Back
    /\ Rest /\ UNCHANGED <<a, cfg, err>>
SubAsk ==
    /\ Sub("ask")
    /\ loc' = [loc EXCEPT !.ask = IF Len(LArgs) > 0 THEN LArgs[1] ELSE @, !.onDemand = TRUE] /\ Back
    /\ Rest /\ UNCHANGED <<a, cfg, err>>
SubDNS ==
    /\ Sub("dns")
    /\ IF Len(LArgs) = 0 THEN Reject("args") /\ UNCHANGED cfg
       ELSE IF LArgs[1] \notin DNSProviders THEN Reject("dns") /\ UNCHANGED cfg
       ELSE cfg' = [cfg EXCEPT !.dns = TRUE] /\ Back /\ UNCHANGED err
    /\ Rest /\ UNCHANGED <<a, loc>>
SubALPN ==
    /\ Sub("alpn")
    /\ IF Len(LArgs) = 0 THEN Reject("args") /\ UNCHANGED cfg
       ELSE cfg' = [cfg EXCEPT !.alpn = @ \o LArgs] /\ Back /\ UNCHANGED err
    /\ Rest /\ UNCHANGED <<a, loc>>
SubMustStaple ==
    /\ Sub("must_staple")
    /\ cfg' = [cfg EXCEPT !.mustStaple = TRUE] /\ Back
    /\ Rest /\ UNCHANGED <<a, loc, err>>
\* sub.example.com -> *.example.com; an address or a name that already has a wildcard cannot be converted
SubWildcard ==
    /\ Sub("wildcard")
    /\ IF cfg.hostname # "name" THEN Reject("wildcard") /\ UNCHANGED cfg
       ELSE cfg' = [cfg EXCEPT !.hostname = "wild"] /\ Back /\ UNCHANGED err
    /\ Rest /\ UNCHANGED <<a, loc>>
SubNoRedirect ==
    /\ Sub("no_redirect")
    /\ cfg' = [cfg EXCEPT !.noRedirect = TRUE] /\ Back
    /\ Rest /\ UNCHANGED <<a, loc, err>>
SubUnknown ==
    /\ pc = "sub" /\ Line[1] \notin Known
    /\ Reject("unknown")
    /\ Rest /\ UNCHANGED <<a, loc, cfg>>

\* "tls requires at least one argument if a block is not opened"
CheckArgs ==
    /\ pc = "check"
    /\ IF dirs[d].args = <<>> /\ ~loc.hadBlock THEN Reject("args") ELSE pc' = "ondemand" /\ UNCHANGED err
    /\ UNCHANGED <<host, dirs, d, l, a, loc, cfg, tcfg, p, hs>>
OnDemand ==
    /\ pc = "ondemand"
    /\ IF ~loc.onDemand THEN pc' = "loadcerts" /\ UNCHANGED <<cfg, err>>
       ELSE /\ cfg' = [cfg EXCEPT !.onDemand = TRUE]
            /\ IF loc.ask # "" /\ loc.ask \notin GoodAsk THEN Reject("askurl") ELSE pc' = "loadcerts" /\ UNCHANGED err
    /\ UNCHANGED <<host, dirs, d, l, a, loc, tcfg, p, hs>>
\* "don't try to load certificates unless we're supposed to"
LoadCerts ==
    /\ pc = "loadcerts"
    /\ IF ~cfg.enabled \/ ~cfg.manual THEN pc' = "next" /\ UNCHANGED <<cfg, err>>
       ELSE IF loc.cert # "" /\ loc.key # "" /\ <<loc.cert, loc.key>> \notin GoodPairs THEN Reject("certload") /\ UNCHANGED cfg
       ELSE /\ cfg' = [cfg EXCEPT !.certs = @ \cup (IF loc.cert # "" /\ loc.key # "" THEN {"pair"} ELSE {})
                                                 \cup (IF loc.loadDir # "" THEN {"dir"} ELSE {})]
            /\ pc' = "next" /\ UNCHANGED err
    /\ UNCHANGED <<host, dirs, d, l, a, loc, tcfg, p, hs>>

\* SetDefaultTLSParams: "it does not overwrite; only fills in missing values" - and puts TLS_FALLBACK_SCSV in front
Defaulted(c) == [c EXCEPT !.ciphers = <<SCSV>> \o (IF c.ciphers = <<>> THEN DefaultCiphers ELSE c.ciphers),
                          !.curves = IF c.curves = <<>> THEN DefaultCurves ELSE c.curves,
                          !.pmin = IF c.pmin = 0 THEN 12 ELSE c.pmin,
                          !.pmax = IF c.pmax = 0 THEN 13 ELSE c.pmax,
                          !.prefer = TRUE]
SetDefaults ==
    /\ pc = "defaults"
    /\ cfg' = Defaulted(cfg) /\ pc' = "selfsign"
    /\ UNCHANGED <<host, dirs, d, l, a, loc, tcfg, err, p, hs>>
\* "generate self-signed cert if needed", then the config is stored under its host name
SelfSign ==
    /\ pc = "selfsign"
    /\ IF cfg.selfSigned /\ cfg.keyType = "ED25519" /\ ~Repaired THEN Reject("selfsigned") /\ UNCHANGED cfg
       ELSE /\ cfg' = [cfg EXCEPT !.certs = @ \cup (IF cfg.selfSigned THEN {"self"} ELSE {})]
            /\ pc' = "auto" /\ UNCHANGED err
    /\ UNCHANGED <<host, dirs, d, l, a, loc, tcfg, p, hs>>

\* ============================== the http server type ==============================
\* caskettls.QualifiesForManagedTLS on a site with an explicit port other than 80
Qualifies(c) == /\ host = "name" /\ (~c.manual \/ c.onDemand) /\ ~c.selfSigned /\ c.email # "off"
MarkManaged ==
    /\ pc = "auto"
    /\ cfg' = [cfg EXCEPT !.managed = Qualifies(cfg)] /\ pc' = "enable"
    /\ UNCHANGED <<host, dirs, d, l, a, loc, tcfg, err, p, hs>>
\* enableAutoHTTPS: managed and not on-demand -> TLS on, defaults filled in (once more if `tls` was there)
EnableAuto ==
    /\ pc = "enable"
    /\ cfg' = IF cfg.managed /\ ~cfg.onDemand THEN Defaulted([cfg EXCEPT !.enabled = TRUE]) ELSE cfg
    /\ pc' = "servers"
    /\ UNCHANGED <<host, dirs, d, l, a, loc, tcfg, err, p, hs>>
MakeServers ==
    /\ pc = "servers"
    /\ pc' = IF cfg.enabled THEN "alpn" ELSE "done"
    /\ UNCHANGED <<host, dirs, d, l, a, loc, cfg, tcfg, err, p, hs>>
\* "if no application-level protocol was configured up to now, default to HTTP/2, then HTTP/1.1"
DefaultALPN ==
    /\ pc = "alpn"
    /\ cfg' = [cfg EXCEPT !.alpn = IF @ = <<>> THEN DefaultALPNList ELSE @] /\ pc' = "lists"
    /\ UNCHANGED <<host, dirs, d, l, a, loc, tcfg, err, p, hs>>

\* ============================== buildStandardTLSConfig =============================
RECURSIVE Dedup(_)
Dedup(s) == IF s = <<>> THEN <<>>
            ELSE LET r == Dedup(SubSeq(s, 1, Len(s) - 1)) IN
                 IF \E i \in 1..Len(r) : r[i] = s[Len(s)] THEN r ELSE Append(r, s[Len(s)])
Has(s, x) == \E i \in 1..Len(s) : s[i] = x
BuildLists ==
    /\ pc = "lists"
    /\ tcfg' = [tcfg EXCEPT !.ciphers = Dedup(cfg.ciphers), !.prefer = cfg.prefer, !.curves = Dedup(cfg.curves)]
    /\ pc' = "acme"
    /\ UNCHANGED <<host, dirs, d, l, a, loc, cfg, err, p, hs>>
BuildACME ==
    /\ pc = "acme"
    /\ cfg' = [cfg EXCEPT !.alpn = IF Has(@, ACME) THEN @ ELSE Append(@, ACME)] /\ pc' = "copy"
    /\ UNCHANGED <<host, dirs, d, l, a, loc, tcfg, err, p, hs>>
BuildCopy ==
    /\ pc = "copy"
    /\ tcfg' = [tcfg EXCEPT !.min = cfg.pmin, !.max = cfg.pmax, !.auth = cfg.auth, !.alpn = cfg.alpn]
    /\ pc' = IF cfg.auth # "none" THEN "cas" ELSE "scsv"
    /\ a' = 1
    /\ UNCHANGED <<host, dirs, d, l, loc, cfg, err, p, hs>>
\* "Any client with a certificate from this CA will be allowed to connect": one file per step
BuildCA ==
    /\ pc = "cas"
    /\ IF a > Len(cfg.ccerts) THEN pc' = "scsv" /\ UNCHANGED <<tcfg, a, err>>
       ELSE IF cfg.ccerts[a] \in tcfg.cas THEN a' = a + 1 /\ UNCHANGED <<tcfg, pc, err>>     \* "don't add cert to pool more than once"
       ELSE IF cfg.ccerts[a] \notin GoodCAs THEN Reject("cafile") /\ UNCHANGED <<tcfg, a>>
       ELSE tcfg' = [tcfg EXCEPT !.cas = @ \cup {cfg.ccerts[a]}] /\ a' = a + 1 /\ UNCHANGED <<pc, err>>
    /\ UNCHANGED <<host, dirs, d, l, loc, cfg, p, hs>>
\* "for security, ensure TLS_FALLBACK_SCSV is always included first"
BuildSCSV ==
    /\ pc = "scsv"
    /\ LET cs == IF tcfg.ciphers = <<>> THEN DefaultCiphers ELSE tcfg.ciphers IN
       tcfg' = [tcfg EXCEPT !.made = TRUE, !.ciphers = IF cs[1] # SCSV THEN <<SCSV>> \o cs ELSE cs]
    /\ pc' = "done"
    /\ UNCHANGED <<host, dirs, d, l, a, loc, cfg, err, p, hs>>

\* ============================== a handshake under the built configuration ==========
MaxN(x, y) == IF x >= y THEN x ELSE y
MinN(x, y) == IF x <= y THEN x ELSE y
\* Go's suite preference with AES hardware (only the membership is judged against the real listener)
Prefer(C) == IF "EA128G" \in C THEN "EA128G" ELSE IF "EA256G" \in C THEN "EA256G" ELSE IF "ECHA" \in C THEN "ECHA" ELSE "EA128C"
Elems(s) == {s[i] : i \in 1..Len(s)}
\* suites a connection of version v may use: configured, offered, servable by a certificate with an EC key (ed: an
\* Ed25519 key, which TLS knows from version 1.2 on), AEAD only from TLS 1.2
Usable(t, o, v, ed) == (Elems(t.ciphers) \cap o.suites \cap ECSuites) \cap (IF v >= 12 THEN ECSuites ELSE IF ed THEN {} ELSE {"EA128C"})
\* crypto/tls negotiateALPN: the server's order decides; an http/1.1 client may talk to an h2 server without ALPN
ALPNOf(srv, cli) ==
    IF cli = <<>> THEN [ok |-> TRUE, proto |-> ""]
    ELSE IF \E i \in 1..Len(srv) : Has(cli, srv[i])
      THEN [ok |-> TRUE, proto |-> srv[CHOOSE i \in 1..Len(srv) : Has(cli, srv[i]) /\ \A j \in 1..(i-1) : ~Has(cli, srv[j])]]
    ELSE IF Has(srv, "h2") /\ Has(cli, "http/1.1") THEN [ok |-> TRUE, proto |-> ""]
    ELSE [ok |-> FALSE, proto |-> ""]
\* client certificates: none / "good" = issued by the CA in file CA1 / "other" = a stranger's self-signed one
Verifies(t, cc) == cc = "good" /\ "CA1" \in t.cas
AcceptsCert(t, cc) == CASE t.auth = "requireany" -> cc # "none"
                        [] t.auth = "verifyifgiven" -> cc = "none" \/ Verifies(t, cc)
                        [] t.auth = "requireandverify" -> Verifies(t, cc)
                        [] OTHER -> TRUE
CurveOK(t, o) == o.curve = "any" \/ Has(t.curves, o.curve)
\* the request on the established connection (no SNI is sent for an address): "strict host matching" answers 403
\* for a site with client authentication unless insecure_disable_sni_matching was written
StatusOf(c) == IF c.auth # "none" /\ ~c.sniOff THEN 403 ELSE 204
HSOf(t, o, ed) ==
    LET v == MinN(t.max, o.vmax)
        al == ALPNOf(t.alpn, o.alpn)
    IN IF MaxN(t.min, o.vmin) > v \/ ~CurveOK(t, o) \/ (v < 13 /\ Usable(t, o, v, ed) = {}) \/ ~al.ok \/ ~AcceptsCert(t, o.cc)
         THEN NoHS
         ELSE [ok |-> TRUE, ver |-> v, cipher |-> IF v >= 13 THEN "tls13" ELSE Prefer(Usable(t, o, v, ed)),
               asked |-> t.auth # "none", alpn |-> al.proto]
\* a listener that can be probed: exactly one certificate for the address, with an EC or Ed25519 key, and no
\* on-demand issuance (a handshake must never be able to reach an ACME server)
Probeable == /\ pc = "done" /\ tcfg.made /\ host = "ip" /\ Cardinality(cfg.certs) = 1 /\ ~cfg.onDemand
             /\ ("self" \in cfg.certs => cfg.keyType \in {"", "P256", "P384", "ED25519"})
EdKey == "self" \in cfg.certs /\ cfg.keyType = "ED25519"
Negotiate(i) ==
    /\ Probeable
    /\ p' = i /\ hs' = HSOf(tcfg, Probes[i], EdKey) /\ pc' = "hs"
    /\ UNCHANGED <<host, dirs, d, l, a, loc, cfg, tcfg, err>>

Next == \/ \E h \in Heads : WriteDirective(h)
        \/ \E ln \in Lines : WriteLine(ln)
        \/ Load \/ Enter \/ NextDirective \/ ReadArgs \/ NextBlock
        \/ SubCA \/ SubKeyType \/ SubProtocols \/ SubCiphersArg \/ SubCurvesArg \/ SubClients \/ SubSNI \/ SubLoad
        \/ SubMaxCerts \/ SubAsk \/ SubDNS \/ SubALPN \/ SubMustStaple \/ SubWildcard \/ SubNoRedirect \/ SubUnknown
        \/ CheckArgs \/ OnDemand \/ LoadCerts \/ SetDefaults \/ SelfSign
        \/ MarkManaged \/ EnableAuto \/ MakeServers \/ DefaultALPN
        \/ BuildLists \/ BuildACME \/ BuildCopy \/ BuildCA \/ BuildSCSV
        \/ \E i \in 1..Len(Probes) : Negotiate(i)
Spec == Init /\ [][Next]_vars

\* =========================== what the tokens say (declarative) ======================
AllLines == FlatLines(dirs)
Named(n) == SelectSeq(AllLines, LAMBDA ln : ln[1] = n)
Written(n) == Named(n) # <<>>
LastLine(n) == Named(n)[Len(Named(n))]
RECURSIVE FlatArgs(_)
FlatArgs(ls) == IF ls = <<>> THEN <<>> ELSE Tail(ls[1]) \o FlatArgs(Tail(ls))
MapSeq(f, s) == [i \in 1..Len(s) |-> IF s[i] \in DOMAIN f THEN f[s[i]] ELSE "?"]
DirIdx == 1..Len(dirs)
HasOff == \E i \in DirIdx : dirs[i].args = <<"off">>
OneArg == {i \in DirIdx : Len(dirs[i].args) = 1}
MaxOf(S) == CHOOSE x \in S : \A y \in S : y <= x

\* constructs whose treatment is the implementation's free choice (nothing documents it): the model says what the
\* code does with them, the replay records a difference as drift, and the declarative clauses do not speak about them
Free == \/ HasOff /\ dirs # << [args |-> <<"off">>, lines |-> <<>>] >>       \* `off` next to anything else
        \/ \E i \in DirIdx : Len(dirs[i].args) > 2                            \* more than two arguments
        \/ \E i \in 1..Len(AllLines) : LET ln == AllLines[i] IN
              \/ ln[1] = "protocols" /\ Len(ln) > 3                             \* a third protocol
              \/ ln[1] \in {"ciphers", "curves", "load", "max_certs", "ask"} /\ Len(ln) = 1   \* an empty list / a missing argument

ClientMode(ln) == IF Len(ln) >= 2 /\ ln[2] \in DOMAIN ClientModes THEN ClientModes[ln[2]] ELSE "requireandverify"
ClientFiles(ln) == IF Len(ln) >= 2 /\ ln[2] \in DOMAIN ClientModes THEN SubSeq(ln, 3, Len(ln)) ELSE Tail(ln)
GoodLine(ln) ==
    CASE ln[1] = "ca" -> Len(ln) = 2
      [] ln[1] = "key_type" -> Len(ln) = 2 /\ ln[2] \in DOMAIN KeyType
      [] ln[1] = "protocols" -> /\ Len(ln) >= 2 /\ ln[2] \in DOMAIN Proto
                                /\ (Len(ln) >= 3 => ln[3] \in DOMAIN Proto /\ Proto[ln[2]] <= Proto[ln[3]])
      [] ln[1] = "ciphers" -> \A i \in 2..Len(ln) : ln[i] \in DOMAIN Cipher
      [] ln[1] = "curves" -> \A i \in 2..Len(ln) : ln[i] \in DOMAIN Curve
      [] ln[1] = "clients" -> Len(ln) >= 2 /\ (ClientMode(ln) \in {"verifyifgiven", "requireandverify"} => ClientFiles(ln) # <<>>)
      [] ln[1] = "alpn" -> Len(ln) >= 2
      [] ln[1] = "dns" -> Len(ln) >= 2 /\ ln[2] \in DNSProviders
      [] ln[1] \in {"load", "max_certs", "ask"} \cup Flags -> TRUE
      [] OTHER -> FALSE
W_keyType == IF Written("key_type") THEN KeyType[LastLine("key_type")[2]] ELSE ""
W_selfSigned == \E i \in DirIdx : dirs[i].args = <<"self_signed">>
\* the file cannot be loaded: a malformed line, a `tls` without anything, a wildcard that cannot be made, files that
\* are not there - where, of several `clients` lines, the last one counts
Invalid ==
    \/ \E i \in DirIdx : dirs[i].args = <<>> /\ dirs[i].lines = <<>>
    \/ \E i \in 1..Len(AllLines) : ~GoodLine(AllLines[i])
    \/ Written("wildcard") /\ (host # "name" \/ Len(Named("wildcard")) > 1)
    \/ \E i \in DirIdx : Len(dirs[i].args) = 2 /\ dirs[i].args \notin GoodPairs
    \/ Written("clients") /\ GoodLine(LastLine("clients")) /\ ~InSet(ClientFiles(LastLine("clients")), GoodCAs)
    \/ \E i \in DirIdx : LET A == SelectSeq(dirs[i].lines, LAMBDA ln : ln[1] = "ask" /\ Len(ln) >= 2) IN
                          A # <<>> /\ A[Len(A)][2] \notin GoodAsk      \* of the `ask` lines of one block the last one counts
    \/ ~Repaired /\ W_selfSigned /\ Written("key_type") /\ GoodLine(LastLine("key_type")) /\ W_keyType = "ED25519"

Terminal == pc \in {"done", "rejected"}
RejectedIffInvalid == (Terminal /\ ~Free) => ((err # "") <=> Invalid)
RejectedStops == (err # "") => (pc = "rejected" /\ ~tcfg.made)

\* ---- the effective configuration, field by field -------------------------------------------------
W_min == IF Written("protocols") THEN Proto[LastLine("protocols")[2]] ELSE 12
W_max == IF Written("protocols") THEN LET ln == LastLine("protocols") IN Proto[ln[IF Len(ln) >= 3 THEN 3 ELSE 2]] ELSE 13
W_cipherNames == MapSeq(Cipher, FlatArgs(Named("ciphers")))
W_ciphers == <<SCSV>> \o Dedup(IF W_cipherNames = <<>> THEN DefaultCiphers ELSE W_cipherNames)
W_curveNames == MapSeq(Curve, FlatArgs(Named("curves")))
W_curves == Dedup(IF W_curveNames = <<>> THEN DefaultCurves ELSE W_curveNames)
W_auth == IF Written("clients") THEN ClientMode(LastLine("clients")) ELSE "none"
W_cas == IF Written("clients") THEN Elems(ClientFiles(LastLine("clients"))) ELSE {}
W_alpnGiven == FlatArgs(Named("alpn"))
W_alpn == LET g == IF W_alpnGiven = <<>> THEN DefaultALPNList ELSE W_alpnGiven IN IF Has(g, ACME) THEN g ELSE Append(g, ACME)
W_email == IF OneArg = {} THEN "" ELSE dirs[MaxOf(OneArg)].args[1]
W_issuerEmail == LET E == {i \in OneArg : dirs[i].args[1] \notin Specials} IN IF E = {} THEN "" ELSE dirs[MaxOf(E)].args[1]
W_manual == (\E i \in DirIdx : Len(dirs[i].args) = 2) \/ Written("load")
W_onDemand == Written("max_certs") \/ Written("ask")
\* TLS is on when the site says `tls` (and not `off`), or when nothing is said and the name qualifies for a managed certificate
W_enabled == IF dirs = <<>> THEN host = "name" ELSE ~HasOff
W_tls == [made |-> TRUE, min |-> W_min, max |-> W_max, ciphers |-> W_ciphers, prefer |-> TRUE, curves |-> W_curves,
          auth |-> W_auth, cas |-> W_cas, alpn |-> W_alpn]
EffectiveEqualsWritten ==
    (pc = "done" /\ ~Free) =>
        /\ cfg.enabled = W_enabled
        /\ tcfg = IF W_enabled THEN W_tls ELSE NoTLS
        /\ cfg.selfSigned = W_selfSigned /\ cfg.manual = W_manual /\ cfg.email = W_email /\ cfg.issuerEmail = W_issuerEmail
        /\ cfg.keyType = W_keyType /\ cfg.onDemand = W_onDemand
        /\ cfg.ca = (IF Written("ca") THEN LastLine("ca")[2] ELSE "")
        /\ cfg.mustStaple = Written("must_staple") /\ cfg.sniOff = Written("insecure_disable_sni_matching")
        /\ cfg.noRedirect = Written("no_redirect") /\ cfg.dns = Written("dns")
        /\ cfg.hostname = (IF Written("wildcard") THEN "wild" ELSE host)
        /\ (W_enabled /\ dirs # <<>>) => (cfg.ccerts = ClientFiles(IF Written("clients") THEN LastLine("clients") ELSE <<"clients">>))
        /\ ("self" \in cfg.certs) = (W_selfSigned /\ ~HasOff)
        /\ ("pair" \in cfg.certs) = (\E i \in DirIdx : dirs[i].args \in GoodPairs)

\* ---- nothing gets weaker than the default without the tokens asking for it (also for the free constructs) ------
NeverWeakerThanDefaultUnlessAsked ==
    (pc = "done") =>
        /\ (dirs # <<>> /\ ~HasOff) => cfg.enabled /\ tcfg.made              \* never silently plaintext
        /\ tcfg.made =>
            /\ tcfg.min >= 10 /\ tcfg.max <= 13 /\ tcfg.min <= tcfg.max
            /\ (tcfg.min < 12 => \E i \in 1..Len(Named("protocols")) :
                      LET ln == Named("protocols")[i] IN Len(ln) >= 2 /\ ln[2] \in DOMAIN Proto /\ Proto[ln[2]] < 12)
            /\ (tcfg.max < 13 => Written("protocols"))
            /\ (Written("clients") => tcfg.auth \in {ClientMode(Named("clients")[i]) : i \in 1..Len(Named("clients"))})
            /\ (tcfg.auth = "none" => ~Written("clients"))
            /\ (tcfg.auth \in {"verifyifgiven", "requireandverify"} => tcfg.cas # {} /\ tcfg.cas \subseteq GoodCAs)
            /\ tcfg.ciphers[1] = SCSV /\ tcfg.prefer
            /\ \A i \in 2..Len(tcfg.ciphers) : Has(DefaultCiphers, tcfg.ciphers[i]) \/ Has(W_cipherNames, tcfg.ciphers[i])
            /\ Len(tcfg.ciphers) >= 2 /\ tcfg.curves # <<>>

\* ---- lists keep the written order and have no duplicates ---------------------------------------------------
FirstIdx(s, x) == CHOOSE i \in 1..Len(s) : s[i] = x /\ \A j \in 1..(i-1) : s[j] # x
NoDup(s) == \A i, j \in 1..Len(s) : s[i] = s[j] => i = j
InOrderOf(r, w) == /\ \A i \in 1..Len(r) : Has(w, r[i])
                   /\ \A i, j \in 1..Len(r) : i < j => FirstIdx(w, r[i]) < FirstIdx(w, r[j])
                   /\ \A i \in 1..Len(w) : Has(r, w[i])
OrderPreserved ==
    (pc = "done" /\ tcfg.made /\ ~Free) =>
        /\ NoDup(tcfg.ciphers) /\ NoDup(tcfg.curves)
        /\ InOrderOf(Tail(tcfg.ciphers), IF W_cipherNames = <<>> THEN DefaultCiphers ELSE W_cipherNames)
        /\ InOrderOf(tcfg.curves, IF W_curveNames = <<>> THEN DefaultCurves ELSE W_curveNames)
        /\ (W_alpnGiven # <<>> => SubSeq(tcfg.alpn, 1, Len(W_alpnGiven)) = W_alpnGiven)

\* ---- end to end: what a client can negotiate is what the configuration allows ------------------------------
HandshakeWithinConfig ==
    (pc = "hs" /\ hs.ok) =>
        LET o == Probes[p] IN
        /\ hs.ver >= tcfg.min /\ hs.ver <= tcfg.max /\ hs.ver >= o.vmin /\ hs.ver <= o.vmax
        /\ (hs.ver < 13 => hs.cipher \in Elems(Tail(tcfg.ciphers)) \cap o.suites)
        /\ (o.curve # "any" => Has(tcfg.curves, o.curve))
        /\ hs.asked = (tcfg.auth # "none")
        /\ (hs.alpn # "" => Has(tcfg.alpn, hs.alpn) /\ Has(o.alpn, hs.alpn))
        \* the written `clients` mode decides which client certificates get through
        /\ (W_auth = "requireany" => o.cc # "none")
        /\ (W_auth = "verifyifgiven" => o.cc # "other")
        /\ (W_auth = "requireandverify" => o.cc = "good")
\* a cipher list never switches TLS 1.3 off (and never makes a 1.3 connection depend on it)
TLS13UnaffectedByCipherList ==
    (pc = "hs" /\ Probes[p].vmax = 13 /\ tcfg.max = 13 /\ CurveOK(tcfg, Probes[p]) /\ ALPNOf(tcfg.alpn, Probes[p].alpn).ok
       /\ AcceptsCert(tcfg, Probes[p].cc)) => (hs.ok /\ hs.ver = 13 /\ hs.cipher = "tls13")
\* the handshake failing means that the configuration and the offer really have nothing in common
HandshakeFailsOnlyWhenDisjoint ==
    (pc = "hs" /\ ~hs.ok) =>
        LET o == Probes[p] IN
        \/ MaxN(tcfg.min, o.vmin) > MinN(tcfg.max, o.vmax)
        \/ ~CurveOK(tcfg, o) \/ ~ALPNOf(tcfg.alpn, o.alpn).ok \/ ~AcceptsCert(tcfg, o.cc)
        \/ EdKey /\ MinN(tcfg.max, o.vmax) < 12
        \/ /\ MinN(tcfg.max, o.vmax) < 13
           /\ Elems(Tail(tcfg.ciphers)) \cap o.suites \cap (IF MinN(tcfg.max, o.vmax) < 12 THEN {"EA128C"} ELSE ECSuites) = {}

TypeOK == /\ pc \in {"write", "enter", "next", "args", "block", "sub", "check", "ondemand", "loadcerts", "defaults", "selfsign",
                     "auto", "enable", "servers", "alpn", "lists", "acme", "copy", "cas", "scsv", "done", "rejected", "hs"}
          /\ Len(dirs) <= MaxDirs /\ d \in 0..Len(dirs)
          /\ cfg.auth \in {"none", "request", "requireany", "verifyifgiven", "requireandverify"}

\* =============================== case emission =========================================
\* one CASE per file, printed in the state in which its load has ended
Allowed(t, o, ed) == LET v == MinN(t.max, o.vmax) IN IF v >= 13 THEN {"tls13"} ELSE Usable(t, o, v, ed)
HSRow(t, o, ed) == LET h == HSOf(t, o, ed) IN
    <<IF h.ok THEN 1 ELSE 0, h.ver, h.cipher, IF h.ok THEN Allowed(t, o, ed) ELSE {}, IF h.asked THEN 1 ELSE 0, h.alpn>>
\* (the offers are printed once, from the initial state)
Emit ==
    /\ (pc = "write" /\ dirs = <<>> /\ host = "ip") => PrintT(<<"CASE", ToJson([probes |-> Probes])>>)
    /\ (pc = "rejected") => PrintT(<<"CASE", ToJson([host |-> host, dirs |-> dirs, free |-> Free, err |-> err])>>)
    /\ (pc = "done") => PrintT(<<"CASE", ToJson(
        [host |-> host, dirs |-> dirs, free |-> Free, err |-> err,
         cfg |-> [cfg EXCEPT !.certs = [self |-> "self" \in cfg.certs, pair |-> "pair" \in cfg.certs, dir |-> "dir" \in cfg.certs]],
         cdef |-> (W_cipherNames = <<>>),
         tls |-> tcfg, status |-> StatusOf(cfg),
         hs |-> IF Probeable THEN [i \in 1..Len(Probes) |-> HSRow(tcfg, Probes[i], EdKey)] ELSE <<>>])>>)
=============================================================================
