CONSTANTS N = 4
          Kinds = {"w", "c", "o", "x", "i", "p", "s", "f", "q", "e", "z"}
SPECIFICATION Spec
INVARIANT TypeOK
INVARIANT Emit
CHECK_DEADLOCK FALSE
