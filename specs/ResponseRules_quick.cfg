\* quick: every site with <= 1 line, one in Sample2 of the two-line sites; one in Extend3 of the two-line sites is extended, of those three-line sites one in Sample3
CONSTANT MaxLines = 3
CONSTANT Sample2 = 4
CONSTANT Sample3 = 20
CONSTANT Extend3 = 6
SPECIFICATION Spec
INVARIANT TypeOK
INVARIANT SetupRejectsDuplicatesAndBadArity
INVARIANT SetupInv
INVARIANT AllMatchingHeaderRulesApplyInOrder
INVARIANT HandlerWritesWinUnlessDeleted
INVARIANT MimeOnlyForItsExtension
INVARIANT StatusRuleAnswersExactlyItsPaths
INVARIANT RequestIDStableWithinRequest
INVARIANT IndexAndExtFirstExistingWins
INVARIANT FixedPaths
INVARIANT NoStuck
INVARIANT Emit
PROPERTY Progress
PROPERTY LoopsInOrder
CHECK_DEADLOCK FALSE
