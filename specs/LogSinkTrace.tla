---------------------------- MODULE LogSinkTrace ----------------------------
(***************************************************************************)
(* Validates ndjson traces recorded from real casket instances             *)
(* (harness/cx20logsink) against LogSink.tla.  One trace = one history of  *)
(* start / reload / SIGUSR1 reload / stop operations executed in process   *)
(* with bursts of keep-alive requests running across them, introduced by a *)
(* `reset` event (tr = number of the trace, gens = the generations that     *)
(* write entries in it).                                                   *)
(*                                                                         *)
(* Logged, each consuming one event:                                       *)
(*   call  the operation begins (type, configuration, scripted failure)    *)
(*   w     one entry written through logger <<g, s, i>>: read back from    *)
(*         the file and its backups (g = the generation the entry's own    *)
(*         text names); last = the last one of g in this trace; late = it  *)
(*         may have been written after the logger's Close.  The order      *)
(*         of the entries of one burst is not observable across files and  *)
(*         immaterial inside a file (entries have one length): they are    *)
(*         logged files-found-closed first, then by generation             *)
(*   wdrop a request was answered by generation g, sink <<s, i>> should    *)
(*         have got its entry, and the entry is nowhere                    *)
(*   ret   the operation returned (ok / err)                               *)
(*   obs   between operations, nothing in flight: per file the number of   *)
(*         descriptors of this process naming it (/proc/self/fd), the      *)
(*         entries in the current file, the entries of each backup (oldest *)
(*         first); final = the harness waited for the mill to settle       *)
(* Not logged, inferred by TLC as silent steps: every controller step      *)
(* between call and ret (Load, Attach ..., Close ...), Begin / End of      *)
(* requests, the mill.  The entries of a burst are logged after the burst, *)
(* so their place among the controller steps is TLC's to find: a burst     *)
(* that ran across a reload is accepted iff SOME interleaving of the       *)
(* reload's steps with these writes is a behaviour of LogSink.             *)
(***************************************************************************)
EXTENDS LogSink

VARIABLES l,       \* the next event
          more     \* generations of which entries are still to come in this trace
Trace == ndJsonDeserialize("trace.ndjson")
tvars == <<vars, l, more>>
Ev == Trace[l]
IsEvent(e) == l <= Len(Trace) /\ Trace[l].ev = e /\ l' = l + 1

TInit == Init /\ l = 1 /\ more = {}

\* Requests are not logged.  A generation has one request in flight from the moment it serves
\* until its last entry of the trace is written: Shutdown returning is no proof that no handler of
\* the old instance is still running (net/http closes a connection it takes for idle although its
\* next request is already buffered: the request is handled - and logged - all the same), so the
\* traces are validated with graceOn = TRUE.
BeginPending(x) == inst[x].st = "serving" /\ infl[x] = 0 /\ x \in more
EndPending(x) == infl[x] > 0 /\ x \notin more
\* controller steps that take nothing away from anybody run as soon as they can
Eager == pc \in {"load", "attach", "reject", "serve", "stopold", "drain"}
Settled == ~Eager /\ \A x \in Gens : ~BeginPending(x) /\ ~EndPending(x)

TReset ==
    /\ IsEvent("reset")
    /\ hist' = << >> /\ op' = NoOp /\ pc' = "idle" /\ k' = 0 /\ g' = NoGen /\ old' = NoGen
    /\ inst' = [x \in Gens |-> NoInst] /\ att' = {} /\ cls' = {}
    /\ lj' = [f \in RollFiles |-> NoLj] /\ rawopen' = {}
    /\ cur' = [f \in Files |-> << >>] /\ bk' = [f \in Files |-> << >>]
    /\ gone' = {} /\ dropped' = {} /\ late' = {} /\ clob' = FALSE
    /\ mill' = [f \in RollFiles |-> FALSE] /\ infl' = [x \in Gens |-> 0]
    /\ nw' = 0 /\ half' = NoHalf
    /\ graceOn' = TRUE
    /\ more' = {Ev.gens[j] : j \in 1..Len(Ev.gens)}

TCall == /\ IsEvent("call") /\ Settled
         /\ BeginOp([t |-> Ev.op.t, c |-> Ev.op.c, f |-> Ev.op.f])
         /\ UNCHANGED more

TRet == /\ IsEvent("ret") /\ Settled
        /\ \/ Ev.res = "ok" /\ Ret
           \/ Ev.res = "err" /\ Fail
        /\ UNCHANGED more

\* an entry whose request was answered at the first attempt was written before the logger's Close:
\* the server knew the connection to be busy and the drain waited for it.  Only a request that
\* had to be sent again (its connection was closed under it), was never answered, or ran in a
\* history with a shortened grace period may have been logged late (late = TRUE)
Written == /\ Settled
           /\ Ev.late \/ <<Ev.g, Ev.s, Ev.i>> \notin cls
           /\ Write(Ev.g, Ev.s, Ev.i)
           /\ more' = (IF Ev.last THEN more \ {Ev.g} ELSE more)
TWrite == IsEvent("w") /\ Written /\ dropped' = dropped
TDrop == IsEvent("wdrop") /\ Written /\ dropped' # dropped

\* the observation between operations
FileIs(f, o) ==
    /\ Cardinality(Handles(f)) = o.fds
    /\ Len(cur[f]) = 2 * o.cur
    /\ Len(bk[f]) = Len(o.bks)
    /\ \A j \in 1..Len(o.bks) : Len(bk[f][j]) = 2 * o.bks[j]
TObs == /\ IsEvent("obs") /\ Settled
        /\ pc = "idle"
        /\ FileIs("f1", Ev.files.f1) /\ FileIs("f2", Ev.files.f2) /\ FileIs("r1", Ev.files.r1)
        /\ Ev.final => \A f \in RollFiles : ~mill[f]
        /\ UNCHANGED <<vars, more>>

\* silent steps: requests as said above; the controller (the Close steps float among the writes:
\* whether a shared file is open at the next observation depends on whether something was
\* written after the old instance closed it); the mill where its run matters
\* the mill's run matters before an observation and before the write that rotates the file again
\* (two rotations with and without a run in between leave different sets of backups for a while)
MillMatters(f) == \/ Ev.ev = "obs"
                  \/ Ev.ev \in {"w", "wdrop"} /\ Ev.f = f /\ Len(cur[f]) >= 2 * Cap(lj[f].size)
Silent ==
    /\ l <= Len(Trace) /\ UNCHANGED <<l, more>>
    /\ \/ \E x \in Gens : BeginPending(x) /\ Begin(x)
       \/ (\A x \in Gens : ~BeginPending(x)) /\ \E x \in Gens : EndPending(x) /\ End(x)
       \/ (\A x \in Gens : ~BeginPending(x) /\ ~EndPending(x)) /\ Controller /\ pc \notin {"ret", "fail"}
       \/ Settled /\ \E f \in RollFiles : MillMatters(f) /\ MillRun(f)

TNext == TReset \/ TCall \/ TRet \/ TWrite \/ TDrop \/ TObs \/ Silent
TSpec == TInit /\ [][TNext]_tvars

\* the history variables late / gone / dropped record which entries were written after a Close,
\* pruned or refused: two placements of the Close steps among the same writes differ in nothing
\* else, so they are kept out of the fingerprint (cfg: VIEW TView) - the search stays linear
TView == <<ctl, inst, att, cls, lj, rawopen, cur, bk, clob, mill, nw, half, infl, graceOn, l, more>>

Constr == TLCSet(1, IF l > TLCGet(1) THEN l ELSE TLCGet(1))
Accepted == IF TLCGet(1) = Len(Trace) + 1 THEN TRUE
            ELSE Print(<<"REJECTED at event", TLCGet(1), Trace[TLCGet(1)]>>, FALSE)
ASSUME TLCSet(1, 0)
=============================================================================
