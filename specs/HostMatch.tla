----------------------------- MODULE HostMatch -----------------------------
(***************************************************************************)
(* Host-name matching shared by virtual-host routing (vhosttrie.go),       *)
(* the TLS config group (caskettls/handshake.go getConfig) and automatic   *)
(* HTTPS.  A host is a non-empty sequence of labels (the empty host is the *)
(* one-label sequence <<"">>, exactly what strings.Split("", ".") yields); *)
(* a pattern is a host some of whose LEADING labels are "*".               *)
(***************************************************************************)
EXTENDS Naturals, Sequences, FiniteSets

\* h with its first i labels replaced by "*"  (i = 0 is h itself)
Star(h, i) == [k \in 1..Len(h) |-> IF k <= i THEN "*" ELSE h[k]]

\* The candidate order of matchHost / getConfig: exact, then 1, 2, ... Len(h) stars.
Candidates(h) == [i \in 1..(Len(h) + 1) |-> Star(h, i - 1)]

\* Declarative side -------------------------------------------------------
\* pattern p matches host h with n leading wildcard labels
MatchesWith(p, h, n) == n \in 0..Len(h) /\ p = Star(h, n)
Matches(p, h) == \E n \in 0..Len(h) : MatchesWith(p, h, n)
StarsUsed(p, h) == CHOOSE n \in 0..Len(h) : MatchesWith(p, h, n) /\ \A m \in 0..Len(h) : MatchesWith(p, h, m) => n <= m

NoHost == <<"<none>">>

\* the most specific pattern of P matching h: exact, else fewest leading wildcards.
\* (patterns are determined by h and their number of stars, so minimising over the
\*  number of stars n with Star(h, n) \in P is the same as minimising over P)
MostSpecific(P, h) ==
    LET N == {n \in 0..Len(h) : Star(h, n) \in P}
    IN  IF N = {} THEN NoHost
        ELSE Star(h, CHOOSE n \in N : \A m \in N : n <= m)

\* Operational side: one loop iteration of matchHost is "look at candidate i".
\* FirstHit(P, h) is the result of running the loop to completion.
RECURSIVE ScanFrom(_, _, _)
ScanFrom(P, h, i) ==
    IF i > Len(h) + 1 THEN NoHost
    ELSE IF Candidates(h)[i] \in P THEN Candidates(h)[i]
    ELSE ScanFrom(P, h, i + 1)
FirstHit(P, h) == ScanFrom(P, h, 1)
=============================================================================
