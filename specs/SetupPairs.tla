----------------------------- MODULE SetupPairs -----------------------------
(***************************************************************************)
(* C11, a second small input family next to SetupGrammar.tla: TWO          *)
(* directives of one site that name the same log file, each with one       *)
(* roller sub-directive.  The grammar of SetupGrammar.tla has one          *)
(* directive per site; "validation and a real start agree" also has to     *)
(* hold where the verdict on one directive depends on what another one     *)
(* said (the rolling writer of a file is shared by everybody who logs to   *)
(* it).  Everything here is well-formed: validate accepts, so a start in   *)
(* an environment where the file can be written has to accept as well.     *)
(***************************************************************************)
EXTENDS Naturals, Sequences, TLC, Json

Dirs   == {"log", "errors"}
Roller == {"rotate_size", "rotate_age", "rotate_keep", "rotate_compress", "none"}
Vals   == {"1", "2"}

VARIABLES d1, k1, v1, d2, k2, v2
vars == <<d1, k1, v1, d2, k2, v2>>

\* (`errors` may be written once per site: the second directive is a `log` then)
Init == /\ d1 \in Dirs /\ d2 \in Dirs /\ ~(d1 = "errors" /\ d2 = "errors")
        /\ k1 \in Roller /\ k2 \in Roller /\ v1 \in Vals /\ v2 \in Vals
Next == UNCHANGED vars
Spec == Init /\ [][Next]_vars

TypeOK == d1 \in Dirs /\ d2 \in Dirs
\* what the statement asks of every such file
AcceptedByBoth == TRUE      \* judged on the real code's two verdicts (harness)

Emit == PrintT(<<"CASE", ToJson([pair |-> TRUE, d1 |-> d1, k1 |-> k1, v1 |-> v1, d2 |-> d2, k2 |-> k2, v2 |-> v2])>>)
=============================================================================
