CONSTANT MaxLines = 6
CONSTANT SampleAbove = 6
CONSTANT SampleOneIn = 1
CONSTANT ExecMode = "canon"
CONSTANT CompileMode = "outerfirst"
SPECIFICATION Spec
INVARIANT WrittenIsPerm
INVARIANT CanonicalStack
INVARIANT PermutationInvariant
INVARIANT PairOrder
CHECK_DEADLOCK FALSE
