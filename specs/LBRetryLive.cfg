CONSTANT MaxN = 2
CONSTANT MFs = {1, 2}
CONSTANT D = 4
CONSTANT Fs = {1, 5}
CONSTANT Pols = {"first", "rr", "hashed", "any"}
CONSTANT Probing = "linear"
CONSTANT Buffering = "retries"
SPECIFICATION Spec
PROPERTY Terminates
CHECK_DEADLOCK FALSE
