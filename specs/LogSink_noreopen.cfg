CONSTANTS CfgNames = {"share", "raw"}
 OpTypes = {"start", "reload", "stop"}
 MaxOps = 3
 MaxWrites = 3
 MaxConc = 1
 CapUnit = 1
 GRACE = FALSE
 EAGER_RAW = FALSE
 REOPEN = FALSE
 SPLIT_WRITE = FALSE
SPECIFICATION Spec
INVARIANTS TypeOK OneLineOneWrite NoLineLostOrDuplicated NothingDropped WriteOrderKept PrunedAreOldest SharedFileSingleWriter ClosedWhenLastUserGone ServingHasItsWriters NoWriteToClosed RollerSettingsOfWhom BackupsBounded RotationExact
CHECK_DEADLOCK FALSE
