\* the worker as found (select{} picks at random between a pending tick and the closed stop
\* channel): TLC refutes NoRoundAfterStop - Stop() can be kept waiting by further whole rounds.
\* Not part of the pipeline; the real code is shown to do it by harness/cx14health.
CONSTANTS NOpts = {2}
 NReq = 1
 Modes = {"ok", "s500"}
 MaxRounds = 3
 MaxSets = 0
 MaxEnv = 0
 MaxCalls = 0
 MaxSteps = 0
 FailsOpts = {1}
 ConnsOpts = {0}
 RetryOpts = {TRUE}
 ContainsOpts = {TRUE}
 HCOpts = {TRUE}
 Fixed = FALSE
SPECIFICATION Spec
VIEW view
INVARIANTS TypeOK FlagIsLastProbe NoRoundAfterStop
CHECK_DEADLOCK FALSE
