\* ticks of 50 ms; Skew / Slack = how early / late the recorded clock may show a deadline
CONSTANTS
 NOpts = {1, 2, 3, 4}
 ConcNOpts = {}
 MaxReq = 8
 ReqOpts = {8}
 ConcReq = 8
 PortModes = {"up", "refuse", "blackhole"}
 AnsModes = {"ok", "slow", "stall", "noread", "closeearly", "closemid", "stallbody"}
 MaxVisits = 4
 MaxFaults = 8
 ConcFaults = 8
 Kinds = {"php", "static", "big"}
 ConcKinds = {"php", "static", "big"}
 StaticAt = {}
 CTOpts = {4}
 RTOpts = {6}
 STOpts = {3}
 SD = 2
 MaxStart = 0
 Skew = 3
 Slack = 8
 CopyErrStatus = 0
 OrderedStart = FALSE
 PoolCap = 0
 EmitCases = FALSE
SPECIFICATION TSpec
CONSTRAINT Constr
INVARIANTS RoundRobinEven RoundRobinWindow RotationOnlyOnForward PoolBounded OpenBounded NoSharedConnection
 ReuseOnlyAfterCompleteResponse HandlerContract ClosedBeforeReturn NoFdLeak OutcomeByUpstream TimeoutBounded
POSTCONDITION Accepted
CHECK_DEADLOCK FALSE
