------------------------------ MODULE CasketJson ------------------------------
(***************************************************************************)
(* C10 (extension) - the JSON form of a Casketfile (casketfile/json.go:    *)
(* ToJSON / FromJSON) and the token-level entry points of the Dispenser    *)
(* (casketfile/dispenser.go: Next / NextArg / NextLine / NextBlock /       *)
(* NextBlockNesting / Args / RemainingArgs / Nesting) that every           *)
(* directive's setup function uses to walk its tokens.                     *)
(*                                                                         *)
(* ToJSON itself IS a dispenser walk (constructLine / constructBlock call  *)
(* Next and NextArg), so one module holds both: the dispenser is a state   *)
(* machine over (dtoks, cursor, nesting); in mode "walk" its calls are     *)
(* taken in every order, in mode "json" they are taken in the order        *)
(* json.go takes them.                                                     *)
(*                                                                         *)
(* Characters are one-letter strings. Upper-case letters are CLASSES the   *)
(* harness concretises, everything else stands for itself:                 *)
(*   S blank (space)       T tab            U a blank only Unicode knows   *)
(*   N line feed           R carriage return    (NBSP, VT, FF, U+0085 ...) *)
(*   Q double quote        B backslash      H '#'                          *)
(*   O '{'   C '}'         D '$'   P '%'    M ','                          *)
(*   E V  names of environment variables: E is set (to EnvE), V is unset   *)
(* A TEXT (token text, key, file content) is a sequence of characters.     *)
(* A brace token is the text <<"O">> / <<"C">>: after lexing a quoted "{"  *)
(* cannot be told from a brace (the harness writes braces both ways).      *)
(*                                                                         *)
(* Pipeline of mode "json" (one configuration per behaviour):              *)
(*   cfg (AST: snippet + server blocks of lines of texts)                  *)
(*    -ParseCfg->   blocks   what casketfile.Parse returns: imports        *)
(*                           inlined, {$E} expanded, tokens grouped        *)
(*    -TJ_*->       json     ToJSON: one action per dispenser call         *)
(*    -FJ_*->       text     FromJSON: one action per JSON element         *)
(*    -Reparse->    blocks   Parse(text)  = ParseTokens(Lex(text))         *)
(*    -TJ_*->       json     ToJSON again                                  *)
(* Guarantees (bottom of the module): RoundTripBlocks, RoundTripJson,      *)
(* Total (Terminates + RejectsWhatParseRejects), DispenserInvariants.      *)
(*                                                                         *)
(* Quoting = "repaired" is the design (json.go as repaired in the working  *)
(* tree); Quoting = "asfound" is jsonToText as it was found: TLC refutes   *)
(* RoundTripBlocks for it (CasketJson_asfound.cfg, run by hand).           *)
(***************************************************************************)
EXTENDS Naturals, Sequences, FiniteSets, TLC, Json

CONSTANTS Quoting,      \* "repaired" | "asfound"
          Shapes,       \* shapes of configurations to generate (see Cfg)
          BadShapes,    \* shapes Parse must reject
          KeyForms,     \* "plain" | "path" | "two"
          Slot1, Slot2, \* argument classes (names in ArgText) for the two argument slots of a shape
          WalkKinds,    \* arbitrary token sequences: kinds of tokens, "w" word, "m" word with a line feed in it, "o" "{", "c" "}"
          WalkToksN,    \* ... maximal length
          WalkLen,      \* ... number of calls of a walk over them
          WalkOps,      \* ... the calls
          ShapedLen,    \* walks over directive-shaped token lists: number of calls
          ShapedOps     \* ... the calls

ASSUME Quoting \in {"repaired", "asfound"}

\* =========================== texts ====================================================
Open   == <<"O">>
Close  == <<"C">>
Import == <<"i", "m", "p", "o", "r", "t">>
SnipNm == <<"s", "n">>
D1 == <<"d", "1">>
D2 == <<"d", "2">>
S1 == <<"s", "1">>
S2 == <<"s", "2">>
T1 == <<"t", "1">>
H1 == <<"h", "1">>
H2 == <<"h", "2">>
HP == <<"h", "1", "/", "p">>
G8 == <<"g", ":", "8", "0">>
EnvE == <<"e", "S", "v">>            \* value of the variable E: contains a blank

ArgText == [
  w   |-> <<"a", "b">>,                   \* plain word
  sp  |-> <<"a", "S", "b">>,              \* word with a space
  tb  |-> <<"a", "T", "b">>,              \* ... a tab
  em  |-> <<>>,                           \* "" - the empty string
  qt  |-> <<"a", "Q", "b">>,              \* embedded quote, no blank (may be written unquoted: a"b)
  qs  |-> <<"a", "S", "Q", "b", "Q">>,    \* embedded quotes and a blank
  q0  |-> <<"Q", "a">>,                   \* starts with a quote
  bs  |-> <<"a", "B", "b">>,              \* embedded backslash
  bss |-> <<"a", "S", "B", "b">>,         \* backslash and a blank
  bb  |-> <<"a", "S", "B", "B">>,         \* ends with two backslashes, inside quotes
  bq  |-> <<"a", "B", "Q", "b">>,         \* backslash in front of a quote: only an unquoted word can have this text
  nl  |-> <<"a", "N", "b">>,              \* embedded line feed
  cr  |-> <<"a", "R", "b">>,              \* embedded carriage return (kept inside quotes)
  us  |-> <<"a", "U", "b">>,              \* a blank that strings.ContainsAny(val, "\" \n\t\r") does not list
  hs  |-> <<"a", "H", "b">>,              \* '#' inside a quoted argument
  h0  |-> <<"H", "a">>,                   \* '#' at its start
  br  |-> <<"O", "p", "C">>,              \* request placeholder {p}: braces inside a word are ordinary characters
  ev  |-> <<"O", "D", "E", "C">>,         \* {$E}   -> e v (with a blank)
  ew  |-> <<"x", "O", "P", "E", "P", "C">>, \* x{%E%} -> xe v
  eu  |-> <<"O", "D", "V", "C">>,         \* {$V}   -> "" (unset)
  ex  |-> <<"x", "O", "D", "V", "C">>,    \* x{$V}  -> x
  ph  |-> <<"O", "D", "C">>               \* {$}    -> left alone
]

Blank(ch)   == ch \in {"S", "T", "U"}              \* unicode.IsSpace except LF and CR
IsSpace(ch) == Blank(ch) \/ ch \in {"N", "R"}
NumNL(t) == Cardinality({i \in 1..Len(t) : t[i] = "N"})       \* strings.Count(Text, "\n")

RECURSIVE Str(_, _)
Str(s, i) == IF i > Len(s) THEN "" ELSE s[i] \o Str(s, i + 1)

\* a total order on texts (sort.Strings): lexicographic over the rank of the characters
CharOrder == <<"T", "N", "R", "S", "Q", "H", "D", "P", "M", "/", "0", "1", "2", "8", ":", "B",
               "a", "b", "d", "e", "g", "h", "i", "m", "n", "o", "p", "r", "s", "t", "v", "x", "y", "O", "C", "U", "E", "V">>
Rank(ch) == CHOOSE i \in 1..Len(CharOrder) : CharOrder[i] = ch
RECURSIVE TextLess(_, _)
TextLess(a, b) ==
    IF a = <<>> THEN b # <<>>
    ELSE IF b = <<>> THEN FALSE
    ELSE IF Head(a) = Head(b) THEN TextLess(Tail(a), Tail(b))
    ELSE Rank(Head(a)) < Rank(Head(b))
MinText(S) == CHOOSE a \in S : \A b \in S : a = b \/ TextLess(a, b)
RECURSIVE SortTexts(_)
SortTexts(S) == IF S = {} THEN <<>> ELSE LET m == MinText(S) IN <<m>> \o SortTexts(S \ {m})

\* ---- parse.go replaceEnvVars: {%NAME%} and {$NAME}; an empty reference stops the replacement.
\* (One pass from the left; the code re-scans after every replacement, which is the same as long
\* as the values do not themselves contain references - they do not here.)
EnvVal(name) == IF name = <<"E">> THEN EnvE ELSE <<>>
FirstAt(s, from, ch) == IF \E j \in from..Len(s) : s[j] = ch
                        THEN CHOOSE j \in from..Len(s) : s[j] = ch /\ \A k \in from..(j - 1) : s[k] # ch
                        ELSE 0
RECURSIVE ExpandDollar(_)
ExpandDollar(s) ==
    IF Len(s) < 2 THEN s
    ELSE IF s[1] = "O" /\ s[2] = "D" /\ FirstAt(s, 2, "C") # 0
         THEN LET j == FirstAt(s, 2, "C")
              IN IF j = 3 THEN s
                 ELSE EnvVal(SubSeq(s, 3, j - 1)) \o ExpandDollar(SubSeq(s, j + 1, Len(s)))
         ELSE <<s[1]>> \o ExpandDollar(Tail(s))
PctEnd(s) == IF \E j \in 3..(Len(s) - 1) : s[j] = "P" /\ s[j + 1] = "C"
             THEN CHOOSE j \in 3..(Len(s) - 1) : s[j] = "P" /\ s[j + 1] = "C" /\ \A k \in 3..(j - 1) : ~(s[k] = "P" /\ s[k + 1] = "C")
             ELSE 0
RECURSIVE ExpandPercent(_)
ExpandPercent(s) ==
    IF Len(s) < 2 THEN s
    ELSE IF s[1] = "O" /\ s[2] = "P" /\ PctEnd(s) # 0
         THEN LET j == PctEnd(s)
              IN IF j = 3 THEN s
                 ELSE EnvVal(SubSeq(s, 3, j - 1)) \o ExpandPercent(SubSeq(s, j + 2, Len(s)))
         ELSE <<s[1]>> \o ExpandPercent(Tail(s))
Expand(s) == ExpandDollar(ExpandPercent(s))

\* =========================== the lexer as a function ===================================
\* The function computed by the state machine of Lexer.tla (casketfile/lexer.go next()),
\* over this module's alphabet. A token is [t text, l line, x import expansion it came in by].
Tok(t, l, x) == [t |-> t, l |-> l, x |-> x]
LexInit == [val |-> <<>>, q |-> FALSE, e |-> FALSE, c |-> FALSE, ln |-> 1, tl |-> 0]
LexReset(s) == [s EXCEPT !.val = <<>>, !.q = FALSE, !.e = FALSE, !.c = FALSE]    \* the locals of next()
\* one character: [s |-> new state, out |-> <<>> or <<token>>]
LexStep(s, ch) ==
    IF s.q THEN
        IF ~s.e /\ ch = "B" THEN [s |-> [s EXCEPT !.e = TRUE], out |-> <<>>]
        ELSE IF ~s.e /\ ch = "Q" THEN [s |-> LexReset(s), out |-> <<Tok(s.val, s.tl, 0)>>]
        ELSE [s |-> [s EXCEPT !.ln = IF ch = "N" THEN @ + 1 ELSE @,
                              !.val = (IF s.e /\ ch # "Q" THEN Append(@, "B") ELSE @) \o <<ch>>,
                              !.e = FALSE],
              out |-> <<>>]
    ELSE IF ch = "R" THEN [s |-> s, out |-> <<>>]
    ELSE IF Blank(ch) \/ ch = "N" THEN
        LET s1 == [s EXCEPT !.ln = IF ch = "N" THEN @ + 1 ELSE @, !.c = IF ch = "N" THEN FALSE ELSE @]
        IN IF Len(s.val) > 0 THEN [s |-> LexReset(s1), out |-> <<Tok(s.val, s.tl, 0)>>]
           ELSE [s |-> s1, out |-> <<>>]
    ELSE IF ch = "H" \/ s.c THEN [s |-> [s EXCEPT !.c = TRUE], out |-> <<>>]
    ELSE IF Len(s.val) = 0
         THEN IF ch = "Q" THEN [s |-> [s EXCEPT !.tl = s.ln, !.q = TRUE], out |-> <<>>]
              ELSE [s |-> [s EXCEPT !.tl = s.ln, !.val = <<ch>>], out |-> <<>>]
    ELSE [s |-> [s EXCEPT !.val = Append(@, ch)], out |-> <<>>]
RECURSIVE LexR(_, _, _)
LexR(tx, i, s) ==
    IF i > Len(tx) THEN (IF Len(s.val) > 0 THEN <<Tok(s.val, s.tl, 0)>> ELSE <<>>)
    ELSE LET r == LexStep(s, tx[i]) IN r.out \o LexR(tx, i + 1, r.s)
Lex(tx) == LexR(tx, 1, LexInit)

\* =========================== token relations ===========================================
\* lexer.go isNextOnNewLine (t1.File # t2.File cannot happen here: one file per configuration)
NewLine(a, b) == a.x # b.x \/ a.l + NumNL(a.t) < b.l
\* the test inside Dispenser.NextArg
ArgFollows(a, b) == a.x = b.x /\ a.l + NumNL(a.t) = b.l
\* what is compared across a round trip: texts and where lines start
LineShape(tk) == [i \in 1..Len(tk) |-> [t |-> tk[i].t, nl |-> (i = 1 \/ NewLine(tk[i - 1], tk[i]))]]

\* =========================== Parse ====================================================
\* A server block is [keys |-> <<text>>, dirs |-> [name -> <<token>>]] (ServerBlock.Tokens).
AddTok(acc, n, t) ==
    IF n \in DOMAIN acc THEN [acc EXCEPT ![n] = Append(@, t)]
    ELSE [m \in (DOMAIN acc) \cup {n} |-> IF m = n THEN <<t>> ELSE acc[m]]

\* parser.directives()/directive() from the token after the block's "{": [ok, dirs, nx] with nx
\* the index of the closing brace. Tests in the order of the code: "{" counts before the line
\* test; "}" at nesting 0 on the directive's own line is an error; a new line at nesting 0 ends
\* the directive; running out of tokens is an error (EOF inside a block / no closing brace).
RECURSIVE PDirs(_, _, _, _, _)
PDirs(tk, i, name, nest, acc) ==      \* name = <<"none">> between directives
    IF i > Len(tk) THEN [ok |-> FALSE, dirs |-> acc, nx |-> i]
    ELSE LET t == tk[i] IN
      IF name = <<"none">> THEN
           IF t.t = Close THEN [ok |-> TRUE, dirs |-> acc, nx |-> i]
           ELSE LET n == Expand(t.t) IN PDirs(tk, i + 1, n, 0, AddTok(acc, n, t))
      ELSE IF t.t = Open THEN PDirs(tk, i + 1, name, nest + 1, AddTok(acc, name, t))
      ELSE IF NewLine(tk[i - 1], t) /\ nest = 0 THEN PDirs(tk, i, <<"none">>, 0, acc)
      ELSE IF t.t = Close /\ nest > 0 THEN PDirs(tk, i + 1, name, nest - 1, AddTok(acc, name, t))
      ELSE IF t.t = Close THEN [ok |-> FALSE, dirs |-> acc, nx |-> i]
      ELSE PDirs(tk, i + 1, name, nest, AddTok(acc, name, [t EXCEPT !.t = Expand(t.t)]))

\* parser.addresses(): [ok, keys, nx] with nx the index of the "{" that ends the keys
RECURSIVE PKeys(_, _, _, _)
PKeys(tk, i, keys, expecting) ==
    LET t == Expand(tk[i].t) IN
    IF t = Open THEN [ok |-> ~expecting, keys |-> keys, nx |-> i]
    ELSE LET comma == t # <<>> /\ t[Len(t)] = "M"
             k     == IF comma THEN SubSeq(t, 1, Len(t) - 1) ELSE t
             keys2 == IF t = <<>> THEN keys ELSE Append(keys, k)
             exp2  == IF t = <<>> THEN expecting ELSE comma
         IN IF i = Len(tk) THEN [ok |-> FALSE, keys |-> keys2, nx |-> i]     \* keys only (accepted by Parse, never written by FromJSON)
            ELSE IF ~exp2 /\ NewLine(tk[i], tk[i + 1]) THEN [ok |-> FALSE, keys |-> keys2, nx |-> i]   \* block without braces (ditto)
            ELSE PKeys(tk, i + 1, keys2, exp2)

\* Parse of a token list in which every server block has its braces (what FromJSON writes):
\* [ok, bs]; ok = FALSE stands for "an error, or at any rate not what was written".
Bad == [ok |-> FALSE, bs |-> <<>>]
RECURSIVE ParseTokens(_, _, _)
ParseTokens(tk, i, acc) ==
    IF i > Len(tk) THEN [ok |-> TRUE, bs |-> acc]
    ELSE LET k == PKeys(tk, i, <<>>, FALSE) IN
         IF ~k.ok THEN Bad
         ELSE LET d == PDirs(tk, k.nx + 1, <<"none">>, 0, <<>>) IN
              IF ~d.ok THEN Bad
              ELSE ParseTokens(tk, d.nx + 1, IF k.keys = <<>> THEN acc ELSE Append(acc, [keys |-> k.keys, dirs |-> d.dirs]))

\* ---- the AST of a configuration and what Parse makes of it -------------------------------
\* cfg = [snip |-> lines of the snippet (sn), <<>> if there is none,
\*        blocks |-> << [keys |-> <<text>>, body |-> <<line>>] >>],   line = <<text>>, not empty.
\* A line that ends in Open opens a sub-block, the line <<Close>> closes one, <<Import, SnipNm>>
\* imports the snippet. The harness writes the text (layout, quoting, snippet first).
RECURSIVE LineToks(_, _, _, _)
LineToks(ln, i, no, x) == IF i > Len(ln) THEN <<>>
                          ELSE <<Tok(ln[i], no, x)>> \o LineToks(ln, i + 1, no + NumNL(ln[i]), x)
RECURSIVE LinesToks(_, _, _)
LinesToks(lines, no, x) ==
    IF lines = <<>> THEN <<>>
    ELSE LET lt == LineToks(Head(lines), 1, no, x)
             last == lt[Len(lt)]
         IN lt \o LinesToks(Tail(lines), last.l + NumNL(last.t) + 1, x)
LinesHeight(lines) == LET lt == LinesToks(lines, 1, 0) IN IF lt = <<>> THEN 0 ELSE lt[Len(lt)].l + NumNL(lt[Len(lt)].t)
\* doImport: the import line is replaced by the snippet's tokens; they keep the line numbers of the
\* definition (the snippet stands first in the file, its body starts on line 2) and every
\* expansion is a fresh import chain (x)
RECURSIVE BodyToks(_, _, _, _)
BodyToks(body, no, snip, x) ==
    IF body = <<>> THEN <<>>
    ELSE IF Head(body)[1] = Import
         THEN LinesToks(snip, 2, x + 1) \o BodyToks(Tail(body), no + 1, snip, x + 1)
         ELSE LET lt == LineToks(Head(body), 1, no, 0)
                  last == lt[Len(lt)]
              IN lt \o BodyToks(Tail(body), last.l + NumNL(last.t) + 1, snip, x)
NImports(body) == Cardinality({i \in 1..Len(body) : body[i][1] = Import})
RECURSIVE ParseBlocks(_, _, _, _)
ParseBlocks(bs, no, snip, x) ==          \* no = line of the block's keys
    IF bs = <<>> THEN [ok |-> TRUE, bs |-> <<>>]
    ELSE LET b  == Head(bs)
             tk == BodyToks(b.body, no + 1, snip, x) \o <<Tok(Close, 100 + no, 0)>>    \* the block's own "}" (its exact line is immaterial)
             d  == PDirs(tk, 1, <<"none">>, 0, <<>>)
             rest == ParseBlocks(Tail(bs), no + LinesHeight(b.body) + 3, snip, x + NImports(b.body))
         IN IF ~d.ok \/ d.nx # Len(tk) \/ ~rest.ok THEN Bad
            ELSE [ok |-> TRUE, bs |-> <<[keys |-> [k \in 1..Len(b.keys) |-> Expand(b.keys[k])], dirs |-> d.dirs]>> \o rest.bs]
\* doImport: an import needs exactly one argument and something to import (here: the snippet)
ImportsOK(c) == \A i \in 1..Len(c.blocks) : \A k \in 1..Len(c.blocks[i].body) :
                   LET ln == c.blocks[i].body[k] IN ln[1] = Import => (Len(ln) = 2 /\ ln[2] = SnipNm /\ c.snip # <<>>)
ParseCfgOf(c) == IF ~ImportsOK(c) THEN Bad
                 ELSE ParseBlocks(c.blocks, IF c.snip = <<>> THEN 1 ELSE LinesHeight(c.snip) + 3, c.snip, 0)

\* ---- the shapes -------------------------------------------------------------------------
Keys(kf) == CASE kf = "plain" -> <<H1>> [] kf = "path" -> <<HP>> [] kf = "two" -> <<H1, G8>>
OneBlock(kf, body) == [snip |-> <<>>, blocks |-> <<[keys |-> Keys(kf), body |-> body]>>]
Cfg(sh, kf, a, b) ==
    CASE sh = "args"      -> OneBlock(kf, << <<D1, a, b>> >>)
      [] sh = "block"     -> OneBlock(kf, << <<D1, Open>>, <<S1, a>>, <<S2, b, a>>, <<Close>> >>)
      [] sh = "argsblock" -> OneBlock(kf, << <<D1, a, Open>>, <<S1, b>>, <<Close>> >>)
      [] sh = "nested"    -> OneBlock(kf, << <<D1, Open>>, <<S1, a, Open>>, <<T1, b>>, <<Close>>, <<S2>>, <<Close>> >>)
      [] sh = "deep"      -> OneBlock(kf, << <<D1, a, Open>>, <<S1, Open>>, <<T1, Open>>, <<S2, b>>, <<Close>>, <<Close>>, <<Close>>, <<D2>> >>)
      [] sh = "empty"     -> OneBlock(kf, << <<D1, a, Open>>, <<Close>>, <<D2, b>> >>)
      [] sh = "twodirs"   -> OneBlock(kf, << <<D2, a>>, <<D1, b>>, <<D2, <<"x">>>> >>)
      [] sh = "twoblocks" -> [snip |-> <<>>, blocks |-> << [keys |-> Keys(kf), body |-> << <<D1, a>> >>],
                                                          [keys |-> <<H2>>, body |-> << <<D1, b>>, <<D2>> >>] >>]
      [] sh = "snippet"   -> [snip |-> << <<S1, a>> >>,       \* one line: two expansions in a row carry the same line number
                              blocks |-> << [keys |-> Keys(kf), body |-> << <<Import, SnipNm>>, <<D1, b, Open>>, <<Import, SnipNm>>, <<Import, SnipNm>>, <<Close>> >>] >>]
      \* ---- configurations Parse rejects
      [] sh = "strayclose" -> OneBlock(kf, << <<D1, a, Close>>, <<D2, b>> >>)                 \* "}" without an opening brace
      [] sh = "badimport"  -> OneBlock(kf, << <<D1, a, b>>, <<Import, <<"n", "o">>>> >>)       \* nothing of that name to import
\* directive-shaped token lists for the dispenser walks (what a setup function is handed)
ShapedToks == LET c(sh) == ParseCfgOf(Cfg(sh, "plain", ArgText.w, ArgText.nl)).bs[1].dirs[D1]
              IN {c("block"), c("argsblock"), c("nested"), c("empty"), c("deep"), c("snippet")}

\* =========================== the Dispenser ============================================
\* cursor 0 = nothing loaded yet (Go: -1); cursor k = token k is loaded (Go: k-1).
Val(tk, c) == IF c < 1 \/ c > Len(tk) THEN <<>> ELSE tk[c].t
DNext(tk, c) == IF c < Len(tk) THEN [ok |-> TRUE, c |-> c + 1] ELSE [ok |-> FALSE, c |-> c]
DNextArg(tk, c) ==
    IF c = 0 THEN [ok |-> TRUE, c |-> 1]
    ELSE IF c > Len(tk) THEN [ok |-> FALSE, c |-> c]
    ELSE IF c < Len(tk) /\ ArgFollows(tk[c], tk[c + 1]) THEN [ok |-> TRUE, c |-> c + 1]
    ELSE [ok |-> FALSE, c |-> c]
DNextLine(tk, c) ==
    IF c = 0 THEN [ok |-> TRUE, c |-> 1]
    ELSE IF c >= Len(tk) THEN [ok |-> FALSE, c |-> c]
    ELSE IF NewLine(tk[c], tk[c + 1]) THEN [ok |-> TRUE, c |-> c + 1]
    ELSE [ok |-> FALSE, c |-> c]
DSameLine(tk, c) ==          \* nextOnSameLine (unexported, used by NextBlockNesting)
    IF c = 0 THEN [ok |-> TRUE, c |-> 1]
    ELSE IF c >= Len(tk) THEN [ok |-> FALSE, c |-> c]
    ELSE IF ~NewLine(tk[c], tk[c + 1]) THEN [ok |-> TRUE, c |-> c + 1]
    ELSE [ok |-> FALSE, c |-> c]
\* NextBlockNesting(init). Note the side effect kept from the code: "Val()=='}' && !nextOnSameLine()"
\* ADVANCES the cursor when the brace is followed by a token on its line (then the brace does not count).
DNextBlock(tk, c, n, init) ==
    IF n > init THEN
        LET r == DNext(tk, c) IN
        IF ~r.ok THEN [ok |-> FALSE, c |-> c, n |-> n]
        ELSE LET brace(cc, kind) == Val(tk, cc) = kind
                 s1 == DSameLine(tk, r.c)
                 res(cc, nn) == [ok |-> nn > init, c |-> cc, n |-> nn]
             IN IF brace(r.c, Close)
                THEN IF ~s1.ok THEN res(r.c, n - 1)
                     ELSE IF brace(s1.c, Open)
                          THEN LET s2 == DSameLine(tk, s1.c) IN IF ~s2.ok THEN res(s1.c, n + 1) ELSE res(s2.c, n)
                          ELSE res(s1.c, n)
                ELSE IF brace(r.c, Open)
                     THEN IF ~s1.ok THEN res(r.c, n + 1) ELSE res(s1.c, n)
                     ELSE res(r.c, n)
    ELSE LET s == DSameLine(tk, c) IN
         IF ~s.ok THEN [ok |-> FALSE, c |-> c, n |-> n]                    \* block must open on same line
         ELSE IF Val(tk, s.c) # Open THEN [ok |-> FALSE, c |-> s.c - 1, n |-> n]   \* roll back
         ELSE LET r == DNext(tk, s.c) IN                                  \* consume open curly brace
              IF Val(tk, r.c) = Close THEN [ok |-> FALSE, c |-> r.c, n |-> n]      \* open and then closed right away
              ELSE [ok |-> TRUE, c |-> r.c, n |-> n + 1]
RECURSIVE DRemaining(_, _, _)
DRemaining(tk, c, acc) ==
    LET r == DNextArg(tk, c) IN
    IF ~r.ok THEN [c |-> c, a |-> acc]
    ELSE IF Val(tk, r.c) = Open THEN [c |-> r.c - 1, a |-> acc]
    ELSE DRemaining(tk, r.c, Append(acc, Val(tk, r.c)))
RECURSIVE DArgs(_, _, _, _)
DArgs(tk, c, k, acc) ==      \* Args(&t1 .. &tk)
    IF k = 0 THEN [ok |-> TRUE, c |-> c, a |-> acc]
    ELSE LET r == DNextArg(tk, c) IN
         IF ~r.ok THEN [ok |-> FALSE, c |-> c, a |-> acc]
         ELSE DArgs(tk, r.c, k - 1, Append(acc, Val(tk, r.c)))

\* =========================== state ====================================================
VARIABLES mode,      \* "parse" | "tojson" | "fromjson" | "reparse" | "done" | "rejected" | "walk"
          meta,      \* how the configuration / walk was chosen (identity of the emitted case)
          cfg,       \* the AST (mode json)
          blocks,    \* Parse result being converted by ToJSON
          perr,      \* the last Parse returned an error
          blocks1,   \* Parse result of the original text
          round,     \* 1: ToJSON(T); 2: ToJSON(FromJSON(ToJSON(T)))
          bi,        \* ToJSON: index of the server block being converted, 0 before the first
          jdirs,     \* ToJSON: the sorted slice "directives" still to do in this block
          dtoks, cursor, nesting,     \* the Dispenser
          stack,     \* ToJSON: the Go call stack below ToJSON: "L" constructLine, "B" constructBlock
          json,      \* the EncodedCasketfile built so far, serialised: sequence of [k, v]
          json1,     \* ToJSON(T)
          text,      \* FromJSON: the Casketfile text written so far
          fi, fdepth,  \* FromJSON: next element of json1, current depth
          hist,      \* walk: the calls made so far with their results
          saved,     \* walk: the value the last Nesting() call returned
          steps      \* ghost: the number of steps taken so far (bounded => no run goes on for ever)
vars == <<mode, meta, cfg, blocks, perr, blocks1, round, bi, jdirs, dtoks, cursor, nesting, stack, json, json1, text, fi, fdepth, hist, saved, steps>>
Tick == steps' = steps + 1

Item(k, v) == [k |-> k, v |-> v]

InitJson ==
    /\ mode = "parse"
    /\ \E sh \in Shapes \cup BadShapes, kf \in KeyForms, a \in Slot1, b \in Slot2 :
          /\ (kf # "plain" => sh \in {"args", "twoblocks"})            \* key forms are varied on two shapes only
          /\ meta = [sh |-> sh, kf |-> kf, a |-> a, b |-> b]
          /\ cfg = Cfg(sh, kf, ArgText[a], ArgText[b])
    /\ blocks = <<>> /\ perr = FALSE /\ blocks1 = <<>> /\ round = 1 /\ bi = 0 /\ jdirs = <<>>
    /\ dtoks = <<>> /\ cursor = 0 /\ nesting = 0 /\ stack = <<>> /\ json = <<>> /\ json1 = <<>>
    /\ text = <<>> /\ fi = 1 /\ fdepth = 0 /\ hist = <<>> /\ saved = 0 /\ steps = 0

\* arbitrary token lists: every token is a word, a multi-line word, "{" or "}", on the line of its
\* predecessor or on the next one
KindText(k) == CASE k = "w" -> <<"a">> [] k = "m" -> <<"a", "N", "b">> [] k = "o" -> Open [] k = "c" -> Close
RECURSIVE ArbToks(_)
ArbToks(n) == IF n = 0 THEN {<<>>}
              ELSE LET S == ArbToks(n - 1) IN
                   S \cup {Append(s, Tok(KindText(k), (IF s = <<>> THEN 1 ELSE s[Len(s)].l + NumNL(s[Len(s)].t) + d), 0)) :
                             s \in {s0 \in S : Len(s0) = n - 1}, k \in WalkKinds, d \in 0..1}
InitWalk ==
    /\ mode = "walk"
    /\ \/ \E tk \in (ArbToks(WalkToksN) \ {<<>>}) : dtoks = tk /\ meta = [src |-> "arbitrary", len |-> WalkLen]
       \/ \E tk \in ShapedToks : dtoks = tk /\ meta = [src |-> "shaped", len |-> ShapedLen]
    /\ cfg = <<>> /\ blocks = <<>> /\ perr = FALSE /\ blocks1 = <<>> /\ round = 1 /\ bi = 0 /\ jdirs = <<>>
    /\ cursor = 0 /\ nesting = 0 /\ stack = <<>> /\ json = <<>> /\ json1 = <<>>
    /\ text = <<>> /\ fi = 1 /\ fdepth = 0 /\ hist = <<>> /\ saved = 0 /\ steps = 0

Init == InitJson \/ InitWalk

\* =========================== ToJSON ===================================================
\* serverBlocks, err := Parse(...); if err != nil { return nil, err }
ParseCfg ==
    /\ mode = "parse"
    /\ LET r == ParseCfgOf(cfg) IN
       /\ blocks' = r.bs /\ blocks1' = r.bs /\ perr' = ~r.ok
       /\ mode' = IF ~r.ok THEN "rejected" ELSE "tojson"
    /\ UNCHANGED <<meta, cfg, round, bi, jdirs, dtoks, cursor, nesting, stack, json, json1, text, fi, fdepth, hist, saved>> /\ Tick

Converting == mode = "tojson" /\ ~perr
InBlock    == Converting /\ bi >= 1 /\ bi <= Len(blocks)
Idle       == stack = <<>> /\ dtoks = <<>> /\ cursor = 0     \* between two directives

\* for _, sb := range serverBlocks: block := {Keys: sb.Keys, Body: [][]interface{}{}}; the slice
\* "directives" is made with len(sb.Tokens) empty strings in front of the names (make(.., len) +
\* append) and sorted: the empty names come first and find no tokens.
TJ_Block ==
    /\ Converting /\ Idle /\ jdirs = <<>> /\ bi < Len(blocks)
    /\ (bi >= 1 => json # <<>> /\ json[Len(json)].k = ")body")
    /\ bi' = bi + 1
    /\ LET sb == blocks[bi + 1]
           names == DOMAIN sb.dirs
       IN /\ json' = json \o <<Item("SB", <<>>)>> \o [i \in 1..Len(sb.keys) |-> Item("key", sb.keys[i])] \o <<Item("body(", <<>>)>>
          /\ jdirs' = [i \in 1..Cardinality(names) |-> <<>>] \o SortTexts(names)
    /\ UNCHANGED <<mode, meta, cfg, blocks, perr, blocks1, round, dtoks, cursor, nesting, stack, json1, text, fi, fdepth, hist, saved>> /\ Tick

\* for _, dir := range directives { disp := NewDispenserTokens(filename, sb.Tokens[dir])
TJ_Dir ==
    /\ InBlock /\ Idle /\ jdirs # <<>>
    /\ json[Len(json)].k # ")body"
    /\ LET dir == Head(jdirs) IN
       IF dir \in DOMAIN blocks[bi].dirs
       THEN dtoks' = blocks[bi].dirs[dir] /\ jdirs' = Tail(jdirs)
       ELSE dtoks' = <<>> /\ jdirs' = Tail(jdirs)           \* sb.Tokens[""] = nil: "for disp.Next()" does not run
    /\ cursor' = 0 /\ nesting' = 0
    /\ UNCHANGED <<mode, meta, cfg, blocks, perr, blocks1, round, bi, stack, json, json1, text, fi, fdepth, hist, saved>> /\ Tick

\* for disp.Next() { block.Body = append(block.Body, constructLine(&disp)) }   (first statement of
\* constructLine included: args = append(args, d.Val()))
TJ_TopNext ==
    /\ InBlock /\ stack = <<>> /\ dtoks # <<>>
    /\ LET r == DNext(dtoks, cursor) IN
       IF r.ok THEN /\ cursor' = r.c
                    /\ json' = json \o <<Item("L(", <<>>), Item("str", Val(dtoks, r.c))>>
                    /\ stack' = <<"L">>
                    /\ dtoks' = dtoks
               ELSE /\ cursor' = 0 /\ dtoks' = <<>> /\ json' = json /\ stack' = stack     \* the directive is done
    /\ UNCHANGED <<mode, meta, cfg, blocks, perr, blocks1, round, bi, jdirs, nesting, json1, text, fi, fdepth, hist, saved>> /\ Tick

\* constructLine: for d.NextArg() { if d.Val() == "{" { args = append(args, constructBlock(d)); continue }
\*                                  args = append(args, d.Val()) }  return args
TJ_Arg ==
    /\ InBlock /\ stack # <<>> /\ Head(stack) = "L"
    /\ LET r == DNextArg(dtoks, cursor) IN
       /\ cursor' = r.c
       /\ IF ~r.ok THEN json' = Append(json, Item(")L", <<>>)) /\ stack' = Tail(stack)
          ELSE IF Val(dtoks, r.c) = Open THEN json' = Append(json, Item("B(", <<>>)) /\ stack' = <<"B">> \o stack
          ELSE json' = Append(json, Item("str", Val(dtoks, r.c))) /\ stack' = stack
    /\ UNCHANGED <<mode, meta, cfg, blocks, perr, blocks1, round, bi, jdirs, dtoks, nesting, json1, text, fi, fdepth, hist, saved>> /\ Tick

\* constructBlock: for d.Next() { if d.Val() == "}" { break }; block = append(block, constructLine(d)) }
TJ_BlockNext ==
    /\ InBlock /\ stack # <<>> /\ Head(stack) = "B"
    /\ LET r == DNext(dtoks, cursor) IN
       /\ cursor' = r.c
       /\ IF ~r.ok \/ Val(dtoks, r.c) = Close
          THEN json' = Append(json, Item(")B", <<>>)) /\ stack' = Tail(stack)
          ELSE json' = json \o <<Item("L(", <<>>), Item("str", Val(dtoks, r.c))>> /\ stack' = <<"L">> \o stack
    /\ UNCHANGED <<mode, meta, cfg, blocks, perr, blocks1, round, bi, jdirs, dtoks, nesting, json1, text, fi, fdepth, hist, saved>> /\ Tick

\* j = append(j, block)
TJ_EndBlock ==
    /\ InBlock /\ Idle /\ jdirs = <<>> /\ json[Len(json)].k # ")body"
    /\ json' = Append(json, Item(")body", <<>>))
    /\ UNCHANGED <<mode, meta, cfg, blocks, perr, blocks1, round, bi, jdirs, dtoks, cursor, nesting, stack, json1, text, fi, fdepth, hist, saved>> /\ Tick

\* result, err := json.Marshal(j)
TJ_Marshal ==
    /\ Converting /\ Idle /\ jdirs = <<>> /\ bi = Len(blocks)
    /\ (bi >= 1 => json[Len(json)].k = ")body")
    /\ IF round = 1 THEN /\ json1' = json /\ mode' = "fromjson" /\ fi' = 1 /\ text' = <<>> /\ fdepth' = 0
                    ELSE /\ mode' = "done" /\ UNCHANGED <<json1, fi, text, fdepth>>
    /\ UNCHANGED <<meta, cfg, blocks, perr, blocks1, round, bi, jdirs, dtoks, cursor, nesting, stack, json, hist, saved>> /\ Tick

\* =========================== FromJSON =================================================
\* jsonToText, case string. As found: quoted iff it contains one of `" \n\t\r` and a blank;
\* repaired: quoted iff the lexer would not read it back as one token with this text - it is
\* empty, starts with a quote, or contains white space (any unicode.IsSpace) or '#'. Inside
\* quotes every quote gets a backslash (the only escape the lexer knows).
NeedsQuotes(v) ==
    IF Quoting = "asfound" THEN \E i \in 1..Len(v) : v[i] \in {"Q", "S", "N", "T", "R"}
    ELSE v = <<>> \/ v[1] = "Q" \/ \E i \in 1..Len(v) : IsSpace(v[i]) \/ v[i] = "H"
RECURSIVE Escaped(_)
Escaped(v) == IF v = <<>> THEN <<>> ELSE (IF Head(v) = "Q" THEN <<"B", "Q">> ELSE <<Head(v)>>) \o Escaped(Tail(v))
Spell(v) == IF NeedsQuotes(v) THEN <<"Q">> \o Escaped(v) \o <<"Q">> ELSE v
Tabs(n) == [i \in 1..n |-> "T"]

Writing == mode = "fromjson" /\ fi <= Len(json1)
Cur == json1[fi]
Emit(chars) == text' = text \o chars /\ fi' = fi + 1
FJ_Frame == Tick /\ UNCHANGED <<mode, meta, cfg, blocks, perr, blocks1, round, bi, jdirs, dtoks, cursor, nesting, stack, json, json1, hist, saved>>

FJ_ServerBlock == Writing /\ Cur.k = "SB" /\ Emit(IF fi > 1 THEN <<"N", "N">> ELSE <<>>) /\ fdepth' = 0 /\ FJ_Frame
FJ_Key ==        \* result += key, ", " between keys (keys are written as they are)
    /\ Writing /\ Cur.k = "key"
    /\ Emit((IF json1[fi - 1].k = "key" THEN <<"M", "S">> ELSE <<>>) \o Cur.v)
    /\ fdepth' = fdepth /\ FJ_Frame
FJ_BodyOpen   == Writing /\ Cur.k = "body(" /\ Emit(<<"S", "O", "N">>) /\ fdepth' = 1 /\ FJ_Frame
FJ_LineStart  == Writing /\ Cur.k = "L(" /\ Emit(Tabs(fdepth)) /\ fdepth' = fdepth /\ FJ_Frame
FJ_String     == Writing /\ Cur.k = "str"
                 /\ Emit(Spell(Cur.v) \o (IF json1[fi + 1].k # ")L" THEN <<"S">> ELSE <<>>))
                 /\ fdepth' = fdepth /\ FJ_Frame
FJ_BlockOpen  == Writing /\ Cur.k = "B(" /\ Emit(<<"O", "N">>) /\ fdepth' = fdepth + 1 /\ FJ_Frame
FJ_BlockClose == Writing /\ Cur.k = ")B" /\ Emit(Tabs(fdepth - 1) \o <<"C">>) /\ fdepth' = fdepth - 1 /\ FJ_Frame
FJ_LineEnd    == Writing /\ Cur.k = ")L" /\ Emit(<<"N">>) /\ fdepth' = fdepth /\ FJ_Frame
FJ_BodyClose  == Writing /\ Cur.k = ")body" /\ Emit(<<"C">>) /\ fdepth' = 0 /\ FJ_Frame
FJ_Return ==
    /\ mode = "fromjson" /\ fi > Len(json1)
    /\ mode' = "reparse"
    /\ UNCHANGED <<meta, cfg, blocks, perr, blocks1, round, bi, jdirs, dtoks, cursor, nesting, stack, json, json1, text, fi, fdepth, hist, saved>> /\ Tick

\* the text is parsed again (and converted again: round 2)
Reparse ==
    /\ mode = "reparse"
    /\ LET r == ParseTokens(Lex(text), 1, <<>>) IN
       /\ blocks' = r.bs /\ perr' = ~r.ok
       /\ mode' = IF ~r.ok THEN "done" ELSE "tojson"
    /\ round' = 2 /\ bi' = 0 /\ json' = <<>>
    /\ UNCHANGED <<meta, cfg, blocks1, jdirs, dtoks, cursor, nesting, stack, json1, text, fi, fdepth, hist, saved>> /\ Tick

\* =========================== walks ====================================================
Walking == mode = "walk" /\ Len(hist) < meta.len
\* a setup function's walk starts with Next() ("for c.Next() {"): so do the walks over directive-shaped lists
Allowed(op) == IF meta.src = "arbitrary" THEN op \in WalkOps
               ELSE IF hist = <<>> THEN op = "Next" ELSE op \in ShapedOps
Call(op, ok, c, n, args) ==
    /\ hist' = Append(hist, [op |-> op, ok |-> ok, from |-> cursor, nfrom |-> nesting, c |-> c, n |-> n,
                             v |-> Val(dtoks, c), a |-> args, init |-> saved])
    /\ cursor' = c /\ nesting' = n
    /\ UNCHANGED <<mode, meta, cfg, blocks, perr, blocks1, round, bi, jdirs, dtoks, stack, json, json1, text, fi, fdepth>> /\ Tick
W_Next      == Walking /\ Allowed("Next") /\ LET r == DNext(dtoks, cursor) IN Call("Next", r.ok, r.c, nesting, <<>>) /\ saved' = saved
W_NextArg   == Walking /\ Allowed("NextArg") /\ LET r == DNextArg(dtoks, cursor) IN Call("NextArg", r.ok, r.c, nesting, <<>>) /\ saved' = saved
W_NextLine  == Walking /\ Allowed("NextLine") /\ LET r == DNextLine(dtoks, cursor) IN Call("NextLine", r.ok, r.c, nesting, <<>>) /\ saved' = saved
W_NextBlock == Walking /\ Allowed("NextBlock") /\ LET r == DNextBlock(dtoks, cursor, nesting, 0) IN Call("NextBlock", r.ok, r.c, r.n, <<>>) /\ saved' = saved
W_Nesting   == Walking /\ Allowed("Nesting") /\ Call("Nesting", TRUE, cursor, nesting, <<>>) /\ saved' = nesting
W_NextBlockNesting ==     \* for nesting := d.Nesting(); d.NextBlockNesting(nesting); { }
    Walking /\ Allowed("NextBlockNesting") /\ LET r == DNextBlock(dtoks, cursor, nesting, saved) IN Call("NextBlockNesting", r.ok, r.c, r.n, <<>>) /\ saved' = saved
W_Remaining == Walking /\ Allowed("RemainingArgs") /\ LET r == DRemaining(dtoks, cursor, <<>>) IN Call("RemainingArgs", TRUE, r.c, nesting, r.a) /\ saved' = saved
W_Args2     == Walking /\ Allowed("Args2") /\ LET r == DArgs(dtoks, cursor, 2, <<>>) IN Call("Args2", r.ok, r.c, nesting, r.a) /\ saved' = saved

Next == \/ ParseCfg \/ TJ_Block \/ TJ_Dir \/ TJ_TopNext \/ TJ_Arg \/ TJ_BlockNext \/ TJ_EndBlock \/ TJ_Marshal
        \/ FJ_ServerBlock \/ FJ_Key \/ FJ_BodyOpen \/ FJ_LineStart \/ FJ_String \/ FJ_BlockOpen \/ FJ_BlockClose
        \/ FJ_LineEnd \/ FJ_BodyClose \/ FJ_Return \/ Reparse
        \/ W_Next \/ W_NextArg \/ W_NextLine \/ W_NextBlock \/ W_Nesting \/ W_NextBlockNesting \/ W_Remaining \/ W_Args2
\* a run that has ended stutters (so that CHECK_DEADLOCK reports every OTHER state without a successor)
Ended == mode \in {"done", "rejected"} \/ (mode = "walk" /\ Len(hist) = meta.len)
Finished == Ended /\ UNCHANGED vars
Spec == Init /\ [][Next \/ Finished]_vars /\ WF_vars(Next)

\* ======================================================================================
\*                                  the guarantees
\* ======================================================================================
BlockShape(bs) == [i \in 1..Len(bs) |-> [keys |-> bs[i].keys,
                                              dirs |-> [n \in DOMAIN bs[i].dirs |-> LineShape(bs[i].dirs[n])]]]

\* RoundTripBlocks: Parse(FromJSON(ToJSON(T))) has the server blocks of Parse(T): keys, directive
\* names, the texts of all tokens in order, where lines start, block structure (= the brace tokens)
RoundTripBlocks == (mode = "done" \/ (mode = "tojson" /\ round = 2 /\ bi = 0)) => ~perr /\ BlockShape(blocks) = BlockShape(blocks1)
\* RoundTripJson: ToJSON(FromJSON(J)) = J for J = ToJSON(T)
RoundTripJson == mode = "done" => json = json1
\* the conversion itself: the JSON of a block lists every token of every directive exactly once, in
\* order, braces replaced by nesting (checked on the serialised form: strings + "B(" / ")B" = the tokens)
JsonTokens(j) == LET keep == {i \in 1..Len(j) : j[i].k \in {"str", "B(", ")B"}}
                     RECURSIVE Pick(_)
                     Pick(i) == IF i > Len(j) THEN <<>>
                                ELSE (IF i \in keep THEN <<IF j[i].k = "str" THEN j[i].v ELSE IF j[i].k = "B(" THEN Open ELSE Close>> ELSE <<>>) \o Pick(i + 1)
                 IN Pick(1)
RECURSIVE AllToks(_, _)
AllToks(bs, i) == IF i > Len(bs) THEN <<>>
                  ELSE LET names == SortTexts(DOMAIN bs[i].dirs)
                           RECURSIVE Cat(_)
                           Cat(k) == IF k > Len(names) THEN <<>> ELSE [m \in 1..Len(bs[i].dirs[names[k]]) |-> bs[i].dirs[names[k]][m].t] \o Cat(k + 1)
                       IN Cat(1) \o AllToks(bs, i + 1)
JsonHasEveryToken == (mode = "fromjson" /\ fi = 1) => JsonTokens(json1) = AllToks(blocks1, 1)
\* FromJSON writes balanced text: at the end every block is closed
TextBalanced == mode = "reparse" => fdepth = 0

\* Total: ToJSON rejects exactly what Parse rejects (a configuration of BadShapes ends in "rejected",
\* one of Shapes never does), and every run ends (Terminates, a liveness property; with
\* CHECK_DEADLOCK the only states without successor are the ends below)
RejectsWhatParseRejects == /\ (mode = "rejected" => meta.sh \in BadShapes)
                           /\ (mode \in {"tojson", "fromjson", "reparse", "done"} => meta.sh \in Shapes)
Terminates == <>Ended
\* the same without liveness checking: with CHECK_DEADLOCK every state that has not Ended has a successor, and no run is
\* longer than a bound that is linear in the size of the configuration (ToJSON twice + FromJSON: a few steps per token)
RECURSIVE CountToks(_, _)
CountToks(bs, i) == IF i > Len(bs) THEN 0
                    ELSE LET ns == SortTexts(DOMAIN bs[i].dirs)
                             RECURSIVE Sum(_)
                             Sum(k) == IF k > Len(ns) THEN 0 ELSE Len(bs[i].dirs[ns[k]]) + 2 + Sum(k + 1)   \* + the two passes over "directives"
                         IN Len(bs[i].keys) + 4 + Sum(1) + CountToks(bs, i + 1)
BoundedRun == IF mode = "walk" THEN steps = Len(hist)
              ELSE IF mode = "parse" THEN steps = 0
              ELSE steps <= 6 * CountToks(blocks1, 1) + 6
\* no step is taken that the Go code could not take: the dispenser of ToJSON never runs off its tokens
\* and the call stack is as deep as the braces are
Depth(tk, i) == Cardinality({k \in 1..i : tk[k].t = Open}) - Cardinality({k \in 1..i : tk[k].t = Close})
JsonWalkSane == mode = "tojson" => /\ cursor <= Len(dtoks)
                                   /\ Cardinality({i \in 1..Len(stack) : stack[i] = "B"}) = Depth(dtoks, cursor)

\* ---- DispenserInvariants (on the last call of a walk) --------------------------------------
Last == hist[Len(hist)]
HasLast == mode = "walk" /\ hist # <<>>
\* NextArg never crosses a line: what it loads is the next token and stands on the line of the current one
ArgStaysOnLine == (HasLast /\ Last.op = "NextArg") =>
                     IF Last.ok THEN Last.c = Last.from + 1 /\ (Last.from >= 1 => ~NewLine(dtoks[Last.from], dtoks[Last.c]))
                                ELSE Last.c = Last.from /\ (Last.from >= 1 /\ Last.from < Len(dtoks) => NewLine(dtoks[Last.from], dtoks[Last.from + 1]))
\* NextLine never skips an unconsumed token: it loads the very next token and only if that starts a line
LineNeverSkips == (HasLast /\ Last.op = "NextLine") =>
                     IF Last.ok THEN Last.c = Last.from + 1 /\ (Last.from >= 1 => NewLine(dtoks[Last.from], dtoks[Last.c]))
                                ELSE Last.c = Last.from /\ (Last.from < Len(dtoks) => ~NewLine(dtoks[Last.from], dtoks[Last.from + 1]))
\* RemainingArgs = the rest of the line (the tokens NextArg would have returned), up to (not including, not loading) a "{"
RECURSIVE ArgRun(_, _)
ArgRun(tk, c) == IF c >= 1 /\ c < Len(tk) /\ ~NewLine(tk[c], tk[c + 1]) /\ tk[c + 1].t # Open THEN <<tk[c + 1].t>> \o ArgRun(tk, c + 1)
                 ELSE IF c = 0 /\ tk[1].t # Open THEN <<tk[1].t>> \o ArgRun(tk, 1)
                 ELSE <<>>
RemainingIsArgRun == (HasLast /\ Last.op = "RemainingArgs") => Last.a = ArgRun(dtoks, Last.from) /\ Last.c = Last.from + Len(Last.a)
\* Args(&a, &b) = the first two of the tokens NextArg would have returned (braces included: only RemainingArgs stops at "{")
RECURSIVE LineRun(_, _)
LineRun(tk, c) == IF c = 0 THEN <<tk[1].t>> \o LineRun(tk, 1)
                  ELSE IF c < Len(tk) /\ ~NewLine(tk[c], tk[c + 1]) THEN <<tk[c + 1].t>> \o LineRun(tk, c + 1) ELSE <<>>
ArgsIsArgPrefix == (HasLast /\ Last.op = "Args2") =>
                     LET run == LineRun(dtoks, Last.from) IN
                     /\ Last.a = SubSeq(run, 1, IF Len(run) < 2 THEN Len(run) ELSE 2)
                     /\ Last.ok = (Len(Last.a) = 2) /\ Last.c = Last.from + Len(Last.a)
\* every token is delivered at most once: the cursor never moves back, a call that reports a token has moved it forward,
\* and only Next/NextBlock* may leave tokens behind that were not reported (NextBlock* consumes the braces itself)
Delivered(h) == IF h.op \in {"RemainingArgs", "Args2"} THEN {i \in (h.from + 1)..h.c : TRUE}
                ELSE IF h.ok /\ h.op # "Nesting" THEN {h.c} ELSE {}
AtMostOnce == mode = "walk" => \A i, j \in 1..Len(hist) : i < j => \A p \in Delivered(hist[i]), q \in Delivered(hist[j]) : p < q
CursorMonotone == mode = "walk" => \A i \in 1..Len(hist) : hist[i].from <= hist[i].c /\ hist[i].c <= Len(dtoks)
                                    /\ (hist[i].ok /\ hist[i].op \notin {"Nesting", "RemainingArgs", "Args2"} => hist[i].from < hist[i].c)
NothingSkippedByArgCalls == mode = "walk" => \A i \in 1..Len(hist) : hist[i].op \in {"Next", "NextArg", "NextLine"} => hist[i].c <= hist[i].from + 1

\* NextBlock: a loop "for d.NextBlock() { [d.RemainingArgs()] }" entered with the cursor in front of a "{"
\* that ends its line (well-formed lists: "{" ends a line, "}" stands alone, braces balanced) reports exactly the
\* tokens between that brace and the matching one, each once, stops ON the matching brace, and Nesting() is back.
WellFormed(tk) == /\ \A i \in 1..Len(tk) : (tk[i].t = Open /\ i < Len(tk)) => NewLine(tk[i], tk[i + 1])
                  /\ \A i \in 1..Len(tk) : tk[i].t = Close => /\ (i > 1 => NewLine(tk[i - 1], tk[i]))
                                                               /\ (i < Len(tk) => NewLine(tk[i], tk[i + 1]))
                  /\ \A i \in 1..Len(tk) : Cardinality({k \in 1..i : tk[k].t = Open}) >= Cardinality({k \in 1..i : tk[k].t = Close})
                  /\ Cardinality({k \in 1..Len(tk) : tk[k].t = Open}) = Cardinality({k \in 1..Len(tk) : tk[k].t = Close})
Match(tk, o) == CHOOSE m \in (o + 1)..Len(tk) : tk[m].t = Close /\ Depth(tk, m) = Depth(tk, o) - 1
                                               /\ \A k \in (o + 1)..(m - 1) : Depth(tk, k) >= Depth(tk, o)
\* the loop is the maximal suffix of hist made of NextBlock*/RemainingArgs calls that starts with the opening call
LoopOps == {"NextBlock", "NextBlockNesting", "RemainingArgs"}
BlockLoopExact ==
    (HasLast /\ WellFormed(dtoks) /\ Last.op \in {"NextBlock", "NextBlockNesting"} /\ ~Last.ok) =>
       \A s \in 1..Len(hist) :
          LET o == hist[s].from + 1 IN
          ( /\ hist[s].op = Last.op /\ hist[s].ok                                   \* the call that opened the loop ...
            /\ hist[s].nfrom = (IF Last.op = "NextBlock" THEN 0 ELSE hist[s].init)  \* ... at the loop's own level
            /\ o <= Len(dtoks) /\ dtoks[o].t = Open /\ hist[s].c = o + 1
            /\ \A k \in s..Len(hist) : hist[k].op \in {Last.op, "RemainingArgs"} /\ hist[k].init = hist[s].init
            /\ \A k \in s..(Len(hist) - 1) : hist[k].op = Last.op => hist[k].ok )    \* ... and no earlier end of it
          => LET m == Match(dtoks, o)
                 seen == UNION {Delivered(hist[k]) : k \in s..Len(hist)}
             IN /\ Last.c = m                                   \* the cursor is left on the closing brace
                /\ Last.n = hist[s].nfrom                       \* Nesting() returns to its value
                /\ seen = (o + 1)..(m - 1)                      \* exactly the tokens between the braces
\* "{ }" : opened and closed right away - nothing reported, cursor on the closing brace, nesting untouched
EmptyBlock == (HasLast /\ Last.op \in {"NextBlock", "NextBlockNesting"} /\ Last.nfrom <= (IF Last.op = "NextBlock" THEN 0 ELSE Last.init)
               /\ Last.from + 2 <= Len(dtoks) /\ Last.from >= 1 /\ ~NewLine(dtoks[Last.from], dtoks[Last.from + 1])
               /\ dtoks[Last.from + 1].t = Open /\ dtoks[Last.from + 2].t = Close)
              => ~Last.ok /\ Last.c = Last.from + 2 /\ Last.n = Last.nfrom

\* =========================== case emission ===========================================
\* compact JSON: tokens [text, line, expansion]; expected tokens [text, starts-a-line]; a JSON element is one string,
\* its first character the kind (S server block, K key, { body, L line, = string, B block, b end of block, l end of
\* line, } end of body); a call [op, ok, cursor (Go's: -1 = nothing loaded), nesting, Val(), returned strings, level]
TokOut(tk) == [i \in 1..Len(tk) |-> <<Str(tk[i].t, 1), tk[i].l, tk[i].x>>]
TextsOut(ts) == [i \in 1..Len(ts) |-> Str(ts[i], 1)]
BlocksOut(bs) == [i \in 1..Len(bs) |->
                    [keys |-> TextsOut(bs[i].keys),
                     dirs |-> LET names == SortTexts(DOMAIN bs[i].dirs)
                              IN [k \in 1..Len(names) |-> [name |-> Str(names[k], 1),
                                                           toks |-> LET ls == LineShape(bs[i].dirs[names[k]])
                                                                    IN [m \in 1..Len(ls) |-> <<Str(ls[m].t, 1), ls[m].nl>>]]]]]
CfgOut(c) == [snip |-> [i \in 1..Len(c.snip) |-> TextsOut(c.snip[i])],
              blocks |-> [i \in 1..Len(c.blocks) |-> [keys |-> TextsOut(c.blocks[i].keys),
                                                      body |-> [k \in 1..Len(c.blocks[i].body) |-> TextsOut(c.blocks[i].body[k])]]]]
KindCode(k) == CASE k = "SB" -> "S" [] k = "key" -> "K" [] k = "body(" -> "{" [] k = "L(" -> "L" [] k = "str" -> "="
                 [] k = "B(" -> "B" [] k = ")B" -> "b" [] k = ")L" -> "l" [] k = ")body" -> "}"
JsonOut(j) == [i \in 1..Len(j) |-> KindCode(j[i].k) \o Str(j[i].v, 1)]
EmitCase ==
    /\ (mode = "done" => PrintT(<<"CASE", ToJson([kind |-> "cfg", meta |-> meta, cfg |-> CfgOut(cfg), reject |-> FALSE,
                                                   exp |-> BlocksOut(blocks1), json |-> JsonOut(json1), text |-> Str(text, 1)])>>))
    /\ (mode = "rejected" => PrintT(<<"CASE", ToJson([kind |-> "cfg", meta |-> meta, cfg |-> CfgOut(cfg), reject |-> TRUE,
                                                       exp |-> <<>>, json |-> <<>>, text |-> ""])>>))
    /\ ((mode = "walk" /\ Len(hist) = meta.len) =>
          PrintT(<<"CASE", ToJson([kind |-> "walk", src |-> meta.src, toks |-> TokOut(dtoks),
                                   calls |-> [i \in 1..Len(hist) |-> <<hist[i].op, hist[i].ok, hist[i].c - 1, hist[i].n,
                                                                        Str(hist[i].v, 1), TextsOut(hist[i].a), hist[i].init>>]])>>))
=============================================================================
