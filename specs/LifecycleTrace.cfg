CONSTANTS MaxOps = 5
 MaxStarts = 2
 Async = TRUE
SPECIFICATION TSpec
CONSTRAINT Constr
INVARIANTS TypeOK FirstStartupOnlyInitially StartupOnceBeforeServing RestartCbBeforeNewInstance RestartCbPerAttempt ShutdownOnceAfterSuccess OnlyRestartFailedOnFailure FinalOnlyAtProcessShutdown WaitOnlyWhenAllStopped WgExact ListExact
POSTCONDITION Accepted
CHECK_DEADLOCK FALSE
