CONSTANT MaxSites = 3
CONSTANT MaxActive = 1
CONSTANT ZeroIsSmallest = FALSE
SPECIFICATION Spec
INVARIANT Strictest
INVARIANT NeverLaxerThanAnySite
INVARIANT DefaultIffNobodySet
INVARIANT Emit
PROPERTY Terminates
CHECK_DEADLOCK FALSE
