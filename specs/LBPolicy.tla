------------------------------ MODULE LBPolicy ------------------------------
(***************************************************************************)
(* C05 - shared, variable-free part: the availability predicate of         *)
(* caskethttp/proxy (UpstreamHost.Down / Full / Available with the         *)
(* CheckDown closure of staticUpstream.NewHost) and every load-balancing   *)
(* policy of policy.go as a loop-shaped recursive operator (one recursion  *)
(* step = one iteration of the Go loop).  LoadBalance.tla runs the same    *)
(* loops as actions and shows them equal to these operators; LBRetry.tla   *)
(* uses the operators as its Select step.                                  *)
(*                                                                         *)
(* A host is a record [u, f, c]: Unhealthy flag, Fails counter, Conns      *)
(* counter.  Pool slots are 1..n here (Go: 0..n-1); 0 stands for nil.      *)
(***************************************************************************)
EXTENDS Integers, Sequences, FiniteSets

\* upstream.go NewHost/CheckDown: down = unhealthy flag set, or Fails >= max_fails
Down(h, mf) == h.u # 0 \/ h.f >= mf
\* proxy.go Full: a cap exists and the in-flight counter has reached it
Full(h, mc) == mc > 0 /\ h.c >= mc
Available(h, mf, mc) == ~Down(h, mf) /\ ~Full(h, mc)
AvailSet(pool, mf, mc) == {b \in 1..Len(pool) : Available(pool[b], mf, mc)}

\* ---- First.Select: for _, host := range pool { if host.Available() return host }
RECURSIVE FirstLoop(_, _, _)
FirstLoop(A, n, i) == IF i >= n THEN 0 ELSE IF (i + 1) \in A THEN i + 1 ELSE FirstLoop(A, n, i + 1)

\* ---- RoundRobin.Select: r.robin++ ; host := pool[r.robin % n]   (robin kept as its residue mod n)
\* result <<selected slot, new robin>>
RECURSIVE RRLoop(_, _, _, _)
RRLoop(A, n, robin, i) ==
    IF i >= n THEN <<0, robin>>
    ELSE LET r2 == (robin + 1) % n IN
         IF (r2 + 1) \in A THEN <<r2 + 1, r2>> ELSE RRLoop(A, n, r2, i + 1)

\* ---- hostByHashing: the slot looked at in iteration i for hash residue h0 = hash(s) % n
\* "linear"     : pool[(index+i) % n]                          (the repaired code)
\* "triangular" : index += i ; pool[index % n]                 (the code as found: h0, h0+1, h0+3, h0+6 ...)
HashSlot(n, h0, i, probing) ==
    IF probing = "linear" THEN ((h0 + i) % n) + 1
    ELSE ((h0 + (i * (i + 1)) \div 2) % n) + 1
RECURSIVE HashLoop(_, _, _, _, _)
HashLoop(A, n, h0, i, probing) ==
    IF i >= n THEN 0
    ELSE IF HashSlot(n, h0, i, probing) \in A THEN HashSlot(n, h0, i, probing)
    ELSE HashLoop(A, n, h0, i + 1, probing)

\* ---- LeastConn.Select ends with some available host of minimal Conns (reservoir sampling among ties)
LeastSet(pool, A) == {b \in A : \A c \in A : pool[b].c <= pool[c].c}
\* ---- Random.Select ends with some available host: the set is A itself

\* ---- staticUpstream.Select: pool of one / nobody available are answered before the policy runs
Guarded(A, n, s) == IF n = 1 THEN (IF 1 \in A THEN 1 ELSE 0) ELSE IF A = {} THEN 0 ELSE s

MinOf(S) == CHOOSE x \in S : \A y \in S : x <= y
=============================================================================
