\* NOT part of the pipeline: the observations of notes/StaticCond.md written as invariants of the (repaired)
\* design; TLC refutes each of them (run with -continue; measured: VaryStrict 2443 states, NotModifiedTagCoherent 160,
\* DateTracksSelected 36).  None of them can hand a client wrong bytes.
CONSTANT Repaired412 = TRUE
CONSTANT RepairedRange = TRUE
CONSTANT TagPerCoding = TRUE
CONSTANT Fams = {"C", "R", "X", "T"}
CONSTANT RelSet = {"same", "newer"}
CONSTANT UseCommon = TRUE
CONSTANT SiteNames = {"plain", "gzip"}
CONSTANT AENames = {"absent", "gzip", "br, gzip", "zstd", "gzip;q=0.5"}
CONSTANT AEXNames = {"br", "zstd", "gzip;q=0.5"}
CONSTANT Changes = {"none", "orig", "sel", "delsel", "addzst"}
CONSTANT Conds = {"none", "inm", "ims", "imsold", "im", "imbogus", "ius", "iusold"}
CONSTANT Rngs = {"none", "r2_11", "r5_", "rm7", "r0_0", "r10_999", "multi", "r999_"}
SPECIFICATION Spec
INVARIANT VaryStrict
INVARIANT NotModifiedTagCoherent
INVARIANT DateTracksSelected
CHECK_DEADLOCK FALSE
