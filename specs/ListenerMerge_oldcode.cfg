\* negative control (not part of ./check): the merge as the code did it before the repair
\* (plain "<" on durations, so "none" = 0 is the minimum). TLC must refute Strictest.
CONSTANT MaxSites = 2
CONSTANT MaxActive = 1
CONSTANT ZeroIsSmallest = TRUE
SPECIFICATION Spec
INVARIANT Strictest
CHECK_DEADLOCK FALSE
