CONSTANT Repaired = TRUE
CONSTANT AETexts = {"absent", "gzip", "gzip, br", "zstd, gzip", "gzip, deflate, br, zstd", "br", "zstd", "identity", "*", "gzip;q=0", "gzip; q=0", "identity; q=1.0, gzip ; q=0.0", "gzip;q=0, *", "*, gzip;q=0", "gzip, br;q=0", "br, gzip;q=0", "gzip;q=0.5, zstd", "x-gzip"}
CONSTANT Statuses = {200, 204, 206, 304, 404}
CONSTANT PreCEs = {"none", "gzip", "br", "zstd", "deflate", "identity"}
CONSTANT ETags = {"none", "strong", "weak"}
CONSTANT PatIdx = {1, 2, 3, 4, 5, 6, 7, 8, 9, 10, 11, 12, 13, 14, 15, 16, 17, 18, 19}
CONSTANT LevelsA = {0, 1, 9}
CONSTANT LevelsB = {0, 9}
CONSTANT MinLens = {0, 50}
SPECIFICATION Spec
INVARIANT CENamesAppliedCodings
INVARIANT NoDoubleEncoding
INVARIANT DecodedEqualsIdentity
INVARIANT CLAbsentOrCorrect
INVARIANT IdentityIfNotOffered
INVARIANT WeakETagWhenCompressed
INVARIANT Emit
PROPERTY Terminates
CHECK_DEADLOCK FALSE
