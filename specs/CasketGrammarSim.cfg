CONSTANTS NameCl = {"d1", "d2", "dE", "dq"}
          ArgCl = {"w", "wq", "sp", "ml", "em", "qt", "hs", "bs", "ph", "ev", "im", "cm", "pa"}
          KeyCl = {"k1", "k2", "k3", "kE"}
          KeySep = {"sp", "cm", "cn"}
          LayCl = {0, 1, 2, 3, 4, 5}
          FragKinds = {"snip", "file", "subfile", "glob"}
          EolCl = {"lf", "crlf"}
          AllUsed = TRUE
          MaxArgs = 3
          MaxKeys = 3
          MaxLines = 5
          FragLines = 3
          MaxImps = 2
          MaxFrag = 3
          MaxDepth = 3
          MaxBlocks = 3
SPECIFICATION Spec
INVARIANT FragmentsBalanced
INVARIANT ImportsResolved
INVARIANT DoneIsWellFormed
INVARIANT BudgetOK
INVARIANT Emit
CHECK_DEADLOCK FALSE
