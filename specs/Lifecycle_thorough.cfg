CONSTANTS MaxOps = 3
 MaxStarts = 2
 Async = TRUE
SPECIFICATION Spec
INVARIANTS TypeOK FirstStartupOnlyInitially StartupOnceBeforeServing RestartCbBeforeNewInstance RestartCbPerAttempt ShutdownOnceAfterSuccess OnlyRestartFailedOnFailure FinalOnlyAtProcessShutdown WaitOnlyWhenAllStopped WgExact ListExact
CHECK_DEADLOCK FALSE
