------------------------------ MODULE Protect ------------------------------
(***************************************************************************)
(* C03 - protected paths are never disclosed without valid credentials.    *)
(*                                                                         *)
(* A site combines ONE protection directive                                *)
(*     basicauth P u pw [exclude E]   |   internal P   |   none            *)
(* with a subset of the path-rewriting / content directives that run       *)
(* around it, in the fixed order of httpserver/plugin.go:directives        *)
(*     tryfiles -> rewrite -> ext -> gzip -> basicauth -> internal ->      *)
(*     browse (+archives) -> static file server.                           *)
(* Operational part: one action per middleware; the browse / file server   *)
(* stages are the b_* / s_* steps of FileServe.tla (EXTENDS), with two     *)
(* steps re-stated here because they are where protection can be           *)
(* by-passed (PIndexStep, PArchiveStep).  The protection directives match  *)
(* the CURRENT r.URL.Path with Path.Matches (PathMatch.tla); the content   *)
(* handlers resolve it with path.Clean("/"+path) (CleanPath.tla).          *)
(*                                                                         *)
(* Declarative part: Protected(site) = the files whose canonical URL path  *)
(* is under P and under no excluded path (Casketfile path semantics =      *)
(* Path.Matches), NoDisclosure, AuthTransparent.                           *)
(*                                                                         *)
(* Constants describing repairs / known deviations:                        *)
(*   RewriteRoots      TRUE = rewrite.To always yields a rooted path       *)
(*                     (repaired; FALSE = as found: "index.html")          *)
(*   IndexChecksAuth   TRUE = idealised design: an index page substituted  *)
(*                     for a directory URL is itself subject to the        *)
(*                     protection; FALSE = the code (known finding)        *)
(*   ArchiveChecksAuth TRUE = idealised: a directory archive leaves out    *)
(*                     protected files; FALSE = the code (known finding)   *)
(* The property cfgs use TRUE/TRUE/TRUE; the emission cfgs describe the    *)
(* code (TRUE/FALSE/FALSE), the verdict of the replay being the            *)
(* declarative predicate on the observation.                               *)
(***************************************************************************)
EXTENDS FileServe, PathMatch

CONSTANTS RewriteRoots, IndexChecksAuth, ArchiveChecksAuth,
          ProtIds            \* which protection variants are explored

\* ---- the tree and the alphabets -------------------------------------------
C03Files == { <<"root", "index.html">>, <<"root", "d", "g">>, <<"root", "d", "g.gz">>, <<"root", "d", "index.html">>, <<"root", "d", "index.html.gz">>,
              <<"root", "e", "g">>, <<"root", "e", "s", "g">>, <<"root", "Casketfile">> }
C03Dirs  == { <<>>, <<"root">>, <<"root", "d">>, <<"root", "e">>, <<"root", "e", "s">> }
C03Hidden == { <<"root", "Casketfile">> }
C03Alphabet == {"d", "g", "e", "s", "index.html", "index", "pub", "nx", "..", "", "D"}
C03AE    == {{}, {"gzip"}}
C03Modes == {"html", "zip"}

AllProts == {"none", "basic_d", "basic_d_exg", "basic_index", "internal_d", "basic_es", "internal_es", "internal_dindex", "basic_d_exgs"}
ProtKind(id) == IF id = "none" THEN "none" ELSE IF id \in {"internal_d", "internal_es", "internal_dindex"} THEN "internal" ELSE "basic"
ProtPath(id) == CASE id \in {"basic_d", "basic_d_exg", "basic_d_exgs", "internal_d"} -> <<"d">>
                  [] id = "basic_index"                               -> <<"index.html">>
                  [] id = "internal_dindex"                           -> <<"d", "index.html">>   \* an internal file that is its directory's index page
                  [] id \in {"basic_es", "internal_es"}               -> <<"e", "s">>
                  [] OTHER                                            -> <<>>
\* (basic_d_exgs: the exclusion written with a trailing slash, /d/g/ - it covers what is inside a
\*  directory of that name, not the file /d/g nor its sibling /d/g.gz)
ProtExcl(id) == IF id = "basic_d_exg" THEN {<<"d", "g">>} ELSE IF id = "basic_d_exgs" THEN {<<"d", "g", "">>} ELSE {}

\* (the gzip directive wraps the response writer and leaves path and content alone: it is not a
\*  dimension of the model; the harness adds it to every second real site and decodes the body)
Shapes == [tf : {"none", "default", "dg"}, rw : BOOLEAN, ext : BOOLEAN, browse : {"off", "arch"}]
SiteOf(id, sh) == [prot |-> id, tf |-> sh.tf, rw |-> sh.rw, ext |-> sh.ext, browse |-> sh.browse]
Sites == {SiteOf(id, sh) : id \in ProtIds, sh \in Shapes}

\* internal appends its paths to SiteConfig.HiddenFiles
HiddenOf(site) == HiddenSet \cup (IF ProtKind(site.prot) = "internal" THEN {<<"root">> \o ProtPath(site.prot)} ELSE {})

\* ---- declarative: what is protected ------------------------------------------
UnderProt(id, p) == /\ ProtKind(id) # "none"
                    /\ Matches(p, Rooted(ProtPath(id)))
                    /\ ~\E e \in ProtExcl(id) : Matches(p, Rooted(e))
\* a file is protected when its canonical URL path is
Protected(id) == {n \in GFiles : InsideRootNode(n) /\ UnderProt(id, Rooted(Tail(n)))}
Authorized(rq) == ProtKind(rq.site.prot) = "basic" /\ rq.valid

\* ---- request / state ------------------------------------------------------------
MkReq(site, segs, slash, ae, mode, valid) ==
    [site |-> site, segs |-> segs, slash |-> slash, ae |-> ae, mode |-> mode, valid |-> valid,
     browse |-> site.browse, prefix |-> FALSE, hidden |-> HiddenOf(site)]

PStart(rq) == [pc |-> "tryfiles", path |-> RawOf(rq.segs, rq.slash), rooted |-> TRUE, host |-> "",
               status |-> 0, loc |-> NoLoc, kind |-> "none", via |-> "",
               file |-> <<>>, served |-> {}, listed |-> {}]

\* ---- rewrite.To: first valid candidate, else the last one ---------------------------
\* a candidate is the text after placeholder replacement: [rooted, segs]
ToClean(c) == IF c.rooted THEN P(TRUE, CleanKeepSlash(c.segs))
              ELSE LET r == CleanRel(c.segs) IN P(FALSE, IF c.segs # <<>> /\ c.segs[Len(c.segs)] = "" THEN Append(r, "") ELSE r)
ValidFile(t) == LET n == Open(t.segs)      \* http.Dir roots every name
                IN  IF EndsSlash(t.segs) THEN Kind(n) = "dir" ELSE Kind(n) = "file"
RECURSIVE PickCandidate(_, _)
PickCandidate(cands, i) ==
    LET t == ToClean(cands[i])
    IN  IF i = Len(cands) \/ ValidFile(t) THEN t ELSE PickCandidate(cands, i + 1)
\* "r.URL.Path = u.Path"; repaired: a target written without the leading slash is rooted
RewriteTo(s, cands, nxt) ==
    LET t == PickCandidate(cands, 1)
    IN  [s EXCEPT !.pc = nxt, !.path = t.segs, !.rooted = t.rooted \/ RewriteRoots]

\* tryfiles: "{path} index.html index.htm ..." (default) or "{path} d/g"
TryFilesStep(rq, s) ==
    LET self == P(s.rooted, s.path)
    IN  CASE rq.site.tf = "none"    -> [s EXCEPT !.pc = "rewrite"]
          [] rq.site.tf = "default" -> RewriteTo(s, <<self>> \o [i \in 1..Len(IndexPages) |-> P(FALSE, <<IndexPages[i]>>)], "rewrite")
          [] rq.site.tf = "dg"      -> RewriteTo(s, <<self, P(FALSE, <<"d", "g">>)>>, "rewrite")

\* rewrite ^/pub/(.*)$ /{1}   (matched against the current r.URL.Path)
RewriteStep(rq, s) ==
    IF rq.site.rw /\ s.rooted /\ Len(s.path) >= 2 /\ s.path[1] = "pub"
      THEN RewriteTo(s, <<P(TRUE, Tail(s.path))>>, "ext")
      ELSE [s EXCEPT !.pc = "ext"]

\* ext .html: only for paths that do not end in "/" and do not exist as they are
ExtStep(rq, s) ==
    IF rq.site.ext /\ s.path # <<>> /\ ~EndsSlash(s.path) /\ Kind(Open(s.path)) = "none"
       /\ Clean(s.path) # <<>> /\ Kind(WithExt(Open(s.path), ".html")) # "none"
      THEN [s EXCEPT !.pc = "auth", !.path = WithExt(s.path, ".html")]
      ELSE [s EXCEPT !.pc = "auth"]

\* basicauth / internal: Path(r.URL.Path).Matches(resource) on the CURRENT path
AuthStep(rq, s) ==
    LET cur == P(s.rooted, s.path)
        nxt == IF rq.browse = "off" THEN "s_open" ELSE "b_open"
        id == rq.site.prot
    IN  CASE ProtKind(id) = "none"     -> [s EXCEPT !.pc = nxt]
          [] ProtKind(id) = "basic"    -> IF UnderProt(id, cur) /\ ~rq.valid THEN Done(s, 401) ELSE [s EXCEPT !.pc = nxt]
          [] ProtKind(id) = "internal" -> IF UnderProt(id, cur) THEN Done(s, 404) ELSE [s EXCEPT !.pc = nxt]

\* the two content steps through which protected content can leave although the request
\* path itself is not protected
PIndexStep(rq, s) ==
    LET o == SIndexStep(rq, s)
        sub == o.path # s.path
    IN  IF sub /\ IndexChecksAuth /\ Open(o.path) \in Protected(rq.site.prot) /\ ~Authorized(rq)
          THEN Done(s, 401)
        ELSE IF sub THEN [o EXCEPT !.via = "index"] ELSE o
PArchiveStep(rq, s) ==
    LET o == BArchiveStep(rq, s)
    IN  [o EXCEPT !.via = "archive",
                  !.served = IF ArchiveChecksAuth /\ ~Authorized(rq) THEN @ \ Protected(rq.site.prot) ELSE @]

PStep(rq, s) ==
    CASE s.pc = "tryfiles"  -> TryFilesStep(rq, s)
      [] s.pc = "rewrite"   -> RewriteStep(rq, s)
      [] s.pc = "ext"       -> ExtStep(rq, s)
      [] s.pc = "auth"      -> AuthStep(rq, s)
      [] s.pc = "s_index"   -> PIndexStep(rq, s)
      [] s.pc = "b_archive" -> PArchiveStep(rq, s)
      [] OTHER              -> Step(rq, s)

RECURSIVE PRunFrom(_, _)
PRunFrom(rq, s) == IF s.pc = "done" THEN s ELSE PRunFrom(rq, PStep(rq, s))
PRun(rq) == PRunFrom(rq, PStart(rq))

\* ---- the transition system ---------------------------------------------------------------
NoSite == [prot |-> "none", tf |-> "none", rw |-> FALSE, ext |-> FALSE, browse |-> "off"]
PBuilding == [PStart(MkReq(NoSite, <<>>, FALSE, {}, "html", FALSE)) EXCEPT !.pc = "build"]
PInit == req = MkReq(NoSite, <<>>, FALSE, {}, "html", FALSE) /\ st = PBuilding
PGrow == /\ st.pc = "build" /\ Len(req.segs) < L
         /\ \E x \in Alphabet : req' = [req EXCEPT !.segs = Append(@, x)]
         /\ UNCHANGED st
PBegin == /\ st.pc = "build"
          /\ \E site \in Sites, sl \in BOOLEAN, ae \in AESets, m \in Modes, v \in BOOLEAN :
                req' = MkReq(site, req.segs, sl, ae, m, v)
          /\ st' = PStart(req')
PAt(pcs, F(_, _)) == st.pc \in pcs /\ st' = F(req, st) /\ UNCHANGED req
TryFiles  == PAt({"tryfiles"}, TryFilesStep)
Rewrite   == PAt({"rewrite"}, RewriteStep)
Ext       == PAt({"ext"}, ExtStep)
Auth      == PAt({"auth"}, AuthStep)
IndexPage == PAt({"s_index"}, PIndexStep)
Archive   == PAt({"b_archive"}, PArchiveStep)
Content   == PAt({"b_open", "b_slash", "b_list", "b_render", "s_open", "s_canon", "s_hidden", "s_sibling", "s_serve"}, Step)
PNext == PGrow \/ PBegin \/ TryFiles \/ Rewrite \/ Ext \/ Auth \/ IndexPage \/ Archive \/ Content
PSpec == PInit /\ [][PNext]_vars

\* ---- the property, as C03 states it ----------------------------------------------------------
\* without valid credentials no content of a protected resource (GET; OPTIONS is exempt, the
\* other methods produce no file content at all)
NoDisclosure == ~Authorized(req) => st.served \cap Protected(req.site.prot) = {}
\* with valid credentials the request is served as if the protection directive were absent
Twin(rq) == [rq EXCEPT !.site.prot = "none", !.hidden = HiddenOf([rq.site EXCEPT !.prot = "none"])]
AuthTransparent == (st.pc = "done" /\ Authorized(req)) =>
                      LET o == PRun(Twin(req))
                      IN  o.status = st.status /\ o.served = st.served /\ o.listed = st.listed /\ o.loc = st.loc
\* nothing the protection directives do can make the content handlers leave the root
PInsideRoot == InsideRoot
PNoHidden   == (st.served \cup st.listed) \cap req.hidden = {}
\* after the rewriting stages the path handed to the matchers is rooted
RootedAtAuth == st.pc = "auth" => st.rooted
PRunAgrees  == st.pc = "done" => st = PRun(req)

\* ---- case emission: one CASE per (request path, protection variant) -------------------------
\* tab[shape][slash][mode][ae][valid] = index into res (the distinct outcomes).  The path grows
\* in "build" states (PGrow), PPick fans every path out into one "emit" state per protection
\* variant, so that the table computations are spread over TLC's workers.
ShapeSeq == SetToSeq(Shapes)
PModeSeq == SetToSeq(Modes)
PAESeq   == SetToSeq(AESets)
BoolSeq  == <<FALSE, TRUE>>
POutcome(rq) ==
    LET o == PRun(rq)
    IN  [st |-> o.status, k |-> o.kind, rd |-> o.loc.set, via |-> o.via,
         sv |-> SetToSeq(o.served), ls |-> SetToSeq({NameOf(n) : n \in o.listed})]
PCombos == {<<i, s, m, a, v>> : i \in 1..Len(ShapeSeq), s \in 1..2, m \in 1..Len(PModeSeq), a \in 1..Len(PAESeq), v \in 1..2}
PEmitCase(segs, id) ==
    LET T == [c \in PCombos |-> POutcome(MkReq(SiteOf(id, ShapeSeq[c[1]]), segs, BoolSeq[c[2]], PAESeq[c[4]], PModeSeq[c[3]], BoolSeq[c[5]]))]
        res == SetToSeq({T[c] : c \in PCombos})
        idx(o) == CHOOSE k \in 1..Len(res) : res[k] = o
        tab == [i \in 1..Len(ShapeSeq) |-> [s \in 1..2 |-> [m \in 1..Len(PModeSeq) |-> [a \in 1..Len(PAESeq) |->
                    [v \in 1..2 |-> idx(T[<<i, s, m, a, v>>])]]]]]
    IN  PrintT(<<"CASE", ToJson([segs |-> segs, prot |-> id, kind |-> ProtKind(id), p |-> ProtPath(id),
                                 ex |-> SetToSeq(ProtExcl(id)), protected |-> SetToSeq(Protected(id)),
                                 shapes |-> ShapeSeq, modes |-> PModeSeq,
                                 aes |-> [a \in 1..Len(PAESeq) |-> SetToSeq(PAESeq[a])],
                                 res |-> res, tab |-> tab])>>)
PInitEmit == PInit
PPick == /\ st.pc = "build"
         /\ \E id \in ProtIds : req' = [req EXCEPT !.site.prot = id]
         /\ st' = [st EXCEPT !.pc = "emit"]
PNextEmit == PGrow \/ PPick
PEmit == st.pc = "emit" => PEmitCase(req.segs, req.site.prot)
=============================================================================
