CONSTANT MaxN = 2
CONSTANT MFs = {1, 2}
CONSTANT D = 4
CONSTANT Fs = {1, 5}
CONSTANT Pols = {"first", "rr", "hashed", "any"}
CONSTANT Probing = "linear"
CONSTANT Buffering = "multi"
INIT Init
NEXT Next
INVARIANT HealthyAnswers
INVARIANT Else502AfterDuration
INVARIANT AnsweredByLast
INVARIANT BodyComplete
INVARIANT OnlyAvailableTried
INVARIANT FailsAccounted
CHECK_DEADLOCK FALSE
