CONSTANTS Types = {"lines", "text", "binary"}
 Bufs = {0, 2, 4}
 Modes = {"dflt", "ign", "ignx"}
 Scopes = {"req", "bridge"}
 MaxM = 1
 MaxW = 2
 MaxOps = 4
 Rich = TRUE
 WithStop = TRUE
 FixKill = TRUE
 FixTextBuf = TRUE
SPECIFICATION SpecSync
INVARIANTS TypeOK OneProcessPerConnection NonUpgradeUntouched EnvExact BytesExactIn BytesExactOut NothingLostAtExit CloseCodeTellsOutcome SignalOrder AlwaysReaped ReadHasRoom FlushedAtRest Emit
CHECK_DEADLOCK FALSE
