CONSTANT K = 2
INIT InitEmit
NEXT Grow
INVARIANT Emit
CHECK_DEADLOCK FALSE
