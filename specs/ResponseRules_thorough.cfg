\* thorough: every site with <= 2 lines, one in Sample3 of the three-line sites
CONSTANT MaxLines = 3
CONSTANT Sample2 = 1
CONSTANT Sample3 = 3
SPECIFICATION Spec
INVARIANT TypeOK
INVARIANT SetupRejectsDuplicatesAndBadArity
INVARIANT SetupInv
INVARIANT AllMatchingHeaderRulesApplyInOrder
INVARIANT HandlerWritesWinUnlessDeleted
INVARIANT MimeOnlyForItsExtension
INVARIANT StatusRuleAnswersExactlyItsPaths
INVARIANT RequestIDStableWithinRequest
INVARIANT IndexAndExtFirstExistingWins
INVARIANT FixedPaths
INVARIANT NoStuck
INVARIANT Emit
PROPERTY Progress
PROPERTY LoopsInOrder
CHECK_DEADLOCK FALSE
