\* thorough: every site with <= 3 lines
CONSTANT MaxLines = 3
CONSTANT Sample2 = 1
CONSTANT Sample3 = 1
CONSTANT Extend3 = 1
SPECIFICATION Spec
INVARIANT TypeOK
INVARIANT SetupRejectsDuplicatesAndBadArity
INVARIANT SetupInv
INVARIANT AllMatchingHeaderRulesApplyInOrder
INVARIANT HandlerWritesWinUnlessDeleted
INVARIANT MimeOnlyForItsExtension
INVARIANT StatusRuleAnswersExactlyItsPaths
INVARIANT RequestIDStableWithinRequest
INVARIANT IndexAndExtFirstExistingWins
INVARIANT FixedPaths
INVARIANT NoStuck
INVARIANT Emit
PROPERTY Progress
PROPERTY LoopsInOrder
CHECK_DEADLOCK FALSE
