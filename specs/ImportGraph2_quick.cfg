CONSTANTS NFiles = 1
          NSnips = 2
          Guard = TRUE
          MaxLen = 0
SPECIFICATION Spec
INVARIANT CycleIsError
INVARIANT InclusionPreserved
INVARIANT ChainsRepeatFree
INVARIANT Emit
PROPERTY Terminates
CHECK_DEADLOCK FALSE
