\* liveness: whatever the backends do, every request is answered and every connection goes away
\* (also: two interleaved requests one of which is the big upload - send_timeout - with all invariants)
CONSTANTS
 NOpts = {2}
 ConcNOpts = {2}
 MaxReq = 3
 ReqOpts = {3}
 ConcReq = 2
 PortModes = {"up", "refuse", "blackhole"}
 AnsModes = {"ok", "slow", "stall", "noread", "closeearly", "closemid", "stallbody"}
 MaxVisits = 2
 MaxFaults = 2
 ConcFaults = 1
 Kinds = {"php", "static", "big"}
 ConcKinds = {"php", "big"}
 StaticAt = {2}
 CTOpts = {2}
 RTOpts = {3}
 STOpts = {1, 5}
 SD = 1
 MaxStart = 1
 Skew = 0
 Slack = 0
 CopyErrStatus = 0
 OrderedStart = TRUE
 PoolCap = 0
 EmitCases = FALSE
SPECIFICATION FairSpec
INVARIANTS TypeOK RoundRobinEven RoundRobinWindow RotationAsDeclared RotationOnlyOnForward PoolBounded OpenBounded
 NoSharedConnection ReuseOnlyAfterCompleteResponse HandlerContract ClosedBeforeReturn NoFdLeak OutcomeByUpstream
 TimeoutBounded SeqAgrees
PROPERTIES Finishes
CHECK_DEADLOCK FALSE
