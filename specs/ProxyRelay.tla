----------------------------- MODULE ProxyRelay -----------------------------
(***************************************************************************)
(* C04 - the reverse proxy relays requests and responses faithfully.       *)
(*                                                                         *)
(* Operational part, one action per step of the code:                      *)
(*   StripConnectionNamed  createUpstreamRequest: headers named in         *)
(*                         Connection are deleted                          *)
(*   StripHop              createUpstreamRequest: the hopHeaders loop      *)
(*   FoldXFF               createUpstreamRequest: X-Forwarded-For folding  *)
(*   StartAttempt          Proxy.ServeHTTP loop: the outgoing URL / header *)
(*                         of this attempt (repaired: from the pristine    *)
(*                         copies; as found: whatever the last attempt     *)
(*                         left behind)                                    *)
(*   ApplyUpRules          mutateHeadersByRules (header_upstream,          *)
(*                         transparent preset)                             *)
(*   Direct                the director of NewSingleHostReverseProxy:      *)
(*                         trim `without` from Path and RawPath, join with *)
(*                         the target's path, merge the queries            *)
(*   RoundTrip             transport: what the backend reads off the wire  *)
(*                         (URL.EscapedPath decides between RawPath and    *)
(*                         the re-encoded Path); a failing first backend   *)
(*                         sends the loop back to StartAttempt             *)
(*   StripRespConnNamed, StripRespHop, ApplyDownRules, CopyHeaders,        *)
(*   CopyBody, CopyTrailers    ReverseProxy.ServeHTTP, response side       *)
(* Declarative part: the Backend... / Client... equalities at the end are  *)
(* the sentences of the property statement in set / sequence algebra.      *)
(*                                                                         *)
(* Paths are sequences of tokens over {"/", "a", "x", "%2F"} ("%2F" is one *)
(* escaped reserved character: URL.Path holds "/" for it, URL.RawPath the  *)
(* three bytes), so byte-prefix effects of `without` and the Path/RawPath   *)
(* double bookkeeping exist in the model. Header values are atoms, a       *)
(* header is a function name -> sequence of values (<< >> = absent), the   *)
(* Connection header is kept apart as a sequence of lines, each a sequence *)
(* of tokens, X-Forwarded-For as the sequence of prior values.             *)
(***************************************************************************)
EXTENDS Integers, Sequences, FiniteSets, TLC, Json

CONSTANTS HopTest,    \* "present": a hop-by-hop request header is removed whenever present (repaired)
                      \* "firstvalue": only if its first value is non-empty (as found: `Keep-Alive:` + `Keep-Alive: x` passes)
          ConnLines,  \* "all": tokens of every Connection line (repaired) | "first": of the first line only (as found)
          Attempts,   \* "fresh": every attempt starts from the pristine request (repaired) | "reuse" (as found)
          MaxPath,    \* request paths have at most this many tokens
          Statuses,   \* backend response statuses of InitResp
          NetHTTP     \* "ideal": the proxy sees the backend's Connection header as sent
                      \* "asis" : net/http's Transport deletes a response's Connection header when it contains `close`
                      \*          before the proxy can read the names listed in it (recorded finding, no repair inside casket)

\* ---- names ----------------------------------------------------------------
ReqHop  == {"Alt-Svc", "Alternate-Protocol", "Keep-Alive", "Proxy-Authenticate", "Proxy-Authorization",
            "Proxy-Connection", "Te", "Upgrade"}      \* Connection is kept apart; Trailer / Transfer-Encoding are framing
RespHop == ReqHop
ReqE2E  == {"Accept", "X-E2e"}
RespE2E == {"Content-Type", "X-Resp", "Set-Cookie"}
UpTargets   == {"X-Set", "X-Add", "X-Del", "X-Re"}
DownTargets == {"X-Dset", "X-Dadd", "X-Ddel", "X-Dre"}
Preset      == {"X-Real-Ip", "X-Forwarded-Proto", "X-Forwarded-Port"}      \* written by `transparent`
ReqNames  == ReqE2E \cup ReqHop \cup {"X-Custom"} \cup UpTargets \cup Preset
RespNames == RespE2E \cup RespHop \cup {"X-Rcustom"} \cup DownTargets
Rules == {"set", "add", "del", "re"}

Get(h, k)    == IF h[k] = << >> THEN "" ELSE h[k][1]
Del(h, k)    == IF k \in DOMAIN h THEN [h EXCEPT ![k] = << >>] ELSE h
SetH(h, k, v) == [h EXCEPT ![k] = <<v>>]
AddH(h, k, v) == [h EXCEPT ![k] = Append(@, v)]
RECURSIVE DelAll(_, _)
DelAll(h, ks) == IF ks = {} THEN h ELSE LET k == CHOOSE x \in ks : TRUE IN DelAll(Del(h, k), ks \ {k})
Range(s) == {s[k] : k \in 1..Len(s)}
Tokens(lines) == UNION {Range(lines[k]) : k \in 1..Len(lines)}

\* mutateHeadersByRules on distinct targets (the rules commute); "re" rewrites the first value and collapses to it
ApplyRules(h, rules, set, add, del, re) ==
    LET h1 == IF "set" \in rules THEN SetH(h, set, "two") ELSE h
        h2 == IF "add" \in rules THEN AddH(h1, add, "one") ELSE h1
        h3 == IF "del" \in rules THEN Del(h2, del) ELSE h2
        h4 == IF "re" \in rules /\ Get(h3, re) # "" THEN SetH(h3, re, "re(" \o Get(h3, re) \o ")") ELSE h3
    IN  h4

\* ---- paths ----------------------------------------------------------------
Dec(p) == [k \in 1..Len(p) |-> IF p[k] = "%2F" THEN "/" ELSE p[k]]    \* URL.Path of a raw path
HasEsc(p) == \E k \in 1..Len(p) : p[k] = "%2F"
IsPrefixOf(w, p) == Len(w) <= Len(p) /\ SubSeq(p, 1, Len(w)) = w
TrimPrefix(p, w) == IF IsPrefixOf(w, p) THEN SubSeq(p, Len(w) + 1, Len(p)) ELSE p
\* singleJoiningSlash
SJS(a, b) ==
    LET aS == a # << >> /\ a[Len(a)] = "/"
        bS == b # << >> /\ b[1] = "/"
    IN  IF aS /\ bS THEN a \o Tail(b)
        ELSE IF ~aS /\ ~bS /\ b # << >> THEN a \o <<"/">> \o b
        ELSE a \o b
JoinQ(bq, q) == IF bq = "" \/ q = "" THEN bq \o q ELSE bq \o "&" \o q

VARIABLES req, conf, resp,        \* the case
          pc, out, attempt,       \* the outgoing request under construction
          seenB,                  \* what each attempt's backend read
          res, seenC              \* the response on its way back, what the client read
vars == <<req, conf, resp, pc, out, attempt, seenB, res, seenC>>

NoHdr(names) == [k \in names |-> << >>]
\* ---- request side ----------------------------------------------------------
StripConnectionNamed ==
    /\ pc = "connnamed"
    /\ LET lines == IF ConnLines = "all" THEN out.conn ELSE SubSeq(out.conn, 1, IF Len(out.conn) > 0 THEN 1 ELSE 0)
       IN  out' = [out EXCEPT !.hdr = DelAll(@, Tokens(lines) \cap ReqNames)]
    /\ pc' = "hop"
    /\ UNCHANGED <<req, conf, resp, attempt, seenB, res, seenC>>

StripHop ==
    /\ pc = "hop"
    /\ LET gone == {h \in ReqHop : IF HopTest = "present" THEN out.hdr[h] # << >> ELSE Get(out.hdr, h) # ""}
       IN  out' = [out EXCEPT !.hdr = DelAll(@, gone), !.conn = << >>]      \* Connection itself is a hop header
    /\ pc' = "xff"
    /\ UNCHANGED <<req, conf, resp, attempt, seenB, res, seenC>>

FoldXFF ==
    /\ pc = "xff"
    /\ out' = [out EXCEPT !.xff = Append(@, "{remote}")]
    /\ pc' = "attempt"
    /\ UNCHANGED <<req, conf, resp, attempt, seenB, res, seenC>>

\* out carries the prepared request in .base (set here on first entry) and the attempt's working copy beside it
StartAttempt ==
    /\ pc = "attempt"
    /\ attempt' = attempt + 1
    /\ out' = IF attempt = 0 THEN [out EXCEPT !.base = [hdr |-> out.hdr, path |-> out.path, rawpath |-> out.rawpath, query |-> out.query]]
              ELSE IF Attempts = "fresh" THEN [out EXCEPT !.hdr = out.base.hdr, !.path = out.base.path, !.rawpath = out.base.rawpath, !.query = out.base.query]
              ELSE out
    /\ pc' = "uprules"
    /\ UNCHANGED <<req, conf, resp, seenB, res, seenC>>

ApplyUpRules ==
    /\ pc = "uprules"
    /\ LET h1 == ApplyRules(out.hdr, conf.up, "X-Set", "X-Add", "X-Del", "X-Re")
           h2 == IF conf.transparent
                 THEN [h1 EXCEPT !["X-Real-Ip"] = <<"{remote}">>, !["X-Forwarded-Proto"] = <<"{scheme}">>, !["X-Forwarded-Port"] = <<"{server_port}">>]
                 ELSE h1
       IN  out' = [out EXCEPT !.hdr = h2, !.host = IF conf.transparent THEN "client" ELSE "upstream"]
    /\ pc' = "direct"
    /\ UNCHANGED <<req, conf, resp, attempt, seenB, res, seenC>>

Direct ==
    /\ pc = "direct"
    /\ LET p1  == IF conf.without # << >> THEN TrimPrefix(out.path, conf.without) ELSE out.path
           rp1 == IF conf.without # << >> /\ out.rawpath # << >> THEN TrimPrefix(out.rawpath, conf.without) ELSE out.rawpath
           rp2 == IF rp1 # << >> THEN SJS(conf.base, rp1) ELSE rp1           \* the target's path has no escapes
           p2  == SJS(conf.base, p1)
       IN  out' = [out EXCEPT !.path = p2, !.rawpath = rp2, !.query = JoinQ(conf.bq, out.query)]
    /\ pc' = "roundtrip"
    /\ UNCHANGED <<req, conf, resp, attempt, seenB, res, seenC>>

\* URL.EscapedPath: RawPath only if it is a valid encoding of Path, else Path re-encoded (no token of Path needs escaping);
\* an empty path goes on the wire as "/"
Wire(o) == LET w == IF o.rawpath # << >> /\ Dec(o.rawpath) = o.path THEN o.rawpath ELSE o.path
           IN  IF w = << >> THEN <<"/">> ELSE w
RoundTrip ==
    /\ pc = "roundtrip"
    /\ seenB' = Append(seenB, [method |-> req.method, path |-> Wire(out), query |-> out.query, hdr |-> out.hdr,
                               xff |-> out.xff, host |-> out.host, body |-> req.body])
    /\ IF conf.retry /\ attempt = 1
         THEN pc' = "attempt" /\ UNCHANGED res                       \* first backend resets the connection
         ELSE pc' = "respconn" /\ res' = [hdr |-> resp.hdr, conn |-> resp.conn]
    /\ UNCHANGED <<req, conf, resp, out, attempt, seenC>>

\* ---- response side ---------------------------------------------------------
\* the recorded deviation: disabled in the property-checking cfgs, enabled in ProxyRelay_asfound.cfg
DropEnabled == NetHTTP = "asis" /\ res.conn # << >> /\ "close" \in Tokens(res.conn)
NetHTTPDropsConnectionClose ==
    /\ pc = "respconn" /\ DropEnabled
    /\ res' = [res EXCEPT !.conn = << >>]
    /\ UNCHANGED <<req, conf, resp, pc, out, attempt, seenB, seenC>>

StripRespConnNamed ==
    /\ pc = "respconn" /\ ~DropEnabled
    /\ LET lines == IF ConnLines = "all" THEN res.conn ELSE SubSeq(res.conn, 1, IF Len(res.conn) > 0 THEN 1 ELSE 0)
       IN  res' = [res EXCEPT !.hdr = DelAll(@, Tokens(lines) \cap RespNames)]
    /\ pc' = "resphop"
    /\ UNCHANGED <<req, conf, resp, out, attempt, seenB, seenC>>

StripRespHop ==
    /\ pc = "resphop"
    /\ res' = [res EXCEPT !.hdr = DelAll(@, RespHop), !.conn = << >>]        \* res.Header.Del(h), unconditional
    /\ pc' = "downrules"
    /\ UNCHANGED <<req, conf, resp, out, attempt, seenB, seenC>>

ApplyDownRules ==
    /\ pc = "downrules"
    /\ res' = [res EXCEPT !.hdr = ApplyRules(@, conf.down, "X-Dset", "X-Dadd", "X-Ddel", "X-Dre")]
    /\ pc' = "copyhdr"
    /\ UNCHANGED <<req, conf, resp, out, attempt, seenB, seenC>>

CopyHeaders ==
    /\ pc = "copyhdr"
    /\ seenC' = [seenC EXCEPT !.status = resp.status, !.hdr = res.hdr]    \* the response writer's header is empty before
    /\ pc' = "copybody"
    /\ UNCHANGED <<req, conf, resp, out, attempt, seenB, res>>

CopyBody ==
    /\ pc = "copybody"
    /\ seenC' = [seenC EXCEPT !.body = resp.body]
    /\ pc' = "copytrailers"
    /\ UNCHANGED <<req, conf, resp, out, attempt, seenB, res>>

CopyTrailers ==
    /\ pc = "copytrailers"
    /\ seenC' = [seenC EXCEPT !.trailers = resp.trailers]      \* announced: Trailer header + values; unannounced: TrailerPrefix
    /\ pc' = "done"
    /\ UNCHANGED <<req, conf, resp, out, attempt, seenB, res>>

Next == StripConnectionNamed \/ StripHop \/ FoldXFF \/ StartAttempt \/ ApplyUpRules \/ Direct \/ RoundTrip
        \/ NetHTTPDropsConnectionClose \/ StripRespConnNamed \/ StripRespHop \/ ApplyDownRules \/ CopyHeaders \/ CopyBody \/ CopyTrailers

\* ---- the statement ---------------------------------------------------------
Done == pc = "done"
Last == seenB[Len(seenB)]
\* "hop-by-hop headers (including any named in Connection) removed, all end-to-end headers intact,
\*  exactly the configured header_upstream changes applied"
EndToEnd == LET named == Tokens(req.conn) \cap ReqNames
            IN  [k \in ReqNames |-> IF k \in ReqHop \cup named THEN << >> ELSE req.hdr[k]]
ExpectedUp ==
    LET h1 == ApplyRules(EndToEnd, conf.up, "X-Set", "X-Add", "X-Del", "X-Re")
    IN  IF conf.transparent
        THEN [h1 EXCEPT !["X-Real-Ip"] = <<"{remote}">>, !["X-Forwarded-Proto"] = <<"{scheme}">>, !["X-Forwarded-Port"] = <<"{server_port}">>]
        ELSE h1
BackendHeaders == Done => \A k \in 1..Len(seenB) : seenB[k].hdr = ExpectedUp
\* "the client address appended to X-Forwarded-For"
BackendXFF == Done => \A k \in 1..Len(seenB) : seenB[k].xff = Append(req.xff, "{remote}")
\* "same method, query and body bytes"
BackendMethodQueryBody == Done => \A k \in 1..Len(seenB) :
    seenB[k].method = req.method /\ seenB[k].body = req.body /\ seenB[k].query = JoinQ(conf.bq, req.query)
\* "its path changed only by the configured base path and 'without' prefix":
\* always for the decoded path; byte for byte (escapes kept) when the cut does not go through an escape
ExpectedRaw == LET w == SJS(conf.base, TrimPrefix(req.path, conf.without)) IN IF w = << >> THEN <<"/">> ELSE w
ExpectedDec == LET w == SJS(conf.base, TrimPrefix(Dec(req.path), conf.without)) IN IF w = << >> THEN <<"/">> ELSE w
Aligned == IsPrefixOf(conf.without, Dec(req.path)) = IsPrefixOf(conf.without, req.path)
           /\ LET r == TrimPrefix(req.path, conf.without) IN r = << >> \/ r[1] # "%2F" \/ conf.without = << >>
BackendPath == Done => \A k \in 1..Len(seenB) :
    /\ Dec(seenB[k].path) = ExpectedDec
    /\ (Aligned => seenB[k].path = ExpectedRaw)
\* every attempt carries the same request (C05 found the opposite)
AttemptsAlike == Done => \A k \in 1..Len(seenB) : seenB[k] = seenB[1]
\* "status, end-to-end headers, body bytes and trailers reach the client unchanged apart from removal of
\*  hop-by-hop headers and the configured header_downstream changes"
ExpectedDown ==
    LET named == Tokens(resp.conn) \cap RespNames
        e2e == [k \in RespNames |-> IF k \in RespHop \cup named THEN << >> ELSE resp.hdr[k]]
    IN  ApplyRules(e2e, conf.down, "X-Dset", "X-Dadd", "X-Ddel", "X-Dre")
ClientResponse == Done => /\ seenC.status = resp.status /\ seenC.body = resp.body /\ seenC.trailers = resp.trailers
                          /\ seenC.hdr = ExpectedDown
TypeOK == pc \in {"connnamed", "hop", "xff", "attempt", "uprules", "direct", "roundtrip", "respconn", "resphop",
                  "downrules", "copyhdr", "copybody", "copytrailers", "done"} /\ attempt \in 0..2

\* ---- the three factored case spaces ----------------------------------------
Paths(maxlen) == UNION {[1..l -> {"/", "a", "x", "%2F"}] : l \in 1..maxlen}
ReqPaths == {p \in Paths(MaxPath) : p[1] = "/"}
HdrVals == {<<"v1">>, <<"">>, <<"", "v1">>, <<"v1", "v2">>}

DefaultReq == [method |-> "GET", path |-> <<"/", "a", "/", "x">>, query |-> "q=1", hdr |-> NoHdr(ReqNames),
               conn |-> << >>, xff |-> << >>, body |-> 0]
DefaultConf == [base |-> << >>, bq |-> "", without |-> << >>, transparent |-> FALSE, up |-> {}, down |-> {}, retry |-> FALSE]
DefaultResp == [status |-> 200, hdr |-> [NoHdr(RespNames) EXCEPT !["Content-Type"] = <<"text/plain">>], conn |-> << >>,
                body |-> 1, trailers |-> "none"]

Start(r, c, p) ==
    /\ req = r /\ conf = c /\ resp = p
    /\ pc = "connnamed" /\ attempt = 0 /\ seenB = << >>
    /\ out = [hdr |-> r.hdr, conn |-> r.conn, xff |-> r.xff, path |-> Dec(r.path),
              rawpath |-> IF HasEsc(r.path) THEN r.path ELSE << >>, query |-> r.query, host |-> "client",
              base |-> [hdr |-> r.hdr, path |-> << >>, rawpath |-> << >>, query |-> ""]]
    /\ res = [hdr |-> p.hdr, conn |-> p.conn]
    /\ seenC = [status |-> 0, hdr |-> NoHdr(RespNames), body |-> 0 - 1, trailers |-> "?"]

ConnShapes(custom) == {<< >>, << <<custom>> >>, << <<"close", custom>> >>, << <<"close">>, <<custom>> >>, << <<"keep-alive">> >>, << <<"keep-alive">>, <<custom>> >>}

\* (1a) request headers: end-to-end, one hop-by-hop header in every value shape, Connection shapes, prior X-Forwarded-For
InitHdr == \E acc \in {<< >>, <<"v1">>, <<"v1", "v2">>}, e2e \in {<< >>, <<"">>, <<"v1">>},
              hop \in ReqHop \cup {"none"}, hv \in HdrVals, cs \in ConnShapes("X-Custom"), custom \in {<< >>, <<"v1">>},
              xff \in {<< >>, <<"p1">>, <<"p1", "p2">>}, tr \in BOOLEAN :
    /\ (hop = "none" => hv = <<"v1">>)
    /\ LET h0 == [NoHdr(ReqNames) EXCEPT !["Accept"] = acc, !["X-E2e"] = e2e, !["X-Custom"] = custom]
           h1 == IF hop = "none" THEN h0 ELSE [h0 EXCEPT ![hop] = hv]
       IN  Start([DefaultReq EXCEPT !.hdr = h1, !.conn = cs, !.xff = xff], [DefaultConf EXCEPT !.transparent = tr], DefaultResp)

\* (1b) header_upstream rules x transparent x retry (a failing first backend), with and without the client sending the rule targets
InitUp == \E up \in SUBSET Rules, sendT \in BOOLEAN, tr \in BOOLEAN, retry \in BOOLEAN, xff \in {<< >>, <<"p1">>},
             cs \in {<< >>, << <<"X-Add">> >>} :
    LET h0 == [NoHdr(ReqNames) EXCEPT !["Accept"] = <<"v1">>]
        h2 == IF sendT THEN [h0 EXCEPT !["X-Set"] = <<"c1", "c2">>, !["X-Add"] = <<"c1">>, !["X-Del"] = <<"c1">>, !["X-Re"] = <<"abc">>] ELSE h0
    IN  Start([DefaultReq EXCEPT !.hdr = h2, !.conn = cs, !.xff = xff],
              [DefaultConf EXCEPT !.up = up, !.transparent = tr, !.retry = retry, !.base = <<"/", "b">>, !.bq = "k=v"], DefaultResp)

\* (2) path x base x without x queries x retry
InitPath == \E p \in ReqPaths, base \in {<< >>, <<"/", "b">>, <<"/", "b", "/">>}, bq \in {"", "k=v"},
               w \in {<< >>, <<"/", "a">>}, q \in {"", "q=1"}, retry \in BOOLEAN :
    Start([DefaultReq EXCEPT !.path = p, !.query = q], [DefaultConf EXCEPT !.base = base, !.bq = bq, !.without = w, !.retry = retry], DefaultResp)

\* (3a) response status x headers x Connection shapes x trailers   (bodies and framing are varied by the harness)
InitResp == \E st \in Statuses, xr \in {<< >>, <<"v1">>, <<"v1", "v2">>}, ck \in {<< >>, <<"c=1", "d=2">>},
               hop \in RespHop \cup {"none"}, hv \in HdrVals, cs \in ConnShapes("X-Rcustom"), custom \in {<< >>, <<"v1">>},
               tl \in {"none", "announced", "unannounced"} :
    /\ (hop = "none" => hv = <<"v1">>)
    /\ (st = 204 => tl = "none")
    /\ LET h0 == [NoHdr(RespNames) EXCEPT !["Content-Type"] = <<"text/plain">>, !["X-Resp"] = xr, !["Set-Cookie"] = ck, !["X-Rcustom"] = custom]
           h1 == IF hop = "none" THEN h0 ELSE [h0 EXCEPT ![hop] = hv]
       IN  Start(DefaultReq, DefaultConf,
                 [DefaultResp EXCEPT !.status = st, !.hdr = h1, !.conn = cs, !.trailers = tl, !.body = IF st = 204 THEN 0 ELSE 1])

\* (3b) header_downstream rules
InitDown == \E down \in SUBSET Rules, sendT \in BOOLEAN, st \in {200, 404}, tl \in {"none", "announced", "unannounced"},
               cs \in {<< >>, << <<"X-Dadd">> >>} :
    LET h0 == [NoHdr(RespNames) EXCEPT !["Content-Type"] = <<"text/plain">>]
        h2 == IF sendT THEN [h0 EXCEPT !["X-Dset"] = <<"c1", "c2">>, !["X-Dadd"] = <<"c1">>, !["X-Ddel"] = <<"c1">>, !["X-Dre"] = <<"abc">>] ELSE h0
    IN  Start(DefaultReq, [DefaultConf EXCEPT !.down = down], [DefaultResp EXCEPT !.status = st, !.hdr = h2, !.conn = cs, !.trailers = tl])

InitAll == InitHdr \/ InitUp \/ InitPath \/ InitResp \/ InitDown

\* ---- emission: the case and what backend and client must see ----------------
Sparse(h) == [k \in {n \in DOMAIN h : h[n] # << >>} |-> h[k]]
Emit == Done => PrintT(<<"CASE", ToJson([req |-> [req EXCEPT !.hdr = Sparse(@)], conf |-> conf, resp |-> [resp EXCEPT !.hdr = Sparse(@)],
                                          backend |-> [hdr |-> Sparse(ExpectedUp), xff |-> Append(req.xff, "{remote}"), path |-> Last.path,
                                                       query |-> JoinQ(conf.bq, req.query), host |-> Last.host, attempts |-> Len(seenB)],
                                          client |-> [status |-> resp.status, hdr |-> Sparse(ExpectedDown), trailers |-> resp.trailers]])>>)
=============================================================================
