-------------------------- MODULE ProxyTunnelTrace --------------------------
(***************************************************************************)
(* Validates ndjson traces recorded around a real casket proxy site (raw   *)
(* TCP client on one side, raw TCP backend on the other, both owned by the *)
(* harness) against the fine-grained actions of ProxyTunnel.tla.           *)
(* Logged (sequence numbers under one harness mutex; a write is logged     *)
(* before it is made, a read after it returned):                           *)
(*   script  - a new exchange: the proxy block's settings (acts as reset)  *)
(*   creq    - the client writes its request: shape k, e bytes behind it   *)
(*   breq    - the backend has read the request head: Upgrade, Connection, *)
(*             whose Host                                                  *)
(*   bans    - the backend writes its answer: status, e bytes behind it    *)
(*   chead   - the client has read a response head                         *)
(*   csend / bsend - an endpoint writes n further bytes                    *)
(*   crecv / brecv - one read of an endpoint: the bytes it returned,       *)
(*             identified by their content (position in the stream)        *)
(*   cshut / bshut - an endpoint closes or half-closes                     *)
(*   ceof / beof   - an endpoint has read the end of the stream            *)
(*   bend / cend   - the backend ends an ordinary body / the client has    *)
(*             read the complete ordinary response                         *)
(*   probe   - another request to the same site (max_conns 1): 502 = full  *)
(* Not logged, inferred by TLC: every step of the proxy (ServerRead ...    *)
(* Release, the copy goroutines, the flush loop).                          *)
(***************************************************************************)
EXTENDS ProxyTunnel

VARIABLE l
Trace == ndJsonDeserialize("trace.ndjson")
tvars == <<vars, l>>
E == Trace[l]
IsEvent(e) == l <= Len(Trace) /\ Trace[l].ev = e /\ l' = l + 1

TInit == l = 1 /\ preset = TRUE /\ transp = FALSE /\ mc = 0 /\ InitRest

TScript ==
    /\ IsEvent("script")
    /\ preset' = E.preset /\ transp' = E.transp /\ mc' = E.mc
    /\ rk' = "none"
    /\ cst' = "new" /\ cn' = 0 /\ crecv' = <<>> /\ chead' = 0 /\ ceof' = FALSE /\ cend' = FALSE
    /\ bst' = "idle" /\ bn' = 0 /\ brecv' = <<>> /\ beof' = FALSE /\ breq' = NoReq /\ bans' = 0
    /\ c2p' = <<>> /\ p2c' = <<>> /\ b2p' = <<>> /\ p2b' = <<>>
    /\ pc' = "idle" /\ oh' = [upg |-> "", con |-> ""] /\ ohost' = "backend" /\ hj' = FALSE
    /\ conns' = 0 /\ status' = 0
    /\ srvbuf' = <<>> /\ bg' = FALSE /\ hbuf' = <<>> /\ replay' = <<>> /\ tbuf' = <<>>
    /\ g1' = "off" /\ bbuf' = <<>> /\ g2' = "off" /\ cbuf' = <<>> /\ dones' = 0
    /\ pcb' = FALSE /\ pcc' = FALSE
    /\ rs' = "off" /\ rbuf' = <<>> /\ wbuf' = <<>>
    /\ closer' = "none" /\ dirty' = FALSE
    /\ hist' = <<>> /\ nops' = 0

TCReq == IsEvent("creq") /\ ClientRequest(E.k, E.e)
\* Connection is judged for upgrade requests only: what the `websocket` preset does to the Connection
\* header of other requests (it passes it on, as documented) is not part of the guarantees
TBReq == /\ IsEvent("breq") /\ BReadReq
         /\ breq'.upg = E.upg /\ breq'.host = E.host
         /\ WsKind(rk) => breq'.con = E.con
TBAns == IsEvent("bans") /\ BAnswer(E.st, E.e)
TCHead == IsEvent("chead") /\ p2c # <<>> /\ Head(p2c) = -E.st /\ CRead(1)
TCSend == IsEvent("csend") /\ CSend(E.n)
TBSend == IsEvent("bsend") /\ BSend(E.n)
TCRecv == /\ IsEvent("crecv") /\ Len(E.ids) >= 1 /\ Len(E.ids) <= Len(p2c)
          /\ SubSeq(p2c, 1, Len(E.ids)) = E.ids /\ CRead(Len(E.ids))
TBRecv == /\ IsEvent("brecv") /\ Len(E.ids) >= 1 /\ Len(E.ids) <= Len(p2b)
          /\ SubSeq(p2b, 1, Len(E.ids)) = E.ids /\ BRead(Len(E.ids))
TCShut == IsEvent("cshut") /\ CShut(E.how)
TBShut == IsEvent("bshut") /\ BShut(E.how)

FinAt(s) == CHOOSE i \in 1..Len(s) : s[i] = FIN /\ \A j \in 1..(i - 1) : s[j] # FIN
\* the end of the stream as the endpoint saw it: FIN in its turn - or a reset, which discards
\* what was still on its way (NothingLostAtClose then decides whether that was allowed)
TCEof == /\ IsEvent("ceof") /\ p2c # <<>>
         /\ \/ Head(p2c) = FIN /\ CRead(1)
            \/ /\ E.how = "reset" /\ Has(p2c, FIN) /\ cst \in {"open", "half"}
               /\ p2c' = Rest(p2c, FinAt(p2c)) /\ ceof' = TRUE
               /\ UNCHANGED <<cfgv, rk, cst, cn, crecv, chead, cend, bckv, c2p, b2p, p2b, pc, hdrv, conns, status, srvv, replay, tbuf, tunv, pcb, pcc, relv, hisv>>
TBEof == /\ IsEvent("beof") /\ p2b # <<>>
         /\ \/ Head(p2b) = FIN /\ BRead(1)
            \/ /\ E.how = "reset" /\ Has(p2b, FIN) /\ bst \in {"open", "ended", "half"}
               /\ p2b' = Rest(p2b, FinAt(p2b)) /\ beof' = TRUE
               /\ UNCHANGED <<cfgv, rk, cliv, bst, bn, brecv, breq, bans, c2p, p2c, b2p, pc, hdrv, conns, status, srvv, replay, tbuf, tunv, pcb, pcc, relv, hisv>>
TBEnd == IsEvent("bend") /\ BEnd
TCEnd == IsEvent("cend") /\ p2c # <<>> /\ Head(p2c) = END /\ CRead(1)
TProbe == IsEvent("probe") /\ E.full = (conns >= 1) /\ UNCHANGED vars

Logged == \/ TCReq \/ TBReq \/ TBAns \/ TCHead \/ TCSend \/ TBSend \/ TCRecv \/ TBRecv \/ TCShut \/ TBShut
          \/ TCEof \/ TBEof \/ TBEnd \/ TCEnd \/ TProbe
TNext == TScript \/ ((Logged \/ (Proxy /\ UNCHANGED l)) /\ UNCHANGED <<hist, nops>>)
TSpec == TInit /\ [][TNext]_tvars

Constr == TLCSet(1, IF l > TLCGet(1) THEN l ELSE TLCGet(1))
Accepted == IF TLCGet(1) = Len(Trace) + 1 THEN TRUE
            ELSE Print(<<"REJECTED at event", TLCGet(1), Trace[TLCGet(1)]>>, FALSE)
ASSUME TLCSet(1, 0)
=============================================================================
