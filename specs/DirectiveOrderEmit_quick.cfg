CONSTANT MaxLines = 3
CONSTANT SampleAbove = 3
CONSTANT SampleOneIn = 1
CONSTANT PoolSel = "main"
CONSTANT ExecMode = "canon"
CONSTANT CompileMode = "outerfirst"
INIT Init
NEXT AddLine
INVARIANT Emit
CHECK_DEADLOCK FALSE
