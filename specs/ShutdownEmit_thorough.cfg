CONSTANTS MaxInst = 2
 MaxSigs = 4
INIT Init
NEXT Stop
INVARIANT Emit
CHECK_DEADLOCK FALSE
