\* thorough: every site with <= 2 lines, half of the three-line sites (which half depends on -seed)
CONSTANT MaxRules = 3
CONSTANT Sample2 = 1
CONSTANT Sample3 = 2
SPECIFICATION Spec
INVARIANT TypeOK
INVARIANT SetupInv
INVARIANT NoSelfRedirectRule
INVARIANT SelectInv
INVARIANT FirstMatchWins
INVARIANT SliceInBounds
INVARIANT ToFallbackOrder
INVARIANT RedirOrder
INVARIANT RewriteOnce
INVARIANT ExpandOnce
INVARIANT Deterministic
INVARIANT Emit
PROPERTY Progress
PROPERTY ToInOrder
PROPERTY RulesInOrder
CHECK_DEADLOCK FALSE
