\* thorough: every site with <= 3 lines
CONSTANT MaxRules = 3
CONSTANT Sample2 = 1
CONSTANT Sample3 = 1
CONSTANT BaseMode = "cleaned"
SPECIFICATION Spec
INVARIANT TypeOK
INVARIANT SetupInv
INVARIANT NoSelfRedirectRule
INVARIANT SelectInv
INVARIANT FirstMatchWins
INVARIANT SliceInBounds
INVARIANT ToFallbackOrder
INVARIANT RedirOrder
INVARIANT RewriteOnce
INVARIANT ExpandOnce
INVARIANT Deterministic
INVARIANT Emit
PROPERTY Progress
PROPERTY ToInOrder
PROPERTY RulesInOrder
CHECK_DEADLOCK FALSE
