----------------------------- MODULE LimitsReads -----------------------------
(* C17: Limits.tla restricted to the reader (one scope "/", every limit, every body length, every
   sequence of Read calls and every way the underlying body answers), with the history of calls
   recorded: every terminal behaviour is emitted and replayed call by call against
   limits.MaxBytesReader. A module of its own only so that ./check keeps its cases apart. *)
EXTENDS Limits
=============================================================================
