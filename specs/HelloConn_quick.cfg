CONSTANTS
  HelloLens = {0, 3, 5}
  ExtraLens = {0, 2}
SPECIFICATION Spec
INVARIANT SegmentationIndependent
INVARIANT NeverSkewed
INVARIANT BufferBounded
INVARIANT Emit
CHECK_DEADLOCK FALSE
