CONSTANTS Quoting = "repaired"
          Shapes = {"args", "block", "argsblock", "nested", "deep", "empty", "twodirs", "twoblocks", "snippet"}
          BadShapes = {"strayclose", "badimport"}
          KeyForms = {"plain", "path", "two"}
          Slot1 = {"w", "sp", "tb", "em", "qt", "qs", "q0", "bs", "bss", "bb", "bq", "nl", "cr", "us", "hs", "h0", "br", "ev", "ew", "eu", "ex", "ph"}
          Slot2 = {"w", "sp", "tb", "em", "qt", "qs", "q0", "bs", "bss", "bb", "bq", "nl", "cr", "us", "hs", "h0", "br", "ev", "ew", "eu", "ex", "ph"}
          WalkKinds = {"w", "m", "o", "c"}
          WalkToksN = 3
          WalkLen = 3
          WalkOps = {"Next", "NextArg", "NextLine", "NextBlock", "RemainingArgs", "Args2", "Nesting", "NextBlockNesting"}
          ShapedLen = 8
          ShapedOps = {"NextBlock", "RemainingArgs", "Nesting", "NextBlockNesting"}
SPECIFICATION Spec
INVARIANT RoundTripBlocks
INVARIANT RoundTripJson
INVARIANT JsonHasEveryToken
INVARIANT TextBalanced
INVARIANT RejectsWhatParseRejects
INVARIANT JsonWalkSane
INVARIANT ArgStaysOnLine
INVARIANT LineNeverSkips
INVARIANT RemainingIsArgRun
INVARIANT ArgsIsArgPrefix
INVARIANT AtMostOnce
INVARIANT CursorMonotone
INVARIANT NothingSkippedByArgCalls
INVARIANT BlockLoopExact
INVARIANT EmptyBlock
INVARIANT BoundedRun
INVARIANT EmitCase
PROPERTY Terminates
CHECK_DEADLOCK TRUE
