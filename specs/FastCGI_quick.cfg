CONSTANTS
  PairSet <- PairsQuick
  BodyLens <- BodiesQuick
  MaxPairs = 2
  MaxChunks = 3
  MaxErr = 1
SPECIFICATION Spec
INVARIANT RecLenFits
INVARIANT StreamsInOrder
INVARIANT ParamsExact
INVARIANT StdinExact
INVARIANT Delivered
INVARIANT Aligned
INVARIANT RespIntact
INVARIANT StderrOnlyLog
PROPERTY Terminates
CHECK_DEADLOCK FALSE
