CONSTANTS
  PairSet <- PairsThorough
  BodyLens <- BodiesThorough
  MaxPairs = 3
  MaxChunks = 4
  MaxErr = 2
SPECIFICATION Spec
INVARIANT RecLenFits
INVARIANT StreamsInOrder
INVARIANT ParamsExact
INVARIANT StdinExact
INVARIANT Delivered
INVARIANT Aligned
INVARIANT RespIntact
INVARIANT StderrOnlyLog
CHECK_DEADLOCK FALSE
