--------------------------- MODULE BrowseListing ---------------------------
(***************************************************************************)
(* The directory listings of the `browse` directive                        *)
(* (caskethttp/browse/browse.go, setup.go, default_template.html).         *)
(* An extension of property C02: FileServe.tla decides WHICH paths reach a *)
(* listing and treats the listing as an opaque answer; this module is the  *)
(* listing itself - when browse answers, which entries it shows, in which  *)
(* order, how many, with which links, in which rendering.                  *)
(*                                                                         *)
(* OPERATIONAL PART - one action per step the code takes for one request   *)
(* (the b_* program counters are the lines of browse.go in order):         *)
(*   Grow        the operator puts one more entry into the directory       *)
(*               (entries come from the adversarial Pool, section 2)       *)
(*   Begin       a request arrives (site, path, method, query, cookies,    *)
(*               Accept)                                                   *)
(*   BScope      Browse.ServeHTTP: first config whose PathScope matches    *)
(*   BOpen       Root.Open + Stat: only existing directories are ours      *)
(*   BMethod     GET/HEAD go on, PROPFIND/OPTIONS 501, the rest -> Next    *)
(*   BSlash      directory path without trailing slash: 301 to slash form  *)
(*   BReaddir    loadDirectoryContents: Readdir(-1), CanGoUp               *)
(*   BEntry      one iteration of the loop of directoryListing (index      *)
(*               name?, symlink target a directory?, hidden?, count,       *)
(*               append)                                                   *)
(*   BIndex      containsIndex -> Next (the file server serves the index)  *)
(*   BArchive    ?archive=<type>: ServeArchive if configured, else 404     *)
(*   BSortQ      handleSortOrder, `switch sort`  (query, cookie, default)  *)
(*   BOrderQ     handleSortOrder, `switch order`                           *)
(*   BLimitQ     handleSortOrder, strconv.Atoi(limit): error -> 400       *)
(*   BSort       Listing.applySort (sort.Sort is NOT stable: the result is *)
(*               the sequence of TIE GROUPS, the order inside a group is   *)
(*               free)                                                     *)
(*   BLimit      `if limit > 0 && limit <= len(Items)`: the window         *)
(*   BRender     Accept contains application/json -> formatAsJSON, else    *)
(*               the template (default or the `browse /path tpl` form)     *)
(* Every step is a function on the record st (XxxStep) so that the same    *)
(* definitions drive the TLC actions and Run(), which computes the         *)
(* expected outcome of the sampled requests emitted for the replay.        *)
(*                                                                         *)
(* This fork has no `offset` parameter (only sort, order, limit): a window *)
(* is always a prefix of the sorted list.                                  *)
(*                                                                         *)
(* DECLARATIVE PART (section 8): ListingEqualsDirectory, NoHiddenNames,    *)
(* CountsMatchListing, SortKeyIsRequested, AscIsReverseOfDesc,             *)
(* NeverAnErrorPage, CookieRules, JsonEqualsHtml, HeadEqualsGet,           *)
(* UpLinkWithinScope, LinksResolve, NamesAreInert, ArchiveOnlyIfConfigured.*)
(*                                                                         *)
(* Design switches (TRUE/TRUE/TRUE/TRUE in every cfg the check runs):      *)
(*   CountsVisible  NumDirs/NumFiles count the listed entries only (the    *)
(*                  repaired code); FALSE = hidden entries are counted as  *)
(*                  well (the code as found) - TLC refutes                 *)
(*                  CountsMatchListing                                     *)
(*   EscUrl, EscHtml, DotSlash   the three layers of the item link:        *)
(*                  url.URL{Path: "./"+name}.String() and {{html .URL}};   *)
(*                  FALSE = layer left out - TLC refutes LinksResolve /    *)
(*                  NamesAreInert (negative controls, run by hand)         *)
(***************************************************************************)
EXTENDS Integers, Sequences, FiniteSets, SequencesExt, TLC, Json

CONSTANTS MaxEntries,      \* directories of up to this many entries are built
          MaxChecked,      \* ... those of up to this many get the whole pipeline explored for every request of Requests
          MaxDeviations,   \* Requests: at most this many query/cookie/header dimensions away from the plain request ...
          MaxDeviationsBig, \* ... for directories of <= 1 entry / of more entries
          SampleRate,      \* SampleRate[n]: of the directories with n entries one in SampleRate[n] is emitted (hash + -seed)
          PerDir,          \* sampled requests emitted per directory
          SortQs, OrderQs, LimitQs, SortCks, OrderCks, Accepts, Methods, ArchQs,    \* alphabets of Requests
          CountsVisible, EscUrl, EscHtml, DotSlash

-----------------------------------------------------------------------------
(* 1. small helpers *)

MinOf(S) == CHOOSE x \in S : \A y \in S : x <= y
Rng(s) == {s[i] : i \in 1..Len(s)}
RECURSIVE IdxFrom(_, _, _)
IdxFrom(s, x, k) == IF k > Len(s) THEN 0 ELSE IF s[k] = x THEN k ELSE IdxFrom(s, x, k + 1)
IndexOf(s, x) == IdxFrom(s, x, 1)                      \* 0 = not there
UpTo(s, x) == LET k == IndexOf(s, x) IN IF k = 0 THEN s ELSE SubSeq(s, 1, k - 1)   \* the part before the first x
Letters == {"a", "b", "c", "d", "e", "f", "g", "h", "i", "j", "k", "l", "m", "n", "o", "p", "q", "r", "s", "t", "u", "v",
            "w", "x", "y", "z", "A", "B", "C", "D", "E", "F", "G", "H", "I", "J", "K", "L", "M", "N", "O", "P", "Q", "R",
            "S", "T", "U", "V", "W", "X", "Y", "Z"}
Digits == {"0", "1", "2", "3", "4", "5", "6", "7", "8", "9"}

-----------------------------------------------------------------------------
(* 2. the pool of directory entries
   A name is a sequence of character tokens: letters, digits and "." stand for themselves, the rest is written
   symbolically (the harness maps them to bytes): SP ' ', PCT '%', QM '?', HASH '#', AMP '&', SEMI ';', DQ '"', SQ ''',
   LT '<', GT '>', COLON ':', BS '\', LF newline, E9 = U+00E9 (two bytes in UTF-8), XFF XFE = bytes that are not UTF-8.
   kind: file | dir | lnfile (symlink to a regular file) | lndir (symlink to a directory) | lndangling (symlink to
   nothing) | lnhidden (symlink to the Casketfile) | hidcf (the Casketfile the site was loaded from, as a hard link:
   IsHidden identifies the file, not its name) | hidint (a file named by an `internal` directive, as a hard link).
   size: what lstat reports (a symlink: the length of its target text); mt: modification time (rank); lr: rank of
   strings.ToLower(name) in byte order - equal for names that differ only in case.  The harness checks size / lr /
   the Atoi table below against the real file system and the Go library before it believes any expectation. *)

Ent(id, kind, name, size, mt, lr) == [id |-> id, kind |-> kind, name |-> name, size |-> size, mt |-> mt, lr |-> lr]
Pool == <<
  Ent("A.txt",      "file",       <<"A", ".", "t", "x", "t">>,                        3,  5,  8),
  Ent("a.txt",      "file",       <<"a", ".", "t", "x", "t">>,                        3,  2,  8),   \* case twin: ties with A.txt by name and by size
  Ent("dot",        "file",       <<".", "d", "o", "t">>,                             0,  1,  3),
  Ent("sp",         "file",       <<"a", "SP", "b">>,                                 7,  5,  6),   \* time tie with A.txt
  Ent("pct",        "file",       <<"PCT", "4", "1", ".", "t", "x", "t">>,            2,  3,  1),   \* "%41.txt": unescaped it would name A.txt
  Ent("qm",         "file",       <<"x", "QM", "y", "HASH", "z">>,                    6,  6, 21),
  Ent("amp",        "file",       <<"AMP", "l", "t", "SEMI", "b">>,                   7,  7,  2),   \* "&lt;b": unescaped it would read "<b"
  Ent("dq",         "file",       <<"a", "DQ", "b">>,                                 1,  8,  7),
  Ent("sq",         "file",       <<"i", "t", "SQ", "s">>,                            4,  9, 13),
  Ent("script",     "file",       <<"LT", "s", "c", "r", "i", "p", "t", "GT">>,      11, 11,  4),
  Ent("tdot",       "file",       <<"t", ".">>,                                      12, 12, 20),
  Ent("u8",         "file",       <<"E9", ".", "t", "x", "t">>,                      13, 13, 23),
  Ent("bad",        "file",       <<"XFF", "XFE">>,                                  14, 14, 24),
  Ent("nl",         "file",       <<"a", "LF", "b">>,                                15, 15,  5),
  Ent("colon",      "file",       <<"a", "COLON", "b">>,                             16, 16,  9),
  Ent("bsl",        "file",       <<"b", "BS", "s">>,                                 2, 17, 10),   \* size tie with pct
  Ent("Sub",        "dir",        <<"S", "u", "b">>,                                  0, 18, 19),
  Ent("zed",        "dir",        <<"z", "e", "d">>,                                  0,  2, 22),   \* time tie with a.txt
  Ent("lnf",        "lnfile",     <<"l", "n", "f">>,                                 18, 19, 15),
  Ent("lnd",        "lndir",      <<"l", "n", "d">>,                                 13, 20, 14),
  Ent("lnx",        "lndangling", <<"l", "n", "x">>,                                  7, 21, 17),   \* size tie with sp and amp
  Ent("lnh",        "lnhidden",   <<"l", "n", "h">>,                                 16, 22, 16),   \* size tie with colon
  Ent("Casketfile", "hidcf",      <<"C", "a", "s", "k", "e", "t", "f", "i", "l", "e">>, 0, 0, 11),
  Ent("secret.txt", "hidint",     <<"s", "e", "c", "r", "e", "t", ".", "t", "x", "t">>, 0, 0, 18),
  Ent("index.html", "file",       <<"i", "n", "d", "e", "x", ".", "h", "t", "m", "l">>, 9, 23, 12) >>
NPool == Len(Pool)

IsLink(e)   == e.kind \in {"lnfile", "lndir", "lndangling", "lnhidden"}                 \* f.Mode()&os.ModeSymlink != 0
IsDirE(e)   == e.kind \in {"dir", "lndir"}                  \* f.IsDir() || isSymlinkTargetDir (Open+Stat through the jail)
IsHiddenE(e) == e.kind \in {"hidcf", "hidint"}              \* FileServer.IsHidden: os.SameFile with an entry of the hide list
Visible(D)  == {i \in D : ~IsHiddenE(Pool[i])}

\* a name with bytes that are not UTF-8: listed with a correct link, but since Go 1.23 net/http's Dir.Open refuses the
\* name and the file server answers 503 (findings/C02.json, state known).  Follows() keeps the declarative expectation;
\* the harness reports the deviation under a key of its own and leaves it out of its drift / vacuity accounting.
IsUtf8(e) == Rng(e.name) \cap {"XFF", "XFE"} = {}
\* what a client gets when it follows the link of an entry
Follows(e) == CASE IsDirE(e) -> "listing"
                [] e.kind \in {"file", "lnfile"} -> "content"
                [] OTHER -> "notfound"                      \* a link to nothing; a link to the hidden Casketfile (404, never its content)

-----------------------------------------------------------------------------
(* 3. sites, path scopes, the fixed part of the tree
   The root holds  cases/c/ (THE directory: its content is the variable dir),  up/{a/{Sub/}, ab/, b/{Sub/}}  (small
   fixed directories for the parent link),  tgt/ (link targets),  Casketfile, int/secret.txt (hidden).
   A path is [segs, slash]; a scope is the text of the Casketfile argument in the same form. *)

P(segs, slash) == [segs |-> segs, slash |-> slash]
DefaultIndex == {"index.html", "index.htm", "index.txt", "default.html", "default.htm", "default.txt"}   \* staticfiles.DefaultIndexPages
AllArchives == <<"zip", "tar", "tar.gz", "tar.xz", "tar.br", "tar.bz2", "tar.lz4", "tar.sz", "tar.zst">>  \* `servearchive` without arguments
Cfg(scope, text, tpl, arch) == [scope |-> scope, text |-> text, tpl |-> tpl, arch |-> arch]
Sites == <<
  \* A:  browse /
  [name |-> "A", index |-> DefaultIndex,
   configs |-> << Cfg(P(<<>>, TRUE), "/", "default", <<>>) >>],
  \* B:  browse /cases tpl.html { servearchive zip } ; browse /up/a ; browse /up/b/
  [name |-> "B", index |-> DefaultIndex,
   configs |-> << Cfg(P(<<"cases">>, FALSE), "/cases", "custom", <<"zip">>),
                  Cfg(P(<<"up", "a">>, FALSE), "/up/a", "default", <<>>),
                  Cfg(P(<<"up", "b">>, TRUE), "/up/b/", "default", <<>>) >>],
  \* C:  index a.txt ; browse { servearchive }       (SiteConfig.IndexPages comes from the index directive)
  [name |-> "C", index |-> {"a.txt"},
   configs |-> << Cfg(P(<<>>, TRUE), "/", "default", AllArchives) >>] >>
NSites == Len(Sites)

CaseSegs == <<"cases", "c">>
CasePath == P(CaseSegs, TRUE)
FixedDirs == {<<>>, <<"cases">>, CaseSegs, <<"up">>, <<"up", "a">>, <<"up", "a", "Sub">>, <<"up", "ab">>, <<"up", "b">>,
              <<"up", "b", "Sub">>, <<"tgt">>, <<"tgt", "dir">>, <<"int">>}
IsDirPath(segs) == segs \in FixedDirs

\* string prefix between segment NAMES (TLC cannot look into a string): the only pair of the tree
StrPrefix(x, y) == x = y \/ <<x, y>> \in {<<"a", "ab">>}
\* strings.HasPrefix("/" + join(p) [+ "/"], "/" + join(b) [+ "/"]) for clean paths
StrHasPrefix(p, b) ==
    IF b.segs = <<>> THEN TRUE
    ELSE LET n == Len(b.segs)
         IN  /\ Len(p.segs) >= n
             /\ \A i \in 1..(n - 1) : p.segs[i] = b.segs[i]
             /\ IF b.slash THEN p.segs[n] = b.segs[n] /\ (Len(p.segs) > n \/ p.slash)
                ELSE StrPrefix(b.segs[n], p.segs[n])
\* httpserver.Path(p).Matches(base): base "/" matches everything, else prefix of the cleaned texts
Matches(p, base) == base.segs = <<>> \/ (p.segs # <<>> /\ StrHasPrefix(p, base))
\* loadDirectoryContents: curPathDir := path.Dir(strings.TrimSuffix(urlPath, "/")); HasPrefix(curPathDir, other.PathScope)
\* (path.Dir of "" is ".": no scope is a prefix of that)
ParentOf(p) == P(SubSeq(p.segs, 1, Len(p.segs) - 1), FALSE)
CanGoUp(site, p) == /\ p.segs # <<>>
                    /\ \E k \in 1..Len(Sites[site].configs) : StrHasPrefix(ParentOf(p), Sites[site].configs[k].scope)

-----------------------------------------------------------------------------
(* 4. the request and its parsing tables *)

ValidSorts == {"name", "namedirfirst", "size", "time"}
ValidOrders == {"asc", "desc"}
\* strconv.Atoi of the limit value ("-" = parameter absent or empty)
AtoiTab == [s \in {"0", "-1", "1", "2", "3", "5", "6", "+2", "abc", "99999999999999999999", "2x"} |->
              CASE s = "0" -> [ok |-> TRUE, n |-> 0]   [] s = "-1" -> [ok |-> TRUE, n |-> -1]
                [] s = "1" -> [ok |-> TRUE, n |-> 1]   [] s = "2" -> [ok |-> TRUE, n |-> 2]
                [] s = "3" -> [ok |-> TRUE, n |-> 3]   [] s = "5" -> [ok |-> TRUE, n |-> 5]
                [] s = "6" -> [ok |-> TRUE, n |-> 6]   [] s = "+2" -> [ok |-> TRUE, n |-> 2]
                [] OTHER -> [ok |-> FALSE, n |-> 0]]
\* Accept header shapes: - (none), html "text/html", json "application/json", JSON "Application/JSON",
\* mixed "text/html, application/json;q=0.9", twolines (two header lines: text/html / application/json), star "*/*"
AcceptJson == {"json", "JSON", "mixed", "twolines"}     \* strings.Contains(ToLower(Join(Accept, ",")), "application/json")

PlainParams == [sortq |-> "-", orderq |-> "-", limitq |-> "-", sortck |-> "-", orderck |-> "-", accept |-> "-", archq |-> "-"]
Req(site, path, method, prm) ==
    [site |-> site, path |-> path, method |-> method, sortq |-> prm.sortq, orderq |-> prm.orderq, limitq |-> prm.limitq,
     sortck |-> prm.sortck, orderck |-> prm.orderck, accept |-> prm.accept, archq |-> prm.archq]

-----------------------------------------------------------------------------
(* 5. sorting: the Less functions of browse.go, and the tie groups sort.Sort may produce *)

DirectoryOffset == -2147483647 - 1                              \* const directoryOffset = -1 << 31
LessName(a, b) == a.lr < b.lr                                   \* strings.ToLower(a.Name) < strings.ToLower(b.Name)
LessNameDirFirst(a, b) == IF IsDirE(a) = IsDirE(b) THEN a.lr < b.lr ELSE IsDirE(a)
LessSize(a, b) == LET ia == IF IsDirE(a) THEN DirectoryOffset ELSE a.size
                      ib == IF IsDirE(b) THEN DirectoryOffset ELSE b.size
                  IN  IF IsDirE(a) /\ IsDirE(b) THEN a.lr < b.lr ELSE ia < ib
LessTime(a, b) == a.mt < b.mt                                   \* ModTime.Before
LessAsc(sort, a, b) == CASE sort = "name" -> LessName(a, b)
                         [] sort = "namedirfirst" -> LessNameDirFirst(a, b)
                         [] sort = "size" -> LessSize(a, b)
                         [] sort = "time" -> LessTime(a, b)
Less(sort, order, a, b) == IF order = "desc" THEN LessAsc(sort, b, a) ELSE LessAsc(sort, a, b)   \* sort.Reverse swaps the arguments

\* sort.Sort with a strict weak order: the minimal elements first (in any order among themselves), then the rest
RECURSIVE GroupsOf(_, _, _)
GroupsOf(S, sort, order) ==
    IF S = {} THEN <<>>
    ELSE LET m == {i \in S : \A j \in S : ~Less(sort, order, Pool[j], Pool[i])}
         IN  <<m>> \o GroupsOf(S \ m, sort, order)
\* applySort: `default: return` - any other value of Sort leaves the Readdir order (one group: nothing is promised)
SortGroups(S, sort, order) == IF sort \in ValidSorts THEN GroupsOf(S, sort, order)
                              ELSE IF S = {} THEN <<>> ELSE <<S>>

\* the declarative sort keys (section 8 relates them to the Less functions)
Big == 1000
Key(sort, e) == CASE sort = "name" -> e.lr
                  [] sort = "namedirfirst" -> IF IsDirE(e) THEN e.lr ELSE Big + e.lr
                  [] sort = "size" -> IF IsDirE(e) THEN e.lr ELSE Big + e.size
                  [] sort = "time" -> e.mt

-----------------------------------------------------------------------------
(* 6. the item link: url.URL{Path: "./" + name}.String() put through {{html .URL}}, and what a client makes of it
   A piece of text is a sequence of [k, c]: raw c | pct c ("%XX" of every byte of c) | ent c (a character reference). *)

Raw(c) == [k |-> "raw", c |-> c]
Text(s) == [i \in 1..Len(s) |-> Raw(s[i])]
\* net/url shouldEscape(c, encodePath): letters, digits, - _ . ~ $ & + , / : ; = @ stay
UrlKeep == Letters \cup Digits \cup {".", "/", "AMP", "COLON", "SEMI"}
UrlEnc(t) == [i \in 1..Len(t) |-> IF EscUrl /\ t[i].k = "raw" /\ t[i].c \notin UrlKeep THEN [k |-> "pct", c |-> t[i].c] ELSE t[i]]
\* text/template's html function: " ' & < >
HtmlSpecial == {"DQ", "SQ", "AMP", "LT", "GT"}
HtmlEnc(t) == [i \in 1..Len(t) |-> IF EscHtml /\ t[i].k = "raw" /\ t[i].c \in HtmlSpecial THEN [k |-> "ent", c |-> t[i].c] ELSE t[i]]

ItemPath(e) == (IF DotSlash THEN <<".", "/">> ELSE <<>>) \o e.name \o (IF IsDirE(e) THEN <<"/">> ELSE <<>>)
UrlOf(e)    == UrlEnc(Text(ItemPath(e)))          \* FileInfo.URL (the JSON rendering shows it as it is)
HrefOf(e)   == HtmlEnc(UrlOf(e))                  \* <a href="{{html .URL}}">
LabelOf(e)  == HtmlEnc(Text(e.name))              \* <span class="name">{{html .Name}}</span>

\* --- the client: an HTML parser ...
UnEnt(t) == [i \in 1..Len(t) |-> IF t[i].k = "ent" THEN Raw(t[i].c) ELSE t[i]]
AttrValue(t) == UnEnt(UpTo(t, Raw("DQ")))          \* a double-quoted attribute ends at the first raw quote
\* text content: a raw '<' followed by a letter opens a tag; a raw "&lt;" is read as '<'
OpensTag(t) == \E i \in 1..(Len(t) - 1) : t[i] = Raw("LT") /\ t[i + 1].k = "raw" /\ t[i + 1].c \in Letters
RECURSIVE Shown(_)
Shown(t) == IF t = <<>> THEN <<>>
            ELSE IF Len(t) >= 4 /\ SubSeq(t, 1, 4) = <<Raw("AMP"), Raw("l"), Raw("t"), Raw("SEMI")>>
                   THEN <<"LT">> \o Shown(SubSeq(t, 5, Len(t)))
            ELSE <<t[1].c>> \o Shown(Tail(t))
\* --- ... and RFC 3986 reference resolution against the URL of the directory (net/url, a browser)
NoFragment(t) == UpTo(t, Raw("HASH"))
NoQuery(t)    == UpTo(t, Raw("QM"))
\* a colon in the first path segment makes the reference absolute (or unparsable): it leaves the directory
HasScheme(t)  == LET c == IndexOf(t, Raw("COLON"))
                     s == IndexOf(t, Raw("/"))
                 IN  c # 0 /\ (s = 0 \/ c < s)
RECURSIVE SplitSlash(_)
SplitSlash(t) == LET k == IndexOf(t, Raw("/"))
                 IN  IF k = 0 THEN <<t>> ELSE <<SubSeq(t, 1, k - 1)>> \o SplitSlash(SubSeq(t, k + 1, Len(t)))
\* percent-decoding of one segment (done once, by the server): pct c -> c; a raw %41 -> A; any other raw % is a bad request
RECURSIVE Decode(_)
Decode(t) == IF t = <<>> THEN <<>>
             ELSE IF t[1].k = "pct" THEN <<t[1].c>> \o Decode(Tail(t))
             ELSE IF t[1] = Raw("PCT")
                    THEN IF Len(t) >= 3 /\ t[2] = Raw("4") /\ t[3] = Raw("1") THEN <<"A">> \o Decode(SubSeq(t, 4, Len(t)))
                         ELSE <<"BADESCAPE">>
             ELSE <<t[1].c>> \o Decode(Tail(t))
IsDot(seg)    == seg = <<Raw(".")>>
IsDotDot(seg) == seg = <<Raw("."), Raw(".")>>
RECURSIVE Walk(_, _)
Walk(stack, segs) ==       \* remove_dot_segments over base directory + reference path
    IF segs = <<>> THEN stack
    ELSE LET s == Head(segs)
         IN  IF s = <<>> \/ IsDot(s) THEN Walk(stack, Tail(segs))
             ELSE IF IsDotDot(s) THEN Walk(IF stack = <<>> THEN <<>> ELSE SubSeq(stack, 1, Len(stack) - 1), Tail(segs))
             ELSE Walk(Append(stack, Decode(s)), Tail(segs))
\* the path the server sees when the client follows reference t from directory base (a sequence of names),
\* with the trailing-slash flag; ok = FALSE: the reference leaves the site or is not a URL
FollowRef(base, t) ==
    LET p == NoQuery(NoFragment(t))
        segs == SplitSlash(p)
        last == segs[Len(segs)]
    IN  IF HasScheme(p) THEN [ok |-> FALSE, names |-> <<>>, slash |-> FALSE]
        ELSE [ok |-> TRUE, names |-> Walk(base, segs), slash |-> (last = <<>> \/ IsDot(last) \/ IsDotDot(last))]
CaseBase == << <<"c", "a", "s", "e", "s">>, <<"c">> >>

LinkResolves(e) == FollowRef(CaseBase, AttrValue(HrefOf(e))) = [ok |-> TRUE, names |-> Append(CaseBase, e.name), slash |-> IsDirE(e)]
JsonUrlResolves(e) == FollowRef(CaseBase, UrlOf(e)) = [ok |-> TRUE, names |-> Append(CaseBase, e.name), slash |-> IsDirE(e)]
NameIsInert(e)  == ~OpensTag(LabelOf(e)) /\ Shown(LabelOf(e)) = e.name /\ IndexOf(HrefOf(e), Raw("DQ")) = 0
                   /\ IndexOf(HrefOf(e), Raw("LT")) = 0 /\ IndexOf(HrefOf(e), Raw("GT")) = 0

-----------------------------------------------------------------------------
(* 7. one request through Browse.ServeHTTP / ServeListing *)

VARIABLES dir,      \* the directory: a strictly increasing sequence of Pool indices
          req,      \* the request being served (Req), or NoReq
          st        \* the handler's state
vars == <<dir, req, st>>
DSet(d) == Rng(d)

Idle == [pc |-> "build", cfg |-> 0, todo |-> <<>>, items |-> {}, ndirs |-> 0, nfiles |-> 0, hasindex |-> FALSE, up |-> FALSE,
         sort |-> "", order |-> "", limit |-> 0, setsort |-> "-", setorder |-> "-", groups |-> <<>>, shown |-> 0, limited |-> 0,
         kind |-> "none", status |-> 0, fmt |-> "-", opaque |-> FALSE]
NoReq == Req(1, CasePath, "GET", PlainParams)
Start == [Idle EXCEPT !.pc = "b_scope"]

Done(s, kind, status) == [s EXCEPT !.pc = "done", !.kind = kind, !.status = status]
ToNext(s) == Done(s, "next", 0)            \* b.Next.ServeHTTP: the file server answers (FileServe.tla)
ConfigsOf(rq) == Sites[rq.site].configs

\* for i := range b.Configs { if Path(r.URL.Path).Matches(PathScope) { bc = &b.Configs[i]; break } }
BScopeStep(d, rq, s) ==
    LET hits == {k \in 1..Len(ConfigsOf(rq)) : Matches(rq.path, ConfigsOf(rq)[k].scope)}
    IN  IF hits = {} THEN ToNext(s) ELSE [s EXCEPT !.pc = "b_open", !.cfg = MinOf(hits)]

\* Root.Open(r.URL.Path), Stat, IsDir: everything that is not an existing directory is delegated
BOpenStep(d, rq, s) == IF IsDirPath(rq.path.segs) THEN [s EXCEPT !.pc = "b_method"] ELSE ToNext(s)

BMethodStep(d, rq, s) ==
    CASE rq.method \in {"GET", "HEAD"} -> [s EXCEPT !.pc = "b_slash"]
      [] rq.method \in {"PROPFIND", "OPTIONS"} -> Done(s, "status", 501)
      [] OTHER -> ToNext(s)

\* "browsing navigation gets messed up if the directory doesn't end in /": 301 to path + "/" (query kept)
BSlashStep(d, rq, s) == IF rq.path.slash \/ rq.path.segs = <<>> THEN [s EXCEPT !.pc = "b_readdir"] ELSE Done(s, "redirect", 301)

\* loadDirectoryContents: Readdir(-1) - all entries, in no particular order - and CanGoUp.
\* Only the content of cases/c is modelled; the other directories are opaque (status, parent link, cookies only).
BReaddirStep(d, rq, s) ==
    [s EXCEPT !.pc = "b_entry", !.up = CanGoUp(rq.site, rq.path),
              !.todo = IF rq.path.segs = CaseSegs THEN d ELSE <<>>, !.opaque = rq.path.segs # CaseSegs]

\* one iteration of `for _, f := range files` in directoryListing
BEntryStep(d, rq, s) ==
    IF s.todo = <<>> THEN [s EXCEPT !.pc = "b_index"]
    ELSE LET i == Head(s.todo)
             f == Pool[i]
             counted == IF CountsVisible THEN ~IsHiddenE(f) ELSE TRUE
         IN  [s EXCEPT !.todo = Tail(s.todo),
                       !.hasindex = @ \/ f.id \in Sites[rq.site].index,              \* name == indexName
                       !.ndirs  = IF counted /\ IsDirE(f) THEN @ + 1 ELSE @,
                       !.nfiles = IF counted /\ ~IsDirE(f) THEN @ + 1 ELSE @,
                       !.items  = IF IsHiddenE(f) THEN @ ELSE @ \cup {i}]            \* if config.Fs.IsHidden(f) { continue }

\* if containsIndex && !b.IgnoreIndexes { return b.Next.ServeHTTP(w, r) }
BIndexStep(d, rq, s) == IF s.hasindex THEN ToNext(s) ELSE [s EXCEPT !.pc = "b_archive"]

\* ?archive=<type>: one of bc.ArchiveTypes -> ServeArchive (FileServe.tla has the walker), else 404
BArchiveStep(d, rq, s) ==
    IF rq.archq = "-" THEN [s EXCEPT !.pc = "b_sortq"]
    ELSE IF rq.archq \in Rng(ConfigsOf(rq)[s.cfg].arch) THEN Done(s, "archive", 200)
    ELSE Done(s, "status", 404)

\* handleSortOrder, switch sort: "" -> cookie or namedirfirst; one of the four -> SetCookie; anything else is kept as it is
BSortQStep(d, rq, s) ==
    CASE rq.sortq = "-" -> [s EXCEPT !.pc = "b_orderq", !.sort = IF rq.sortck # "-" THEN rq.sortck ELSE "namedirfirst"]
      [] rq.sortq \in ValidSorts -> [s EXCEPT !.pc = "b_orderq", !.sort = rq.sortq, !.setsort = rq.sortq]
      [] OTHER -> [s EXCEPT !.pc = "b_orderq", !.sort = rq.sortq]
BOrderQStep(d, rq, s) ==
    CASE rq.orderq = "-" -> [s EXCEPT !.pc = "b_limitq", !.order = IF rq.orderck # "-" THEN rq.orderck ELSE "asc"]
      [] rq.orderq \in ValidOrders -> [s EXCEPT !.pc = "b_limitq", !.order = rq.orderq, !.setorder = rq.orderq]
      [] OTHER -> [s EXCEPT !.pc = "b_limitq", !.order = rq.orderq]
\* "if the 'limit' query can't be interpreted as a number, return err" -> 400
BLimitQStep(d, rq, s) ==
    IF rq.limitq = "-" THEN [s EXCEPT !.pc = "b_sort"]
    ELSE IF AtoiTab[rq.limitq].ok THEN [s EXCEPT !.pc = "b_sort", !.limit = AtoiTab[rq.limitq].n]
    ELSE Done(s, "status", 400)

\* listing.applySort(): l.Order == "desc" -> sort.Reverse, everything else ascending
BSortStep(d, rq, s) == [s EXCEPT !.pc = "b_limit", !.groups = SortGroups(s.items, s.sort, s.order)]

\* if limit > 0 && limit <= len(listing.Items) { Items = Items[:limit]; ItemsLimitedTo = limit }
BLimitStep(d, rq, s) ==
    LET n == Cardinality(s.items)
    IN  IF s.limit > 0 /\ s.limit <= n THEN [s EXCEPT !.pc = "b_render", !.shown = s.limit, !.limited = s.limit]
        ELSE [s EXCEPT !.pc = "b_render", !.shown = n]

\* Accept contains application/json -> formatAsJSON (the items only), else the template of the config.  The template also
\* sees Listing.Name = path.Base(urlPath) and Listing.Path = urlPath; the harness checks both on the custom template.
BRenderStep(d, rq, s) ==
    [Done(s, "listing", 200) EXCEPT !.fmt = IF rq.accept \in AcceptJson THEN "json" ELSE ConfigsOf(rq)[s.cfg].tpl]

Step(d, rq, s) ==
    CASE s.pc = "b_scope"   -> BScopeStep(d, rq, s)
      [] s.pc = "b_open"    -> BOpenStep(d, rq, s)
      [] s.pc = "b_method"  -> BMethodStep(d, rq, s)
      [] s.pc = "b_slash"   -> BSlashStep(d, rq, s)
      [] s.pc = "b_readdir" -> BReaddirStep(d, rq, s)
      [] s.pc = "b_entry"   -> BEntryStep(d, rq, s)
      [] s.pc = "b_index"   -> BIndexStep(d, rq, s)
      [] s.pc = "b_archive" -> BArchiveStep(d, rq, s)
      [] s.pc = "b_sortq"   -> BSortQStep(d, rq, s)
      [] s.pc = "b_orderq"  -> BOrderQStep(d, rq, s)
      [] s.pc = "b_limitq"  -> BLimitQStep(d, rq, s)
      [] s.pc = "b_sort"    -> BSortStep(d, rq, s)
      [] s.pc = "b_limit"   -> BLimitStep(d, rq, s)
      [] s.pc = "b_render"  -> BRenderStep(d, rq, s)
RECURSIVE RunFrom(_, _, _)
RunFrom(d, rq, s) == IF s.pc = "done" THEN s ELSE RunFrom(d, rq, Step(d, rq, s))
Run(d, rq) == RunFrom(d, rq, Start)

\* --- the transition system
\* Requests: every combination of the cfg's alphabets that differs from the plain request in at most MaxDeviations places
Deviations(p) == Cardinality({f \in DOMAIN PlainParams : p[f] # "-"})
ReqParams == {p \in [sortq : SortQs, orderq : OrderQs, limitq : LimitQs, sortck : SortCks, orderck : OrderCks,
                     accept : Accepts, archq : ArchQs] : Deviations(p) <= MaxDeviations}
CasePaths == {CasePath, P(CaseSegs, FALSE), P(<<"cases", "c", "nope">>, FALSE)}
UpPaths == {P(<<>>, TRUE), P(<<"up">>, TRUE), P(<<"up", "a">>, TRUE), P(<<"up", "a">>, FALSE), P(<<"up", "a", "Sub">>, TRUE),
            P(<<"up", "ab">>, TRUE), P(<<"up", "b">>, TRUE), P(<<"up", "b", "Sub">>, TRUE), P(<<"cases">>, TRUE)}

Init == dir = <<>> /\ req = NoReq /\ st = Idle

Grow == /\ st.pc = "build" /\ Len(dir) < MaxEntries
        /\ \E i \in 1..NPool : i > (IF dir = <<>> THEN 0 ELSE dir[Len(dir)]) /\ dir' = Append(dir, i)
        /\ UNCHANGED <<req, st>>
Begin == /\ st.pc = "build" /\ Len(dir) <= MaxChecked
         /\ \/ \E site \in 1..NSites, path \in CasePaths, m \in Methods, p \in ReqParams :
                   /\ Deviations(p) <= (IF Len(dir) <= 1 THEN MaxDeviations ELSE MaxDeviationsBig)
                   /\ req' = Req(site, path, m, p)
            \/ \E site \in 1..NSites, path \in UpPaths : dir = <<>> /\ req' = Req(site, path, "GET", PlainParams)
         /\ st' = Start
         /\ UNCHANGED dir

\* one action per step (written out, not through a helper, so that -coverage 1 counts each of them)
BScope   == st.pc = "b_scope" /\ st' = BScopeStep(dir, req, st) /\ UNCHANGED <<dir, req>>
BOpen    == st.pc = "b_open" /\ st' = BOpenStep(dir, req, st) /\ UNCHANGED <<dir, req>>
BMethod  == st.pc = "b_method" /\ st' = BMethodStep(dir, req, st) /\ UNCHANGED <<dir, req>>
BSlash   == st.pc = "b_slash" /\ st' = BSlashStep(dir, req, st) /\ UNCHANGED <<dir, req>>
BReaddir == st.pc = "b_readdir" /\ st' = BReaddirStep(dir, req, st) /\ UNCHANGED <<dir, req>>
BEntry   == st.pc = "b_entry" /\ st' = BEntryStep(dir, req, st) /\ UNCHANGED <<dir, req>>
BIndex   == st.pc = "b_index" /\ st' = BIndexStep(dir, req, st) /\ UNCHANGED <<dir, req>>
BArchive == st.pc = "b_archive" /\ st' = BArchiveStep(dir, req, st) /\ UNCHANGED <<dir, req>>
BSortQ   == st.pc = "b_sortq" /\ st' = BSortQStep(dir, req, st) /\ UNCHANGED <<dir, req>>
BOrderQ  == st.pc = "b_orderq" /\ st' = BOrderQStep(dir, req, st) /\ UNCHANGED <<dir, req>>
BLimitQ  == st.pc = "b_limitq" /\ st' = BLimitQStep(dir, req, st) /\ UNCHANGED <<dir, req>>
BSort    == st.pc = "b_sort" /\ st' = BSortStep(dir, req, st) /\ UNCHANGED <<dir, req>>
BLimit   == st.pc = "b_limit" /\ st' = BLimitStep(dir, req, st) /\ UNCHANGED <<dir, req>>
BRender  == st.pc = "b_render" /\ st' = BRenderStep(dir, req, st) /\ UNCHANGED <<dir, req>>

Next == Grow \/ Begin \/ BScope \/ BOpen \/ BMethod \/ BSlash \/ BReaddir \/ BEntry \/ BIndex \/ BArchive
        \/ BSortQ \/ BOrderQ \/ BLimitQ \/ BSort \/ BLimit \/ BRender
Spec == Init /\ [][Next]_vars /\ WF_vars(BScope \/ BOpen \/ BMethod \/ BSlash \/ BReaddir \/ BEntry \/ BIndex \/ BArchive
                                         \/ BSortQ \/ BOrderQ \/ BLimitQ \/ BSort \/ BLimit \/ BRender)

-----------------------------------------------------------------------------
(* 8. the guarantees *)

TypeOK == /\ st.pc \in {"build", "b_scope", "b_open", "b_method", "b_slash", "b_readdir", "b_entry", "b_index", "b_archive",
                        "b_sortq", "b_orderq", "b_limitq", "b_sort", "b_limit", "b_render", "done"}
          /\ st.kind \in {"none", "next", "status", "redirect", "archive", "listing"}
          /\ \A k \in 1..(Len(dir) - 1) : dir[k] < dir[k + 1]
Listed == st.pc = "done" /\ st.kind = "listing" /\ ~st.opaque
Flat(groups) == UNION Rng(groups)
TheDir == DSet(dir)

\* --- about the Less functions themselves (every directory, every sort and order; evaluated on the build states)
\* each is a strict weak order whose classes are the classes of the declared key: the result of sort.Sort is determined
\* up to the order inside a class, ascending is the reverse of descending, the key is the requested one
LessIsKeyOrder ==
    st.pc = "build" =>
        \A sort \in ValidSorts : \A i, j \in TheDir :
            /\ LessAsc(sort, Pool[i], Pool[j]) <=> Key(sort, Pool[i]) < Key(sort, Pool[j])
            /\ Less(sort, "desc", Pool[i], Pool[j]) <=> Key(sort, Pool[i]) > Key(sort, Pool[j])
SortIsTotal ==
    st.pc = "build" =>
        \A sort \in ValidSorts : \A order \in ValidOrders :
            LET g == SortGroups(Visible(TheDir), sort, order)
            IN  /\ Flat(g) = Visible(TheDir)                                               \* nothing lost, nothing invented
                /\ \A a, b \in 1..Len(g) : a # b => g[a] \cap g[b] = {}                     \* each entry exactly once
                /\ \A a \in 1..Len(g) : g[a] # {} /\ \A i, j \in g[a] : Key(sort, Pool[i]) = Key(sort, Pool[j])
                /\ \A a, b \in 1..Len(g) : a < b => \A i \in g[a], j \in g[b] :
                       IF order = "asc" THEN Key(sort, Pool[i]) < Key(sort, Pool[j]) ELSE Key(sort, Pool[i]) > Key(sort, Pool[j])
AscIsReverseOfDesc ==
    st.pc = "build" =>
        \A sort \in ValidSorts : SortGroups(Visible(TheDir), sort, "asc") = Reverse(SortGroups(Visible(TheDir), sort, "desc"))
DirsFirst ==          \* "directories first" is a property of namedirfirst (and of size), not of name and time
    st.pc = "build" =>
        \A sort \in {"namedirfirst", "size"} :
            LET g == SortGroups(Visible(TheDir), sort, "asc")
            IN  \A a, b \in 1..Len(g) : (\E i \in g[a] : ~IsDirE(Pool[i])) /\ (\E j \in g[b] : IsDirE(Pool[j])) => a > b

\* --- about the links (every entry of the pool; evaluated once)
AtStart == st.pc = "build" /\ dir = <<>>
LinksResolve  == AtStart => \A i \in 1..NPool : ~IsHiddenE(Pool[i]) => LinkResolves(Pool[i]) /\ JsonUrlResolves(Pool[i])
NamesAreInert == AtStart => \A i \in 1..NPool : ~IsHiddenE(Pool[i]) => NameIsInert(Pool[i])

\* --- about one answered request
\* the items are the entries of the directory minus the hidden ones, each exactly once, whatever sort / order / limit
ListingEqualsDirectory ==
    Listed => /\ Flat(st.groups) = Visible(TheDir)
              /\ \A a, b \in 1..Len(st.groups) : a # b => st.groups[a] \cap st.groups[b] = {}
              /\ st.shown = (IF st.limit > 0 /\ st.limit <= Cardinality(Visible(TheDir)) THEN st.limit ELSE Cardinality(Visible(TheDir)))
              /\ st.limited # 0 => st.shown = st.limited              \* "If # 0 then Items have been limited to that many elements"
              /\ st.shown < Cardinality(Visible(TheDir)) => st.limited = st.shown
NoHiddenNames == \A i \in st.items \cup Flat(st.groups) : ~IsHiddenE(Pool[i])
\* NumDirs / NumFiles: "the number of directories / files in the listing" - of the whole listing, not of the window,
\* and of the listing, not of the directory (a hidden entry must not be betrayed by the counters)
CountsMatchListing ==
    Listed => /\ st.ndirs = Cardinality({i \in Visible(TheDir) : IsDirE(Pool[i])})
              /\ st.nfiles = Cardinality({i \in Visible(TheDir) : ~IsDirE(Pool[i])})
\* the order is the requested one: query parameter, else cookie, else namedirfirst / asc
SortKeyIsRequested ==
    Listed => /\ req.sortq \in ValidSorts => st.sort = req.sortq
              /\ req.sortq = "-" /\ req.sortck \in ValidSorts => st.sort = req.sortck
              /\ req.sortq = "-" /\ req.sortck = "-" => st.sort = "namedirfirst"
              /\ req.orderq \in ValidOrders => st.order = req.orderq
              /\ req.orderq = "-" /\ req.orderck \in ValidOrders => st.order = req.orderck
              /\ req.orderq = "-" /\ req.orderck = "-" => st.order = "asc"
              /\ st.sort \in ValidSorts => st.groups = SortGroups(Visible(TheDir), st.sort, IF st.order = "desc" THEN "desc" ELSE "asc")
\* a cookie is set exactly when the parameter is present and valid, and it carries that value
CookieRules ==
    Listed => /\ st.setsort = (IF req.sortq \in ValidSorts THEN req.sortq ELSE "-")
              /\ st.setorder = (IF req.orderq \in ValidOrders THEN req.orderq ELSE "-")
\* invalid sort / order values (query or cookie) never produce an error page; the only parameter that can is a limit
\* that is not a number (400)
Browsable == /\ req.path = CasePath /\ req.method \in {"GET", "HEAD"} /\ req.archq = "-"
             /\ \E k \in 1..Len(ConfigsOf(req)) : Matches(req.path, ConfigsOf(req)[k].scope)
             /\ ~\E i \in TheDir : Pool[i].id \in Sites[req.site].index
NeverAnErrorPage ==
    st.pc = "done" /\ Browsable =>
        IF req.limitq # "-" /\ ~AtoiTab[req.limitq].ok THEN st.kind = "status" /\ st.status = 400
        ELSE st.kind = "listing" /\ st.status = 200
\* browse answers only GET and HEAD, only directories, only without an index page, only inside a scope
AnswersOnlyWhenDue ==
    st.pc = "done" /\ st.kind \in {"listing", "archive", "redirect"} =>
        /\ req.method \in {"GET", "HEAD"} /\ IsDirPath(req.path.segs)
        /\ \E k \in 1..Len(ConfigsOf(req)) : Matches(req.path, ConfigsOf(req)[k].scope)
        /\ st.kind # "redirect" => ~\E i \in TheDir : req.path.segs = CaseSegs /\ Pool[i].id \in Sites[req.site].index
\* the two renderings show the same items in the same order; HEAD is GET without the body
Same(a, b) == /\ a.kind = b.kind /\ a.status = b.status /\ a.groups = b.groups /\ a.shown = b.shown /\ a.limited = b.limited
              /\ a.setsort = b.setsort /\ a.setorder = b.setorder /\ a.up = b.up /\ a.ndirs = b.ndirs /\ a.nfiles = b.nfiles
JsonEqualsHtml == st.pc = "done" => Same(st, Run(dir, [req EXCEPT !.accept = IF req.accept \in AcceptJson THEN "html" ELSE "json"]))
HeadEqualsGet  == st.pc = "done" /\ req.method \in {"GET", "HEAD"} =>
                      LET o == Run(dir, [req EXCEPT !.method = IF req.method = "GET" THEN "HEAD" ELSE "GET"])
                      IN  Same(st, o) /\ o.fmt = st.fmt
\* the parent link is offered only where following it stays inside a browse scope of the site
UpLinkWithinScope ==
    st.pc = "done" /\ st.kind = "listing" /\ st.up =>
        /\ req.path.segs # <<>>
        /\ \E k \in 1..Len(ConfigsOf(req)) : Matches(P(ParentOf(req.path).segs, TRUE), ConfigsOf(req)[k].scope)
\* archives (and the links to them) only where servearchive is configured, and only of a configured type
ArchiveOnlyIfConfigured == st.pc = "done" /\ st.kind = "archive" => req.archq \in Rng(ConfigsOf(req)[st.cfg].arch)
\* the action system and the functional form used for the emitted expectations agree
RunAgrees == st.pc = "done" => st = Run(dir, req)
Terminates == (st.pc \notin {"build", "done"}) ~> (st.pc = "done")

-----------------------------------------------------------------------------
(* 9. emission for the replay: the pool, the parent-link table, and per sampled directory PerDir sampled requests with
      the complete expected outcome *)

SeedNum == LET sd == TLCGet("config").seed
               T == << "1", "2", "3", "4", "5", "6", "7", "8", "9", "10", "11", "12", "13", "14", "15", "16" >>
               hit == {k \in 1..Len(T) : T[k] = sd}
           IN  IF hit = {} THEN 0 ELSE CHOOSE k \in hit : TRUE
RateQuick == <<1, 1, 8, 200, 2000>>        \* values for SampleRate (a cfg file cannot write a tuple)
RateThorough == <<1, 1, 1, 8, 40>>
Modulus == 65521
Mix(x) == (x * 25173 + 13849) % Modulus
RECURSIVE HashDir(_, _)
HashDir(d, k) == IF k > Len(d) THEN 17 ELSE (HashDir(d, k + 1) * 131 + d[k] * 2477 + k * 71) % Modulus
Sampled(d) == Len(d) = 0 \/ (Mix(HashDir(d, 1)) + 31 * SeedNum) % SampleRate[Len(d)] = 0
ReqHash(d, k, j) == Mix(Mix(Mix(HashDir(d, 1) + 7 * k + 3 * SeedNum) + 131 * j) + k)
Pick(seq, d, k, j) == seq[(ReqHash(d, k, j) % Len(seq)) + 1]

\* the sampled request space (weights by repetition); every limit value of AtoiTab, every Accept shape
MethodSeq  == <<"GET", "GET", "GET", "GET", "GET", "GET", "GET", "GET", "GET", "GET", "GET", "GET", "HEAD", "HEAD", "HEAD",
                "POST", "OPTIONS", "PROPFIND", "DELETE">>
PathSeq    == <<CasePath, CasePath, CasePath, CasePath, CasePath, CasePath, CasePath, CasePath, P(CaseSegs, FALSE),
                P(<<"cases", "c", "nope">>, FALSE)>>
SortQSeq   == <<"-", "-", "name", "namedirfirst", "size", "time", "bogus", "NAME">>
OrderQSeq  == <<"-", "-", "asc", "desc", "desc", "bogus", "DESC">>
LimitQSeq  == <<"-", "-", "-", "-", "0", "-1", "1", "2", "3", "5", "6", "+2", "abc", "99999999999999999999", "2x">>
SortCkSeq  == <<"-", "-", "-", "size", "time", "name", "bogus">>
OrderCkSeq == <<"-", "-", "-", "desc", "asc", "bogus">>
AcceptSeq  == <<"-", "html", "json", "json", "JSON", "mixed", "twolines", "star">>
ArchQSeq   == <<"-", "-", "-", "-", "-", "-", "-", "-", "zip", "tar.gz", "rar">>
SampledReq(d, k) ==
    Req((ReqHash(d, k, 1) % NSites) + 1, Pick(PathSeq, d, k, 2), Pick(MethodSeq, d, k, 3),
        [sortq |-> Pick(SortQSeq, d, k, 4), orderq |-> Pick(OrderQSeq, d, k, 5), limitq |-> Pick(LimitQSeq, d, k, 6),
         sortck |-> Pick(SortCkSeq, d, k, 7), orderck |-> Pick(OrderCkSeq, d, k, 8), accept |-> Pick(AcceptSeq, d, k, 9),
         archq |-> Pick(ArchQSeq, d, k, 10)])

Ids(S) == SetToSeq({Pool[i].id : i \in S})
Outcome(d, rq) ==
    LET o == Run(d, rq)
        bc == IF o.cfg = 0 THEN Cfg(P(<<>>, TRUE), "", "-", <<>>) ELSE ConfigsOf(rq)[o.cfg]
    IN  [kind |-> o.kind, status |-> o.status, fmt |-> o.fmt, opaque |-> o.opaque,
         groups |-> [g \in 1..Len(o.groups) |-> Ids(o.groups[g])], shown |-> o.shown, limited |-> o.limited,
         ndirs |-> o.ndirs, nfiles |-> o.nfiles, up |-> o.up, sort |-> o.sort, order |-> o.order,
         setsort |-> o.setsort, setorder |-> o.setorder, cpath |-> bc.text]    \* cpath names the config (its archive types are in the head)
ReqJson(rq) == [site |-> Sites[rq.site].name, segs |-> rq.path.segs, slash |-> rq.path.slash, method |-> rq.method,
                sortq |-> rq.sortq, orderq |-> rq.orderq, limitq |-> rq.limitq, sortck |-> rq.sortck, orderck |-> rq.orderck,
                accept |-> rq.accept, archq |-> rq.archq]
EmitDir(d) ==
    PrintT(<<"CASE", ToJson([t |-> "dir", ents |-> [k \in 1..Len(d) |-> Pool[d[k]].id],
                             reqs |-> [k \in 1..PerDir |-> [rq |-> ReqJson(SampledReq(d, k)), exp |-> Outcome(d, SampledReq(d, k))]]])>>)
UpPathSeq == SetToSeq(UpPaths)
EmitHead(d) ==
    /\ PrintT(<<"CASE", ToJson([t |-> "pool",
                 pool |-> [i \in 1..NPool |-> [id |-> Pool[i].id, kind |-> Pool[i].kind, name |-> Pool[i].name, size |-> Pool[i].size,
                                               mt |-> Pool[i].mt, lr |-> Pool[i].lr, isdir |-> IsDirE(Pool[i]), islink |-> IsLink(Pool[i]),
                                               hidden |-> IsHiddenE(Pool[i]), follows |-> Follows(Pool[i]), utf8 |-> IsUtf8(Pool[i]),
                                               url |-> UrlOf(Pool[i]), href |-> HrefOf(Pool[i]), label |-> LabelOf(Pool[i])]],
                 atoi |-> [s \in DOMAIN AtoiTab |-> [ok |-> AtoiTab[s].ok, n |-> AtoiTab[s].n]],
                 acceptjson |-> SetToSeq(AcceptJson),
                 sites |-> [k \in 1..NSites |-> [name |-> Sites[k].name, index |-> SetToSeq(Sites[k].index),
                                                 configs |-> [c \in 1..Len(Sites[k].configs) |->
                                                     [text |-> Sites[k].configs[c].text, tpl |-> Sites[k].configs[c].tpl,
                                                      arch |-> Sites[k].configs[c].arch]]]]])>>)
    /\ PrintT(<<"CASE", ToJson([t |-> "up",
                 reqs |-> [k \in 1..(NSites * Len(UpPathSeq)) |->
                    LET site == ((k - 1) % NSites) + 1
                        path == UpPathSeq[((k - 1) \div NSites) + 1]
                        rq == Req(site, path, "GET", PlainParams)
                    IN  [rq |-> ReqJson(rq), exp |-> Outcome(d, rq)]]])>>)
Emit == (st.pc = "build" /\ Sampled(dir)) => (IF dir = <<>> THEN EmitHead(dir) /\ EmitDir(dir) ELSE EmitDir(dir))
=============================================================================
