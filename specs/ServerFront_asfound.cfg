\* the design as found (the three repairs off; not run by ./check): TLC refutes SanitisedHostEqualsMatchKey and
\* HostDecidesSite (FIX_KEY), ScopeTrimConsistent (FIX_TRIM), StrictSNIHolds (FIX_SNICLOSE) - see notes/ServerFront.md
CONSTANTS
  EMIT = FALSE
  FIX_KEY = FALSE
  FIX_TRIM = FALSE
  FIX_SNICLOSE = FALSE
  Methods = {"GET", "POST"}
  Versions = {"1.1", "1.0"}
  OriginPaths = {"/", "/x", "/base", "/base/x", "/basex", "//base/x", "/b%61se/x", "/base//e"}
  OriginHosts = {"a.test", "A.TEST", "a.test:{port}", "a.test.", "b.w.test", "w.test", "other.test", "[::1]", "[::1]:{port}", "", "a.test/base"}
  AbsHosts = {"a.test", "A.Test:99", "b.w.test", "other.test", "[::1]:{port}", "a.test."}
  AbsPaths = {"", "/base/x", "/b%61se/x"}
SPECIFICATION Spec
INVARIANT TypeOK
INVARIANT ExactlyOneAnswer
INVARIANT HostDecidesSite
INVARIANT SanitisedHostEqualsMatchKey
INVARIANT FallbackBodyIffNothingWritten
INVARIANT NoSuchSiteIs404WithoutSiteLeak
INVARIANT ScopeTrimConsistent
INVARIANT HijackedMeansSilent
INVARIANT StrictSNIHolds
INVARIANT ServerHeaderOnOwnAnswers
PROPERTY Completes
CHECK_DEADLOCK FALSE
