CONSTANTS
  MaxLen <- MaxLenQuick
  Modes <- ModesQuick
SPECIFICATION Spec
INVARIANT TypeOK
INVARIANT Bounded
INVARIANT LinkCountSane
INVARIANT BasesConsistent
INVARIANT Emit
CHECK_DEADLOCK FALSE
