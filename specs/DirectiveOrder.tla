--------------------------- MODULE DirectiveOrder ---------------------------
(***************************************************************************)
(* C09 - the directives of a server block act in the fixed documented      *)
(* order, not in the order in which they are written.                      *)
(*                                                                         *)
(* Operational part (shaped like the code):                                *)
(*   PlaceLine      the author writes the lines of a block in some order   *)
(*   ParseLine      casketfile/parse.go:directive  - the tokens of a line  *)
(*                  are appended to sb.Tokens[dir], whatever the position  *)
(*   ExecDirective  casket.go:executeDirectives - ONE iteration of the     *)
(*                  outer loop over the directive list; the setup function *)
(*                  of the directive runs once over all its lines, reads   *)
(*                  the site configuration as it is at that moment (root,  *)
(*                  index pages are captured by value) and appends one     *)
(*                  middleware (siteconfig.go:AddMiddleware)               *)
(*   CompileStep    httpserver/server.go:NewServer - one iteration of      *)
(*                  "for i := len(mw)-1; i >= 0; i-- { stack = mw[i](stack)}"*)
(* Declarative part: ExpectedStack / PermutationInvariant / PairOrder.     *)
(* Request semantics: Serve, a recursive evaluation of the compiled stack  *)
(* on an abstract request; it predicts what the real server must answer    *)
(* (status, body token, a few headers, access-log lines, backend hits).    *)
(*                                                                         *)
(* The text of every pool line lives in harness/c09/c09_test.go (lineText);*)
(* the fixture site is described at the tables below.                      *)
(***************************************************************************)
EXTENDS Naturals, Sequences, FiniteSets, TLC, Json

CONSTANTS MaxLines,     \* pool lines per block (the root line is always there)
          SampleAbove,  \* blocks are enumerated completely up to this many pool lines; a longer block
          SampleOneIn,  \* is kept only if a hash of its lines and of the seed (tlc -seed) is 0 mod SampleOneIn
          PoolSel,      \* "main" = the 24-line pool; "twins" = a smaller pool with more same-directive lines
          ExecMode,     \* "canon" = the code; "file" = mutant: directives executed in file order
          CompileMode   \* "outerfirst" = the code; "reversed" = mutant: stack compiled the other way

\* ---- the documented order of the standard http directives ------------------
\* (httpserver/plugin.go:directives restricted to the plugins of caskethttp; the
\*  harness asserts that the registered list, so restricted, equals this constant;
\*  "startup"/"shutdown" are in the list but have no plugin in this fork)
Canon == << "root", "index", "bind", "limits", "timeouts", "tls", "on",
            "request_id", "log", "tryfiles", "rewrite", "ext", "gzip", "header", "errors",
            "basicauth", "redir", "status", "mime", "internal", "pprof", "expvar", "push",
            "templates", "proxy", "fastcgi", "websocket", "markdown", "browse" >>

DirIdx(d) == CHOOSE k \in 1..Len(Canon) : Canon[k] = d

\* ---- the pool of lines ------------------------------------------------------
\* id :> directive.  Same-directive lines: lg1/lg2, rw1/rw2, hd1/hd2, px1/px2.
LineDir == [ root |-> "root",  idx  |-> "index", idx2 |-> "index", tf2 |-> "tryfiles", rd2 |-> "redir",
             lg1  |-> "log",   lg2  |-> "log",   tf |-> "tryfiles",
             rw1  |-> "rewrite", rw2 |-> "rewrite",
             ext  |-> "ext",   gz   |-> "gzip",
             hd1  |-> "header", hd2 |-> "header", hd3 |-> "header",
             err  |-> "errors", auth |-> "basicauth", rd |-> "redir", st |-> "status",
             mime |-> "mime",  int  |-> "internal", pp |-> "pprof", ev |-> "expvar", tpl |-> "templates",
             px1  |-> "proxy", px2  |-> "proxy", md |-> "markdown", br |-> "browse",
             errdefault |-> "errors" ]
\* errdefault is not a line of the pool: it is the bare "errors" token that
\* httpserver/plugin.go:InspectServerBlocks adds to a block that has gzip but no errors line
MainPool == DOMAIN LineDir \ {"root", "errdefault", "idx2", "tf2", "rd2"}
TwinPool == {"idx", "idx2", "lg1", "lg2", "tf", "tf2", "rw1", "rw2", "hd1", "hd2", "hd3", "rd", "rd2",
             "ext", "gz", "auth", "tpl", "br"}
PoolIds == IF PoolSel = "twins" THEN TwinPool ELSE MainPool
Dir(l) == LineDir[l]

\*  root  root L                      idx   index idx.html
\*  lg1   log / ACCESS "L1 ..."       lg2   log /old ACCESS "L2 ..."     (first matching rule logs)
\*  rw1   rewrite ^/old$ /secret/s.html     rw2   rewrite ^/old$ /pub/a        (first matching rule wins)
\*  ext   ext .html                   gz    gzip
\*  hd1   header / X-H one            hd2   header /secret X-H two       (later rule overwrites)
\*  err   errors ERRLOG { * err.html }
\*  auth  basicauth /secret u p       rd    redir 302 { if {rewrite_path} starts_with /secret ; / /landed }
\*  st    status 410 /secret          mime  mime .html text/x-verif      int   internal /secret
\*  tpl   templates / .html           px1   proxy /secret/api LIVE       px2   proxy /api DEAD
\*  md    markdown /                  br    browse /
\*  tf    tryfiles {path} /pub/a.html ev    expvar /secret/vars          pp    pprof
\*  idx2  index f.txt                 (index lines add up, in file order)
\*  tf2   tryfiles {path} /index.html (the last tryfiles line wins)
\*  rd2   redir 302 { if {rewrite_path} starts_with /secret/s ; / /landed2 }   (first matching rule wins)
\*  hd3   header / { -Vary ; +X-H plus }   (-Name deletes the header now and again when the handlers
\*                                          below write; +Name appends a value; same pattern as hd1)
LogScope == [lg1 |-> "/", lg2 |-> "/old"]
LogTag   == [lg1 |-> "L1", lg2 |-> "L2"]
RwTarget == [rw1 |-> "/secret/s.html", rw2 |-> "/pub/a"]
HdrScope == [hd1 |-> "/", hd2 |-> "/secret", hd3 |-> "/"]
HdrVal   == [hd1 |-> "one", hd2 |-> "two", hd3 |-> "plus"]
IdxArg   == [idx |-> "idx.html", idx2 |-> "f.txt"]
TfTarget == [tf |-> "/pub/a.html", tf2 |-> "/index.html"]
RdScope  == [rd |-> "/secret", rd2 |-> "/secret/s"]
RdTo     == [rd |-> "/landed", rd2 |-> "/landed2"]
PxFrom   == [px1 |-> "/secret/api", px2 |-> "/api"]
PxLive   == [px1 |-> TRUE, px2 |-> FALSE]

\* ---- the fixture site (root L) ------------------------------------------------
\* regular files :> body token
FileBody == [ p \in {"/index.html", "/err.html", "/pub/a.html", "/pub/doc.md", "/pub/dir/f.txt", "/pub/dir/idx.html",
                     "/secret/s.html", "/secret/doc.md", "/secret/idx.html"} |->
              CASE p = "/index.html"     -> "ROOT-INDEX"
                [] p = "/err.html"       -> "CUSTOM-ERR"
                [] p = "/pub/a.html"     -> "PUB-A"
                [] p = "/pub/doc.md"     -> "PUB-DOC"
                [] p = "/pub/dir/f.txt"  -> "PUB-F"
                [] p = "/pub/dir/idx.html" -> "PUBDIR-IDX"
                [] p = "/secret/s.html"  -> "SECRET-S"
                [] p = "/secret/doc.md"  -> "SECRET-DOC"
                [] p = "/secret/idx.html" -> "SECRET-IDX" ]
Files == DOMAIN FileBody
Dirs  == {"/", "/pub/", "/pub/dir/", "/secret/"}
\* bodies that contain a template action ("...[{{.Method}}]")
TplBodies == {"PUB-A", "SECRET-S"}
MdBody == [ p \in {"/pub/doc.md", "/secret/doc.md"} |-> IF p = "/pub/doc.md" THEN "MD-PUB-DOC" ELSE "MD-SECRET-DOC" ]
\* <<directory, index page>> :> file
IdxPath == (<<"/", "index.html">> :> "/index.html") @@ (<<"/secret/", "idx.html">> :> "/secret/idx.html")
           @@ (<<"/pub/dir/", "idx.html">> :> "/pub/dir/idx.html") @@ (<<"/pub/dir/", "f.txt">> :> "/pub/dir/f.txt")
DefaultIndex == << "index.html", "index.htm", "index.txt", "default.html", "default.htm", "default.txt" >>

\* request paths of the battery (and the paths rewrite/ext can produce)
Paths == {"/", "/old", "/pub/a", "/pub/a.html", "/pub/doc.md", "/pub/dir/", "/pub/nofile",
          "/secret/s.html", "/secret/s", "/secret/doc.md", "/secret/", "/secret/api/x",
          "/secret/nofile.md", "/secret/vars", "/api/x", "/debug/pprof/cmdline"}
ScopeMembers == [ s \in {"/old", "/secret", "/secret/s", "/secret/api", "/secret/vars", "/api", "/debug/pprof"} |->
                  CASE s = "/old"        -> {"/old"}
                    [] s = "/secret"     -> {"/secret/s.html", "/secret/s", "/secret/doc.md", "/secret/",
                                             "/secret/api/x", "/secret/nofile.md", "/secret/vars"}
                    [] s = "/secret/vars" -> {"/secret/vars"}
                    [] s = "/secret/s"   -> {"/secret/s.html", "/secret/s"}
                    [] s = "/secret/api" -> {"/secret/api/x"}
                    [] s = "/api"        -> {"/api/x"}
                    [] s = "/debug/pprof" -> {"/debug/pprof/cmdline"} ]
\* httpserver.Path.Matches(scope): byte prefix (the chosen names make it a segment prefix)
Under(p, s) == s = "/" \/ p \in ScopeMembers[s]
Ext(p) == CASE p \in {"/pub/a.html", "/secret/s.html"} -> ".html"
            [] p \in {"/pub/doc.md", "/secret/doc.md", "/secret/nofile.md"} -> ".md"
            [] OTHER -> ""
\* extensions/ext.go: path without trailing slash that does not exist, but path+".html" does
PlusHtml == [ p \in {"/pub/a", "/secret/s"} |-> IF p = "/pub/a" THEN "/pub/a.html" ELSE "/secret/s.html" ]

\* p = r.URL.Path (rewritten on the way down), orig = the path as requested ({path} placeholder)
Req(p, c, g) == [p |-> p, orig |-> p, creds |-> c, gz |-> g, m |-> "GET"]
Opt(p) == [p |-> p, orig |-> p, creds |-> FALSE, gz |-> FALSE, m |-> "OPTIONS"]
Battery == << Req("/", FALSE, FALSE), Req("/old", FALSE, FALSE), Req("/old", TRUE, FALSE), Req("/old", TRUE, TRUE),
              Req("/pub/a", FALSE, FALSE), Req("/pub/a.html", FALSE, FALSE), Req("/pub/a.html", FALSE, TRUE),
              Req("/pub/doc.md", FALSE, FALSE), Req("/pub/doc.md", FALSE, TRUE),
              Req("/pub/dir/", FALSE, FALSE), Req("/pub/dir/", FALSE, TRUE),
              Req("/pub/nofile", FALSE, FALSE), Req("/pub/nofile", FALSE, TRUE),
              Req("/secret/s.html", FALSE, FALSE), Req("/secret/s.html", TRUE, FALSE), Req("/secret/s.html", TRUE, TRUE),
              Req("/secret/s", FALSE, FALSE), Req("/secret/s", TRUE, FALSE),
              Req("/secret/doc.md", FALSE, FALSE), Req("/secret/doc.md", TRUE, FALSE),
              Req("/secret/", FALSE, FALSE), Req("/secret/", TRUE, FALSE),
              Req("/secret/api/x", FALSE, FALSE), Req("/secret/api/x", TRUE, FALSE), Req("/secret/api/x", TRUE, TRUE),
              Req("/secret/nofile.md", TRUE, FALSE), Req("/secret/nofile.md", FALSE, FALSE),
              Req("/secret/vars", FALSE, FALSE), Req("/secret/vars", TRUE, FALSE),
              Req("/api/x", FALSE, FALSE), Req("/api/x", FALSE, TRUE),
              Opt("/pub/dir/"), Opt("/secret/s.html"),
              Req("/debug/pprof/cmdline", FALSE, FALSE), Req("/debug/pprof/cmdline", FALSE, TRUE) >>

\* ============================ request semantics =============================
\* a site as compiled: mw = the middleware stack, outermost first; root/idx = the final
\* configuration the static file server is built from (NewServer reads site.Root/IndexPages)
\* a middleware: [d |-> directive, ls |-> its lines in file order, root, idx |-> configuration
\* captured by value when its setup function ran]

\* abstract response writer: st = 0 until the status line is written
W0 == [st |-> 0, body |-> "", ct |-> "", xh |-> << >>, loc |-> "", auth |-> FALSE, enc |-> FALSE, tpl |-> FALSE,
       vary |-> FALSE]
IO0 == [logs |-> << >>, hits |-> << >>]
R(ret, err, w, io) == [ret |-> ret, err |-> err, w |-> w, io |-> io]

\* httpserver.DefaultErrorFunc / WriteTextResponse
WErr(w, code) == [w EXCEPT !.st = code, !.body = "plain", !.ct = "text/plain"]

IndexFile(dir, pages) ==
    LET hit == {k \in 1..Len(pages) : <<dir, pages[k]>> \in DOMAIN IdxPath}
    IN  IF hit = {} THEN "" ELSE IdxPath[<<dir, pages[CHOOSE k \in hit : \A j \in hit : k <= j]>>]

\* content type set by http.ServeContent from the file extension ("any": not compared,
\* depends on the machine's mime table)
TypeOf(f) == IF f \in {"/index.html", "/err.html", "/pub/a.html", "/secret/s.html", "/secret/idx.html", "/pub/dir/idx.html"}
             THEN "text/html" ELSE "any"

ServeFile(f, w, io) ==
    R(200, FALSE, [w EXCEPT !.st = 200, !.body = FileBody[f],
                            !.ct = IF w.ct # "" THEN w.ct ELSE TypeOf(f)], io)

\* staticfiles.FileServer (innermost)
FileServer(site, r, w, io) ==
    IF r.m # "GET" THEN R(405, FALSE, w, io)
    ELSE IF site.root # "L" THEN R(404, FALSE, w, io)
    ELSE IF r.p \in Dirs
         THEN LET f == IndexFile(r.p, site.idx)
              IN  IF f = "" THEN R(404, FALSE, w, io) ELSE ServeFile(f, w, io)
         ELSE IF r.p \in Files THEN ServeFile(r.p, w, io) ELSE R(404, FALSE, w, io)

FirstMatch(ls, P(_)) ==
    LET hit == {k \in 1..Len(ls) : P(ls[k])}
    IN  IF hit = {} THEN "" ELSE ls[CHOOSE k \in hit : \A j \in hit : k <= j]

\* header/setup.go:headersParse merges lines with the same path pattern into ONE rule, placed
\* where the pattern appeared first: the rules act in the order of first appearance of their
\* pattern, lines of one pattern in file order (X-H is a sequence of values: Set replaces it, Add
\* appends; the operations of one rule must act in the order written - header.go used to range
\* over a map here, which made "X-H one" + "+X-H plus" answer "one" or "one,plus" at random)
HdrRules(ls) ==
    LET first(k) == CHOOSE j \in 1..Len(ls) : /\ HdrScope[ls[j]] = HdrScope[ls[k]]
                                               /\ \A i \in 1..(j - 1) : HdrScope[ls[i]] # HdrScope[ls[k]]
        less(j, k) == first(j) < first(k) \/ (first(j) = first(k) /\ j < k)
        rank(k) == Cardinality({j \in 1..Len(ls) : less(j, k)}) + 1
    IN  [n \in 1..Len(ls) |-> ls[CHOOSE k \in 1..Len(ls) : rank(k) = n]]
RECURSIVE FoldHdr(_, _, _, _)
FoldHdr(ls, k, p, xh) ==
    IF k > Len(ls) THEN xh
    ELSE FoldHdr(ls, k + 1, p, IF ~Under(p, HdrScope[ls[k]]) THEN xh
                               ELSE IF ls[k] = "hd3" THEN Append(xh, HdrVal[ls[k]])    \* +X-H: Header.Add
                               ELSE << HdrVal[ls[k]] >>)                               \*  X-H: Header.Set

RECURSIVE Serve(_, _, _, _, _)
Serve(site, i, r, w, io) ==
    IF i > Len(site.mw) THEN FileServer(site, r, w, io)
    ELSE
    LET m == site.mw[i]
        Next(r2, w2, io2) == Serve(site, i + 1, r2, w2, io2)
    IN
    CASE m.d = "log" ->
           \* log.go: the first rule whose scope matches the path as it is NOW; an error status
           \* that nobody handled is written here (through the recorder) and the line is printed
           LET hit == FirstMatch(m.ls, LAMBDA l : Under(r.p, LogScope[l]))
           IN  IF hit = "" THEN Next(r, w, io)
               ELSE LET res == Next(r, w, io)
                        w2  == IF res.ret >= 400 THEN WErr(res.w, res.ret) ELSE res.w
                    IN  R(IF res.ret >= 400 THEN 0 ELSE res.ret, res.err, w2,
                          [res.io EXCEPT !.logs = Append(@, <<LogTag[hit], w2.st>>)])
      [] m.d = "tryfiles" ->
           \* tryfiles.go / rewrite.To: the first candidate that is a file (a directory when it ends
           \* in "/"), else the last one; {path} is the path AS REQUESTED
           \* (the last tryfiles line overwrites the candidates of the earlier ones)
           Next([r EXCEPT !.p = IF m.root = "L" /\ (r.orig \in Files \/ r.orig \in Dirs) THEN r.orig
                                ELSE TfTarget[m.ls[Len(m.ls)]]], w, io)
      [] m.d = "rewrite" ->
           LET hit == FirstMatch(m.ls, LAMBDA l : r.p = "/old")
           IN  Next(IF hit = "" THEN r ELSE [r EXCEPT !.p = RwTarget[hit]], w, io)
      [] m.d = "ext" ->
           Next(IF m.root = "L" /\ r.p \in DOMAIN PlusHtml THEN [r EXCEPT !.p = PlusHtml[r.p]] ELSE r, w, io)
      [] m.d = "gzip" ->
           \* gzip.go: everything written below is compressed; an unhandled error status is
           \* written by gzip itself on the raw writer (not compressed)
           IF ~r.gz THEN Next(r, w, io)
           ELSE LET res == Next(r, w, io)
                    \* gzipResponseWriter.WriteHeader: Content-Encoding, Vary: Accept-Encoding
                    w1  == IF res.w.st # 0 /\ w.st = 0 THEN [res.w EXCEPT !.enc = TRUE, !.vary = TRUE] ELSE res.w
                IN  IF res.ret >= 400 THEN R(0, res.err, WErr(w1, res.ret), res.io)
                    ELSE R(res.ret, res.err, w1, res.io)
      [] m.d = "header" ->
           \* header.go: "-Name" deletes the header now and once more when the handlers below
           \* write the status line (what wrappers further out add afterwards stays)
           LET del == \E k \in 1..Len(m.ls) : m.ls[k] = "hd3"
               res == Next(r, [w EXCEPT !.xh = FoldHdr(HdrRules(m.ls), 1, r.p, w.xh), !.vary = IF del THEN FALSE ELSE w.vary], io)
           IN  IF del /\ res.w.st # 0 /\ w.st = 0 THEN [res EXCEPT !.w.vary = FALSE] ELSE res
      [] m.d = "errors" ->
           LET res == Next(r, w, io)
           IN  IF res.ret >= 400
               THEN R(0, res.err,
                      IF m.root = "L" /\ m.ls[1] = "err"
                      THEN [res.w EXCEPT !.st = res.ret, !.body = "CUSTOM-ERR", !.ct = "text/html"]
                      ELSE WErr(res.w, res.ret), res.io)
               ELSE res
      [] m.d = "basicauth" ->
           IF Under(r.p, "/secret") /\ ~r.creds /\ r.m # "OPTIONS" THEN R(401, TRUE, [w EXCEPT !.auth = TRUE], io)
           ELSE Next(r, w, io)
      [] m.d = "redir" ->
           LET hit == FirstMatch(m.ls, LAMBDA l : Under(r.p, RdScope[l])) IN
           IF hit # ""
           THEN \* http.Redirect: body and Content-Type only for GET/HEAD
                R(0, FALSE, [w EXCEPT !.st = 302, !.loc = RdTo[hit], !.body = IF r.m = "GET" THEN "REDIR" ELSE "",
                                      !.ct = IF w.ct = "" /\ r.m = "GET" THEN "text/html" ELSE w.ct], io)
           ELSE Next(r, w, io)
      [] m.d = "status" ->
           IF Under(r.p, "/secret") THEN R(410, FALSE, w, io) ELSE Next(r, w, io)
      [] m.d = "mime" ->
           Next(r, IF Ext(r.p) = ".html" THEN [w EXCEPT !.ct = "text/x-verif"] ELSE w, io)
      [] m.d = "internal" ->
           IF Under(r.p, "/secret") THEN R(404, FALSE, w, io) ELSE Next(r, w, io)
      [] m.d = "pprof" ->
           IF Under(r.p, "/debug/pprof")
           THEN R(0, FALSE, [w EXCEPT !.st = 200, !.body = "CMDLINE", !.ct = "text/plain"], io)
           ELSE Next(r, w, io)
      [] m.d = "expvar" ->
           IF Under(r.p, "/secret/vars")
           THEN R(0, FALSE, [w EXCEPT !.st = 200, !.body = "EXPVAR", !.ct = "other"], io)
           ELSE Next(r, w, io)
      [] m.d = "templates" ->
           \* templates.go: the handlers below write into a ResponseBuffer with a FRESH header
           \* map; the body is buffered (and executed as a template) when the request path ends
           \* in .html, or has no extension and the inner Content-Type is text/html
           LET res    == Next(r, [w EXCEPT !.ct = "", !.xh = << >>, !.loc = "", !.auth = FALSE, !.vary = FALSE], io)
               wrote  == res.w.st # 0
               buf    == Ext(r.p) = ".html" \/ (Ext(r.p) = "" /\ res.w.ct = "text/html")
               \* ResponseBuffer.CopyHeader: what was set below overrides what was set above
               merged == [res.w EXCEPT !.ct = IF res.w.ct # "" THEN res.w.ct ELSE w.ct,
                                       !.xh = IF res.w.xh # << >> THEN res.w.xh ELSE w.xh,
                                       !.loc = IF res.w.loc # "" THEN res.w.loc ELSE w.loc,
                                       !.auth = res.w.auth \/ w.auth, !.vary = res.w.vary \/ w.vary]
           IN  IF ~wrote THEN R(res.ret, res.err, w, res.io)                 \* headers set below are dropped
               ELSE IF ~buf THEN R(res.ret, res.err, merged, res.io)         \* streamed through
               ELSE IF res.ret >= 300 \/ res.err THEN R(res.ret, res.err, w, res.io)
               ELSE R(0, FALSE, [merged EXCEPT !.tpl = (merged.body \in TplBodies),
                                               !.body = IF merged.enc THEN "GARBLED" ELSE merged.body], res.io)
      [] m.d = "proxy" ->
           \* longest matching "from"
           LET hit == {k \in 1..Len(m.ls) : Under(r.p, PxFrom[m.ls[k]])}
           IN  IF hit = {} THEN Next(r, w, io)
               ELSE LET l == m.ls[CHOOSE k \in hit : \A j \in hit : k <= j]   \* scopes are disjoint
                    IN  IF PxLive[l]
                        THEN R(0, FALSE, [w EXCEPT !.st = 200, !.body = "PROXIED", !.ct = "text/plain"],
                               [io EXCEPT !.hits = Append(@, r.p)])
                        ELSE R(502, TRUE, w, io)
      [] m.d = "markdown" ->
           IF r.m # "GET" THEN R(405, FALSE, w, io)        \* scope "/" matches every path
           ELSE IF Ext(r.p) # ".md" THEN Next(r, w, io)
           ELSE IF m.root = "L" /\ r.p \in DOMAIN MdBody
                THEN R(200, FALSE, [w EXCEPT !.st = 200, !.body = MdBody[r.p], !.ct = "text/html"], io)
                ELSE R(404, FALSE, w, io)
      [] m.d = "browse" ->
           IF m.root = "L" /\ r.p \in Dirs /\ r.m = "OPTIONS" THEN R(501, FALSE, w, io)
           ELSE IF m.root = "L" /\ r.p \in Dirs /\ IndexFile(r.p, m.idx) = ""
           THEN R(200, FALSE, [w EXCEPT !.st = 200, !.body = "LIST", !.ct = "text/html"], io)
           ELSE Next(r, w, io)
      [] OTHER -> Next(r, w, io)

\* httpserver.Server.ServeHTTP: fallback error response
Observe(site, rq) ==
    LET res == Serve(site, 1, rq, W0, IO0)
        w   == IF res.ret >= 400 THEN WErr(res.w, res.ret) ELSE res.w
    IN  [st |-> w.st, body |-> w.body, ct |-> w.ct, xh |-> w.xh, loc |-> w.loc, auth |-> w.auth,
         enc |-> w.enc, tpl |-> w.tpl, vary |-> w.vary, logs |-> res.io.logs, hits |-> res.io.hits]

Effect(site) == [k \in 1..Len(Battery) |-> Observe(site, Battery[k])]

\* ============================ declarative side ==============================
IsMiddleware(d) == d \notin {"root", "index"}
LinesOf(seq, d) == SelectSeq(seq, LAMBDA l : Dir(l) = d)
Has(seq, d) == LinesOf(seq, d) # << >>

\* what the documentation promises for a block, whatever the order of its lines
ExpectedRoot(b) == IF Has(b, "root") THEN "L" ELSE "."
ExpectedIdx(b)  == IF Has(b, "index") THEN [k \in 1..Len(LinesOf(b, "index")) |-> IdxArg[LinesOf(b, "index")[k]]]
                   ELSE DefaultIndex
RECURSIVE ExpectedMw(_, _)
ExpectedMw(b, k) ==
    IF k > Len(Canon) THEN << >>
    ELSE (IF IsMiddleware(Canon[k]) /\ Has(b, Canon[k])
          THEN << [d |-> Canon[k], ls |-> LinesOf(b, Canon[k]), root |-> ExpectedRoot(b), idx |-> ExpectedIdx(b)] >>
          ELSE IF Canon[k] = "errors" /\ Has(b, "gzip")     \* a gzip site always has an error handler
          THEN << [d |-> "errors", ls |-> << "errdefault" >>, root |-> ExpectedRoot(b), idx |-> ExpectedIdx(b)] >>
          ELSE << >>) \o ExpectedMw(b, k + 1)
ExpectedSite(b) == [mw |-> ExpectedMw(b, 1), root |-> ExpectedRoot(b), idx |-> ExpectedIdx(b)]

\* the reorderings the statement quantifies over
RemoveAt(s, i) == [k \in 1..(Len(s) - 1) |-> IF k < i THEN s[k] ELSE s[k + 1]]
SameDirOrder(b, p) == \A d \in {Dir(b[k]) : k \in 1..Len(b)} : LinesOf(p, d) = LinesOf(b, d)
RECURSIVE PermsOf(_)
PermsOf(s) == IF s = << >> THEN { << >> }
              ELSE UNION { { <<s[i]>> \o q : q \in PermsOf(RemoveAt(s, i)) } : i \in 1..Len(s) }
Perm(b) == { p \in PermsOf(b) : SameDirOrder(b, p) }

\* pairs the statement names (first acts before / around the second)
Content == {"pprof", "expvar", "templates", "proxy", "markdown", "browse"}
Before == { <<"rewrite", "basicauth">> }
          \cup ({"basicauth", "redir", "internal"} \X Content)
          \cup ({"log", "gzip", "header", "errors"} \X Content)
\* named pairs for which no request of the battery can tell the two orders apart in the model
\* (templates only post-processes what the handlers below it wrote: an unwritten 404 of
\*  internal, a redirect or a log line come out the same on either side of it;
\*  expvar and pprof never return an error status, so an error page cannot tell where errors
\*  sits; /debug/pprof is outside the area the fixture's basicauth/redir/internal lines cover)
Unobservable == { <<"internal", "templates">>, <<"log", "templates">>, <<"redir", "templates">>, <<"errors", "expvar">>,
                  <<"errors", "pprof">>, <<"basicauth", "pprof">>, <<"redir", "pprof">>, <<"internal", "pprof">> }
\* further pairs whose order the model can observe (documented in notes/C09.md)
MoreBefore == { <<"gzip", "header">>, <<"log", "tryfiles">>, <<"tryfiles", "basicauth">>, <<"status", "expvar">>,
                <<"log", "rewrite">>, <<"rewrite", "ext">>, <<"rewrite", "header">>, <<"rewrite", "redir">>,
                <<"gzip", "errors">>, <<"errors", "basicauth">>, <<"log", "errors">>,
                <<"basicauth", "redir">>, <<"basicauth", "status">>, <<"redir", "status">>, <<"status", "internal">>,
                <<"redir", "internal">>, <<"basicauth", "internal">>, <<"mime", "templates">>,
                <<"status", "proxy">>, <<"status", "markdown">>, <<"status", "browse">>,
                <<"ext", "mime">> }

\* ============================ operational model =============================
VARIABLES block,   \* the block as documented: root first, lines sorted by Canon (class representative)
          rest,    \* lines not yet written
          file,    \* the lines in the order they are written in the Casketfile
          pc, pi, tokens, di, cfg, mw, ci, stack
vars == <<block, rest, file, pc, pi, tokens, di, cfg, mw, ci, stack>>

NoTokens == [d \in {Canon[k] : k \in 1..Len(Canon)} |-> << >>]
Cfg0 == [root |-> ".", idx |-> DefaultIndex]

\* deterministic sampling of the long blocks (RandomElement is not reproducible with several workers)
PoolSeq == << "root", "idx", "idx2", "lg1", "lg2", "tf", "tf2", "rw1", "rw2", "ext", "gz", "hd1", "hd2", "hd3", "err", "auth",
             "rd", "rd2", "st",
             "mime", "int", "pp", "ev", "tpl", "px1", "px2", "md", "br" >>
PoolIndex(l) == CHOOSE k \in 1..Len(PoolSeq) : PoolSeq[k] = l
SeedNum == LET sd == TLCGet("config").seed
               T == << "1", "2", "3", "4", "5", "6", "7", "8", "9", "10", "11", "12", "13", "14", "15", "16" >>
               hit == {k \in 1..Len(T) : T[k] = sd}
           IN  IF hit = {} THEN 0 ELSE CHOOSE k \in hit : TRUE
RECURSIVE HashSeq(_, _)
HashSeq(b, k) == IF k > Len(b) THEN 0 ELSE ((k * 31 + 7) * PoolIndex(b[k]) + HashSeq(b, k + 1)) % 1000003
Sampled(b) == (HashSeq(b, 1) + 17 * SeedNum) % SampleOneIn = 0

Init ==
    /\ block = << "root" >>
    /\ rest = << >> /\ file = << >> /\ pc = "build" /\ pi = 1 /\ tokens = NoTokens /\ di = 1
    /\ cfg = Cfg0 /\ mw = << >> /\ ci = 0 /\ stack = << >>

\* choose the block: sequences that are non-decreasing in Canon (same-directive lines in either order)
AddLine ==
    /\ pc = "build" /\ Len(block) <= MaxLines
    /\ \E l \in PoolIds :
         /\ \A k \in 1..Len(block) : block[k] # l
         /\ DirIdx(Dir(l)) >= DirIdx(Dir(block[Len(block)]))
         /\ IF Len(block) - 1 < SampleAbove THEN TRUE ELSE Sampled(Append(block, l))
         /\ block' = Append(block, l)
    /\ UNCHANGED <<rest, file, pc, pi, tokens, di, cfg, mw, ci, stack>>

StartWriting ==
    /\ pc = "build" /\ pc' = "write" /\ rest' = block
    /\ UNCHANGED <<block, file, pi, tokens, di, cfg, mw, ci, stack>>

\* the author writes one more line: any remaining line that has no same-directive line before it
PlaceLine ==
    /\ pc = "write"
    /\ IF rest = << >> THEN pc' = "parse" /\ UNCHANGED <<rest, file>>
       ELSE /\ \E i \in 1..Len(rest) :
                 /\ \A j \in 1..(i - 1) : Dir(rest[j]) # Dir(rest[i])
                 /\ file' = Append(file, rest[i])
                 /\ rest' = RemoveAt(rest, i)
            /\ UNCHANGED pc
    /\ UNCHANGED <<block, pi, tokens, di, cfg, mw, ci, stack>>

\* parse.go:directive
ParseLine ==
    /\ pc = "parse"
    /\ IF pi > Len(file) THEN pc' = "inspect" /\ UNCHANGED <<pi, tokens>>
       ELSE /\ tokens' = [tokens EXCEPT ![Dir(file[pi])] = Append(@, file[pi])]
            /\ pi' = pi + 1 /\ UNCHANGED pc
    /\ UNCHANGED <<block, rest, file, di, cfg, mw, ci, stack>>

\* httpserver/plugin.go:InspectServerBlocks - a site with gzip gets an errors directive
InspectBlock ==
    /\ pc = "inspect" /\ pc' = "exec"
    /\ tokens' = IF tokens["gzip"] # << >> /\ tokens["errors"] = << >>
                 THEN [tokens EXCEPT !["errors"] = << "errdefault" >>] ELSE tokens
    /\ UNCHANGED <<block, rest, file, pi, di, cfg, mw, ci, stack>>

\* the order in which the outer loop of executeDirectives visits the directives
FileDirs == LET F[k \in 0..Len(file)] ==
                  IF k = 0 THEN << >>
                  ELSE IF \E j \in 1..Len(F[k-1]) : F[k-1][j] = Dir(file[k]) THEN F[k-1]
                       ELSE Append(F[k-1], Dir(file[k]))
            IN  F[Len(file)] \o (IF tokens["errors"] = << "errdefault" >> THEN << "errors" >> ELSE << >>)
ExecOrder == IF ExecMode = "canon" THEN Canon ELSE FileDirs

\* the setup function of directive d over all its lines
ExecDirective ==
    /\ pc = "exec"
    /\ IF di > Len(ExecOrder)
       THEN pc' = "compile" /\ ci' = (IF CompileMode = "outerfirst" THEN Len(mw) ELSE 1) /\ UNCHANGED <<di, cfg, mw>>
       ELSE LET d == ExecOrder[di] IN
            /\ di' = di + 1 /\ UNCHANGED <<pc, ci>>
            /\ IF tokens[d] = << >> THEN UNCHANGED <<cfg, mw>>
               ELSE CASE d = "root"  -> cfg' = [cfg EXCEPT !.root = "L"] /\ UNCHANGED mw
                      [] d = "index" -> cfg' = [cfg EXCEPT !.idx = [k \in 1..Len(tokens[d]) |-> IdxArg[tokens[d][k]]]]
                                        /\ UNCHANGED mw
                      [] OTHER -> /\ mw' = Append(mw, [d |-> d, ls |-> tokens[d], root |-> cfg.root, idx |-> cfg.idx])
                                  /\ UNCHANGED cfg
    /\ UNCHANGED <<block, rest, file, pi, tokens, stack>>

\* NewServer: stack = mw[i](stack), i.e. mw[i] is put around what is compiled so far
CompileStep ==
    /\ pc = "compile"
    /\ IF CompileMode = "outerfirst"
       THEN IF ci = 0 THEN pc' = "done" /\ UNCHANGED <<ci, stack>>
            ELSE stack' = << mw[ci] >> \o stack /\ ci' = ci - 1 /\ UNCHANGED pc
       ELSE IF ci > Len(mw) THEN pc' = "done" /\ UNCHANGED <<ci, stack>>
            ELSE stack' = << mw[ci] >> \o stack /\ ci' = ci + 1 /\ UNCHANGED pc
    /\ UNCHANGED <<block, rest, file, pi, tokens, di, cfg, mw>>

Next == AddLine \/ StartWriting \/ PlaceLine \/ ParseLine \/ InspectBlock \/ ExecDirective \/ CompileStep
Spec == Init /\ [][Next]_vars

Site == [mw |-> stack, root |-> cfg.root, idx |-> cfg.idx]

\* ---- properties ------------------------------------------------------------
\* every written order is one of the reorderings the statement talks about, and all are reached
IsPermOf(p, b) == /\ Len(p) = Len(b)
                  /\ \A k \in 1..Len(b) : \E j \in 1..Len(p) : p[j] = b[k]
                  /\ SameDirOrder(b, p)
WrittenIsPerm == (pc = "parse" /\ pi = 1) => IsPermOf(file, block)
\* the compiled site is the documented one, whatever the written order
CanonicalStack == pc = "done" => Site = ExpectedSite(block)
\* ... and therefore answers every request of the battery identically
\* (a site that IS the documented one answers like it - Effect is a function of the site -, so the
\*  answers are only computed when the compiled site differs: same property, much cheaper)
PermutationInvariant == pc = "done" => (Site = ExpectedSite(block) \/ Effect(Site) = Effect(ExpectedSite(block)))
Pos(d) == CHOOSE k \in 1..Len(stack) : stack[k].d = d
InStack(d) == \E k \in 1..Len(stack) : stack[k].d = d
PairOrder == pc = "done" => \A pr \in Before \cup MoreBefore :
                               (InStack(pr[1]) /\ InStack(pr[2])) => Pos(pr[1]) < Pos(pr[2])

\* ---- the pairwise table ------------------------------------------------------
\* for a pair <<d1,d2>>: a block with one line of each (plus at most one helper line) and a
\* request of the battery whose predicted answer changes when the two middlewares swap places
SwapMw(s, d1, d2) ==
    LET i == CHOOSE k \in 1..Len(s) : s[k].d = d1
        j == CHOOSE k \in 1..Len(s) : s[k].d = d2
    IN  [k \in 1..Len(s) |-> IF k = i THEN s[j] ELSE IF k = j THEN s[i] ELSE s[k]]
Swapped(b, d1, d2) == [ExpectedSite(b) EXCEPT !.mw = SwapMw(@, d1, d2)]
AsBlock(S) == SelectSeq(PoolSeq, LAMBDA l : l \in S \cup {"root"})
LinesFor(d) == {l \in PoolIds : Dir(l) = d}
Sensitive(b, d1, d2) == {k \in 1..Len(Battery) : Observe(ExpectedSite(b), Battery[k]) # Observe(Swapped(b, d1, d2), Battery[k])}
\* candidate blocks: the two lines alone, then with one helper line
Cand0(d1, d2) == {AsBlock({l1, l2}) : l1 \in LinesFor(d1), l2 \in LinesFor(d2)}
Adjacent(b, d1, d2) == LET s == ExpectedMw(b, 1) IN \E k \in 1..(Len(s) - 1) : s[k].d = d1 /\ s[k + 1].d = d2
Cand1(d1, d2) == {b \in {AsBlock({l1, l2, h}) : l1 \in LinesFor(d1), l2 \in LinesFor(d2),
                                               h \in {x \in PoolIds : Dir(x) \notin {d1, d2}}} : Adjacent(b, d1, d2)}
WitnessBlocks(d1, d2) ==
    LET c0 == {b \in Cand0(d1, d2) : Sensitive(b, d1, d2) # {}}
    IN  IF c0 # {} THEN c0 ELSE {b \in Cand1(d1, d2) : Sensitive(b, d1, d2) # {}}
PairRow(d1, d2) ==
    LET W == WitnessBlocks(d1, d2)
    IN  IF W = {} THEN [d1 |-> d1, d2 |-> d2, block |-> << >>, req |-> 0]
        ELSE LET b == CHOOSE b \in W : TRUE
                 k == CHOOSE k \in Sensitive(b, d1, d2) : \A j \in Sensitive(b, d1, d2) : k <= j
             IN  [d1 |-> d1, d2 |-> d2, block |-> b, req |-> k,
                  canon |-> Observe(ExpectedSite(b), Battery[k]), swapped |-> Observe(Swapped(b, d1, d2), Battery[k])]

\* ---- emission (separate cfg: NEXT AddLine, INVARIANT Emit) -----------------------
\* one CASE per block: the block, all its admissible reorderings, the predicted answers;
\* the initial state also prints the battery and the pairwise table
\* (answers as tuples, to keep the emitted text small; for blocks of 5 lines and more only
\*  the admissible reorderings whose hash is 0 mod 12 - the harness adds the reverse order)
Tup(o) == << o.st, o.body, o.ct, o.xh, o.loc, o.auth, o.enc, o.tpl, o.vary, o.logs, o.hits >>
EmitBlock == LET eff == Effect(ExpectedSite(block)) IN
             PrintT(<<"CASE", ToJson([kind |-> "block", block |-> block,
                                     perms |-> IF Len(block) <= 4 THEN Perm(block)
                                               ELSE {p \in Perm(block) : HashSeq(p, 1) % 12 = 0},
                                     exp |-> [k \in 1..Len(eff) |-> Tup(eff[k])]])>>)
EmitHead(b) ==   \* (the parameter keeps TLC from evaluating this eagerly as a constant)
    /\ PrintT(<<"CASE", ToJson([kind |-> "battery", reqs |-> Battery, canon |-> Canon])>>)
    /\ \A pr \in (IF PoolSel = "main" THEN Before \cup MoreBefore ELSE {}) :
          LET row == PairRow(pr[1], pr[2])
          IN  /\ PrintT(<<"CASE", ToJson([kind |-> "pair", named |-> (pr \in Before), row |-> row])>>)
              /\ Assert((row.req = 0) <=> (pr \in Unobservable), <<"observability of the pair changed", pr, row.req>>)
Emit == pc = "build" => (IF Len(block) = 1 THEN EmitHead(block) ELSE TRUE) /\ EmitBlock
=============================================================================
